"""C01 (output-type wrapping) / C02 / C17 unit: from a miniscript satisfaction to the (witness, scriptSig) of an input.

* `Miniscript::{satisfy, satisfy_malleable, _satisfy, build_template, build_template_mall}` (src/miniscript/mod.rs),
  `Satisfaction::{build_template, build_template_mall}` and `Satisfaction::<Vec<u8>>::{satisfy, satisfy_mall}`
  (src/miniscript/satisfy/mod.rs): `Ok(stack)` iff the satisfaction is a concrete witness; the `root_has_sig` handed to
  `sat_dissat` is the root type's `s` flag; the malleable / non-malleable mode is the one the name says.
  `sat_dissat` itself (per-node contract: unit c01_satisfier) is a stub with an uninterpreted result plus ONE trusted
  summary: every placeholder it emits names an item its provider reported available (`announced`).
* `impl Satisfier for &S` (forwarding) and, for every placeholder kind, "announced by the satisfier-as-provider  ==>
  `satisfy_self` with that satisfier succeeds" -- the content of `expect("the same satisfier should manage to complete the
  template")` (C11) and of "a plan exists iff the satisfier succeeds" (C17).
* `util::witness_to_scriptsig`: every element becomes exactly one minimal push, in order.
* `Wsh / Wpkh / Sh (all ShInner arms) / Bare / Pkh :: {get_satisfaction, get_satisfaction_mall, plan_satisfaction,
  plan_satisfaction_mall}`, `Descriptor::{get_satisfaction, get_satisfaction_mall, satisfy}`: the result is the miniscript's
  witness plus exactly the standard wrapping of the output type (oracle: BIP16 / BIP141, spec fns expected_witness /
  expected_scriptsig of unit c17_plan); errors propagate unchanged.
* `best_tap_spend`, `Tr::{get_satisfaction, get_satisfaction_mall, plan_satisfaction, plan_satisfaction_mall}`
  (src/descriptor/tr/mod.rs): key spend preferred; otherwise the cheapest satisfiable leaf, witness = leaf witness ++
  [leaf script, control block]; a failing leaf never masks a satisfiable one.
"""
import re

from vlib.verus import VerusFile, Contract, Clause, sub, lit, rule, DERIVE_TRIM, Undecided
from units import _tree
from units import c20_translate as C20
from units import c17_plan as P17
from units.c17_plan import closure, lit_ws, prologue, dkind
from units.c05_types import for_to_index_loop

NAME = "c01_wrappers"
ENGINE = "verus"
PROPS = ("C01", "C02", "C17", "C11")

SAT = P17.SAT
SD = "src/miniscript/satisfy/sat_dissat.rs"
MSMOD = "src/miniscript/mod.rs"
UTIL, DESC, SH, SEGWIT, BARE = P17.UTIL, P17.DESC, P17.SH, P17.SEGWIT, P17.BARE
TR = "src/descriptor/tr/mod.rs"

DROPPED = [
    "Satisfaction::sat_dissat (the traversal; per-node step = unit c01_satisfier) is a stub with an uninterpreted result and the trusted summary "
    "`announced`: every placeholder of the stacks it returns names an item the provider reported available (induction over the per-node leaf "
    "contracts of c01_satisfier, not mechanised)",
    "Miniscript::leaf_hash_internal (`downcast::<Tap>()` through Any + function value) is a stub with an uninterpreted result",
    "trait Satisfier / AssetProvider are stubs with uninterpreted spec lookups; the blanket impl AssetProvider for T: Satisfier is consumed through the "
    "contracts proved in unit c17_plan (spec fn definitions of the impl = those clauses)",
    "witness_to_scriptsig: `for (i, wit) in witness.iter().enumerate()` -> index loop with invariant (R8), body verbatim; `<&PushBytes>::try_from` -> stub",
    "best_tap_spend: `for leaf in spend_info.leaves()` -> index loop over the same leaves (R8), `continue` keeps advancing; `Some(wit_size) > min_wit_len` "
    "(PartialOrd on Option) -> stub opt_gt; TrSpendInfo / its iterator items are stubs (leaf miniscript, script, control block); Tr without the Mutex cache",
    "Descriptor::satisfy: bitcoin::TxIn / bitcoin::Witness are stubs (witness = list of byte strings)",
    "`.try_completing(stfr)` inside Satisfaction::<Vec<u8>>::{satisfy, satisfy_mall} and Tr::get_satisfaction{,_mall} is routed (R10) through the glue "
    "fns try_completing_checked / try_completing_checked_direct = a proof block (lemmas completable.*) followed by the call of the real try_completing; "
    "this is what discharges the `.expect(\"the same satisfier should manage to complete the template\")`",
    "Wsh / Sh plan_satisfaction_mall: for a top-level sortedmulti the non-malleable template is used by the code; stated as such (both modes coincide for multi)",
    "closures get types + ghost ensures (R10); ghost asserts before witness_to_scriptsig calls relate the Vec<Vec<u8>> to its view (R10)",
    "NOT covered: TrSpendInfo construction, Tr::spend_info cache, PSBT finalization (C14), `max_weight_to_satisfy` (k09_weights)",
]

PROVIDER = r"""
// ---- AssetProvider: every answer is an uninterpreted function of the query -------------------------------------------------
trait AssetProvider<Pk: MiniscriptKey> {
    spec fn has_ecdsa_sig(&self, pk: &Pk) -> bool;
    fn provider_lookup_ecdsa_sig(&self, pk: &Pk) -> (r: bool) ensures r == self.has_ecdsa_sig(pk);
    spec fn tap_key_spend_sig(&self, pk: &Pk) -> Option<usize>;
    fn provider_lookup_tap_key_spend_sig(&self, pk: &Pk) -> (r: Option<usize>) ensures r == self.tap_key_spend_sig(pk);
    spec fn tap_leaf_sig(&self, pk: &Pk, lh: &TapLeafHash) -> Option<usize>;
    fn provider_lookup_tap_leaf_script_sig(&self, pk: &Pk, lh: &TapLeafHash) -> (r: Option<usize>) ensures r == self.tap_leaf_sig(pk, lh);
    spec fn raw_pkh_pk(&self, h: &hash160::Hash) -> Option<bitcoin::PublicKey>;
    fn provider_lookup_raw_pkh_pk(&self, h: &hash160::Hash) -> (r: Option<bitcoin::PublicKey>) ensures r == self.raw_pkh_pk(h);
    spec fn raw_pkh_x_only_pk(&self, h: &hash160::Hash) -> Option<XOnlyPublicKey>;
    fn provider_lookup_raw_pkh_x_only_pk(&self, h: &hash160::Hash) -> (r: Option<XOnlyPublicKey>) ensures r == self.raw_pkh_x_only_pk(h);
    spec fn raw_pkh_ecdsa_sig(&self, h: &hash160::Hash) -> Option<bitcoin::PublicKey>;
    fn provider_lookup_raw_pkh_ecdsa_sig(&self, h: &hash160::Hash) -> (r: Option<bitcoin::PublicKey>) ensures r == self.raw_pkh_ecdsa_sig(h);
    spec fn raw_pkh_tap_leaf_sig(&self, h: &(hash160::Hash, TapLeafHash)) -> Option<(XOnlyPublicKey, usize)>;
    fn provider_lookup_raw_pkh_tap_leaf_script_sig(&self, h: &(hash160::Hash, TapLeafHash)) -> (r: Option<(XOnlyPublicKey, usize)>) ensures r == self.raw_pkh_tap_leaf_sig(h);
    spec fn knows_sha256(&self, h: &Pk::Sha256) -> bool;
    fn provider_lookup_sha256(&self, h: &Pk::Sha256) -> (r: bool) ensures r == self.knows_sha256(h);
    spec fn knows_hash256(&self, h: &Pk::Hash256) -> bool;
    fn provider_lookup_hash256(&self, h: &Pk::Hash256) -> (r: bool) ensures r == self.knows_hash256(h);
    spec fn knows_ripemd160(&self, h: &Pk::Ripemd160) -> bool;
    fn provider_lookup_ripemd160(&self, h: &Pk::Ripemd160) -> (r: bool) ensures r == self.knows_ripemd160(h);
    spec fn knows_hash160(&self, h: &Pk::Hash160) -> bool;
    fn provider_lookup_hash160(&self, h: &Pk::Hash160) -> (r: bool) ensures r == self.knows_hash160(h);
    spec fn older_ok(&self, t: relative::LockTime) -> bool;
    fn check_older(&self, t: relative::LockTime) -> (r: bool) ensures r == self.older_ok(t);
    spec fn after_ok(&self, t: absolute::LockTime) -> bool;
    fn check_after(&self, t: absolute::LockTime) -> (r: bool) ensures r == self.after_ok(t);
}
spec fn opt_len(o: Option<bitcoin::taproot::Signature>) -> Option<usize> { match o { Some(s) => Some(s.ser().len() as usize), None => None } }
// the blanket impl of src/plan.rs, through the clauses proved in unit c17_plan (the spec fn bodies ARE those clauses)
impl<T, Pk> AssetProvider<Pk> for T where T: Satisfier<Pk>, Pk: MiniscriptKey + ToPublicKey {
    spec fn has_ecdsa_sig(&self, pk: &Pk) -> bool { self.spec_lookup_ecdsa_sig(pk) is Some }
    #[verifier::external_body] fn provider_lookup_ecdsa_sig(&self, pk: &Pk) -> bool { unimplemented!() }
    spec fn tap_key_spend_sig(&self, pk: &Pk) -> Option<usize> { opt_len(self.spec_lookup_tap_key_spend_sig(pk)) }
    #[verifier::external_body] fn provider_lookup_tap_key_spend_sig(&self, pk: &Pk) -> Option<usize> { unimplemented!() }
    spec fn tap_leaf_sig(&self, pk: &Pk, lh: &TapLeafHash) -> Option<usize> { opt_len(self.spec_lookup_tap_leaf_script_sig(pk, lh)) }
    #[verifier::external_body] fn provider_lookup_tap_leaf_script_sig(&self, pk: &Pk, lh: &TapLeafHash) -> Option<usize> { unimplemented!() }
    spec fn raw_pkh_pk(&self, h: &hash160::Hash) -> Option<bitcoin::PublicKey> { self.spec_lookup_raw_pkh_pk(h) }
    #[verifier::external_body] fn provider_lookup_raw_pkh_pk(&self, h: &hash160::Hash) -> Option<bitcoin::PublicKey> { unimplemented!() }
    spec fn raw_pkh_x_only_pk(&self, h: &hash160::Hash) -> Option<XOnlyPublicKey> { self.spec_lookup_raw_pkh_x_only_pk(h) }
    #[verifier::external_body] fn provider_lookup_raw_pkh_x_only_pk(&self, h: &hash160::Hash) -> Option<XOnlyPublicKey> { unimplemented!() }
    spec fn raw_pkh_ecdsa_sig(&self, h: &hash160::Hash) -> Option<bitcoin::PublicKey> {
        match self.spec_lookup_raw_pkh_ecdsa_sig(h) { Some(ks) => Some(ks.0), None => None } }
    #[verifier::external_body] fn provider_lookup_raw_pkh_ecdsa_sig(&self, h: &hash160::Hash) -> Option<bitcoin::PublicKey> { unimplemented!() }
    spec fn raw_pkh_tap_leaf_sig(&self, h: &(hash160::Hash, TapLeafHash)) -> Option<(XOnlyPublicKey, usize)> {
        match self.spec_lookup_raw_pkh_tap_leaf_script_sig(h) { Some(ks) => Some((ks.0, ks.1.ser().len() as usize)), None => None } }
    #[verifier::external_body] fn provider_lookup_raw_pkh_tap_leaf_script_sig(&self, h: &(hash160::Hash, TapLeafHash)) -> Option<(XOnlyPublicKey, usize)> { unimplemented!() }
    spec fn knows_sha256(&self, h: &Pk::Sha256) -> bool { self.spec_lookup_sha256(h) is Some }
    #[verifier::external_body] fn provider_lookup_sha256(&self, h: &Pk::Sha256) -> bool { unimplemented!() }
    spec fn knows_hash256(&self, h: &Pk::Hash256) -> bool { self.spec_lookup_hash256(h) is Some }
    #[verifier::external_body] fn provider_lookup_hash256(&self, h: &Pk::Hash256) -> bool { unimplemented!() }
    spec fn knows_ripemd160(&self, h: &Pk::Ripemd160) -> bool { self.spec_lookup_ripemd160(h) is Some }
    #[verifier::external_body] fn provider_lookup_ripemd160(&self, h: &Pk::Ripemd160) -> bool { unimplemented!() }
    spec fn knows_hash160(&self, h: &Pk::Hash160) -> bool { self.spec_lookup_hash160(h) is Some }
    #[verifier::external_body] fn provider_lookup_hash160(&self, h: &Pk::Hash160) -> bool { unimplemented!() }
    spec fn older_ok(&self, t: relative::LockTime) -> bool { self.spec_check_older(t) }
    #[verifier::external_body] fn check_older(&self, t: relative::LockTime) -> bool { unimplemented!() }
    spec fn after_ok(&self, t: absolute::LockTime) -> bool { self.spec_check_after(t) }
    #[verifier::external_body] fn check_after(&self, t: absolute::LockTime) -> bool { unimplemented!() }
}

// ---- what the planner checked before it emitted a placeholder (c01_satisfier's leaf contracts: a signature / preimage / key
// placeholder is pushed only after the provider answered the corresponding query positively) ---------------------------------
spec fn announced<Pk: MiniscriptKey, P: AssetProvider<Pk>>(p: Placeholder<Pk>, prov: &P) -> bool {
    match p {
        Placeholder::PubkeyHash(pkh, _) => prov.raw_pkh_pk(&pkh) is Some || prov.raw_pkh_x_only_pk(&pkh) is Some || prov.raw_pkh_ecdsa_sig(&pkh) is Some
                                            || exists|lh: TapLeafHash| prov.raw_pkh_tap_leaf_sig(&(pkh, lh)) is Some,
        Placeholder::EcdsaSigPk(pk) => prov.has_ecdsa_sig(&pk),
        Placeholder::EcdsaSigPkHash(pkh) => prov.raw_pkh_ecdsa_sig(&pkh) is Some,
        Placeholder::SchnorrSigPk(pk, SchnorrSigType::ScriptSpend { leaf_hash }, size) => prov.tap_leaf_sig(&pk, &leaf_hash) == Some(size),
        Placeholder::SchnorrSigPk(pk, SchnorrSigType::KeySpend { .. }, size) => prov.tap_key_spend_sig(&pk) == Some(size),
        Placeholder::SchnorrSigPkHash(pkh, lh, size) => prov.raw_pkh_tap_leaf_sig(&(pkh, lh)) is Some && prov.raw_pkh_tap_leaf_sig(&(pkh, lh))->Some_0.1 == size,
        Placeholder::Sha256Preimage(h) => prov.knows_sha256(&h),
        Placeholder::Hash256Preimage(h) => prov.knows_hash256(&h),
        Placeholder::Ripemd160Preimage(h) => prov.knows_ripemd160(&h),
        Placeholder::Hash160Preimage(h) => prov.knows_hash160(&h),
        _ => true,
    }
}
spec fn all_announced<Pk: MiniscriptKey, P: AssetProvider<Pk>>(s: Satisfaction<Placeholder<Pk>>, prov: &P) -> bool {
    s.stack matches Witness::Stack(t) ==> forall|i: int| 0 <= i < t@.len() ==> announced(#[trigger] t@[i], prov)
}
"""

MS_SPEC = r"""
// ---- sat_dissat: uninterpreted result (its per-node contract is unit c01_satisfier) + the `announced` summary --------------
uninterp spec fn spec_sat<Pk: MiniscriptKey, Ctx: ScriptContext, P: AssetProvider<Pk>>(node: Miniscript<Pk, Ctx>, provider: &P, malleable: bool,
    root_has_sig: bool, leaf_hash: Option<TapLeafHash>) -> Satisfaction<Placeholder<Pk>>;
uninterp spec fn spec_dissat<Pk: MiniscriptKey, Ctx: ScriptContext, P: AssetProvider<Pk>>(node: Miniscript<Pk, Ctx>, provider: &P, malleable: bool,
    root_has_sig: bool, leaf_hash: Option<TapLeafHash>) -> Satisfaction<Placeholder<Pk>>;
uninterp spec fn spec_leaf_hash<Pk: MiniscriptKey, Ctx: ScriptContext>(ms: Miniscript<Pk, Ctx>) -> Option<TapLeafHash>;
impl<Pk: MiniscriptKey + ToPublicKey> Satisfaction<Placeholder<Pk>> {
    #[verifier::external_body]
    fn sat_dissat<Ctx: ScriptContext, P: AssetProvider<Pk>>(node: &Miniscript<Pk, Ctx>, stfr: &P, malleable: bool, root_has_sig: bool, leaf_hash: Option<TapLeafHash>) -> (r: SatDissat<Pk>)
        ensures r.sat == spec_sat(*node, stfr, malleable, root_has_sig, leaf_hash), r.dissat == spec_dissat(*node, stfr, malleable, root_has_sig, leaf_hash),
                all_announced(r.sat, stfr),
    { unimplemented!() }
}
impl<Pk: MiniscriptKey, Ctx: ScriptContext> Miniscript<Pk, Ctx> {
    #[verifier::external_body]
    fn leaf_hash_internal(&self) -> (r: Option<TapLeafHash>) where Pk: ToPublicKey ensures r == spec_leaf_hash(*self) { unimplemented!() }
}
// the template a miniscript yields for a provider (the mode and the root's `s` flag as the library must pass them)
spec fn ms_template<Pk: MiniscriptKey, Ctx: ScriptContext, P: AssetProvider<Pk>>(ms: Miniscript<Pk, Ctx>, provider: &P, mall: bool) -> Satisfaction<Placeholder<Pk>> {
    spec_sat(ms, provider, mall, ms.ty.mall.signed, spec_leaf_hash(ms))
}
// the witness `Miniscript::satisfy{,_malleable}(satisfier)` must return: the completed template built for THAT satisfier
spec fn ms_witness<Pk: MiniscriptKey + ToPublicKey, Ctx: ScriptContext, S: Satisfier<Pk>>(ms: Miniscript<Pk, Ctx>, stfr: &S, mall: bool) -> Option<Seq<Seq<u8>>> {
    match ms_template(ms, &stfr, mall).stack { Witness::Stack(t) => Some(P_completed(t@, stfr)), _ => None }
}
// the key sizes a template announces (Ctx::pk_len at planning time) are those of the keys (helper precondition: what the debug_assert!
// of satisfy_self states for key placeholders; pk_len vs key serialization is C09 / C12's)
spec fn key_sizes_ok<Pk: MiniscriptKey + ToPublicKey, S: Satisfier<Pk>>(s: Satisfaction<Placeholder<Pk>>, stfr: &S) -> bool {
    s.stack matches Witness::Stack(t) ==> forall|i: int| 0 <= i < t@.len() ==> ((#[trigger] t@[i]) is Pubkey || t@[i] is PubkeyHash ==> sizes_hold(t@[i], stfr))
}
spec fn P_completed<Pk: MiniscriptKey + ToPublicKey, Sat: Satisfier<Pk>>(t: Seq<Placeholder<Pk>>, sat: &Sat) -> Seq<Seq<u8>> { completed(t, sat) }
"""

FORWARD = ["lookup_ecdsa_sig", "lookup_tap_leaf_script_sig", "lookup_raw_pkh_pk", "lookup_raw_pkh_x_only_pk", "lookup_raw_pkh_ecdsa_sig",
           "lookup_tap_key_spend_sig", "lookup_raw_pkh_tap_leaf_script_sig", "lookup_sha256", "lookup_hash256", "lookup_ripemd160", "lookup_hash160",
           "check_older", "check_after"]
FORWARD_SPEC = r"""
    open spec fn spec_lookup_ecdsa_sig(&self, pk: &Pk) -> Option<bitcoin::ecdsa::Signature> { (**self).spec_lookup_ecdsa_sig(pk) }
    open spec fn spec_lookup_tap_key_spend_sig(&self, pk: &Pk) -> Option<bitcoin::taproot::Signature> { (**self).spec_lookup_tap_key_spend_sig(pk) }
    open spec fn spec_lookup_tap_leaf_script_sig(&self, pk: &Pk, lh: &TapLeafHash) -> Option<bitcoin::taproot::Signature> { (**self).spec_lookup_tap_leaf_script_sig(pk, lh) }
    open spec fn spec_lookup_raw_pkh_pk(&self, h: &hash160::Hash) -> Option<bitcoin::PublicKey> { (**self).spec_lookup_raw_pkh_pk(h) }
    open spec fn spec_lookup_raw_pkh_x_only_pk(&self, h: &hash160::Hash) -> Option<XOnlyPublicKey> { (**self).spec_lookup_raw_pkh_x_only_pk(h) }
    open spec fn spec_lookup_raw_pkh_ecdsa_sig(&self, h: &hash160::Hash) -> Option<(bitcoin::PublicKey, bitcoin::ecdsa::Signature)> { (**self).spec_lookup_raw_pkh_ecdsa_sig(h) }
    open spec fn spec_lookup_raw_pkh_tap_leaf_script_sig(&self, h: &(hash160::Hash, TapLeafHash)) -> Option<(XOnlyPublicKey, bitcoin::taproot::Signature)> { (**self).spec_lookup_raw_pkh_tap_leaf_script_sig(h) }
    open spec fn spec_lookup_sha256(&self, h: &Pk::Sha256) -> Option<Preimage32> { (**self).spec_lookup_sha256(h) }
    open spec fn spec_lookup_hash256(&self, h: &Pk::Hash256) -> Option<Preimage32> { (**self).spec_lookup_hash256(h) }
    open spec fn spec_lookup_ripemd160(&self, h: &Pk::Ripemd160) -> Option<Preimage32> { (**self).spec_lookup_ripemd160(h) }
    open spec fn spec_lookup_hash160(&self, h: &Pk::Hash160) -> Option<Preimage32> { (**self).spec_lookup_hash160(h) }
    open spec fn spec_check_older(&self, t: relative::LockTime) -> bool { (**self).spec_check_older(t) }
    open spec fn spec_check_after(&self, t: absolute::LockTime) -> bool { (**self).spec_check_after(t) }
"""


PKH_SOURCES = [("via_pkh_to_pk_map", "stfr.raw_pkh_pk(&p->PubkeyHash_0) is Some"),
               ("via_key_stored_with_an_ecdsa_signature", "stfr.raw_pkh_ecdsa_sig(&p->PubkeyHash_0) is Some"),
               ("via_pkh_to_x_only_pk_map", "stfr.raw_pkh_x_only_pk(&p->PubkeyHash_0) is Some"),
               ("via_key_stored_with_a_tap_leaf_signature", "exists|lh: TapLeafHash| stfr.raw_pkh_tap_leaf_sig(&(p->PubkeyHash_0, lh)) is Some")]


def completable_lemma(v, extra=None, name=None):
    if extra:
        return """proof fn lemma_completable_PubkeyHash_%s<Pk: MiniscriptKey + ToPublicKey, S: Satisfier<Pk>>(p: Placeholder<Pk>, stfr: &S)
    requires p is PubkeyHash, %s,
    ensures spec_complete(p, stfr) is Some,
{}
""" % (name, extra)
    return """proof fn lemma_completable_%(v)s<Pk: MiniscriptKey + ToPublicKey, S: Satisfier<Pk>>(p: Placeholder<Pk>, stfr: &S)
    requires p is %(v)s, announced(p, stfr),
    ensures spec_complete(p, stfr) is Some, (p is SchnorrSigPk || p is SchnorrSigPkHash) ==> sizes_hold(p, stfr),
{ broadcast use lengths::serialized_lengths; }
""" % dict(v=v)


def prelude(vf):
    P17.emit_base(vf, P17.SCRIPT_CONTEXT)
    vf.raw(P17.SATISFIER, keep_vis=True)
    vf.trust("trait Satisfier (spec_lookup_* / spec_check_*)", "a satisfier's answers are uninterpreted FUNCTIONS of the query")
    vf.item(SAT, "enum:SchnorrSigType", rewrites=[DERIVE_TRIM])
    vf.item(SAT, "enum:Placeholder", rewrites=[DERIVE_TRIM])
    vf.item(SAT, "enum:Witness", rewrites=[DERIVE_TRIM])
    vf.item(SAT, "struct:Satisfaction", rewrites=[DERIVE_TRIM])
    vf.item(SD, "struct:SatDissat")
    vf.raw("mod satisfy { pub(crate) use super::{Witness, Satisfaction, Placeholder, SchnorrSigType, Satisfier}; }\n"
           "mod plan { pub(crate) use super::AssetProvider; }", keep_vis=True)
    vf.raw(P17.PLACEHOLDER_SPEC)
    vf.raw(PROVIDER)
    vf.trust("trait AssetProvider (spec fns) + blanket impl for T: Satisfier (external_body methods, spec fn bodies)",
             "the blanket impl of src/plan.rs through the clauses proved in unit c17_plan: available <=> lookup is Some, announced size = signature length")


def satisfier_glue(vf):
    P = ("C17", "C11")
    with vf.block("impl<Pk: MiniscriptKey + ToPublicKey, S: Satisfier<Pk>> Satisfier<Pk> for &S"):
        vf.raw(FORWARD_SPEC)
        for m in FORWARD:
            # the trait's `ensures r == self.spec_<m>(..)` with the spec fn bodies above IS the obligation: forwarded to the same lookup of S
            vf.fn(SAT, "impl:Satisfier<Pk> for &S/fn:" + m, qual="<&S as Satisfier>", props=P, contract=Contract())
    for v in P17.VARIANTS:
        if v == "PubkeyHash":
            for name, cond in PKH_SOURCES:
                vf.spec_obligation("completable.PubkeyHash." + name, completable_lemma(v, cond, name), ("C17", "C11", "C02"))
            vf.raw("""proof fn lemma_completable_PubkeyHash<Pk: MiniscriptKey + ToPublicKey, S: Satisfier<Pk>>(p: Placeholder<Pk>, stfr: &S)
    requires p is PubkeyHash, announced(p, stfr), ensures spec_complete(p, stfr) is Some,
{
    if stfr.raw_pkh_pk(&p->PubkeyHash_0) is Some { lemma_completable_PubkeyHash_via_pkh_to_pk_map(p, stfr); }
    else if stfr.raw_pkh_ecdsa_sig(&p->PubkeyHash_0) is Some { lemma_completable_PubkeyHash_via_key_stored_with_an_ecdsa_signature(p, stfr); }
    else if stfr.raw_pkh_x_only_pk(&p->PubkeyHash_0) is Some { lemma_completable_PubkeyHash_via_pkh_to_x_only_pk_map(p, stfr); }
    else { lemma_completable_PubkeyHash_via_key_stored_with_a_tap_leaf_signature(p, stfr); }
}
""")
            continue
        vf.spec_obligation("completable." + v, completable_lemma(v), ("C17", "C11", "C02"))
    vf.raw("""proof fn lemma_completable<Pk: MiniscriptKey + ToPublicKey, S: Satisfier<Pk>>(p: Placeholder<Pk>, stfr: &S)
    requires announced(p, stfr), ensures spec_complete(p, stfr) is Some, (p is SchnorrSigPk || p is SchnorrSigPkHash) ==> sizes_hold(p, stfr),
{
    match p {
%s    }
}
""" % "".join("        Placeholder::%s%s => lemma_completable_%s(p, stfr),\n" % (
        v, {"Pubkey": "(..)", "PubkeyHash": "(..)", "EcdsaSigPk": "(..)", "EcdsaSigPkHash": "(..)", "SchnorrSigPk": "(..)", "SchnorrSigPkHash": "(..)",
            "Sha256Preimage": "(..)", "Hash256Preimage": "(..)", "Ripemd160Preimage": "(..)", "Hash160Preimage": "(..)", "TapScript": "(..)",
            "TapControlBlock": "(..)"}.get(v, ""), v) for v in P17.VARIANTS))



# ======================================================================================================================
# Miniscript-level satisfaction
# ======================================================================================================================
def miniscript_level(vf):
    repo = vf.repo
    P = ("C01", "C02", "C17", "C11")
    # callees proved in unit c17_plan (same contract text)
    with vf.block("impl<Pk: MiniscriptKey + ToPublicKey> Placeholder<Pk>"):
        vf.fn(SAT, "impl:Placeholder<Pk>/fn:satisfy_self", qual="Placeholder", assumed=True, contract=P17.satisfy_self_contract(),
              rewrites=P17.annotate_satisfy_self())
    vf.trust("Placeholder::satisfy_self, Satisfaction::try_completing (assumed contracts)", "proved in unit c17_plan from the same contract text")
    vf.raw(P17.COMPLETED_SPEC)
    vf.raw(P17.STD_ITER)
    vf.trust("slice_iter_map_collect_option, vec_into_iter_fold, abs_into, rel_into (external_body)", "as in unit c17_plan")
    P17.try_completing(vf, assumed=True)
    vf.raw(MS_SPEC)
    vf.trust("Satisfaction::sat_dissat (external_body): uninterpreted result + all_announced(r.sat, provider)",
             "per-node contract is unit c01_satisfier; `announced` is the induction over its leaf clauses (a placeholder is emitted only after the provider "
             "answered the corresponding query positively), not mechanised")
    vf.trust("Miniscript::leaf_hash_internal (external_body)", "downcast through Any + fn value; tap leaf hash is an uninterpreted function of the miniscript")
    with vf.block("impl<Pk: MiniscriptKey + ToPublicKey> Satisfaction<Placeholder<Pk>>"):
        for fn, mall in (("build_template", "false"), ("build_template_mall", "true")):
            vf.fn(SAT, "impl:Satisfaction<Placeholder<Pk>>/fn:" + fn, qual="Satisfaction", props=P, contract=Contract(ensures=[
                Clause("mode_and_arguments_passed_on", ("C01", "C17"), "r == spec_sat(*node, provider, %s, root_has_sig, leaf_hash)" % mall),
                Clause("only_announced_items", ("C17",), "all_announced(r, provider)")]))
    EXPECT = lit("R10", ".try_completing(stfr)", ".try_completing_checked(stfr)")
    vf.spec_obligation("Satisfaction::try_completing_checked", """impl<Pk: MiniscriptKey + ToPublicKey> Satisfaction<Placeholder<Pk>> {
    // ghost glue (R10): a template whose items were all announced by `&stfr` is completable by `stfr` (lemmas completable.*)
    fn try_completing_checked<Sat: Satisfier<Pk>>(&self, stfr: &Sat) -> (r: Option<Satisfaction<Vec<u8>>>)
        requires all_announced(*self, &stfr), key_sizes_ok(*self, stfr),
        ensures r is Some, self.stack is Stack <==> r->Some_0.stack is Stack,
                self.stack matches Witness::Stack(t) ==> views(r->Some_0.stack->Stack_0@) =~= completed(t@, stfr),
                r->Some_0.has_sig == self.has_sig && r->Some_0.relative_timelock == self.relative_timelock && r->Some_0.absolute_timelock == self.absolute_timelock,
    {
        proof {
            if self.stack is Stack {
                let t = self.stack->Stack_0;
                assert forall|i: int| 0 <= i < t@.len() implies spec_complete(#[trigger] t@[i], stfr) is Some && sizes_hold(t@[i], stfr) by {
                    assert(t@[i] is Pubkey || t@[i] is PubkeyHash ==> sizes_hold(t@[i], stfr));
                    lemma_completable(t@[i], &stfr);
                    lemma_same_answers(t@[i], stfr);
                }
            }
        }
        self.try_completing(stfr)
    }
}
impl<Pk: MiniscriptKey + ToPublicKey> Satisfaction<Placeholder<Pk>> {
    // same glue for a template built with the satisfier itself as provider (Tr::get_satisfaction)
    fn try_completing_checked_direct<Sat: Satisfier<Pk>>(&self, stfr: &Sat) -> (r: Option<Satisfaction<Vec<u8>>>)
        requires all_announced(*self, stfr), key_sizes_ok(*self, stfr),
        ensures r is Some, self.stack is Stack <==> r->Some_0.stack is Stack,
                self.stack matches Witness::Stack(t) ==> views(r->Some_0.stack->Stack_0@) =~= completed(t@, stfr),
                r->Some_0.has_sig == self.has_sig && r->Some_0.relative_timelock == self.relative_timelock && r->Some_0.absolute_timelock == self.absolute_timelock,
    {
        proof {
            if self.stack is Stack {
                let t = self.stack->Stack_0;
                assert forall|i: int| 0 <= i < t@.len() implies spec_complete(#[trigger] t@[i], stfr) is Some && sizes_hold(t@[i], stfr) by {
                    assert(t@[i] is Pubkey || t@[i] is PubkeyHash ==> sizes_hold(t@[i], stfr));
                    lemma_completable(t@[i], stfr);
                }
            }
        }
        self.try_completing(stfr)
    }
}
// `&S` answers like `S` (impl Satisfier for &S verified above), so completion does not distinguish them
proof fn lemma_same_answers<Pk: MiniscriptKey + ToPublicKey, S: Satisfier<Pk>>(p: Placeholder<Pk>, stfr: &S)
    ensures spec_complete(p, &stfr) == spec_complete(p, stfr), sizes_hold(p, &stfr) == sizes_hold(p, stfr),
{}
""", ("C17", "C11"))
    with vf.block("impl Satisfaction<Vec<u8>>"):
        for fn, mall in (("satisfy", "false"), ("satisfy_mall", "true")):
            T = "spec_sat(*node, &stfr, %s, root_has_sig, leaf_hash)" % mall
            vf.fn(SAT, C20.impl_with_fn(repo, SAT, "Satisfaction<Vec<u8>>", fn), qual="Satisfaction<Vec<u8>>", props=P, rewrites=[EXPECT], contract=Contract(
                requires=["key_sizes_ok(%s, stfr)" % T],
                ensures=[
                    Clause("witness_iff_template_is_a_stack", ("C01", "C02"), "r.stack is Stack <==> %s.stack is Stack" % T),
                    Clause("is_the_completed_template_of_that_satisfier", ("C01", "C17"), "%s.stack matches Witness::Stack(t) ==> views(r.stack->Stack_0@) =~= completed(t@, stfr)" % T),
                    Clause("locks_and_flag_of_the_template", ("C17",), "r.has_sig == %s.has_sig && r.relative_timelock == %s.relative_timelock && r.absolute_timelock == %s.absolute_timelock" % (T, T, T))]))
    with vf.block("impl<Pk: MiniscriptKey, Ctx: ScriptContext> Miniscript<Pk, Ctx>"):
        SATPATH = lit("R7", "satisfy::Satisfaction::", "Satisfaction::<Vec<u8>>::")
        TPLPATH = lit("R7", "satisfy::Satisfaction::", "Satisfaction::<Placeholder<Pk>>::")
        vf.fn(MSMOD, C20.impl_with_fn(repo, MSMOD, "Miniscript<Pk, Ctx>", "_satisfy"), qual="Miniscript", props=P, contract=Contract(ensures=[
            Clause("ok_iff_concrete_witness", ("C01", "C02"), "r is Ok <==> satisfaction.stack is Stack"),
            Clause("is_that_witness", ("C01",), "r is Ok ==> r->Ok_0 == satisfaction.stack->Stack_0"),
            Clause("otherwise_could_not_satisfy", ("C02",), "r is Err ==> r->Err_0 is CouldNotSatisfy")]))
        for fn, mall in (("satisfy", "false"), ("satisfy_malleable", "true")):
            vf.fn(MSMOD, C20.impl_with_fn(repo, MSMOD, "Miniscript<Pk, Ctx>", fn), qual="Miniscript", props=P, rewrites=[SATPATH], contract=Contract(
                requires=["key_sizes_ok(ms_template(*self, &&satisfier, %s), &satisfier)" % mall],
                ensures=[
                    Clause("ok_iff_the_template_is_a_witness", ("C01", "C02", "C17"), "r is Ok <==> ms_witness(*self, &satisfier, %s) is Some" % mall),
                    Clause("root_has_sig_is_the_s_flag__completed_template", ("C01", "C17"), "r is Ok ==> views(r->Ok_0@) =~= ms_witness(*self, &satisfier, %s)->Some_0" % mall),
                    Clause("otherwise_could_not_satisfy", ("C02",), "r is Err ==> r->Err_0 is CouldNotSatisfy")]))
        for fn, mall in (("build_template", "false"), ("build_template_mall", "true")):
            vf.fn(MSMOD, C20.impl_with_fn(repo, MSMOD, "Miniscript<Pk, Ctx>", fn), qual="Miniscript", props=P, rewrites=[TPLPATH], contract=Contract(ensures=[
                Clause("root_has_sig_is_the_s_flag", ("C01", "C17"), "r == ms_template(*self, provider, %s)" % mall),
                Clause("only_announced_items", ("C17",), "all_announced(r, provider)")]))



# ======================================================================================================================
# witness_to_scriptsig + descriptor wrappers
# ======================================================================================================================
WRAP_SPEC = r"""
// Clone on keys returns an equal key (assumption, DESIGN 3.4)
broadcast proof fn axiom_key_clone<Pk: MiniscriptKey>(a: Pk, b: Pk)
    requires #[trigger] call_ensures(Pk::clone, (&a,), b) ensures a == b { admit(); }

// ---- ORACLE: the inputs of the output's script, before wrapping ----------------------------------------------------------------
//   script outputs: the miniscript's witness;  key-hash outputs (BIP141 P2WPKH, P2PKH): <signature> <public key>
spec fn key_inputs<Pk: MiniscriptKey + ToPublicKey, S: Satisfier<Pk>>(pk: Pk, stfr: &S) -> Option<Seq<Seq<u8>>> {
    match stfr.spec_lookup_ecdsa_sig(&pk) { Some(sig) => Some(seq![sig.ser(), pk.spec_to_public_key().ser()]), None => None }
}
spec fn inputs_of<Pk: MiniscriptKey + ToPublicKey, S: Satisfier<Pk>>(d: Descriptor<Pk>, stfr: &S, mall: bool) -> Option<Seq<Seq<u8>>> {
    match d {
        Descriptor::Bare(b) => ms_witness(b.ms, stfr, mall),
        Descriptor::Pkh(p) => key_inputs(p.pk, stfr),
        Descriptor::Wpkh(p) => key_inputs(p.pk, stfr),
        Descriptor::Wsh(w) => ms_witness(w.ms, stfr, mall),
        Descriptor::Sh(sh) => match sh.inner {
            ShInner::Wsh(w) => ms_witness(w.ms, stfr, mall),
            ShInner::Wpkh(p) => key_inputs(p.pk, stfr),
            ShInner::Ms(m) => ms_witness(m, stfr, mall),
        },
        Descriptor::Tr(_) => None,
    }
}
// the key whose signature is missing (key-hash outputs report it; script outputs report CouldNotSatisfy)
spec fn single_key<Pk: MiniscriptKey>(d: Descriptor<Pk>) -> Option<Pk> {
    match d {
        Descriptor::Pkh(p) => Some(p.pk),
        Descriptor::Wpkh(p) => Some(p.pk),
        Descriptor::Sh(sh) => match sh.inner { ShInner::Wpkh(p) => Some(p.pk), _ => None },
        _ => None,
    }
}
// helper preconditions of the legacy (scriptSig) path, derived from witness_to_scriptsig's assertions: every element of a
// miniscript witness is at most a signature long (73 bytes) and a P2SH redeem script at most 520 bytes (Legacy context rule)
spec fn legacy_elems_small(w: Option<Seq<Seq<u8>>>) -> bool { w matches Some(x) ==> forall|i: int| 0 <= i < x.len() ==> (#[trigger] x[i]).len() <= LEGACY_ELEM_MAX }
spec fn template_key_sizes_ok<Pk: MiniscriptKey + ToPublicKey, Ctx: ScriptContext, S: Satisfier<Pk>>(ms: Miniscript<Pk, Ctx>, stfr: &S, mall: bool) -> bool {
    key_sizes_ok(ms_template(ms, &stfr, mall), stfr)
}
spec fn desc_pre<Pk: MiniscriptKey + ToPublicKey, S: Satisfier<Pk>>(d: Descriptor<Pk>, stfr: &S, mall: bool) -> bool {
    match d {
        Descriptor::Bare(b) => template_key_sizes_ok(b.ms, stfr, mall) && legacy_elems_small(ms_witness(b.ms, stfr, mall)),
        Descriptor::Wsh(w) => template_key_sizes_ok(w.ms, stfr, mall),
        Descriptor::Sh(sh) => match sh.inner {
            ShInner::Wsh(w) => template_key_sizes_ok(w.ms, stfr, mall),
            ShInner::Ms(m) => template_key_sizes_ok(m, stfr, mall) && legacy_elems_small(ms_witness(m, stfr, mall)) && spec_encode(m).len() <= 520,
            _ => true,
        },
        _ => true,
    }
}
"""


def std_clauses(D, mall, S="&satisfier", res="r"):
    """The standard wrapping of descriptor `D` (spec expr) as clauses on `res: Result<(Vec<Vec<u8>>, ScriptBuf), Error>`."""
    I = "inputs_of(%s, %s, %s)" % (D, S, mall)
    return [
        Clause("succeeds_iff_the_script_inputs_exist", ("C01", "C02"), "%s is Ok <==> %s is Some" % (res, I)),
        Clause("witness_is_inputs_plus_standard_wrapping", ("C01",), "%s is Ok ==> views(%s->Ok_0.0@) =~= expected_witness(%s, %s->Some_0)" % (res, res, D, I)),
        Clause("scriptsig_is_inputs_plus_standard_wrapping", ("C01",), "%s is Ok ==> datas(%s->Ok_0.1.pushes()) =~= expected_scriptsig(%s, %s->Some_0)" % (res, res, D, I)),
        Clause("scriptsig_pushes_are_minimal", ("C01",), "%s is Ok ==> (!is_segwit(%s) && !(%s is Pkh) ==> all_minimal(%s->Ok_0.1.pushes())) && (%s is Wpkh || %s is Wsh ==> %s->Ok_0.1.bytes() == Seq::<u8>::empty())" % (res, D, D, res, D, D, res)),
        Clause("error_is_the_inner_one", ("C01", "C02"), "%s is Err ==> (match single_key(%s) { Some(k) => %s->Err_0 == Error::MissingSig(k.spec_to_public_key()), None => %s->Err_0 is CouldNotSatisfy })" % (res, D, res, res)),
    ]


def wrappers(vf, elem_max=73):
    repo = vf.repo
    P = ("C01", "C02", "C17", "C11")
    C20.emit_descriptors(vf, P17.CTX_IMPL)
    vf.item(DESC, "enum:DescriptorType", rewrites=[DERIVE_TRIM])
    vf.raw(P17.DESC_SPEC.split("impl core::fmt::Debug for bitcoin::PublicKey")[0].split("#[derive(Debug)]")[0] +
           "\n// ---- scripts of the descriptor layer" + P17.DESC_SPEC.split("// ---- scripts of the descriptor layer")[1])
    vf.trust("Miniscript::encode, Bare/Pkh/Wpkh::script_pubkey (external_body), spec_encode / spec_p2*", "as in unit c17_plan")
    P17.descriptor_scripts(vf, assumed=True)
    vf.trust("Descriptor::{desc_type, explicit_script, unsigned_script_sig}, Sh::{inner_script, unsigned_script_sig}, Wsh::inner_script (assumed contracts)",
             "proved in unit c17_plan from the same contract text")
    vf.raw("spec const LEGACY_ELEM_MAX: nat = %d;" % elem_max)
    vf.raw(WRAP_SPEC)
    vf.trust("axiom_key_clone (admit)", "Clone on keys returns an equal key")
    vf.trust("precondition desc_pre (legacy_elems_small, redeem script <= 520, template_key_sizes_ok)", "helper preconditions derived from the assertions of "
             "witness_to_scriptsig and the debug_assert!s of satisfy_self")
    P17.witness_to_scriptsig_fn(vf, elem_max)
    CLONE = prologue("broadcast use axiom_key_clone;")
    W2S = sub("R7", r"witness_to_scriptsig\(&(\w+)\)", r"witness_to_scriptsig(\1.as_slice())")
    SMALL = ("proof { assert forall|j: int| 0 <= j < %(v)s@.len() implies (#[trigger] %(v)s@[j])@.len() <= LEGACY_ELEM_MAX by "
             "{ assert(views(%(v)s@)[j] == %(v)s@[j]@); } }\n        ")
    BARE_HINT = sub("R10", r"(let script_sig = witness_to_scriptsig\(&ms\);)", lambda m: SMALL % dict(v="ms") + m.group(1))
    SH_HINT = sub("R10", r"(let mut script_witness = ms\.satisfy(?:_malleable)?\(satisfier\)\?;)", lambda m: m.group(1) + "\n                " + SMALL % dict(v="script_witness"))

    def sat_fns(ty, rel, D, extra_rw=()):
        for fn, mall in (("get_satisfaction", "false"), ("get_satisfaction_mall", "true")):
            vf.fn(rel, C20.impl_with_fn(repo, rel, "%s<Pk>" % ty, fn), qual=ty, props=P, rewrites=list(extra_rw),
                  contract=Contract(requires=["desc_pre(%s, &satisfier, %s)" % (D, mall)], ensures=std_clauses(D, mall)))

    def tmpl(ms, mall):
        return "ms_template(%s, provider, %s)" % (ms, mall)
    with vf.block("impl<Pk: MiniscriptKey + ToPublicKey> Wsh<Pk>"):
        sat_fns("Wsh", SEGWIT, "Descriptor::Wsh(*self)")
        vf.fn(SEGWIT, C20.impl_with_fn(repo, SEGWIT, "Wsh<Pk>", "plan_satisfaction"), qual="Wsh", props=P, contract=Contract(ensures=[
            Clause("is_the_non_malleable_template_of_the_script", ("C17", "C01"), "r == %s" % tmpl("self.ms", "false"))]))
        vf.fn(SEGWIT, C20.impl_with_fn(repo, SEGWIT, "Wsh<Pk>", "plan_satisfaction_mall"), qual="Wsh", props=P, contract=Contract(ensures=[
            Clause("is_the_malleable_template_of_the_script", ("C17", "C01"), "!(self.ms.node is SortedMulti) ==> r == %s" % tmpl("self.ms", "true")),
            Clause("sortedmulti_has_one_mode", ("C17",), "self.ms.node is SortedMulti ==> r == %s" % tmpl("self.ms", "false"))]))
    key_plan = lambda ctx: [
        Clause("exists_iff_the_signature_is_available", ("C17", "C02"), "r.stack is Stack <==> provider.has_ecdsa_sig(&self.pk)"),
        Clause("template_is_sig_then_key", ("C01", "C17"), "r.stack matches Witness::Stack(t) ==> t@ =~= seq![Placeholder::EcdsaSigPk(self.pk), Placeholder::Pubkey(self.pk, %s::spec_pk_len(&self.pk))]" % ctx),
        Clause("otherwise_unavailable", ("C02",), "!(r.stack is Stack) ==> r.stack is Unavailable"),
        Clause("signed_no_locks", ("C17",), "r.has_sig && r.relative_timelock is None && r.absolute_timelock is None")]
    with vf.block("impl<Pk: MiniscriptKey + ToPublicKey> Wpkh<Pk>"):
        sat_fns("Wpkh", SEGWIT, "Descriptor::Wpkh(*self)")
        for fn in ("plan_satisfaction", "plan_satisfaction_mall"):
            vf.fn(SEGWIT, C20.impl_with_fn(repo, SEGWIT, "Wpkh<Pk>", fn), qual="Wpkh", props=P, contract=Contract(ensures=key_plan("Segwitv0")), rewrites=[CLONE])
    with vf.block("impl<Pk: MiniscriptKey + ToPublicKey> Bare<Pk>"):
        sat_fns("Bare", BARE, "Descriptor::Bare(*self)", [BARE_HINT, W2S])
        for fn, mall in (("plan_satisfaction", "false"), ("plan_satisfaction_mall", "true")):
            vf.fn(BARE, C20.impl_with_fn(repo, BARE, "Bare<Pk>", fn), qual="Bare", props=P, contract=Contract(ensures=[
                Clause("is_the_template_of_the_script", ("C17", "C01"), "r == %s" % tmpl("self.ms", mall))]))
    with vf.block("impl<Pk: MiniscriptKey + ToPublicKey> Pkh<Pk>"):
        sat_fns("Pkh", BARE, "Descriptor::Pkh(*self)")
        for fn in ("plan_satisfaction", "plan_satisfaction_mall"):
            vf.fn(BARE, C20.impl_with_fn(repo, BARE, "Pkh<Pk>", fn), qual="Pkh", props=P, contract=Contract(ensures=key_plan("BareCtx")), rewrites=[CLONE])
    with vf.block("impl<Pk: MiniscriptKey + ToPublicKey> Sh<Pk>"):
        sat_fns("Sh", SH, "Descriptor::Sh(*self)", [SH_HINT, W2S])
        for fn, mall in (("plan_satisfaction", "false"), ("plan_satisfaction_mall", "true")):
            vf.fn(SH, C20.impl_with_fn(repo, SH, "Sh<Pk>", fn), qual="Sh", props=P, contract=Contract(ensures=[
                Clause("Ms.is_the_template_of_the_redeem_script", ("C17", "C01"), "self.inner matches ShInner::Ms(m) ==> r == %s" % tmpl("m", mall)),
                Clause("Wsh.is_the_template_of_the_witness_script", ("C17", "C01"), "self.inner matches ShInner::Wsh(w) ==> (%s ==> r == %s) && (w.ms.node is SortedMulti ==> r == %s)" % (
                    "!(w.ms.node is SortedMulti)" if mall == "true" else "true", tmpl("w.ms", mall), tmpl("w.ms", "false"))),
                Clause("Wpkh.exists_iff_the_signature_is_available", ("C17", "C02"), "self.inner matches ShInner::Wpkh(w) ==> (r.stack is Stack <==> provider.has_ecdsa_sig(&w.pk)) && "
                       "(r.stack matches Witness::Stack(t) ==> t@ =~= seq![Placeholder::EcdsaSigPk(w.pk), Placeholder::Pubkey(w.pk, Segwitv0::spec_pk_len(&w.pk))])")]))



# ======================================================================================================================
# Descriptor dispatch and taproot
# ======================================================================================================================
TR_SPEC = r"""
// ---- taproot spend data (descriptor/tr/spend_info.rs) reduced to what best_tap_spend reads -------------------------------------
struct TrLeaf<Pk: MiniscriptKey> { ms: Arc<Miniscript<Pk, Tap>>, leaf_script: ScriptBuf, cb: ControlBlock }
struct TrSpendInfo<Pk: MiniscriptKey> { merkle: Option<TapNodeHash>, leaf_items: Vec<TrLeaf<Pk>> }
impl<Pk: MiniscriptKey> TrLeaf<Pk> {
    fn miniscript(&self) -> (r: &Arc<Miniscript<Pk, Tap>>) ensures *r == self.ms { &self.ms }
    fn script(&self) -> (r: &ScriptBuf) ensures *r == self.leaf_script { &self.leaf_script }
    fn control_block(&self) -> (r: &ControlBlock) ensures *r == self.cb { &self.cb }
}
impl<Pk: MiniscriptKey> TrSpendInfo<Pk> {
    fn merkle_root(&self) -> (r: Option<TapNodeHash>) ensures r == self.merkle { self.merkle }
    fn leaf_slice(&self) -> (r: &[TrLeaf<Pk>]) ensures r@ == self.leaf_items@ { self.leaf_items.as_slice() }
}
uninterp spec fn spec_spend_info<Pk: MiniscriptKey>(d: Tr<Pk>) -> TrSpendInfo<Pk>;
impl<Pk: MiniscriptKey> Tr<Pk> {
    #[verifier::external_body]
    fn spend_info(&self) -> (r: Arc<TrSpendInfo<Pk>>) where Pk: ToPublicKey ensures *r == spec_spend_info(*self) { unimplemented!() }
}
// the size a template announces (util::witness_size; its upper-bound contract is unit c17_plan): here a function of the template
uninterp spec fn spec_announced_size<Pk: MiniscriptKey>(t: Seq<Placeholder<Pk>>) -> usize;
#[verifier::external_body]
fn witness_size<Pk: MiniscriptKey>(wit: &[Placeholder<Pk>]) -> (r: usize) ensures r == spec_announced_size(wit@) { unimplemented!() }
// `a > b` on Option<usize> (derived PartialOrd: None < Some(_), Some by value)
#[verifier::external_body]
fn opt_gt(a: Option<usize>, b: Option<usize>) -> (r: bool)
    ensures r == (match (a, b) { (Some(x), Some(y)) => x > y, (Some(_), None) => true, _ => false }) { unimplemented!() }

#[verifier::external_body]
fn opt_lt(a: Option<usize>, b: Option<usize>) -> (r: bool)
    ensures r == (match (a, b) { (Some(x), Some(y)) => x < y, (None, Some(_)) => true, _ => false }) { unimplemented!() }

spec fn tr_leaves<Pk: MiniscriptKey>(d: Tr<Pk>) -> Seq<TrLeaf<Pk>> { spec_spend_info(d).leaf_items@ }
spec fn leaf_template<Pk: MiniscriptKey, P: AssetProvider<Pk>>(d: Tr<Pk>, i: int, provider: &P, mall: bool) -> Satisfaction<Placeholder<Pk>> {
    ms_template(*tr_leaves(d)[i].ms, provider, mall)
}
spec fn leaf_ok<Pk: MiniscriptKey, P: AssetProvider<Pk>>(d: Tr<Pk>, i: int, provider: &P, mall: bool) -> bool {
    0 <= i < tr_leaves(d).len() && leaf_template(d, i, provider, mall).stack is Stack
}
// BIP341 script path: the leaf's inputs, then the leaf script, then the control block
spec fn leaf_spend<Pk: MiniscriptKey, P: AssetProvider<Pk>>(d: Tr<Pk>, i: int, provider: &P, mall: bool) -> Seq<Placeholder<Pk>> {
    leaf_template(d, i, provider, mall).stack->Stack_0@ + seq![Placeholder::TapScript(tr_leaves(d)[i].leaf_script), Placeholder::TapControlBlock(tr_leaves(d)[i].cb)]
}
spec fn is_leaf_spend<Pk: MiniscriptKey, P: AssetProvider<Pk>>(r: Satisfaction<Placeholder<Pk>>, d: Tr<Pk>, i: int, provider: &P, mall: bool) -> bool {
    &&& leaf_ok(d, i, provider, mall)
    &&& r.stack is Stack && r.stack->Stack_0@ =~= leaf_spend(d, i, provider, mall)
    &&& r.has_sig == leaf_template(d, i, provider, mall).has_sig
    &&& r.relative_timelock == leaf_template(d, i, provider, mall).relative_timelock
    &&& r.absolute_timelock == leaf_template(d, i, provider, mall).absolute_timelock
}
spec fn nothing_found<Pk: MiniscriptKey>(r: Satisfaction<Placeholder<Pk>>) -> bool {
    r.stack is Unavailable && !r.has_sig && r.relative_timelock is None && r.absolute_timelock is None
}
"""


def tap(vf):
    from units.c02_multi import for_slice_loop
    repo = vf.repo
    P = ("C01", "C02", "C17", "C11")
    vf.raw(TR_SPEC)
    vf.trust("TrSpendInfo / TrLeaf (stubs), Tr::spend_info (external_body), witness_size (external_body, uninterpreted), opt_gt (external_body)",
             "spend data = merkle root + list of (leaf miniscript, leaf script, control block) (unit k15_taptree covers its construction); announced size "
             "is a function of the template; derived PartialOrd on Option")
    D = "*desc"
    KS = "provider.tap_key_spend_sig(&desc.internal_key)"
    inv = """                leaves@ == tr_leaves(*desc), i <= leaves@.len(), *spend_info == spec_spend_info(*desc),
                best == -1 <==> min_wit_len is None, all_announced(min_satisfaction, provider),
                best == -1 ==> nothing_found(min_satisfaction) && forall|j: int| 0 <= j < i ==> !leaf_ok(*desc, j, provider, allow_mall),
                best != -1 ==> 0 <= best < i && is_leaf_spend(min_satisfaction, *desc, best, provider, allow_mall)
                    && min_wit_len == Some(spec_announced_size(leaf_spend(*desc, best, provider, allow_mall)))
                    && forall|j: int| 0 <= j < i && leaf_ok(*desc, j, provider, allow_mall) ==>
                        spec_announced_size(leaf_spend(*desc, best, provider, allow_mall)) <= spec_announced_size(#[trigger] leaf_spend(*desc, j, provider, allow_mall)),"""
    loop = for_slice_loop("for leaf in spend_info.leaves()", "spend_info.leaf_slice()", "leaves", "leaf", "i", inv,
                          before="let ghost mut best: int = -1;\n        ")
    rewrites = [
        loop,
        sub("R8", r"=> continue,", "=> { i += 1; continue; },"),
        sub("R7", r"Some\(wit_size\) (>|<) min_wit_len", lambda m: "%s(Some(wit_size), min_wit_len)" % {">": "opt_gt", "<": "opt_lt"}[m.group(1)]),
        lit("R7", "witness_size(wit)", "witness_size(wit.as_slice())"),
        lit("R10", "min_wit_len = Some(wit_size);", "min_wit_len = Some(wit_size);\n                proof { best = i as int; }"),
        lit("R10", "let wit_size = witness_size(wit.as_slice());",
            "let wit_size = witness_size(wit.as_slice());\n            proof { assert(satisfaction.stack->Stack_0@ =~= leaf_spend(*desc, i as int, provider, allow_mall)); "
            "assert(is_leaf_spend(satisfaction, *desc, i as int, provider, allow_mall)); }"),
        prologue("broadcast use axiom_key_clone;"),
    ]
    vf.fn(TR, "fn:best_tap_spend", props=P, rewrites=rewrites, contract=Contract(ensures=[
        Clause("key_spend_preferred_when_available", ("C01", "C02", "C17"),
               "%s matches Some(size) ==> r.stack is Stack && r.stack->Stack_0@ =~= seq![Placeholder::SchnorrSigPk(desc.internal_key, SchnorrSigType::KeySpend { merkle_root: spec_spend_info(%s).merkle }, size)] "
               "&& r.has_sig && r.relative_timelock is None && r.absolute_timelock is None" % (KS, D)),
        Clause("a_failing_leaf_never_masks_a_satisfiable_one", ("C02",),
               "%s is None ==> (r.stack is Stack <==> exists|j: int| leaf_ok(%s, j, provider, allow_mall))" % (KS, D)),
        Clause("otherwise_unavailable", ("C02",), "!(r.stack is Stack) ==> nothing_found(r)"),
        Clause("is_a_leaf_witness_then_script_then_control_block", ("C01", "C17"),
               "%s is None ==> r.stack is Stack ==> exists|j: int| is_leaf_spend(r, %s, j, provider, allow_mall)" % (KS, D)),
        Clause("cheapest_satisfiable_leaf", ("C02",),
               "%s is None ==> r.stack is Stack ==> forall|j: int| leaf_ok(%s, j, provider, allow_mall) ==> "
               "spec_announced_size(r.stack->Stack_0@) <= spec_announced_size(#[trigger] leaf_spend(%s, j, provider, allow_mall))" % (KS, D, D)),
        Clause("only_announced_items", ("C17",), "all_announced(r, provider)")]))
    tr_methods(vf)



TR_METHODS_SPEC = r"""
spec fn tr_pre<Pk: MiniscriptKey + ToPublicKey, S: Satisfier<Pk>>(d: Tr<Pk>, stfr: &S, mall: bool) -> bool {
    forall|j: int| 0 <= j < tr_leaves(d).len() ==> key_sizes_ok(#[trigger] leaf_template(d, j, stfr, mall), stfr)
}
// ORACLE (BIP341): key path: witness = <signature>; script path: witness = leaf inputs, leaf script, control block; scriptSig empty
spec fn tr_satisfaction_ok<Pk: MiniscriptKey + ToPublicKey, S: Satisfier<Pk>>(d: Tr<Pk>, stfr: &S, mall: bool, r: Result<(Vec<Vec<u8>>, ScriptBuf), Error>) -> bool {
    &&& (stfr.spec_lookup_tap_key_spend_sig(&d.internal_key) matches Some(sig) ==> r is Ok && views(r->Ok_0.0@) =~= seq![sig.ser()])
    &&& (stfr.spec_lookup_tap_key_spend_sig(&d.internal_key) is None ==> (r is Ok <==> exists|j: int| leaf_ok(d, j, stfr, mall)))
    &&& (stfr.spec_lookup_tap_key_spend_sig(&d.internal_key) is None ==> r is Ok ==>
            exists|j: int| leaf_ok(d, j, stfr, mall) && views(r->Ok_0.0@) =~= completed(leaf_spend(d, j, stfr, mall), stfr))
    &&& (r is Ok ==> r->Ok_0.1.bytes() == Seq::<u8>::empty() && r->Ok_0.1.pushes() == Seq::<Push>::empty())
    &&& (r is Err ==> r->Err_0 is CouldNotSatisfy)
}
"""


def tr_methods(vf):
    repo = vf.repo
    P = ("C01", "C02", "C17", "C11")
    vf.raw(TR_METHODS_SPEC)
    KS = "satisfier.spec_lookup_tap_key_spend_sig(&self.internal_key)"
    with vf.block("impl<Pk: MiniscriptKey + ToPublicKey> Tr<Pk>"):
        for fn, mall in (("get_satisfaction", "false"), ("get_satisfaction_mall", "true")):
            vf.fn(TR, C20.impl_with_fn(repo, TR, "Tr<Pk>", fn), qual="Tr", props=P,
                  rewrites=[lit("R10", ".try_completing(satisfier)", ".try_completing_checked_direct(satisfier)"), prologue(P17.FACTS)],
                  contract=Contract(requires=["tr_pre(*self, satisfier, %s)" % mall], ensures=[
                      Clause("key_spend_preferred", ("C01", "C02"), "%s matches Some(sig) ==> r is Ok && views(r->Ok_0.0@) =~= seq![sig.ser()]" % KS),
                      Clause("script_path_iff_some_leaf_satisfiable", ("C02",), "%s is None ==> (r is Ok <==> exists|j: int| leaf_ok(*self, j, satisfier, %s))" % (KS, mall)),
                      Clause("witness_is_leaf_inputs_script_control_block", ("C01",), "%s is None ==> r is Ok ==> exists|j: int| leaf_ok(*self, j, satisfier, %s) && "
                             "views(r->Ok_0.0@) =~= completed(leaf_spend(*self, j, satisfier, %s), satisfier)" % (KS, mall, mall)),
                      Clause("empty_scriptsig", ("C01",), "r is Ok ==> r->Ok_0.1.bytes() == Seq::<u8>::empty() && r->Ok_0.1.pushes() == Seq::<Push>::empty()"),
                      Clause("otherwise_could_not_satisfy", ("C02",), "r is Err ==> r->Err_0 is CouldNotSatisfy"),
                      Clause("summary", ("C01", "C02"), "tr_satisfaction_ok(*self, satisfier, %s, r)" % mall)]))
        for fn, mall in (("plan_satisfaction", "false"), ("plan_satisfaction_mall", "true")):
            KP = "provider.tap_key_spend_sig(&self.internal_key)"
            vf.fn(TR, C20.impl_with_fn(repo, TR, "Tr<Pk>", fn), qual="Tr", props=P, contract=Contract(ensures=[
                Clause("key_spend_preferred", ("C17", "C02"), "%s matches Some(size) ==> r.stack is Stack && r.stack->Stack_0@.len() == 1 && r.stack->Stack_0@[0] is SchnorrSigPk" % KP),
                Clause("plan_iff_some_leaf_satisfiable", ("C17", "C02"), "%s is None ==> (r.stack is Stack <==> exists|j: int| leaf_ok(*self, j, provider, %s))" % (KP, mall)),
                Clause("is_a_leaf_template_then_script_then_control_block", ("C17", "C01"), "%s is None ==> r.stack is Stack ==> exists|j: int| is_leaf_spend(r, *self, j, provider, %s)" % (KP, mall))]))


def descriptor_level(vf):
    repo = vf.repo
    P = ("C01", "C02", "C17", "C11")
    with vf.block("impl<Pk: MiniscriptKey + ToPublicKey> Descriptor<Pk>"):
        for fn, mall in (("get_satisfaction", "false"), ("get_satisfaction_mall", "true")):
            cl = []
            for c in std_clauses("*self", mall):
                cl.append(Clause(c.tag, c.props, "!(*self is Tr) ==> (%s)" % c.text))
            cl.append(Clause("taproot", ("C01", "C02"), "*self matches Descriptor::Tr(t) ==> tr_satisfaction_ok(t, &satisfier, %s, r)" % mall))
            vf.fn(DESC, C20.impl_with_fn(repo, DESC, "Descriptor<Pk>", fn), qual="Descriptor", props=P, contract=Contract(
                requires=["desc_pre(*self, &satisfier, %s)" % mall, "*self matches Descriptor::Tr(t) ==> tr_pre(t, &satisfier, %s)" % mall], ensures=cl))
        cl = []
        RES = "(if r is Ok { Ok::<(Vec<Vec<u8>>, ScriptBuf), Error>((final(txin).witness.content, final(txin).script_sig)) } else { Err::<(Vec<Vec<u8>>, ScriptBuf), Error>(r->Err_0) })"
        I = "inputs_of(*self, &satisfier, false)"
        cl.append(Clause("succeeds_iff_the_script_inputs_exist", ("C01", "C02"), "!(*self is Tr) ==> (r is Ok <==> %s is Some)" % I))
        cl.append(Clause("txin_witness_is_the_standard_one", ("C01",), "!(*self is Tr) ==> r is Ok ==> final(txin).witness.elems() =~= expected_witness(*self, %s->Some_0)" % I))
        cl.append(Clause("txin_scriptsig_is_the_standard_one", ("C01",), "!(*self is Tr) ==> r is Ok ==> datas(final(txin).script_sig.pushes()) =~= expected_scriptsig(*self, %s->Some_0)" % I))
        cl.append(Clause("rest_of_the_input_untouched", ("C01",), "final(txin).previous_output == old(txin).previous_output && final(txin).sequence == old(txin).sequence"))
        cl.append(Clause("nothing_written_on_failure", ("C01",), "r is Err ==> *final(txin) == *old(txin)"))
        vf.fn(DESC, C20.impl_with_fn(repo, DESC, "Descriptor<Pk>", "satisfy"), qual="Descriptor", props=P,
              rewrites=[lit("R7", "Witness::from_slice(", "bitcoin::Witness::from_slice("), lit("R7", "txin: &mut TxIn", "txin: &mut bitcoin::TxIn")],
              contract=Contract(requires=["desc_pre(*self, &satisfier, false)", "*self matches Descriptor::Tr(t) ==> tr_pre(t, &satisfier, false)"], ensures=cl))


def build(repo):
    vf = VerusFile(NAME, repo)
    prelude(vf)
    satisfier_glue(vf)
    vf.raw("#[derive(Debug)]\nenum Error { CouldNotSatisfy, MissingSig(bitcoin::PublicKey), TrNoScriptCode, Other(u8) }\nimpl core::fmt::Debug for bitcoin::PublicKey { #[verifier::external_body] fn fmt(&self, f: &mut core::fmt::Formatter<'_>) -> core::fmt::Result { unimplemented!() } }")
    miniscript_level(vf)
    wrappers(vf)
    tap(vf)
    descriptor_level(vf)
    return vf
