"""C14 / C11: the two PSBT mechanisms of C14 that sit between a descriptor and the PSBT maps (Verus).

A. DESCRIPTOR INFERENCE (src/psbt/finalizer.rs): `get_utxo`, `get_scriptpubkey`, `get_descriptor`, `construct_tap_witness`
   (+ `PsbtInputSatisfier::psbt_input`, the `From<..> for InputError` impls).
B. FIELD POPULATION (src/psbt/mod.rs): `KeySourceLookUp::pk`, `update_item_with_descriptor_helper` (all branches, taproot
   included), both `impl PsbtFields` (psbt::Input / psbt::Output, incl. the trait's default bodies),
   `Psbt{Input,Output}Ext::update_with_descriptor_unchecked`, `PsbtExt::{update_input_with_descriptor,
   update_output_with_descriptor}`; (src/descriptor/mod.rs) `DescriptorType::segwit_version`, `Descriptor::desc_type`;
   (src/plan.rs) `Plan::update_psbt_input` (non-taproot branch; the taproot branch is R9-excluded).
The descriptor constructors the inference goes through (`Descriptor::new_{pkh, wpkh, sh_wpkh, sh, wsh, sh_wsh, bare}`,
`Pkh::new`, `Wpkh::new`, `Wsh::new`, `Bare::new`, `Sh::{new, new_wsh, new_wpkh}`) and the script wrappers the updater calls
(`Wsh::{inner_script, script_pubkey}`, `Wpkh::script_pubkey`, `Sh::{inner_script, script_pubkey, as_inner}`, `Bare` / `Pkh`
`::script_pubkey`, `Pkh::address`, `Descriptor::script_pubkey`) are the real text as well.  `psbt::Input`, `psbt::Output`,
`Psbt`, `Transaction`, `TxIn`, `TxOut`, `OutPoint` are the REAL struct definitions of the `bitcoin` source pinned by Cargo.lock.

Reuse: the descriptor structs, the stand-ins of the bitcoin crate's script / address / key types and the BIP16 / BIP141
oracle (`desc_spk`, `sh_redeem`, `desc_explicit`, `desc_redeem`, `desc_witness_script`, uninterpreted P2SH / P2WSH / P2WPKH /
P2PKH / enc) are IMPORTED from units/c16_wrappers.py; the BTreeMap model (uninterpreted `Map<K, V>` view, `get`, `iter`,
`Iter::find`) and the registration of closure / call-site clauses from units/c14_psbt_satisfier.py; the dependency-source
lookup from units/c14_finalize.py.

Oracles (none read off the code):
  * BIP174: the spent output is `witness_utxo` if present, else `non_witness_utxo.output[prevout.vout]`; the non-witness
    UTXO must be the transaction named by the prevout's txid, witness_utxo alone is for segwit spends; redeemScript /
    witnessScript are the preimages of the P2SH hash / the P2WSH program; `bip32_derivation` maps a PUBLIC KEY (as it appears
    in the script) to (master fingerprint, derivation path); an Updater adds only data that belongs to the input / output --
    a refused update writes nothing.
  * BIP16 / BIP141 output-type recognition and nesting: p2pkh / p2wpkh commit to HASH160(key), p2wsh to SHA256(witnessScript),
    p2sh to HASH160(redeemScript); nested segwit: the redeemScript IS the witness program.
  * BIP341 / BIP371: key-path witness = the signature alone; script-path witness = <script inputs> <leaf script> <control
    block>; tap_internal_key, tap_merkle_root, tap_tree, tap_scripts (control block -> script, leaf version) and
    tap_bip32_derivation (x-only key -> leaf hashes the key is involved in, origin; none for a key outside every leaf).
  * The C14 property text: "updating a PSBT from a descriptor records scripts, key origins and Taproot data consistent with
    the descriptor's output"; an inferred descriptor must have the scriptPubKey of the output it is inferred for.
Hash, encode, parse, key-derivation and taproot-commitment functions are uninterpreted (see the trusted list): the unit decides
WHICH value goes WHERE and which checks guard it, not the bytes.
"""
import re

from vlib.verus import VerusFile, Contract, Clause, sub, lit, rule, Undecided
from vlib.extract import strip_docs, match_close
from units.c14_finalize import dep_repo
from units import c14_psbt_satisfier as PS
from units import c16_wrappers as W

NAME = "c14_update"
ENGINE = "verus"
PROPS = ("C14", "C11")
FIN = "src/psbt/finalizer.rs"
PMOD = "src/psbt/mod.rs"
PLAN = "src/plan.rs"
LIB = "src/lib.rs"
DMOD = "src/descriptor/mod.rs"
SEG = "src/descriptor/segwitv0.rs"
SH = "src/descriptor/sh.rs"
BARE = "src/descriptor/bare.rs"

C14 = ("C14",)
C11 = ("C11",)


def C(tag, text, props=C14):
    return Clause(tag, props, text)


def patched(text, pairs, what):
    """Textual adaptation of an IMPORTED prelude (reuse instead of duplication); a lost pattern is UNDECIDED."""
    for old, new in pairs:
        if old not in text:
            raise Undecided("imported prelude %s no longer contains `%s`" % (what, old[:60]))
        text = text.replace(old, new, 1)
    return text


def from_impl_fn(repo, rel, source_pat, target):
    """`impl From<..X> for T` blocks look alike to the anchor matcher once generics are stripped: pick by source type."""
    for n in range(64):
        a = "impl:From<X> for %s#%d" % (target, n)
        try:
            reg = repo.at(rel, a)
        except Exception:
            break
        if re.search(r"impl\s+From<%s>\s+for\s+%s\b" % (source_pat, target), reg.text):
            return a + "/fn:from"
    raise Undecided("impl From<%s> for %s not found in %s (anchor lost)" % (source_pat, target, rel))


def impl_with_fn(repo, rel, impl, fn):
    """Anchor of the `impl <impl>` block (several share the header) that contains `fn`."""
    from vlib.extract import AnchorLost
    for i in range(16):
        a = "impl:%s#%d" % (impl, i)
        try:
            repo.at(rel, a)
        except AnchorLost:
            break
        try:
            repo.at(rel, a + "/fn:" + fn)
            return a + "/fn:" + fn
        except AnchorLost:
            continue
    raise AnchorLost("%s: no `impl %s` block with fn %s" % (rel, impl, fn))


# ----------------------------------------------------------------------------------------------------------------------
# prelude
# ----------------------------------------------------------------------------------------------------------------------
def w_prelude():
    return patched(W.PRELUDE, [
        # bitcoin::PublicKey with its REAL two fields (as in units/c16_keys.py), Copy + structural equality
        ("#[derive(Debug)]\npub struct PublicKey { pub compressed: bool, pub point: u64 }",
         "#[derive(Debug, Clone, Copy, PartialEq, Eq)]\npub struct PublicKey { pub compressed: bool, pub inner: secp256k1::PublicKey }"),
        ("pub struct ScriptBuf { pub opaque: u64 }", "#[derive(PartialEq, Eq)]\npub struct ScriptBuf { pub opaque: u64 }"),
        ("pub enum Error { BareDescriptorAddr, TrNoScriptCode, MissingSig(PublicKey), AddressError(u8), Other(u8) }",
         "pub enum Error { BareDescriptorAddr, TrNoScriptCode, MissingSig(PublicKey), AddressError(u8), ContextError(ScriptContextError), Other(u8) }\n"
         "#[derive(Debug)]\npub struct ScriptContextError { pub opaque: u8 }"),
        ("pub mod bitcoin {\n", "pub mod bitcoin {\n    pub use crate::{PublicKey, Address, Network, ScriptBuf, TxOut, Transaction, Witness, XOnlyPublicKey};\n"
                                "    pub use crate::{secp256k1, taproot, bip32, psbt, hashes};\n"),
        ("    pub mod key {\n", "    pub mod key {\n        pub use crate::{XOnlyPublicKey, FromSliceError};\n"),
    ], "c16_wrappers.PRELUDE")


def btree_prelude():
    m = re.search(r"(?s)// ---- BTreeMap.*?(?=// std: `impl TryFrom)", PS.PRELUDE)
    if not m:
        raise Undecided("BTreeMap model not found in c14_psbt_satisfier.PRELUDE")
    return m.group(0)


DEPS = r"""
// ---- dependency values that are only moved around (opaque) ------------------------------------------------------------
pub mod secp256k1 {
    use vstd::prelude::*;
    verus!{
    #[derive(Debug, Clone, Copy, PartialEq, Eq)] pub struct PublicKey { pub point: u64 }
    #[derive(Debug, Clone, Copy, PartialEq, Eq)] pub struct XOnlyPublicKey { pub x: u64 }
    pub trait Verification {}
    pub struct VerifyOnly { pub never: u8 }
    impl Verification for VerifyOnly {}
    pub struct Secp256k1<C> { pub ctx: C }
    impl Secp256k1<VerifyOnly> {
        #[verifier::external_body]
        pub fn verification_only() -> Secp256k1<VerifyOnly> { unimplemented!() }
    }
    pub struct Error { pub opaque: u8 }
    }
}
pub use secp256k1::{Secp256k1, VerifyOnly, XOnlyPublicKey};
pub struct FromSliceError { pub opaque: u8 }
#[derive(PartialEq, Eq)]
pub struct Amount { pub sat: u64 }
#[derive(PartialEq, Eq)]
pub struct Txid { pub opaque: u64 }
pub struct Sequence { pub n: u32 }
pub struct Version { pub n: i32 }
pub mod absolute { use vstd::prelude::*; verus!{ pub struct LockTime { pub opaque: u32 } } }
pub struct Witness { pub opaque: u64 }
pub struct PsbtSighashType { pub opaque: u32 }
pub struct TapNodeHash { pub opaque: u64 }
pub struct ControlBlock { pub opaque: u64 }
#[derive(Clone, Copy, PartialEq, Eq)]
pub enum LeafVersion { TapScript, Future(u8) }
#[derive(Clone, Copy, PartialEq, Eq)]
pub struct TapLeafHash { pub opaque: u64 }
pub struct TapTree { pub opaque: u64 }
pub mod taproot {
    pub use crate::{ControlBlock, LeafVersion, TapLeafHash, TapNodeHash, TapTree};
    use vstd::prelude::*;
    verus!{ pub struct Signature { pub opaque: u64 } }
}
pub mod ecdsa { pub use crate::bitcoin::ecdsa::Signature; }
pub mod raw { use vstd::prelude::*; verus!{ pub struct Key { pub opaque: u64 } pub struct ProprietaryKey { pub opaque: u64 } } }
pub mod ripemd160 { use vstd::prelude::*; verus!{ pub struct Hash { pub opaque: u64 } } }
pub mod sha256 { use vstd::prelude::*; verus!{ pub struct Hash { pub opaque: u64 } } }
pub mod sha256d { use vstd::prelude::*; verus!{ pub struct Hash { pub opaque: u64 } } }
pub mod hash160 { use vstd::prelude::*; verus!{ #[derive(Clone, Copy, PartialEq, Eq)] pub struct Hash { pub opaque: u64 } } }
pub mod hashes { pub use crate::{hash160, ripemd160, sha256, sha256d}; }
pub mod interpreter { use vstd::prelude::*; verus!{ pub struct Error { pub opaque: u8 } } }
pub mod sighash { use vstd::prelude::*; verus!{ pub struct NonStandardSighashTypeError { pub opaque: u32 } pub struct EcdsaSighashType { pub opaque: u8 } } }
pub mod bip32 {
    use vstd::prelude::*;
    verus!{
    #[derive(Clone, Copy)] pub struct Fingerprint { pub bytes: u32 }
    pub struct DerivationPath { pub opaque: u64 }
    pub type KeySource = (Fingerprint, DerivationPath);
    pub struct Xpub { pub opaque: u64 }
    }
}
pub use bip32::{KeySource, Xpub};
impl vstd::std_specs::cmp::PartialEqSpecImpl for PublicKey { open spec fn obeys_eq_spec() -> bool { true } open spec fn eq_spec(&self, o: &PublicKey) -> bool { *self == *o } }
impl vstd::std_specs::cmp::PartialEqSpecImpl for ScriptBuf { open spec fn obeys_eq_spec() -> bool { true } open spec fn eq_spec(&self, o: &ScriptBuf) -> bool { *self == *o } }
impl vstd::std_specs::cmp::PartialEqSpecImpl for Txid { open spec fn obeys_eq_spec() -> bool { true } open spec fn eq_spec(&self, o: &Txid) -> bool { *self == *o } }
impl vstd::std_specs::cmp::PartialEqSpecImpl for TapLeafHash { open spec fn obeys_eq_spec() -> bool { true } open spec fn eq_spec(&self, o: &TapLeafHash) -> bool { *self == *o } }
impl vstd::std_specs::cmp::PartialEqSpecImpl for LeafVersion { open spec fn obeys_eq_spec() -> bool { true } open spec fn eq_spec(&self, o: &LeafVersion) -> bool { *self == *o } }
impl Clone for ScriptBuf {
    #[verifier::external_body]
    fn clone(&self) -> (r: ScriptBuf) ensures r == *self { unimplemented!() }
}

// ---- output-type recognition (bitcoin::Script::is_p2*): uninterpreted predicates on the script ---------------------------
pub uninterp spec fn p2pk_script(key_bytes: Seq<u8>) -> ScriptBuf;          // <key_bytes> OP_CHECKSIG
impl ScriptBuf {
    pub uninterp spec fn spec_is_p2pk(&self) -> bool;
    pub uninterp spec fn spec_is_p2pkh(&self) -> bool;
    pub uninterp spec fn spec_is_p2wpkh(&self) -> bool;
    pub uninterp spec fn spec_is_p2wsh(&self) -> bool;
    pub uninterp spec fn spec_is_p2sh(&self) -> bool;
    pub uninterp spec fn spec_is_p2tr(&self) -> bool;
    // P2PK: <33 or 65 byte key> OP_CHECKSIG, i.e. 35 or 67 bytes, the key being bytes 1 .. len - 1
    #[verifier::external_body]
    pub fn is_p2pk(&self) -> (r: bool)
        ensures r == self.spec_is_p2pk(),
                r ==> (self.bytes().len() == 35 || self.bytes().len() == 67) && *self == p2pk_script(self.bytes().subrange(1, self.bytes().len() - 1)),
    { unimplemented!() }
    #[verifier::external_body] pub fn is_p2pkh(&self) -> (r: bool) ensures r == self.spec_is_p2pkh() { unimplemented!() }
    #[verifier::external_body] pub fn is_p2wpkh(&self) -> (r: bool) ensures r == self.spec_is_p2wpkh() { unimplemented!() }
    #[verifier::external_body] pub fn is_p2wsh(&self) -> (r: bool) ensures r == self.spec_is_p2wsh() { unimplemented!() }
    #[verifier::external_body] pub fn is_p2sh(&self) -> (r: bool) ensures r == self.spec_is_p2sh() { unimplemented!() }
    #[verifier::external_body] pub fn is_p2tr(&self) -> (r: bool) ensures r == self.spec_is_p2tr() { unimplemented!() }
    #[verifier::external_body] pub fn len(&self) -> (r: usize) ensures r == self.bytes().len() { unimplemented!() }
    #[verifier::external_body] pub fn to_bytes(&self) -> (r: Vec<u8>) ensures r@ == self.bytes() { unimplemented!() }
}
// the six standard templates have pairwise different (length, first opcode): 35|67 / 25 / 22 / 34 OP_0 / 23 / 34 OP_1
#[verifier::external_body]
pub proof fn axiom_output_types_exclusive(s: ScriptBuf)
    ensures
        s.spec_is_p2pk() ==> !s.spec_is_p2pkh() && !s.spec_is_p2wpkh() && !s.spec_is_p2wsh() && !s.spec_is_p2sh() && !s.spec_is_p2tr(),
        s.spec_is_p2pkh() ==> !s.spec_is_p2wpkh() && !s.spec_is_p2wsh() && !s.spec_is_p2sh() && !s.spec_is_p2tr(),
        s.spec_is_p2wpkh() ==> !s.spec_is_p2wsh() && !s.spec_is_p2sh() && !s.spec_is_p2tr(),
        s.spec_is_p2wsh() ==> !s.spec_is_p2sh() && !s.spec_is_p2tr(),
        s.spec_is_p2sh() ==> !s.spec_is_p2tr(),
{}

// ---- keys ----------------------------------------------------------------------------------------------------------------
// the hash pk_h(K) commits to in K's own script context: HASH160 of the SEC1 serialization (ECDSA keys) / of the 32-byte x-only key
pub uninterp spec fn ctx_key_hash<Pk>(pk: Pk) -> hash160::Hash;
pub open spec fn spec_pk_new(k: secp256k1::PublicKey) -> PublicKey { PublicKey { compressed: true, inner: k } }
pub struct PubkeyHash { pub h: hash160::Hash }
impl PubkeyHash { pub fn to_raw_hash(self) -> (r: hash160::Hash) ensures r == self.h { self.h } }
impl PublicKey {
    pub fn new(key: secp256k1::PublicKey) -> (r: PublicKey) ensures r == spec_pk_new(key) { PublicKey { compressed: true, inner: key } }
    pub fn new_uncompressed(key: secp256k1::PublicKey) -> (r: PublicKey) ensures r == (PublicKey { compressed: false, inner: key }) { PublicKey { compressed: false, inner: key } }
    #[verifier::external_body]
    pub fn pubkey_hash(&self) -> (r: PubkeyHash) ensures r.h == ctx_key_hash(*self) { unimplemented!() }
    // SEC1 parsing; a parsed key serialises back to the bytes it was parsed from (33 bytes <=> compressed)
    #[verifier::external_body]
    pub fn from_slice(data: &[u8]) -> (r: Result<PublicKey, FromSliceError>) ensures r is Ok ==> r->Ok_0.ser() == data@ { unimplemented!() }
}
impl MiniscriptKey for PublicKey {}
impl ToPublicKey for PublicKey {
    open spec fn spec_pk(&self) -> PublicKey { *self }
    fn to_public_key(&self) -> (r: PublicKey) { *self }
}
"""

MS_EXT = r"""
// ---- Miniscript: script decoding / raw-pkh substitution as functions of the script ---------------------------------------
pub open spec fn map_consistent<Pk>(m: Map<hash160::Hash, Pk>) -> bool {
    forall|h: hash160::Hash| #[trigger] m.contains_key(h) ==> ctx_key_hash(m[h]) == h
}
impl<Pk: MiniscriptKey + ToPublicKey, Ctx: ScriptContext> Miniscript<Pk, Ctx> {
    // C04: a script that decodes re-encodes to itself
    #[verifier::external_body]
    pub fn decode_consensus(script: &ScriptBuf) -> (r: Result<Self, Error>) ensures r is Ok ==> r->Ok_0.enc() == *script { unimplemented!() }
    // expr_raw_pkh(h) and pk_h(K) with HASH160(K) = h are the same script `DUP HASH160 <h> EQUALVERIFY`
    #[verifier::external_body]
    pub fn substitute_raw_pkh(&self, pk_map: &BTreeMap<hash160::Hash, Pk>) -> (r: Self) ensures map_consistent(pk_map@) ==> r.enc() == self.enc() { unimplemented!() }
}
// ScriptContext checks of the constructors: arbitrary results, except that Segwitv0 refuses uncompressed keys (BIP143 policy)
impl Segwitv0 {
    #[verifier::external_body] pub fn top_level_checks<Pk: MiniscriptKey>(ms: &Miniscript<Pk, Segwitv0>) -> Result<(), Error> { unimplemented!() }
    #[verifier::external_body] pub fn check_pk<Pk: MiniscriptKey + ToPublicKey>(pk: &Pk) -> (r: Result<(), ScriptContextError>) ensures r is Ok ==> pk.spec_pk().compressed { unimplemented!() }
}
impl Legacy { #[verifier::external_body] pub fn top_level_checks<Pk: MiniscriptKey>(ms: &Miniscript<Pk, Legacy>) -> Result<(), Error> { unimplemented!() } }
impl BareCtx {
    #[verifier::external_body] pub fn top_level_checks<Pk: MiniscriptKey>(ms: &Miniscript<Pk, BareCtx>) -> Result<(), Error> { unimplemented!() }
    #[verifier::external_body] pub fn check_pk<Pk: MiniscriptKey>(pk: &Pk) -> Result<(), ScriptContextError> { unimplemented!() }
}
impl From<ScriptContextError> for Error { fn from(e: ScriptContextError) -> (r: Error) { Error::ContextError(e) } }
impl vstd::std_specs::convert::FromSpecImpl<ScriptContextError> for Error {
    open spec fn obeys_from_spec() -> bool { true }
    open spec fn from_spec(e: ScriptContextError) -> Error { Error::ContextError(e) }
}
impl<Pk: MiniscriptKey + ToPublicKey> Descriptor<Pk> {
    // `c:pk_k(K)` in a bare output is the script <K> OP_CHECKSIG (C04 templates)
    #[verifier::external_body]
    pub fn new_pk(pk: Pk) -> (r: Self) ensures r is Bare, desc_spk(r) == p2pk_script(pk.spec_pk().ser()) { unimplemented!() }
}
"""

PSBT_MODS = r"""
pub mod psbt { pub use crate::{Input, Output, Psbt, raw}; }
pub mod transaction { pub use crate::{Transaction, TxIn, TxOut, OutPoint}; }
impl vstd::std_specs::cmp::PartialEqSpecImpl for TxOut { open spec fn obeys_eq_spec() -> bool { true } open spec fn eq_spec(&self, o: &TxOut) -> bool { *self == *o } }
impl Transaction {
    pub uninterp spec fn spec_txid(&self) -> Txid;
    #[verifier::external_body] pub fn compute_txid(&self) -> (r: Txid) ensures r == self.spec_txid() { unimplemented!() }
}
"""

Q_ERR = r"""
// R17: `X?` where X: Result<T, crate::Error> inside a function returning Result<_, InputError> is `q_err(X)?`: the documented
// desugaring of `?` (`Err(e) => return Err(From::from(e))`), verified here against the extracted `From<Error> for InputError`
// (this Verus leaves the converted error of a `?` unconstrained)
fn q_err<T>(r: Result<T, Error>) -> (o: Result<T, InputError>)
    ensures o is Ok <==> r is Ok, r is Ok ==> o->Ok_0 == r->Ok_0, r is Err ==> o->Err_0 == InputError::MiniscriptError(r->Err_0),
{
    match r { Ok(v) => Ok(v), Err(e) => Err(InputError::from(e)) }
}
"""

INPUT_ERR_GLUE = r"""
impl vstd::std_specs::convert::FromSpecImpl<Error> for InputError {
    open spec fn obeys_from_spec() -> bool { true }
    open spec fn from_spec(e: Error) -> InputError { InputError::MiniscriptError(e) }
}
impl vstd::std_specs::convert::FromSpecImpl<FromSliceError> for InputError {
    open spec fn obeys_from_spec() -> bool { true }
    open spec fn from_spec(e: FromSliceError) -> InputError { InputError::KeyErr(e) }
}
"""

ORACLE_A = r"""
// ---- oracle A: BIP174 "which output does input i spend" ---------------------------------------------------------------------
pub open spec fn psbt_wf(p: Psbt, index: int) -> bool { 0 <= index < p.inputs@.len() && index < p.unsigned_tx.input@.len() }
pub open spec fn prev_vout(p: Psbt, index: int) -> int { p.unsigned_tx.input@[index].previous_output.vout as int }
// BIP174: PSBT_IN_WITNESS_UTXO is "the entire transaction output"; PSBT_IN_NON_WITNESS_UTXO is the whole previous transaction,
// the spent output being the one the unsigned transaction's prevout index names
pub open spec fn spent_output(p: Psbt, index: int) -> Option<TxOut> {
    let inp = p.inputs@[index];
    if inp.witness_utxo is Some { inp.witness_utxo }
    else if inp.non_witness_utxo is Some {
        if prev_vout(p, index) < inp.non_witness_utxo->Some_0.output@.len() { Some(inp.non_witness_utxo->Some_0.output@[prev_vout(p, index)]) } else { None }
    } else { None }
}
pub open spec fn spent_spk(p: Psbt, index: int) -> ScriptBuf { spent_output(p, index)->Some_0.script_pubkey }
pub open spec fn this_inp(p: Psbt, index: int) -> Input { p.inputs@[index] }
"""


# ----------------------------------------------------------------------------------------------------------------------
# rewrites
# ----------------------------------------------------------------------------------------------------------------------
STRIP_ATTRS = sub("R1-attrs", r"(?m)^\s*#\[(?:derive|cfg_attr)\(.*\)\]\n", "", required=False)
STRIP_DERIVE = W.STRIP_DERIVE
KEEP_EQ = sub("R1-derive", r"#\[derive\([^)]*\)\]", "#[derive(PartialEq, Eq)]")
SCRIPT_REF = sub("R7", r"&Script\b", "&ScriptBuf", required=False)
SUPER_ERR = sub("R7", r"\bsuper::Error\b", "Error", required=False)


def find_closure(ensures_text, tag, body_prefix="let pk = *kv.0;"):
    """R16 + R10 on the FIRST remaining `.find(|&(&pk, _sig)| {`: typed parameter (Verus rejects tuple / reference patterns in
    closure parameters), the pattern becomes a `let`, and the ghost contract of the predicate is attached."""
    contract = PS._closure_contract("b: bool", [Clause(tag, C14, ensures_text)])
    return sub("R16-closure-params", r"\.find\(\|&\(&pk, _sig\)\|\s*\{",
               lambda m: ".find(|kv: &(&bitcoin::PublicKey, &bitcoin::ecdsa::Signature)|%s {\n            %s" % (contract, body_prefix), count=1)


@rule("R17-question-mark-conversion")
def q_conv(text):
    new, n1 = re.subn(r"Ok\((Descriptor::new_\w+\((?:[^()]|\([^()]*\))*\))\?\)", r"Ok(q_err(\1)?)", text)
    new, n2 = re.subn(r"(Miniscript::<[^>]*>::decode_consensus\(\s*[&\w]+,?\s*\))\?", r"q_err(\1)?", new)
    return new if n1 and n2 else None


@rule("R8-key-map-loops")
def key_map_loops(text):
    """The two nested `for` loops that collect hash160(key) -> key over the bip32_derivation keys of all inputs become index
    loops (bodies verbatim) carrying the invariant `map_consistent`."""
    a = re.search(r"for psbt_input in psbt_inputs\s*\{", text)
    b = re.search(r"for key in public_keys\s*\{", text)
    if not a or not b or b.start() < a.start():
        return None
    inner = ("let keys_ = btree_keys_as_vec(public_keys);\n        let mut j_: usize = 0;\n        while j_ < keys_.len()\n"
             "            invariant\n                map_consistent(map@), //@@ raw_pkh_map.every_key_is_stored_under_its_own_hash\n                i_ <= psbt_inputs@.len(),\n            decreases keys_@.len() - j_,\n"
             "        {\n            let key = keys_[j_];\n            j_ += 1;")
    outer = ("let mut i_: usize = 0;\n    while i_ < psbt_inputs.len()\n        invariant map_consistent(map@), i_ <= psbt_inputs@.len(),\n"
             "        decreases psbt_inputs@.len() - i_,\n    {\n        let psbt_input = &psbt_inputs[i_];\n        i_ += 1;")
    return text[:a.start()] + outer + text[a.end():b.start()] + inner + text[b.end():]


MAP_EXT = r"""
// ---- BTreeMap: the further std methods the updater / the key-hash map use (same uninterpreted view) --------------------------
pub struct MapKeys<'a, K, V> { pub m: &'a BTreeMap<K, V> }
impl<K, V> BTreeMap<K, V> {
    #[verifier::external_body]
    pub fn new() -> (r: BTreeMap<K, V>) ensures r@ == Map::<K, V>::empty() { unimplemented!() }
    // std: "If the map did have this key present, the value is updated"
    #[verifier::external_body]
    pub fn insert(&mut self, k: K, v: V) -> (r: Option<V>)
        ensures final(self)@ == old(self)@.insert(k, v), r == (if old(self)@.contains_key(k) { Some(old(self)@[k]) } else { None::<V> }),
    { unimplemented!() }
    #[verifier::external_body]
    pub fn keys<'a>(&'a self) -> (r: MapKeys<'a, K, V>) ensures r.m == self { unimplemented!() }
    // std: a mutable reference to the value stored under the key; writing through it changes that entry only
    #[verifier::external_body]
    pub fn get_mut(&mut self, k: &K) -> (r: Option<&mut V>)
        ensures r is Some <==> old(self)@.contains_key(*k), r is None ==> final(self)@ == old(self)@,
                r matches Some(p) ==> *p == old(self)@[*k] && final(self)@ == old(self)@.insert(*k, *final(p)),
    { unimplemented!() }
    // std: "Moves all elements from other into self, leaving other empty. If a key from other is already present in self, the
    // respective value from self will be overwritten with the respective value from other."
    #[verifier::external_body]
    pub fn append(&mut self, other: &mut BTreeMap<K, V>)
        ensures final(self)@ == old(self)@.union_prefer_right(old(other)@), final(other)@ == Map::<K, V>::empty(),
    { unimplemented!() }
}
// `for key in map.keys()`: the keys in ascending order, each once
#[verifier::external_body]
pub fn btree_keys_as_vec<'a, K, V>(keys: MapKeys<'a, K, V>) -> (r: Vec<&'a K>)
    ensures forall|j: int| 0 <= j < r@.len() ==> keys.m@.contains_key(*#[trigger] r@[j]),
            forall|k: K| keys.m@.contains_key(k) ==> exists|j: int| 0 <= j < r@.len() && *#[trigger] r@[j] == k,
{ unimplemented!() }
"""


def item_pub(vf, rel, anchor, rewrites=()):
    """vf.item keeping `pub` (the item is named by `pub` spec glue / trait impls)."""
    reg = vf.repo.at(rel, anchor)
    text = vf._apply(strip_docs(reg.text), list(rewrites), anchor).strip("\n")
    vf._emit(text, dict(origin="repo", file=rel, lines=reg.lines(), anchor=anchor))
    return reg


def emit_dep_structs(vf, dep, ver):
    for rel, anchor, rws in (("src/blockdata/transaction.rs", "struct:OutPoint", [STRIP_ATTRS]),
                             ("src/blockdata/transaction.rs", "struct:TxOut", [KEEP_EQ, sub("R1-attrs", r"(?m)^\s*#\[cfg_attr\(.*\)\]\n", "", required=False)]),
                             ("src/blockdata/transaction.rs", "struct:TxIn", [STRIP_ATTRS]),
                             ("src/blockdata/transaction.rs", "struct:Transaction", [STRIP_ATTRS]),
                             ("src/psbt/map/input.rs", "struct:Input", [STRIP_ATTRS]),
                             ("src/psbt/map/output.rs", "struct:Output", [STRIP_ATTRS]),
                             ("src/psbt/mod.rs", "struct:Psbt", [STRIP_ATTRS])):
        reg = dep.at(rel, anchor)
        text = vf._apply(strip_docs(reg.text), rws, anchor).strip("\n")
        vf._emit(text, dict(origin="repo", file="bitcoin-%s/%s" % (ver, rel), lines=reg.lines(), anchor=anchor))


# ----------------------------------------------------------------------------------------------------------------------
# contracts, part A
# ----------------------------------------------------------------------------------------------------------------------
P = "*psbt"
IDX = "index as int"
INP = "this_inp(%s, %s)" % (P, IDX)
SPK = "spent_spk(%s, %s)" % (P, IDX)
HAS = "spent_output(%s, %s) is Some" % (P, IDX)
PRE_A = [Clause("index_in_both_input_lists", (), "psbt_wf(%s, %s)" % (P, IDX))]


def err_is(v):
    return "r is Err && r->Err_0 is %s" % v


def get_utxo_contract():
    return Contract(requires=PRE_A, ensures=[
        C("witness_utxo_wins", "%s.witness_utxo is Some ==> r is Ok && *r->Ok_0 == %s.witness_utxo->Some_0" % (INP, INP)),
        C("non_witness_utxo_output_named_by_prevout", "%s.witness_utxo is None && %s ==> r is Ok && *r->Ok_0 == %s.non_witness_utxo->Some_0.output@[prev_vout(%s, %s)]" % (INP, HAS, INP, P, IDX)),
        C("is_the_spent_output", "r is Ok && %s ==> *r->Ok_0 == spent_output(%s, %s)->Some_0" % (HAS, P, IDX)),
        C("missing_utxo_reported", "%s.witness_utxo is None && %s.non_witness_utxo is None ==> %s" % (INP, INP, err_is("MissingUtxo"))),
        # "Malformed or oversized input is reported as an error value" (C11): a prevout index beyond the outputs of the supplied transaction
        C("prevout_index_out_of_range_is_an_error", "%s.witness_utxo is None && %s.non_witness_utxo is Some && !(%s) ==> r is Err" % (INP, INP, HAS), C11),
    ])


def get_spk_contract():
    return Contract(requires=PRE_A, ensures=[
        C("is_the_spent_outputs_script", "r is Ok ==> %s && r->Ok_0 == %s" % (HAS, SPK)),
        C("ok_whenever_the_spent_output_is_known", "%s ==> r is Ok" % HAS),
        C("missing_utxo_reported", "%s.witness_utxo is None && %s.non_witness_utxo is None ==> %s" % (INP, INP, err_is("MissingUtxo"))),
    ])


def get_descriptor_contract():
    D = "r->Ok_0"
    RS = "%s.redeem_script" % INP
    WS = "%s.witness_script" % INP
    PS_ = "%s.partial_sigs@" % INP
    sh = "%s.spec_is_p2sh()" % SPK
    nested_wsh = "%s && %s is Some && %s->Some_0.spec_is_p2wsh()" % (sh, RS, RS)
    nested_wpkh = "%s && %s is Some && !%s->Some_0.spec_is_p2wsh() && %s->Some_0.spec_is_p2wpkh()" % (sh, RS, RS, RS)
    plain_sh = "%s && %s is Some && !%s->Some_0.spec_is_p2wsh() && !%s->Some_0.spec_is_p2wpkh()" % (sh, RS, RS, RS)
    ACC = "(r is Ok || r->Err_0 is MiniscriptError)"
    return Contract(requires=PRE_A, ensures=[
        # the one statement every branch must meet: the inferred descriptor pays to the output being spent
        C("inferred_descriptor_has_the_spent_script_pubkey", "r is Ok ==> %s && desc_spk(%s) == %s" % (HAS, D, SPK)),
        C("missing_utxo_reported", "%s.witness_utxo is None && %s.non_witness_utxo is None ==> %s" % (INP, INP, err_is("MissingUtxo"))),
        C("never_infers_taproot", "r is Ok ==> !(%s is Tr)" % D),
        # p2pkh / p2wpkh: THE key among the partial signatures whose hash is committed to
        C("p2pkh.is_pkh_of_a_signing_key_hashing_to_spk", "r is Ok && %s.spec_is_p2pkh() ==> (%s matches Descriptor::Pkh(p) && %s.contains_key(p.pk) && P2PKH(p.pk) == %s)" % (SPK, D, PS_, SPK)),
        C("p2pkh.missing_pubkey_reported", "%s && %s.spec_is_p2pkh() && (forall|k: PublicKey| #[trigger] %s.contains_key(k) ==> P2PKH(k) != %s) ==> %s" % (HAS, SPK, PS_, SPK, err_is("MissingPubkey"))),
        C("p2wpkh.is_wpkh_of_a_compressed_signing_key_hashing_to_spk", "r is Ok && %s.spec_is_p2wpkh() ==> (%s matches Descriptor::Wpkh(w) && %s.contains_key(w.pk) && w.pk.compressed && P2WPKH(w.pk) == %s)" % (SPK, D, PS_, SPK)),
        C("p2wpkh.missing_pubkey_reported", "%s && %s.spec_is_p2wpkh() && (forall|k: PublicKey| #[trigger] %s.contains_key(k) ==> !(k.compressed && P2WPKH(k) == %s)) ==> %s" % (HAS, SPK, PS_, SPK, err_is("MissingPubkey"))),
        # p2wsh: BIP141 witness program = SHA256(witnessScript)
        C("p2wsh.witness_script_hash_checked", "r is Ok && %s.spec_is_p2wsh() ==> %s is Some && P2WSH(%s->Some_0) == %s" % (SPK, WS, WS, SPK)),
        C("p2wsh.is_wsh_of_the_witness_script", "r is Ok && %s.spec_is_p2wsh() ==> (%s matches Descriptor::Wsh(w) && w.ms.enc() == %s->Some_0)" % (SPK, D, WS)),
        C("p2wsh.missing_witness_script_reported", "%s && %s.spec_is_p2wsh() && %s is None && %s is None ==> %s" % (HAS, SPK, WS, RS, err_is("MissingWitnessScript"))),
        C("p2wsh.wrong_witness_script_reported", "%s && %s.spec_is_p2wsh() && %s is None && %s is Some && P2WSH(%s->Some_0) != %s ==> %s" % (HAS, SPK, RS, WS, WS, SPK, err_is("InvalidWitnessScript"))),
        C("p2wsh.stray_redeem_script_reported", "%s && %s.spec_is_p2wsh() && %s is Some ==> %s" % (HAS, SPK, RS, err_is("NonEmptyRedeemScript"))),
        # p2sh: BIP16 HASH160(redeemScript)
        C("p2sh.redeem_script_hash_checked", "r is Ok && %s ==> %s is Some && P2SH(%s->Some_0) == %s" % (sh, RS, RS, SPK)),
        C("p2sh.is_sh", "r is Ok && %s ==> %s is Sh" % (sh, D)),
        C("p2sh.missing_redeem_script_reported", "%s && %s && %s is None ==> %s" % (HAS, sh, RS, err_is("MissingRedeemScript"))),
        C("p2sh.wrong_redeem_script_reported", "%s && %s && %s is Some && P2SH(%s->Some_0) != %s ==> %s" % (HAS, sh, RS, RS, SPK, err_is("InvalidRedeemScript"))),
        # nested segwit (BIP141): the redeemScript is the witness program
        C("sh_wsh.witness_script_hash_checked_against_the_redeem_script", "r is Ok && %s ==> %s is Some && P2WSH(%s->Some_0) == %s->Some_0" % (nested_wsh, WS, WS, RS)),
        C("sh_wsh.is_sh_wsh_of_the_witness_script", "r is Ok && %s ==> (%s matches Descriptor::Sh(s) && (s.inner matches ShInner::Wsh(w) && w.ms.enc() == %s->Some_0))" % (nested_wsh, D, WS)),
        C("sh_wsh.missing_witness_script_reported", "%s && %s && P2SH(%s->Some_0) == %s && %s is None ==> %s" % (HAS, nested_wsh, RS, SPK, WS, err_is("MissingWitnessScript"))),
        C("sh_wsh.wrong_witness_script_reported", "%s && %s && P2SH(%s->Some_0) == %s && %s is Some && P2WSH(%s->Some_0) != %s->Some_0 ==> %s" % (HAS, nested_wsh, RS, SPK, WS, WS, RS, err_is("InvalidWitnessScript"))),
        C("sh_wpkh.is_sh_wpkh_of_a_compressed_signing_key_hashing_to_the_redeem_script", "r is Ok && %s ==> (%s matches Descriptor::Sh(s) && (s.inner matches ShInner::Wpkh(w) && %s.contains_key(w.pk) && w.pk.compressed && P2WPKH(w.pk) == %s->Some_0))" % (nested_wpkh, D, PS_, RS)),
        C("sh_wpkh.missing_pubkey_reported", "%s && %s && P2SH(%s->Some_0) == %s && (forall|k: PublicKey| #[trigger] %s.contains_key(k) ==> !(k.compressed && P2WPKH(k) == %s->Some_0)) ==> %s" % (HAS, nested_wpkh, RS, SPK, PS_, RS, err_is("MissingPubkey"))),
        C("sh_ms.is_sh_of_the_redeem_script", "r is Ok && %s ==> (%s matches Descriptor::Sh(s) && (s.inner matches ShInner::Ms(ms) && ms.enc() == %s->Some_0))" % (plain_sh, D, RS)),
        C("sh_ms.stray_witness_script_reported", "%s && %s && P2SH(%s->Some_0) == %s && %s is Some ==> %s" % (HAS, plain_sh, RS, SPK, WS, err_is("NonEmptyWitnessScript"))),
        # anything else: the scriptPubKey itself is the (bare) script
        C("bare.is_bare_of_the_script_pubkey", "r is Ok && !%s.spec_is_p2pk() && !%s.spec_is_p2pkh() && !%s.spec_is_p2wpkh() && !%s.spec_is_p2wsh() && !%s ==> (%s matches Descriptor::Bare(b) && b.ms.enc() == %s)" % (SPK, SPK, SPK, SPK, sh, D, SPK)),
        C("p2pk.is_bare", "r is Ok && %s.spec_is_p2pk() ==> %s is Bare" % (SPK, D)),
        # completeness: when the hashes match, the only admissible refusals are those of the script parser / the context checks
        C("p2pk.refused_only_for_an_unparsable_key", "%s && %s.spec_is_p2pk() ==> r is Ok || r->Err_0 is KeyErr" % (HAS, SPK)),
        C("p2pkh.accepted_when_a_signing_key_hashes_to_spk", "%s && %s.spec_is_p2pkh() && (exists|k: PublicKey| #[trigger] %s.contains_key(k) && P2PKH(k) == %s) ==> %s" % (HAS, SPK, PS_, SPK, ACC)),
        C("p2wpkh.accepted_when_a_compressed_signing_key_hashes_to_spk", "%s && %s.spec_is_p2wpkh() && (exists|k: PublicKey| #[trigger] %s.contains_key(k) && k.compressed && P2WPKH(k) == %s) ==> %s" % (HAS, SPK, PS_, SPK, ACC)),
        C("p2wsh.accepted_when_the_witness_script_hashes_to_the_program", "%s && %s.spec_is_p2wsh() && %s is None && %s is Some && P2WSH(%s->Some_0) == %s ==> %s" % (HAS, SPK, RS, WS, WS, SPK, ACC)),
        C("sh_wsh.accepted_when_both_hashes_match", "%s && %s && P2SH(%s->Some_0) == %s && %s is Some && P2WSH(%s->Some_0) == %s->Some_0 ==> %s" % (HAS, nested_wsh, RS, SPK, WS, WS, RS, ACC)),
        C("sh_wpkh.accepted_when_a_compressed_signing_key_hashes_to_the_redeem_script", "%s && %s && P2SH(%s->Some_0) == %s && (exists|k: PublicKey| #[trigger] %s.contains_key(k) && k.compressed && P2WPKH(k) == %s->Some_0) ==> %s" % (HAS, nested_wpkh, RS, SPK, PS_, RS, ACC)),
        C("sh_ms.accepted_when_the_redeem_script_hashes_to_spk", "%s && %s && P2SH(%s->Some_0) == %s && %s is None ==> %s" % (HAS, plain_sh, RS, SPK, WS, ACC)),
        C("bare.accepted_without_stray_scripts", "%s && !%s.spec_is_p2pk() && !%s.spec_is_p2pkh() && !%s.spec_is_p2wpkh() && !%s.spec_is_p2wsh() && !%s && !%s.spec_is_p2tr() && %s is None && %s is None ==> %s" % (HAS, SPK, SPK, SPK, SPK, sh, SPK, WS, RS, ACC)),
    ])



# ----------------------------------------------------------------------------------------------------------------------
# part B: prelude
# ----------------------------------------------------------------------------------------------------------------------
KEYS_B = r"""
// ---- definite descriptor keys: which public key / origin a key stands for is unit c16_keys' subject; here uninterpreted ----
pub struct DefiniteDescriptorKey { pub opaque: u64 }
pub struct Infallible { pub never: u8 }                     // core::convert::Infallible (never constructed)
pub mod descriptor { pub use crate::NonDefiniteKeyError; }
pub struct NonDefiniteKeyError { pub opaque: u8 }
impl DefiniteDescriptorKey {
    pub uninterp spec fn spec_derive(&self) -> PublicKey;                      // c16_keys: the_public_key(self.0)
    pub uninterp spec fn spec_fingerprint(&self) -> bip32::Fingerprint;        // c16_keys: master_fingerprint
    pub uninterp spec fn spec_full_path(&self) -> bip32::DerivationPath;       // c16_keys: origin path ++ key path
    #[verifier::external_body]
    pub fn derive_public_key<C: secp256k1::Verification>(&self, secp: &Secp256k1<C>) -> (r: PublicKey) ensures r == self.spec_derive() { unimplemented!() }
    #[verifier::external_body]
    pub fn master_fingerprint(&self) -> (r: bip32::Fingerprint) ensures r == self.spec_fingerprint() { unimplemented!() }
    // a definite key is never a multipath key (c16_keys: DefiniteDescriptorKey::new.ok_only_if_definite, full_derivation_path.none_iff_multipath)
    #[verifier::external_body]
    pub fn full_derivation_path(&self) -> (r: Option<bip32::DerivationPath>) ensures r == Some(self.spec_full_path()) { unimplemented!() }
    #[verifier::external_body]
    pub fn full_derivation_paths(&self) -> (r: Vec<bip32::DerivationPath>) ensures r@ == seq![self.spec_full_path()] { unimplemented!() }
}
impl MiniscriptKey for DefiniteDescriptorKey {}
impl ToPublicKey for DefiniteDescriptorKey {
    open spec fn spec_pk(&self) -> PublicKey { self.spec_derive() }
    #[verifier::external_body]
    fn to_public_key(&self) -> (r: PublicKey) { unimplemented!() }
}
pub open spec fn origin_of(k: DefiniteDescriptorKey) -> bip32::KeySource { (k.spec_fingerprint(), k.spec_full_path()) }
pub enum TranslateErr<E> { TranslatorErr(E), OuterError(Error) }
impl<E> TranslateErr<E> {
    #[verifier::external_body]
    pub fn into_outer_err(self) -> Error { unimplemented!() }
}
"""

TRANSLATE = r"""
// ---- the derived descriptor: every key replaced by the public key it stands for (C20: translate_pk rebuilds the same structure) ----
impl<Ctx: ScriptContext> Miniscript<DefiniteDescriptorKey, Ctx> {
    uninterp spec fn spec_derived(&self) -> Miniscript<PublicKey, Ctx>;
    uninterp spec fn spec_keys(&self) -> Seq<DefiniteDescriptorKey>;
}
impl Tr<DefiniteDescriptorKey> {
    uninterp spec fn spec_derived(&self) -> Tr<PublicKey>;
    uninterp spec fn spec_keys(&self) -> Seq<DefiniteDescriptorKey>;
}
spec fn derived_wsh(w: Wsh<DefiniteDescriptorKey>) -> Wsh<PublicKey> { Wsh { ms: w.ms.spec_derived() } }
spec fn derived_wpkh(w: Wpkh<DefiniteDescriptorKey>) -> Wpkh<PublicKey> { Wpkh { pk: w.pk.spec_derive() } }
spec fn derived_desc(d: Descriptor<DefiniteDescriptorKey>) -> Descriptor<PublicKey> {
    match d {
        Descriptor::Bare(b) => Descriptor::Bare(Bare { ms: b.ms.spec_derived() }),
        Descriptor::Pkh(p) => Descriptor::Pkh(Pkh { pk: p.pk.spec_derive() }),
        Descriptor::Wpkh(w) => Descriptor::Wpkh(derived_wpkh(w)),
        Descriptor::Wsh(w) => Descriptor::Wsh(derived_wsh(w)),
        Descriptor::Sh(s) => Descriptor::Sh(Sh { inner: match s.inner {
            ShInner::Wsh(w) => ShInner::Wsh(derived_wsh(w)), ShInner::Wpkh(w) => ShInner::Wpkh(derived_wpkh(w)), ShInner::Ms(ms) => ShInner::Ms(ms.spec_derived()) } }),
        Descriptor::Tr(t) => Descriptor::Tr(t.spec_derived()),
    }
}
// the keys of a descriptor, in the order translate_pk visits them
spec fn desc_keys(d: Descriptor<DefiniteDescriptorKey>) -> Seq<DefiniteDescriptorKey> {
    match d {
        Descriptor::Bare(b) => b.ms.spec_keys(),
        Descriptor::Pkh(p) => seq![p.pk],
        Descriptor::Wpkh(w) => seq![w.pk],
        Descriptor::Wsh(w) => w.ms.spec_keys(),
        Descriptor::Sh(s) => match s.inner { ShInner::Wsh(w) => w.ms.spec_keys(), ShInner::Wpkh(w) => seq![w.pk], ShInner::Ms(ms) => ms.spec_keys() },
        Descriptor::Tr(t) => t.spec_keys(),
    }
}
// what KeySourceLookUp has recorded after `pk` ran on each key in turn (the contract of KeySourceLookUp::pk, verified below, folded)
spec fn record_all(m: Map<secp256k1::PublicKey, bip32::KeySource>, keys: Seq<DefiniteDescriptorKey>) -> Map<secp256k1::PublicKey, bip32::KeySource>
    decreases keys.len()
{
    if keys.len() == 0 { m } else { record_all(m, keys.drop_last()).insert(keys.last().spec_derive().inner, origin_of(keys.last())) }
}
impl Descriptor<DefiniteDescriptorKey> {
    // Descriptor::translate_pk at T = KeySourceLookUp (the only translator this file uses)
    #[verifier::external_body]
    fn translate_pk(&self, t: &mut KeySourceLookUp) -> (r: Result<Descriptor<PublicKey>, TranslateErr<Infallible>>)
        ensures r is Ok, r->Ok_0 == derived_desc(*self), desc_keys_wf(r->Ok_0),
                final(t).0@ == record_all(old(t).0@, desc_keys(*self)),
    { unimplemented!() }
}

// ---- oracle B: BIP174 PSBT_{IN,OUT}_BIP32_DERIVATION = {public key} -> {master fingerprint, derivation path} ------------------
spec fn derives_to(keys: Seq<DefiniteDescriptorKey>, j: int, pk: secp256k1::PublicKey) -> bool { 0 <= j < keys.len() && keys[j].spec_derive().inner == pk }
spec fn every_key_recorded(m: Map<secp256k1::PublicKey, bip32::KeySource>, keys: Seq<DefiniteDescriptorKey>) -> bool {
    forall|j: int| 0 <= j < keys.len() ==> m.contains_key((#[trigger] keys[j]).spec_derive().inner)
}
spec fn origins_recorded(m: Map<secp256k1::PublicKey, bip32::KeySource>, keys: Seq<DefiniteDescriptorKey>) -> bool {
    forall|pk: secp256k1::PublicKey| (exists|j: int| derives_to(keys, j, pk)) ==> #[trigger] m.contains_key(pk) && exists|j: int| derives_to(keys, j, pk) && m[pk] == origin_of(keys[j])
}
spec fn others_kept(old_m: Map<secp256k1::PublicKey, bip32::KeySource>, m: Map<secp256k1::PublicKey, bip32::KeySource>, keys: Seq<DefiniteDescriptorKey>) -> bool {
    forall|pk: secp256k1::PublicKey| !(exists|j: int| derives_to(keys, j, pk)) ==> (#[trigger] m.contains_key(pk) <==> old_m.contains_key(pk)) && (old_m.contains_key(pk) ==> m[pk] == old_m[pk])
}
proof fn lemma_record_all(m: Map<secp256k1::PublicKey, bip32::KeySource>, keys: Seq<DefiniteDescriptorKey>)
    ensures every_key_recorded(record_all(m, keys), keys), origins_recorded(record_all(m, keys), keys), others_kept(m, record_all(m, keys), keys),
    decreases keys.len()
{
    if keys.len() > 0 {
        let pre = keys.drop_last();
        let k = keys.last();
        lemma_record_all(m, pre);
        let r0 = record_all(m, pre);
        let r = record_all(m, keys);
        assert forall|j: int| 0 <= j < keys.len() implies r.contains_key((#[trigger] keys[j]).spec_derive().inner) by {
            if j < pre.len() { assert(pre[j] == keys[j]); }
        }
        assert forall|pk: secp256k1::PublicKey| (exists|j: int| derives_to(keys, j, pk)) implies #[trigger] r.contains_key(pk) && exists|j: int| derives_to(keys, j, pk) && r[pk] == origin_of(keys[j]) by {
            if k.spec_derive().inner == pk {
                assert(derives_to(keys, keys.len() - 1, pk));
            } else {
                let j = choose|j: int| derives_to(keys, j, pk);
                assert(derives_to(pre, j, pk));
                let j2 = choose|j2: int| derives_to(pre, j2, pk) && r0[pk] == origin_of(pre[j2]);
                assert(derives_to(keys, j2, pk) && r[pk] == origin_of(keys[j2]));
            }
        }
        assert forall|pk: secp256k1::PublicKey| !(exists|j: int| derives_to(keys, j, pk)) implies (#[trigger] r.contains_key(pk) <==> m.contains_key(pk)) && (m.contains_key(pk) ==> r[pk] == m[pk]) by {
            assert(!derives_to(keys, keys.len() - 1, pk));
            assert forall|j: int| !derives_to(pre, j, pk) by { if derives_to(pre, j, pk) { assert(derives_to(keys, j, pk)); } }
        }
    }
}
proof fn lemma_union_records(old_m: Map<secp256k1::PublicKey, bip32::KeySource>, keys: Seq<DefiniteDescriptorKey>)
    ensures ({ let m = old_m.union_prefer_right(record_all(Map::empty(), keys));
               every_key_recorded(m, keys) && origins_recorded(m, keys) && others_kept(old_m, m, keys) }),
{
    lemma_record_all(Map::empty(), keys);
    let rec = record_all(Map::<secp256k1::PublicKey, bip32::KeySource>::empty(), keys);
    let m = old_m.union_prefer_right(rec);
    assert forall|j: int| 0 <= j < keys.len() implies m.contains_key((#[trigger] keys[j]).spec_derive().inner) by {}
    assert forall|pk: secp256k1::PublicKey| (exists|j: int| derives_to(keys, j, pk)) implies #[trigger] m.contains_key(pk) && exists|j: int| derives_to(keys, j, pk) && m[pk] == origin_of(keys[j]) by {
        assert(rec.contains_key(pk));
    }
    assert forall|pk: secp256k1::PublicKey| !(exists|j: int| derives_to(keys, j, pk)) implies (#[trigger] m.contains_key(pk) <==> old_m.contains_key(pk)) && (old_m.contains_key(pk) ==> m[pk] == old_m[pk]) by {
        assert(rec.contains_key(pk) <==> Map::<secp256k1::PublicKey, bip32::KeySource>::empty().contains_key(pk));
    }
}
"""

# the fields `trait PsbtFields` gives access to: (method, view name, view type, returned type, optional?)
FIELDS = [
    ("redeem_script", "v_rs", "Option<ScriptBuf>", "Option<ScriptBuf>", False),
    ("witness_script", "v_ws", "Option<ScriptBuf>", "Option<ScriptBuf>", False),
    ("bip32_derivation", "v_bip32", "Map<secp256k1::PublicKey, bip32::KeySource>", "BTreeMap<secp256k1::PublicKey, bip32::KeySource>", False),
    ("tap_internal_key", "v_tik", "Option<XOnlyPublicKey>", "Option<bitcoin::key::XOnlyPublicKey>", False),
    ("tap_key_origins", "v_tko", "Map<XOnlyPublicKey, (Vec<TapLeafHash>, bip32::KeySource)>", "BTreeMap<bitcoin::key::XOnlyPublicKey, (Vec<TapLeafHash>, bip32::KeySource)>", False),
    ("proprietary", "v_prop", "Map<raw::ProprietaryKey, Vec<u8>>", "BTreeMap<psbt::raw::ProprietaryKey, Vec<u8>>", False),
    ("unknown", "v_unk", "Map<raw::Key, Vec<u8>>", "BTreeMap<psbt::raw::Key, Vec<u8>>", False),
    ("tap_tree", "v_tt", "Option<TapTree>", "Option<taproot::TapTree>", True),
    ("tap_scripts", "v_ts", "Map<ControlBlock, (ScriptBuf, LeafVersion)>", "BTreeMap<ControlBlock, (ScriptBuf, LeafVersion)>", True),
    ("tap_merkle_root", "v_tmr", "Option<TapNodeHash>", "Option<taproot::TapNodeHash>", True),
]


def _view(expr, ret):
    return "%s@" % expr if ret.startswith("BTreeMap") else "*%s" % expr


def psbt_fields_trait():
    """The Verus rendering of `trait PsbtFields`: one uninterpreted view per field; every accessor hands out exactly its own field
    (BIP174: a field is one key-value entry of the map) and leaves every other one alone.  Optional accessors (fields that exist
    only in inputs or only in outputs) answer None iff the item has no such field."""
    out = ["pub trait PsbtFields: Sized {"]
    for m, v, vt, rt, opt in FIELDS:
        out.append("    spec fn %s(&self) -> %s;" % (v, "Option<%s>" % vt if opt else vt))
    for m, v, vt, rt, opt in FIELDS:
        frame = " && ".join("final(self).%s() == old(self).%s()" % (w, w) for _, w, _, _, _ in FIELDS if w != v)
        if not opt:
            out.append("    fn %s(&mut self) -> (r: &mut %s)\n        ensures %s == old(self).%s(), final(self).%s() == %s, %s;" % (
                m, rt, _view("r", rt), v, v, _view("final(r)", rt), frame))
        else:
            out.append("    fn %s(&mut self) -> (r: Option<&mut %s>)\n        ensures r is Some <==> old(self).%s() is Some, r is None ==> *final(self) == *old(self),\n"
                       "            r matches Some(p) ==> Some(%s) == old(self).%s() && final(self).%s() == Some(%s) && %s;" % (
                           m, rt, v, _view("p", rt).replace("*p", "*p"), v, v, _view("final(p)", rt), frame))
    out.append("}")
    return "\n".join(out)


def fields_views(kind):
    """The views of psbt::Input / psbt::Output (spec fns of the impl)."""
    absent = {"Input": ("tap_tree",), "Output": ("tap_scripts", "tap_merkle_root")}[kind]
    out = []
    for m, v, vt, rt, opt in FIELDS:
        val = "self.%s@" % m if rt.startswith("BTreeMap") else "self.%s" % m
        if opt:
            val = "None" if m in absent else "Some(%s)" % val
        out.append("    open spec fn %s(&self) -> %s { %s }" % (v, "Option<%s>" % vt if opt else vt, val))
    return "\n".join(out)


ORACLE_B = r"""
// ---- oracle B: which scripts an Updater records (BIP174 + BIP16 / BIP141) ------------------------------------------------------
%(desc_redeem)s
%(desc_witness_script)s
// BIP174 PSBT_IN_WITNESS_UTXO may stand alone only for a segwit spend ("for Segwit inputs"); everything else needs the whole transaction
spec fn desc_is_segwit<Pk: MiniscriptKey>(d: Descriptor<Pk>) -> bool {
    match d { Descriptor::Wpkh(_) => true, Descriptor::Wsh(_) => true, Descriptor::Tr(_) => true, Descriptor::Sh(s) => !(s.inner is Ms), _ => false }
}
spec fn taproot_and_unknown_fields_kept<F: PsbtFields>(a: F, b: F) -> bool {
    a.v_tik() == b.v_tik() && a.v_tko() == b.v_tko() && a.v_tt() == b.v_tt() && a.v_ts() == b.v_ts() && a.v_tmr() == b.v_tmr() && a.v_prop() == b.v_prop() && a.v_unk() == b.v_unk()
}
// everything of a PSBT except the input / output maps
spec fn same_globals(a: Psbt, b: Psbt) -> bool {
    a.unsigned_tx == b.unsigned_tx && a.version == b.version && a.xpub == b.xpub && a.proprietary == b.proprietary && a.unknown == b.unknown
}
spec fn psbt_unchanged(a: Psbt, b: Psbt) -> bool { same_globals(a, b) && a.inputs@ =~= b.inputs@ && a.outputs@ =~= b.outputs@ }
"""


def w_spec_fn(name):
    m = re.search(r"(?ms)^spec fn %s<.*?^\}" % re.escape(name), W.UPDATER)
    if not m:
        raise Undecided("oracle %s not found in units/c16_wrappers.py UPDATER" % name)
    return m.group(0)


D_ = "derived_desc(*descriptor)"
K_ = "desc_keys(*descriptor)"


def _sh(v):
    return "(%s matches Descriptor::Sh(s) && s.inner is %s)" % (D_, v)


# what a successful update with a non-taproot descriptor records: (tag, property ids, statement over {O} = item before, {F} = item after)
RECORDED = [
    ("witness_script_recorded_iff_p2wsh", C14, "{F}.v_ws() == (if desc_witness_script(%s) is Some { desc_witness_script(%s) } else { {O}.v_ws() })" % (D_, D_)),
    ("redeem_script_recorded_iff_p2sh", C14, "{F}.v_rs() == (if %s is Sh { desc_redeem(%s) } else { {O}.v_rs() })" % (D_, D_)),
    ("wsh.witness_script_is_the_explicit_script", C14, "%s is Wsh ==> {F}.v_ws() == Some(desc_explicit(%s)) && {F}.v_rs() == {O}.v_rs()" % (D_, D_)),
    ("sh_wsh.witness_script_is_the_explicit_script", C14, "%s ==> {F}.v_ws() == Some(desc_explicit(%s))" % (_sh("Wsh"), D_)),
    ("sh_wsh.redeem_script_is_the_p2wsh_program", C14, "%s ==> {F}.v_rs() == Some(P2WSH(desc_explicit(%s)))" % (_sh("Wsh"), D_)),
    ("sh_wpkh.redeem_script_is_the_p2wpkh_program", C14, "(%s matches Descriptor::Sh(s) ==> (s.inner matches ShInner::Wpkh(w) ==> {F}.v_rs() == Some(P2WPKH(w.pk)) && {F}.v_ws() == {O}.v_ws()))" % D_),
    ("sh_ms.redeem_script_is_the_explicit_script", C14, "%s ==> {F}.v_rs() == Some(desc_explicit(%s)) && {F}.v_ws() == {O}.v_ws()" % (_sh("Ms"), D_)),
    ("bare_pkh_wpkh.no_script_recorded", C14, "(%s is Bare || %s is Pkh || %s is Wpkh) ==> {F}.v_rs() == {O}.v_rs() && {F}.v_ws() == {O}.v_ws()" % (D_, D_, D_)),
    ("redeem_script_hashes_to_the_script_pubkey", ("C14", "C16"), "%s is Sh ==> P2SH({F}.v_rs()->Some_0) == desc_spk(%s)" % (D_, D_)),
    ("witness_script_hashes_to_the_witness_program", ("C14", "C16"), "desc_witness_script(%s) is Some ==> P2WSH({F}.v_ws()->Some_0) == (if %s is Sh { {F}.v_rs()->Some_0 } else { desc_spk(%s) })" % (D_, D_, D_)),
    # BIP174: bip32_derivation maps the PUBLIC KEY (as in the script) to (master fingerprint, derivation path)
    ("bip32.every_key_recorded_under_its_derived_public_key", C14, "every_key_recorded({F}.v_bip32(), %s)" % K_),
    ("bip32.value_is_fingerprint_and_full_path_of_a_key_deriving_to_it", C14, "origins_recorded({F}.v_bip32(), %s)" % K_),
    ("bip32.no_other_entry_added_or_changed", C14, "others_kept({O}.v_bip32(), {F}.v_bip32(), %s)" % K_),
    ("taproot_and_unknown_fields_untouched", C14, "taproot_and_unknown_fields_kept({O}, {F})"),
]


def _inst(text, o, f):
    return text.replace("{O}", o).replace("{F}", f)


def recorded_spec():
    body = "\n".join("    &&& (%s)" % _inst(t, "oi", "fi") for _, _, t in RECORDED)
    return ("// the conjunction of the helper's per-field clauses (what its callers pass on)\n"
            "spec fn recorded<F: PsbtFields>(oi: F, fi: F, descriptor: &Descriptor<DefiniteDescriptorKey>) -> bool {\n%s\n}\n" % body)


def helper_contract():
    OK = "r is Ok && r->Ok_0.1 && !(%s is Tr)" % D_
    return Contract(ensures=[
        C("never_fails", "r is Ok", ("C14", "C11")),
        C("returns_the_derived_descriptor", "r is Ok ==> r->Ok_0.0 == %s" % D_),
        C("script_pubkey_check_is_against_the_derived_descriptors_output", "r is Ok ==> (r->Ok_0.1 <==> (check_script matches Some(spk) ==> *spk == desc_spk(%s)))" % D_),
        # BIP174: an Updater adds data that belongs to the input / output; for a foreign script it must add nothing
        C("mismatch_writes_nothing", "r is Ok && !r->Ok_0.1 ==> *final(item) == *old(item)"),
    ] + [Clause(tag, props, "%s ==> (%s)" % (OK, _inst(t, "(*old(item))", "(*final(item))"))) for tag, props, t in RECORDED] + [
        C("records_everything", "%s ==> recorded(*old(item), *final(item), descriptor)" % OK, ()),
    ] + tr_clauses())


UTXO_ORACLE = r"""
// ---- oracle: BIP174 UTXO fields of an input, as far as an Updater can check them ---------------------------------------------
// PSBT_IN_NON_WITNESS_UTXO: "the transaction [...] must match the txid in the unsigned transaction's prevout"; the spent output is
// the one the prevout index names (so it has to exist); PSBT_IN_WITNESS_UTXO alone only for segwit spends; if both are given they
// must describe the same output
spec fn utxo_checks_ok<Pk: MiniscriptKey>(p: Psbt, i: int, d: Descriptor<Pk>) -> bool {
    let inp = p.inputs@[i];
    let prev = p.unsigned_tx.input@[i].previous_output;
    &&& psbt_wf(p, i)
    &&& (inp.non_witness_utxo matches Some(tx) ==> tx.spec_txid() == prev.txid && (prev.vout as int) < tx.output@.len())
    &&& (inp.witness_utxo is Some || inp.non_witness_utxo is Some)
    &&& (inp.witness_utxo is Some && inp.non_witness_utxo is None ==> desc_is_segwit(d))
    &&& (inp.witness_utxo matches Some(w) ==> (inp.non_witness_utxo matches Some(tx) ==> w == tx.output@[prev.vout as int]))
}
spec fn others_inputs_kept(a: Psbt, b: Psbt, i: int) -> bool {
    same_globals(a, b) && a.outputs@ =~= b.outputs@ && a.inputs@.len() == b.inputs@.len()
        && forall|j: int| 0 <= j < a.inputs@.len() && j != i ==> #[trigger] b.inputs@[j] == a.inputs@[j]
}
spec fn others_outputs_kept(a: Psbt, b: Psbt, i: int) -> bool {
    same_globals(a, b) && a.inputs@ =~= b.inputs@ && a.outputs@.len() == b.outputs@.len()
        && forall|j: int| 0 <= j < a.outputs@.len() && j != i ==> #[trigger] b.outputs@[j] == a.outputs@[j]
}
spec fn desc_type_of<Pk: MiniscriptKey>(d: Descriptor<Pk>) -> DescriptorType {
    match d {
        Descriptor::Bare(_) => DescriptorType::Bare, Descriptor::Pkh(_) => DescriptorType::Pkh, Descriptor::Wpkh(_) => DescriptorType::Wpkh,
        Descriptor::Wsh(_) => DescriptorType::Wsh, Descriptor::Tr(_) => DescriptorType::Tr,
        Descriptor::Sh(s) => match s.inner { ShInner::Wsh(_) => DescriptorType::ShWsh, ShInner::Wpkh(_) => DescriptorType::ShWpkh, ShInner::Ms(_) => DescriptorType::Sh },
    }
}
"""


def update_input_contract():
    OS, FS = "(*old(self))", "(*final(self))"
    I = "input_index as int"
    INP = "%s.inputs@[%s]" % (OS, I)
    PREV = "%s.unsigned_tx.input@[%s].previous_output" % (OS, I)
    WF = "psbt_wf(%s, %s)" % (OS, I)
    D = "derived_desc(*desc)"
    CHK = "utxo_checks_ok(%s, %s, *desc)" % (OS, I)
    E = "Err::<(), UtxoUpdateError>(UtxoUpdateError::%s)"
    return Contract(ensures=[
        C("index_out_of_bounds_reported", "input_index >= %s.inputs@.len() ==> r == %s" % (OS, E % ("IndexOutOfBounds(input_index, %s.inputs@.len() as usize)" % OS)), ("C14", "C11")),
        C("missing_transaction_input_reported", "input_index < %s.inputs@.len() && input_index >= %s.unsigned_tx.input@.len() ==> r == %s" % (OS, OS, E % "MissingInputUtxo"), ("C14", "C11")),
        # atomicity: a refused update adds nothing
        C("failure_writes_nothing", "r is Err ==> psbt_unchanged(%s, %s)" % (OS, FS)),
        C("other_inputs_outputs_and_globals_untouched", "others_inputs_kept(%s, %s, %s)" % (OS, FS, I)),
        # BIP174 UTXO checks, one clause per rule
        C("ok_only_if_non_witness_utxo_has_the_prevouts_txid", "r is Ok ==> %s && (%s.non_witness_utxo matches Some(tx) ==> tx.spec_txid() == %s.txid)" % (WF, INP, PREV)),
        C("ok_only_if_prevout_index_names_an_output", "r is Ok ==> (%s.non_witness_utxo matches Some(tx) ==> (%s.vout as int) < tx.output@.len())" % (INP, PREV), ("C14", "C11")),
        C("ok_only_with_a_utxo", "r is Ok ==> %s.witness_utxo is Some || %s.non_witness_utxo is Some" % (INP, INP)),
        C("witness_utxo_alone_only_for_segwit_descriptors", "r is Ok && %s.witness_utxo is Some && %s.non_witness_utxo is None ==> desc_is_segwit(*desc)" % (INP, INP)),
        C("both_utxos_must_describe_the_same_output", "r is Ok ==> (%s.witness_utxo matches Some(w) ==> (%s.non_witness_utxo matches Some(tx) ==> w == tx.output@[%s.vout as int]))" % (INP, INP, PREV)),
        C("failed_utxo_check_reported", "%s && !%s ==> r == %s" % (WF, CHK, E % "UtxoCheck")),
        # the descriptor must pay to the output being spent
        C("ok_only_if_descriptor_pays_to_the_spent_output", "r is Ok ==> spent_output(%s, %s) is Some && spent_spk(%s, %s) == desc_spk(%s)" % (OS, I, OS, I, D)),
        C("mismatched_script_pubkey_reported", "%s && spent_spk(%s, %s) != desc_spk(%s) ==> r == %s" % (CHK, OS, I, D, E % "MismatchedScriptPubkey")),
        C("ok_whenever_checks_pass_and_script_pubkey_matches", "%s && spent_spk(%s, %s) == desc_spk(%s) ==> r is Ok" % (CHK, OS, I, D)),
        C("records_scripts_and_key_origins", "r is Ok && !(%s is Tr) ==> recorded(%s, %s.inputs@[%s], desc)" % (D, INP, FS, I)),
        C("records_taproot_data", "r is Ok && %s is Tr ==> recorded_tr(%s, %s.inputs@[%s], desc)" % (D, INP, FS, I)),
    ])


def update_output_contract():
    OS, FS = "(*old(self))", "(*final(self))"
    I = "output_index as int"
    D = "derived_desc(*desc)"
    E = "Err::<(), OutputUpdateError>(OutputUpdateError::%s)"
    WF = "output_index < %s.outputs@.len() && output_index < %s.unsigned_tx.output@.len()" % (OS, OS)
    SPK = "%s.unsigned_tx.output@[%s].script_pubkey" % (OS, I)
    return Contract(ensures=[
        C("index_out_of_bounds_reported", "output_index >= %s.outputs@.len() ==> r == %s" % (OS, E % ("IndexOutOfBounds(output_index, %s.outputs@.len() as usize)" % OS)), ("C14", "C11")),
        C("missing_transaction_output_reported", "output_index < %s.outputs@.len() && output_index >= %s.unsigned_tx.output@.len() ==> r == %s" % (OS, OS, E % "MissingTxOut"), ("C14", "C11")),
        C("failure_writes_nothing", "r is Err ==> psbt_unchanged(%s, %s)" % (OS, FS)),
        C("other_outputs_inputs_and_globals_untouched", "others_outputs_kept(%s, %s, %s)" % (OS, FS, I)),
        C("ok_only_if_descriptor_pays_to_the_transaction_output", "r is Ok ==> %s && %s == desc_spk(%s)" % (WF, SPK, D)),
        C("mismatched_script_pubkey_reported", "%s && %s != desc_spk(%s) ==> r == %s" % (WF, SPK, D, E % "MismatchedScriptPubkey")),
        C("ok_whenever_script_pubkey_matches", "%s && %s == desc_spk(%s) ==> r is Ok" % (WF, SPK, D)),
        C("records_scripts_and_key_origins", "r is Ok && !(%s is Tr) ==> recorded(%s.outputs@[%s], %s.outputs@[%s], desc)" % (D, OS, I, FS, I)),
        C("records_taproot_data", "r is Ok && %s is Tr ==> recorded_tr(%s.outputs@[%s], %s.outputs@[%s], desc)" % (D, OS, I, FS, I)),
    ])


# ----------------------------------------------------------------------------------------------------------------------
# Plan::update_psbt_input
# ----------------------------------------------------------------------------------------------------------------------
SATMOD = "src/miniscript/satisfy/mod.rs"
PLAN_SPEC = r"""
// ---- Plan::update_psbt_input: "This will only add the metadata for items required to complete this plan" ---------------------
// the keys the plan needs an ECDSA signature from, in template order
spec fn sig_keys(t: Seq<Placeholder<DefiniteDescriptorKey>>) -> Seq<DefiniteDescriptorKey>
    decreases t.len()
{
    if t.len() == 0 { Seq::<DefiniteDescriptorKey>::empty() }
    else { let r = sig_keys(t.drop_last()); match t.last() { Placeholder::EcdsaSigPk(pk) => r.push(pk), _ => r } }
}
spec fn input_kept_except_scripts_and_bip32(a: Input, b: Input) -> bool {
%(frame)s
}
#[verifier::external_body]
fn plan_update_taproot_excluded(plan: &Plan<DefiniteDescriptorKey>, tr: &Tr<DefiniteDescriptorKey>, input: &mut Input) { unimplemented!() }
"""


@rule("R9-taproot-branch")
def cut_plan_tr_branch(text):
    m = re.search(r"if let Descriptor::Tr\(tr\) = &self\.descriptor\s*\{", text)
    if not m:
        return None
    cl = match_close(text, m.end() - 1)
    return text[:m.end()] + "\n            plan_update_taproot_excluded(self, tr, input);\n        " + text[cl:]


@rule("R10-plan-loops")
def plan_loops(text):
    """Ghost only: names for the two `for` iterators, their invariants, the snapshot of the map before the inner loop and the
    unfolding hints at the end of the outer loop body."""
    a = re.search(r"for item in &self\.template\s*\{", text)
    if not a:
        return None
    close = match_close(text, a.end() - 1)
    body = text[a.end():close]
    b = re.search(r"for derivation_path in pk\.full_derivation_paths\(\)\s*\{", body)
    if not b:
        return None
    inner = ("let ghost m0_ = input.bip32_derivation@;\n                    for derivation_path in it2_: pk.full_derivation_paths()\n"
             "                        invariant it2_.seq() == seq![pk.spec_full_path()], public_key == pk.spec_derive().inner, master_fingerprint == pk.spec_fingerprint(),\n"
             "                            input.bip32_derivation@ == (if it2_.index() == 0 { m0_ } else { m0_.insert(pk.spec_derive().inner, origin_of(*pk)) }),\n"
             "                            input_kept_except_scripts_and_bip32(*old(input), *input), input.redeem_script == old(input).redeem_script, input.witness_script == old(input).witness_script,\n"
             "                    {")
    body = body[:b.start()] + inner + body[b.end():]
    hint = ("    proof {\n                    let t1_ = self.template@.take(it_.index() + 1);\n"
            "                    assert(t1_.drop_last() =~= self.template@.take(it_.index() as int));\n"
            "                    assert(t1_.last() == self.template@[it_.index() as int]);\n"
            "                    if let Placeholder::EcdsaSigPk(k_) = t1_.last() {\n"
            "                        let r_ = sig_keys(t1_.drop_last());\n"
            "                        assert(r_.push(k_).drop_last() =~= r_);\n"
            "                    }\n                }\n            ")
    outer = ("for item in it_: &self.template\n"
             "                invariant it_.seq().len() == self.template@.len(), forall|j: int| 0 <= j < self.template@.len() ==> *#[trigger] it_.seq()[j] == self.template@[j],\n"
             "                    input.bip32_derivation@ == record_all(old(input).bip32_derivation@, sig_keys(self.template@.take(it_.index() as int))),\n"
             "                    input_kept_except_scripts_and_bip32(*old(input), *input), input.redeem_script == old(input).redeem_script, input.witness_script == old(input).witness_script,\n"
             "            {")
    tail = ("\n            proof {\n                assert(self.template@.take(self.template@.len() as int) =~= self.template@);\n"
            "                lemma_record_all(old(input).bip32_derivation@, sig_keys(self.template@));\n            }")
    return text[:a.start()] + outer + body + hint + "}" + tail + text[close + 1:]


def plan_contract():
    D = "self.descriptor"
    K = "sig_keys(self.template@)"
    NT = "!(%s is Tr)" % D
    FI, OI = "(*final(input))", "(*old(input))"
    sh = lambda v: "(%s matches Descriptor::Sh(s) && s.inner is %s)" % (D, v)
    return Contract(requires=[Clause("descriptor_type_invariant_wpkh_keys_compressed", (), "desc_keys_wf(%s)" % D)], ensures=[
        C("witness_script_recorded_iff_p2wsh", "%s ==> %s.witness_script == (if desc_witness_script(%s) is Some { desc_witness_script(%s) } else { %s.witness_script })" % (NT, FI, D, D, OI)),
        C("redeem_script_recorded_iff_p2sh", "%s ==> %s.redeem_script == (if %s is Sh { desc_redeem(%s) } else { %s.redeem_script })" % (NT, FI, D, D, OI)),
        C("wsh.witness_script_is_the_explicit_script", "%s is Wsh ==> %s.witness_script == Some(desc_explicit(%s))" % (D, FI, D)),
        C("sh_wsh.witness_script_is_the_explicit_script", "%s ==> %s.witness_script == Some(desc_explicit(%s))" % (sh("Wsh"), FI, D)),
        C("sh_wsh.redeem_script_is_the_p2wsh_program", "%s ==> %s.redeem_script == Some(P2WSH(desc_explicit(%s)))" % (sh("Wsh"), FI, D)),
        C("sh_wpkh.redeem_script_is_the_p2wpkh_program", "(%s matches Descriptor::Sh(s) ==> (s.inner matches ShInner::Wpkh(w) ==> %s.redeem_script == Some(P2WPKH(w.pk.spec_derive()))))" % (D, FI)),
        C("sh_ms.redeem_script_is_the_explicit_script", "%s ==> %s.redeem_script == Some(desc_explicit(%s)) && %s.witness_script == %s.witness_script" % (sh("Ms"), FI, D, FI, OI)),
        C("redeem_script_hashes_to_the_script_pubkey", "%s is Sh ==> P2SH(%s.redeem_script->Some_0) == desc_spk(%s)" % (D, FI, D), ("C14", "C16")),
        C("witness_script_hashes_to_the_witness_program", "%s && desc_witness_script(%s) is Some ==> P2WSH(%s.witness_script->Some_0) == (if %s is Sh { %s.redeem_script->Some_0 } else { desc_spk(%s) })" % (NT, D, FI, D, FI, D), ("C14", "C16")),
        C("bip32.every_signing_key_recorded_under_its_derived_public_key", "%s ==> every_key_recorded(%s.bip32_derivation@, %s)" % (NT, FI, K)),
        C("bip32.value_is_fingerprint_and_full_path_of_a_key_deriving_to_it", "%s ==> origins_recorded(%s.bip32_derivation@, %s)" % (NT, FI, K)),
        C("bip32.no_other_entry_added_or_changed", "%s ==> others_kept(%s.bip32_derivation@, %s.bip32_derivation@, %s)" % (NT, OI, FI, K)),
        C("nothing_but_scripts_and_key_origins_written", "%s ==> input_kept_except_scripts_and_bip32(%s, %s)" % (NT, OI, FI)),
    ])


# ----------------------------------------------------------------------------------------------------------------------
# the taproot branch of update_item_with_descriptor_helper
# ----------------------------------------------------------------------------------------------------------------------
TR_PRELUDE = r"""
// ---- taproot spend data of a derived tr() descriptor: uninterpreted functions of the descriptor (C15 decides the hashes) ------
pub struct Tap { pub never: u8 }
impl ScriptContext for Tap {}
pub uninterp spec fn xonly_of(k: secp256k1::PublicKey) -> XOnlyPublicKey;          // BIP340: the x coordinate
impl secp256k1::PublicKey {
    // `impl ToPublicKey for secp256k1::PublicKey` + the trait's default to_x_only_pubkey (src/lib.rs)
    #[verifier::external_body] pub fn to_x_only_pubkey(&self) -> (r: XOnlyPublicKey) ensures r == xonly_of(*self) { unimplemented!() }
}
impl PublicKey {
    // the trait's default body: XOnlyPublicKey::from(self.to_public_key().inner)
    #[verifier::external_body] pub fn to_x_only_pubkey(&self) -> (r: XOnlyPublicKey) ensures r == xonly_of(self.inner) { unimplemented!() }
}
impl Clone for ControlBlock {
    #[verifier::external_body] fn clone(&self) -> (r: ControlBlock) ensures r == *self { unimplemented!() }
}
impl ScriptBuf {
    // `impl From<&Script> for ScriptBuf`: an owned copy
    #[verifier::external_body] pub fn from(s: &ScriptBuf) -> (r: ScriptBuf) ensures r == *s { unimplemented!() }
}
// one leaf of the script tree as the spend info presents it
pub ghost struct LeafView { pub script: ScriptBuf, pub version: LeafVersion, pub leaf_hash: TapLeafHash, pub control_block: ControlBlock, pub keys: Seq<PublicKey> }
pub struct TrSpendInfo<Pk> { pub opaque: u64, pub phantom: PhantomData<Pk> }
pub struct TrSpendInfoIter<'sp, Pk> { pub si: &'sp TrSpendInfo<Pk> }
pub struct TrSpendInfoIterItem<'sp, Pk> { pub opaque: u64, pub phantom: PhantomData<&'sp Pk> }
pub struct PkIter<'a, Pk: MiniscriptKey, Ctx: ScriptContext> { pub ms: &'a Miniscript<Pk, Ctx> }
impl<Pk> TrSpendInfo<Pk> {
    pub uninterp spec fn spec_internal_key(&self) -> XOnlyPublicKey;
    pub uninterp spec fn spec_merkle_root(&self) -> Option<TapNodeHash>;
    pub uninterp spec fn spec_leaves(&self) -> Seq<LeafView>;
    pub uninterp spec fn spec_tap_tree(&self) -> Option<TapTree>;
    #[verifier::external_body] pub fn internal_key(&self) -> (r: XOnlyPublicKey) ensures r == self.spec_internal_key() { unimplemented!() }
    #[verifier::external_body] pub fn merkle_root(&self) -> (r: Option<TapNodeHash>) ensures r == self.spec_merkle_root() { unimplemented!() }
    #[verifier::external_body] pub fn to_tap_tree(&self) -> (r: Option<TapTree>) ensures r == self.spec_tap_tree() { unimplemented!() }
    #[verifier::external_body] pub fn leaves<'sp>(&'sp self) -> (r: TrSpendInfoIter<'sp, Pk>) ensures r.si == self { unimplemented!() }
}
impl<'sp, Pk: MiniscriptKey> TrSpendInfoIterItem<'sp, Pk> {
    pub uninterp spec fn view(&self) -> LeafView;
    pub uninterp spec fn spec_ms(&self) -> Miniscript<Pk, Tap>;
    #[verifier::external_body] pub fn script(&self) -> (r: &'sp ScriptBuf) ensures *r == self.view().script { unimplemented!() }
    #[verifier::external_body] pub fn leaf_version(&self) -> (r: LeafVersion) ensures r == self.view().version { unimplemented!() }
    #[verifier::external_body] pub fn leaf_hash(&self) -> (r: TapLeafHash) ensures r == self.view().leaf_hash { unimplemented!() }
    #[verifier::external_body] pub fn control_block(&self) -> (r: &ControlBlock) ensures *r == self.view().control_block { unimplemented!() }
    #[verifier::external_body] pub fn miniscript(&self) -> (r: &'sp Arc<Miniscript<Pk, Tap>>) ensures **r == self.spec_ms() { unimplemented!() }
}
impl<Pk: MiniscriptKey, Ctx: ScriptContext> Miniscript<Pk, Ctx> {
    #[verifier::external_body] pub fn iter_pk<'a>(&'a self) -> (r: PkIter<'a, Pk, Ctx>) ensures r.ms == self { unimplemented!() }
}
// `for leaf in spend_info.leaves()`: the leaves left to right (TrSpendInfoIter::next)
#[verifier::external_body]
pub fn tr_leaves_as_vec<'sp, Pk: MiniscriptKey>(it: TrSpendInfoIter<'sp, Pk>) -> (r: Vec<TrSpendInfoIterItem<'sp, Pk>>)
    ensures r@.len() == it.si.spec_leaves().len(), forall|l: int| 0 <= l < r@.len() ==> (#[trigger] r@[l]).view() == it.si.spec_leaves()[l],
{ unimplemented!() }
pub uninterp spec fn tap_ms_keys(ms: Miniscript<PublicKey, Tap>) -> Seq<PublicKey>;
// `for pk in ms.iter_pk()`: the keys of the miniscript (clones), in iteration order
#[verifier::external_body]
pub fn pk_iter_as_vec<'a>(it: PkIter<'a, PublicKey, Tap>) -> (r: Vec<PublicKey>) ensures r@ == tap_ms_keys(*it.ms) { unimplemented!() }
// `for (k, v) in map` (BTreeMap::into_iter): every entry once, ascending in k
#[verifier::external_body]
pub fn btree_into_vec<K, V>(m: BTreeMap<K, V>) -> (r: Vec<(K, V)>)
    ensures forall|j: int| 0 <= j < r@.len() ==> m@.contains_key((#[trigger] r@[j]).0) && m@[r@[j].0] == r@[j].1,
            forall|k: K| m@.contains_key(k) ==> exists|j: int| 0 <= j < r@.len() && (#[trigger] r@[j]).0 == k,
{ unimplemented!() }
// Vec<TapLeafHash>::sort / dedup (TapLeafHash: Ord is the byte order of the hash; uninterpreted total order)
pub uninterp spec fn leaf_hash_le(a: TapLeafHash, b: TapLeafHash) -> bool;
pub open spec fn strictly_sorted(s: Seq<TapLeafHash>) -> bool { forall|a: int, b: int| 0 <= a < b < s.len() ==> leaf_hash_le(s[a], s[b]) && s[a] != s[b] }
pub open spec fn weakly_sorted(s: Seq<TapLeafHash>) -> bool { forall|a: int, b: int| 0 <= a < b < s.len() ==> leaf_hash_le(s[a], s[b]) }
#[verifier::external_body]
pub fn vec_sort(v: &mut Vec<TapLeafHash>)
    ensures weakly_sorted(final(v)@), forall|h: TapLeafHash| final(v)@.contains(h) <==> old(v)@.contains(h),
{ unimplemented!() }
// "Removes consecutive repeated elements": on a sorted vector no two equal elements remain
#[verifier::external_body]
pub fn vec_dedup(v: &mut Vec<TapLeafHash>)
    ensures weakly_sorted(old(v)@) ==> strictly_sorted(final(v)@), forall|h: TapLeafHash| final(v)@.contains(h) <==> old(v)@.contains(h),
{ unimplemented!() }
"""

TR_SPEC = r"""
impl Tr<PublicKey> {
    uninterp spec fn spec_spend_info(&self) -> TrSpendInfo<PublicKey>;
    #[verifier::external_body]
    fn spend_info(&self) -> (r: Arc<TrSpendInfo<PublicKey>>) ensures *r == self.spec_spend_info() { unimplemented!() }
}
// the keys of a leaf, as the spend info's view and as the leaf's miniscript iterates them, are the same thing
#[verifier::external_body]
proof fn axiom_leaf_keys<'sp>(it: TrSpendInfoIterItem<'sp, PublicKey>)
    ensures tap_ms_keys(it.spec_ms()) == it.view().keys,
{}
// every key of a leaf of the DERIVED descriptor is the derivation of a key of the descriptor (C20: translate_pk maps key by key)
spec fn leaf_keys_derived(leaves: Seq<LeafView>, keys: Seq<DefiniteDescriptorKey>) -> bool {
    forall|l: int, j: int| 0 <= l < leaves.len() && 0 <= j < leaves[l].keys.len() ==> exists|i: int| 0 <= i < keys.len() && (#[trigger] keys[i]).spec_derive() == #[trigger] leaves[l].keys[j]
}
#[verifier::external_body]
proof fn axiom_leaf_keys_derived(d: Descriptor<DefiniteDescriptorKey>)
    ensures derived_desc(d) matches Descriptor::Tr(t) ==> leaf_keys_derived(t.spec_spend_info().spec_leaves(), desc_keys(d)),
{}

// ---- maps built by successive inserts over a base map (generic bookkeeping) -------------------------------------------------
spec fn hit<K>(ks: Seq<K>, n: int, j: int, k: K) -> bool { 0 <= j < n && ks[j] == k }
spec fn ins_inv<K, V>(base: Map<K, V>, m: Map<K, V>, ks: Seq<K>, vs: Seq<V>, n: int) -> bool {
    &&& forall|j: int| 0 <= j < n ==> m.contains_key(#[trigger] ks[j])
    &&& forall|k: K| (exists|j: int| hit(ks, n, j, k)) ==> #[trigger] m.contains_key(k) && exists|j: int| hit(ks, n, j, k) && m[k] == vs[j]
    &&& forall|k: K| !(exists|j: int| hit(ks, n, j, k)) ==> (#[trigger] m.contains_key(k) <==> base.contains_key(k)) && (base.contains_key(k) ==> m[k] == base[k])
}
proof fn lemma_ins_step<K, V>(base: Map<K, V>, m: Map<K, V>, ks: Seq<K>, vs: Seq<V>, n: int)
    requires ins_inv(base, m, ks, vs, n), 0 <= n < ks.len(), ks.len() == vs.len(),
    ensures ins_inv(base, m.insert(ks[n], vs[n]), ks, vs, n + 1),
{
    let m2 = m.insert(ks[n], vs[n]);
    let n1 = n + 1;
    assert forall|j: int| 0 <= j < n1 implies m2.contains_key(#[trigger] ks[j]) by {}
    assert forall|k: K| (exists|j: int| hit(ks, n1, j, k)) implies #[trigger] m2.contains_key(k) && exists|j: int| hit(ks, n1, j, k) && m2[k] == vs[j] by {
        if ks[n] == k { assert(hit(ks, n1, n, k)); }
        else {
            let j = choose|j: int| hit(ks, n1, j, k);
            assert(hit(ks, n, j, k));
            let j2 = choose|j2: int| hit(ks, n, j2, k) && m[k] == vs[j2];
            assert(hit(ks, n1, j2, k) && m2[k] == vs[j2]);
        }
    }
    assert forall|k: K| !(exists|j: int| hit(ks, n1, j, k)) implies (#[trigger] m2.contains_key(k) <==> base.contains_key(k)) && (base.contains_key(k) ==> m2[k] == base[k]) by {
        assert(!hit(ks, n1, n, k));
        assert forall|j: int| !hit(ks, n, j, k) by { if hit(ks, n, j, k) { assert(hit(ks, n1, j, k)); } }
    }
}

// ---- oracle: BIP371 taproot fields ---------------------------------------------------------------------------------------------
type Tko = Map<XOnlyPublicKey, (Vec<TapLeafHash>, bip32::KeySource)>;
type Ts = Map<ControlBlock, (ScriptBuf, LeafVersion)>;
spec fn xkey_of(k: DefiniteDescriptorKey) -> XOnlyPublicKey { xonly_of(k.spec_derive().inner) }
spec fn is_desc_xkey(keys: Seq<DefiniteDescriptorKey>, i: int, x: XOnlyPublicKey) -> bool { 0 <= i < keys.len() && xkey_of(keys[i]) == x }
spec fn in_leaf_upto(lf: LeafView, kn: int, x: XOnlyPublicKey) -> bool { exists|j: int| 0 <= j < kn && j < lf.keys.len() && xonly_of((#[trigger] lf.keys[j]).inner) == x }
// BIP371: "the leaf hashes [...] of the leaves this key is involved in"
spec fn in_leaf_with_hash(leaves: Seq<LeafView>, ln: int, l: int, x: XOnlyPublicKey, h: TapLeafHash) -> bool {
    0 <= l < ln && l < leaves.len() && leaves[l].leaf_hash == h && in_leaf_upto(leaves[l], leaves[l].keys.len() as int, x)
}
spec fn has_hash(leaves: Seq<LeafView>, ln: int, x: XOnlyPublicKey, h: TapLeafHash) -> bool { exists|l: int| in_leaf_with_hash(leaves, ln, l, x, h) }
spec fn leaf_at_cb(leaves: Seq<LeafView>, ln: int, l: int, cb: ControlBlock) -> bool { 0 <= l < ln && l < leaves.len() && leaves[l].control_block == cb }

// PSBT_{IN,OUT}_TAP_BIP32_DERIVATION: <x-only key> -> (leaf hashes, master fingerprint, derivation path)
spec fn tko_every_key_recorded(t: Tko, keys: Seq<DefiniteDescriptorKey>) -> bool { forall|i: int| 0 <= i < keys.len() ==> t.contains_key(xkey_of(#[trigger] keys[i])) }
spec fn tko_origins(t: Tko, keys: Seq<DefiniteDescriptorKey>) -> bool {
    forall|x: XOnlyPublicKey| (exists|i: int| is_desc_xkey(keys, i, x)) ==> #[trigger] t.contains_key(x) && exists|i: int| is_desc_xkey(keys, i, x) && t[x].1 == origin_of(keys[i])
}
spec fn tko_leaf_hashes(t: Tko, keys: Seq<DefiniteDescriptorKey>, leaves: Seq<LeafView>) -> bool {
    forall|x: XOnlyPublicKey, h: TapLeafHash| (exists|i: int| is_desc_xkey(keys, i, x)) ==> (#[trigger] t[x].0@.contains(h) <==> has_hash(leaves, leaves.len() as int, x, h))
}
// "The internal key does not have leaf hashes": a key that occurs in no leaf has the empty list
spec fn tko_keys_outside_leaves_have_no_hashes(t: Tko, keys: Seq<DefiniteDescriptorKey>, leaves: Seq<LeafView>) -> bool {
    forall|x: XOnlyPublicKey| (exists|i: int| is_desc_xkey(keys, i, x)) && (forall|l: int| 0 <= l < leaves.len() ==> !in_leaf_upto(#[trigger] leaves[l], leaves[l].keys.len() as int, x)) ==> (#[trigger] t[x]).0@.len() == 0
}
spec fn tko_sorted_without_duplicates(t: Tko) -> bool { forall|x: XOnlyPublicKey| #[trigger] t.contains_key(x) ==> strictly_sorted(t[x].0@) }
spec fn tko_others_kept(t0: Tko, t: Tko, keys: Seq<DefiniteDescriptorKey>) -> bool {
    forall|x: XOnlyPublicKey| !(exists|i: int| is_desc_xkey(keys, i, x)) ==> (#[trigger] t.contains_key(x) <==> t0.contains_key(x))
        && (t0.contains_key(x) ==> t[x].1 == t0[x].1 && forall|h: TapLeafHash| t[x].0@.contains(h) <==> t0[x].0@.contains(h))
}
// PSBT_IN_TAP_LEAF_SCRIPT: <control block> -> <script> <leaf version>, one entry per leaf
spec fn ts_every_leaf(ts: Ts, leaves: Seq<LeafView>) -> bool {
    forall|l: int| 0 <= l < leaves.len() ==> ts.contains_key((#[trigger] leaves[l]).control_block)
        && exists|l2: int| leaf_at_cb(leaves, leaves.len() as int, l2, leaves[l].control_block) && ts[leaves[l].control_block] == (leaves[l2].script, leaves[l2].version)
}
spec fn ts_others_kept(ts0: Ts, ts: Ts, leaves: Seq<LeafView>) -> bool {
    forall|cb: ControlBlock| !(exists|l: int| leaf_at_cb(leaves, leaves.len() as int, l, cb)) ==> (#[trigger] ts.contains_key(cb) <==> ts0.contains_key(cb)) && (ts0.contains_key(cb) ==> ts[cb] == ts0[cb])
}

// ---- loop invariants --------------------------------------------------------------------------------------------------------------
type Ent = (secp256k1::PublicKey, bip32::KeySource);
spec fn ent_x(es: Seq<Ent>) -> Seq<XOnlyPublicKey> { Seq::new(es.len(), |j: int| xonly_of(es[j].0)) }
spec fn is_new(es: Seq<Ent>, x: XOnlyPublicKey) -> bool { exists|j: int| hit(ent_x(es), es.len() as int, j, x) }
// loop 1 (one entry per recorded key): x-only key -> (no leaf hashes yet, origin)
spec fn l1_inv(t0: Tko, t: Tko, es: Seq<Ent>, n: int) -> bool {
    &&& forall|j: int| 0 <= j < n ==> t.contains_key(#[trigger] ent_x(es)[j])
    &&& forall|x: XOnlyPublicKey| (exists|j: int| hit(ent_x(es), n, j, x)) ==> #[trigger] t.contains_key(x) && t[x].0@.len() == 0 && exists|j: int| hit(ent_x(es), n, j, x) && t[x].1 == es[j].1
    &&& forall|x: XOnlyPublicKey| !(exists|j: int| hit(ent_x(es), n, j, x)) ==> (#[trigger] t.contains_key(x) <==> t0.contains_key(x)) && (t0.contains_key(x) ==> t[x] == t0[x])
}
proof fn lemma_l1_step(t0: Tko, t: Tko, es: Seq<Ent>, n: int, v: (Vec<TapLeafHash>, bip32::KeySource))
    requires l1_inv(t0, t, es, n), 0 <= n < es.len(), v.0@.len() == 0, v.1 == es[n].1,
    ensures l1_inv(t0, t.insert(xonly_of(es[n].0), v), es, n + 1),
{
    let xs = ent_x(es);
    let t2 = t.insert(xs[n], v);
    let n1 = n + 1;
    assert forall|j: int| 0 <= j < n1 implies t2.contains_key(#[trigger] xs[j]) by {}
    assert forall|x: XOnlyPublicKey| (exists|j: int| hit(xs, n1, j, x)) implies #[trigger] t2.contains_key(x) && t2[x].0@.len() == 0 && exists|j: int| hit(xs, n1, j, x) && t2[x].1 == es[j].1 by {
        if xs[n] == x { assert(hit(xs, n1, n, x)); }
        else {
            let j = choose|j: int| hit(xs, n1, j, x);
            assert(hit(xs, n, j, x));
            let j2 = choose|j2: int| hit(xs, n, j2, x) && t[x].1 == es[j2].1;
            assert(hit(xs, n1, j2, x) && t2[x].1 == es[j2].1);
        }
    }
    assert forall|x: XOnlyPublicKey| !(exists|j: int| hit(xs, n1, j, x)) implies (#[trigger] t2.contains_key(x) <==> t0.contains_key(x)) && (t0.contains_key(x) ==> t2[x] == t0[x]) by {
        assert(!hit(xs, n1, n, x));
        assert forall|j: int| !hit(xs, n, j, x) by { if hit(xs, n, j, x) { assert(hit(xs, n1, j, x)); } }
    }
}
// loops 2 / 3 (leaves, keys of a leaf): the hashes collected so far for the new keys; everything else as after loop 1
spec fn l2_inv(t1: Tko, t: Tko, es: Seq<Ent>, leaves: Seq<LeafView>, ln: int, kn: int) -> bool {
    &&& forall|x: XOnlyPublicKey| #[trigger] t.contains_key(x) <==> t1.contains_key(x)
    &&& forall|x: XOnlyPublicKey| #[trigger] t.contains_key(x) ==> t[x].1 == t1[x].1
    &&& forall|x: XOnlyPublicKey| t1.contains_key(x) && !is_new(es, x) ==> #[trigger] t[x] == t1[x]
    &&& forall|x: XOnlyPublicKey, h: TapLeafHash| is_new(es, x) ==> (#[trigger] t[x].0@.contains(h) <==>
            has_hash(leaves, ln, x, h) || (0 <= ln < leaves.len() && h == leaves[ln].leaf_hash && in_leaf_upto(leaves[ln], kn, x)))
}
proof fn lemma_push_contains<T>(s: Seq<T>, a: T)
    ensures forall|h: T| s.push(a).contains(h) <==> s.contains(h) || h == a,
{
    assert forall|h: T| s.push(a).contains(h) <==> s.contains(h) || h == a by {
        if s.contains(h) { let i = choose|i: int| 0 <= i < s.len() && s[i] == h; assert(s.push(a)[i] == h); }
        if h == a { assert(s.push(a)[s.len() as int] == h); }
        if s.push(a).contains(h) { let i = choose|i: int| 0 <= i < s.push(a).len() && s.push(a)[i] == h; if i < s.len() { assert(s[i] == h); } }
    }
}
proof fn lemma_l2_key_step(t1: Tko, t: Tko, es: Seq<Ent>, leaves: Seq<LeafView>, ln: int, kn: int, v: (Vec<TapLeafHash>, bip32::KeySource))
    requires
        l2_inv(t1, t, es, leaves, ln, kn), 0 <= ln < leaves.len(), 0 <= kn < leaves[ln].keys.len(),
        ({ let xk = xonly_of(leaves[ln].keys[kn].inner);
           is_new(es, xk) && t.contains_key(xk) && v.1 == t[xk].1 && forall|h: TapLeafHash| v.0@.contains(h) <==> t[xk].0@.contains(h) || h == leaves[ln].leaf_hash }),
    ensures l2_inv(t1, t.insert(xonly_of(leaves[ln].keys[kn].inner), v), es, leaves, ln, kn + 1),
{
    let lf = leaves[ln];
    let xk = xonly_of(lf.keys[kn].inner);
    let t2 = t.insert(xk, v);
    assert forall|x: XOnlyPublicKey, h: TapLeafHash| is_new(es, x) implies (#[trigger] t2[x].0@.contains(h) <==>
            has_hash(leaves, ln, x, h) || (h == lf.leaf_hash && in_leaf_upto(lf, kn + 1, x))) by {
        if in_leaf_upto(lf, kn, x) { let j = choose|j: int| 0 <= j < kn && j < lf.keys.len() && xonly_of((#[trigger] lf.keys[j]).inner) == x; assert(0 <= j < kn + 1 && xonly_of(lf.keys[j].inner) == x); }
        if x == xk { assert(xonly_of(lf.keys[kn].inner) == x); }
        if in_leaf_upto(lf, kn + 1, x) {
            let j = choose|j: int| 0 <= j < kn + 1 && j < lf.keys.len() && xonly_of((#[trigger] lf.keys[j]).inner) == x;
            if j < kn { assert(xonly_of(lf.keys[j].inner) == x); } else { assert(x == xk); }
        }
    }
}
proof fn lemma_l2_leaf_done(t1: Tko, t: Tko, es: Seq<Ent>, leaves: Seq<LeafView>, ln: int)
    requires l2_inv(t1, t, es, leaves, ln, leaves[ln].keys.len() as int), 0 <= ln < leaves.len(),
    ensures l2_inv(t1, t, es, leaves, ln + 1, 0),
{
    let lf = leaves[ln];
    let ln1 = ln + 1;
    assert forall|x: XOnlyPublicKey, h: TapLeafHash| is_new(es, x) implies (#[trigger] t[x].0@.contains(h) <==>
            has_hash(leaves, ln1, x, h) || (0 <= ln1 < leaves.len() && h == leaves[ln1].leaf_hash && in_leaf_upto(leaves[ln1], 0, x))) by {
        if has_hash(leaves, ln, x, h) { let l = choose|l: int| in_leaf_with_hash(leaves, ln, l, x, h); assert(in_leaf_with_hash(leaves, ln1, l, x, h)); }
        if h == lf.leaf_hash && in_leaf_upto(lf, lf.keys.len() as int, x) { assert(in_leaf_with_hash(leaves, ln1, ln, x, h)); }
        if has_hash(leaves, ln1, x, h) {
            let l = choose|l: int| in_leaf_with_hash(leaves, ln1, l, x, h);
            if l < ln { assert(in_leaf_with_hash(leaves, ln, l, x, h)); }
        }
    }
}
// the script map: one entry per leaf visited
spec fn ts_inv(ts0: Option<Ts>, ts: Option<Ts>, leaves: Seq<LeafView>, ln: int) -> bool {
    &&& ts0 is Some <==> ts is Some
    &&& ts is Some ==> ins_inv(ts0->Some_0, ts->Some_0, Seq::new(leaves.len(), |l: int| leaves[l].control_block), Seq::new(leaves.len(), |l: int| (leaves[l].script, leaves[l].version)), ln)
}
// the step of loop 4 (`for (hashes, _) in map.values_mut() { hashes.sort(); hashes.dedup(); }`), as a relation on one value
spec fn sort_dedup_post(a: Seq<TapLeafHash>, b: Seq<TapLeafHash>) -> bool { strictly_sorted(b) && forall|h: TapLeafHash| b.contains(h) <==> a.contains(h) }
// BTreeMap::values_mut visits every value once: each value's hash list is related to its old one by the step, nothing else changes
#[verifier::external_body]
fn btree_values_mut_sort_dedup(m: &mut BTreeMap<XOnlyPublicKey, (Vec<TapLeafHash>, bip32::KeySource)>)
    ensures forall|x: XOnlyPublicKey| #[trigger] final(m)@.contains_key(x) <==> old(m)@.contains_key(x),
            forall|x: XOnlyPublicKey| #[trigger] final(m)@.contains_key(x) ==> final(m)@[x].1 == old(m)@[x].1 && sort_dedup_post(old(m)@[x].0@, final(m)@[x].0@),
{ unimplemented!() }

// from the loop invariants to the BIP371 statements
proof fn lemma_tr_final(t0: Tko, t1: Tko, t2: Tko, t3: Tko, es: Seq<Ent>, xpub: Map<secp256k1::PublicKey, bip32::KeySource>, keys: Seq<DefiniteDescriptorKey>, leaves: Seq<LeafView>)
    requires
        xpub == record_all(Map::empty(), keys),
        forall|j: int| 0 <= j < es.len() ==> xpub.contains_key((#[trigger] es[j]).0) && xpub[es[j].0] == es[j].1,
        forall|k: secp256k1::PublicKey| xpub.contains_key(k) ==> exists|j: int| 0 <= j < es.len() && (#[trigger] es[j]).0 == k,
        l1_inv(t0, t1, es, es.len() as int),
        l2_inv(t1, t2, es, leaves, leaves.len() as int, 0),
        forall|x: XOnlyPublicKey| #[trigger] t3.contains_key(x) <==> t2.contains_key(x),
        forall|x: XOnlyPublicKey| #[trigger] t3.contains_key(x) ==> t3[x].1 == t2[x].1 && sort_dedup_post(t2[x].0@, t3[x].0@),
    ensures
        tko_every_key_recorded(t3, keys), tko_origins(t3, keys), tko_leaf_hashes(t3, keys, leaves), tko_keys_outside_leaves_have_no_hashes(t3, keys, leaves),
        tko_sorted_without_duplicates(t3), tko_others_kept(t0, t3, keys),
{
    lemma_record_all(Map::empty(), keys);
    let xs = ent_x(es);
    let n = es.len() as int;
    // a descriptor x-only key is a new key and vice versa
    assert forall|x: XOnlyPublicKey| (exists|i: int| is_desc_xkey(keys, i, x)) <==> is_new(es, x) by {
        if exists|i: int| is_desc_xkey(keys, i, x) {
            let i = choose|i: int| is_desc_xkey(keys, i, x);
            let pk = keys[i].spec_derive().inner;
            assert(xpub.contains_key(pk));
            let j = choose|j: int| 0 <= j < es.len() && (#[trigger] es[j]).0 == pk;
            assert(hit(xs, n, j, x));
        }
        if is_new(es, x) {
            let j = choose|j: int| hit(xs, n, j, x);
            let pk = es[j].0;
            assert(xpub.contains_key(pk));
            if !(exists|i: int| derives_to(keys, i, pk)) { assert(xpub.contains_key(pk) <==> Map::<secp256k1::PublicKey, bip32::KeySource>::empty().contains_key(pk)); }
            let i = choose|i: int| derives_to(keys, i, pk);
            assert(is_desc_xkey(keys, i, x));
        }
    }
    assert forall|i: int| 0 <= i < keys.len() implies t3.contains_key(xkey_of(#[trigger] keys[i])) by {
        assert(is_desc_xkey(keys, i, xkey_of(keys[i])));
        assert(is_new(es, xkey_of(keys[i])));
        let j = choose|j: int| hit(xs, n, j, xkey_of(keys[i]));
        assert(t1.contains_key(xs[j]));
    }
    assert forall|x: XOnlyPublicKey| (exists|i: int| is_desc_xkey(keys, i, x)) implies #[trigger] t3.contains_key(x) && exists|i: int| is_desc_xkey(keys, i, x) && t3[x].1 == origin_of(keys[i]) by {
        assert(is_new(es, x));
        assert(t1.contains_key(x));
        let j = choose|j: int| hit(xs, n, j, x) && t1[x].1 == es[j].1;
        let pk = es[j].0;
        assert(xpub.contains_key(pk) && xpub[pk] == es[j].1);
        if !(exists|i: int| derives_to(keys, i, pk)) { assert(xpub.contains_key(pk) <==> Map::<secp256k1::PublicKey, bip32::KeySource>::empty().contains_key(pk)); }
        let i = choose|i: int| derives_to(keys, i, pk) && xpub[pk] == origin_of(keys[i]);
        assert(is_desc_xkey(keys, i, x) && t3[x].1 == origin_of(keys[i]));
    }
    assert forall|x: XOnlyPublicKey, h: TapLeafHash| (exists|i: int| is_desc_xkey(keys, i, x)) implies (#[trigger] t3[x].0@.contains(h) <==> has_hash(leaves, leaves.len() as int, x, h)) by {
        assert(is_new(es, x));
        assert(t1.contains_key(x) && t2.contains_key(x) && t3.contains_key(x));
        assert(t2[x].0@.contains(h) <==> has_hash(leaves, leaves.len() as int, x, h));
    }
    assert forall|x: XOnlyPublicKey| (exists|i: int| is_desc_xkey(keys, i, x)) && (forall|l: int| 0 <= l < leaves.len() ==> !in_leaf_upto(#[trigger] leaves[l], leaves[l].keys.len() as int, x))
        implies (#[trigger] t3[x]).0@.len() == 0 by {
        let s = t3[x].0@;
        if s.len() > 0 {
            assert(s.contains(s[0]));
            assert(has_hash(leaves, leaves.len() as int, x, s[0]));
            let l = choose|l: int| in_leaf_with_hash(leaves, leaves.len() as int, l, x, s[0]);
            assert(in_leaf_upto(leaves[l], leaves[l].keys.len() as int, x));
        }
    }
    assert forall|x: XOnlyPublicKey| !(exists|i: int| is_desc_xkey(keys, i, x)) implies (#[trigger] t3.contains_key(x) <==> t0.contains_key(x))
        && (t0.contains_key(x) ==> t3[x].1 == t0[x].1 && forall|h: TapLeafHash| t3[x].0@.contains(h) <==> t0[x].0@.contains(h)) by {
        assert(!is_new(es, x));
        assert(t2.contains_key(x) <==> t1.contains_key(x));
        if t0.contains_key(x) {
            assert(t1.contains_key(x) && t1[x] == t0[x]);
            assert(t2.contains_key(x));
            assert(t2[x] == t1[x]);
            assert(t3.contains_key(x));
            assert(sort_dedup_post(t2[x].0@, t3[x].0@));
            assert forall|h: TapLeafHash| t3[x].0@.contains(h) <==> t0[x].0@.contains(h) by {}
        }
    }
}
"""

TR_SPEC2 = r"""
spec fn leaf_keys_new(es: Seq<Ent>, leaves: Seq<LeafView>) -> bool {
    forall|l: int, j: int| 0 <= l < leaves.len() && 0 <= j < leaves[l].keys.len() ==> is_new(es, xonly_of((#[trigger] leaves[l].keys[j]).inner))
}
proof fn lemma_leaf_keys_new(es: Seq<Ent>, xpub: Map<secp256k1::PublicKey, bip32::KeySource>, keys: Seq<DefiniteDescriptorKey>, leaves: Seq<LeafView>)
    requires
        xpub == record_all(Map::empty(), keys), leaf_keys_derived(leaves, keys),
        forall|k: secp256k1::PublicKey| xpub.contains_key(k) ==> exists|j: int| 0 <= j < es.len() && (#[trigger] es[j]).0 == k,
    ensures leaf_keys_new(es, leaves),
{
    lemma_record_all(Map::empty(), keys);
    assert forall|l: int, j: int| 0 <= l < leaves.len() && 0 <= j < leaves[l].keys.len() implies is_new(es, xonly_of((#[trigger] leaves[l].keys[j]).inner)) by {
        let i = choose|i: int| 0 <= i < keys.len() && (#[trigger] keys[i]).spec_derive() == leaves[l].keys[j];
        let pk = keys[i].spec_derive().inner;
        assert(xpub.contains_key(pk));
        let e = choose|e: int| 0 <= e < es.len() && (#[trigger] es[e]).0 == pk;
        assert(hit(ent_x(es), es.len() as int, e, xonly_of(pk)));
    }
}
spec fn views_kept_except_tko_ts<F: PsbtFields>(a: F, b: F) -> bool {
    b.v_rs() == a.v_rs() && b.v_ws() == a.v_ws() && b.v_bip32() == a.v_bip32() && b.v_prop() == a.v_prop() && b.v_unk() == a.v_unk()
        && b.v_tik() == a.v_tik() && b.v_tt() == a.v_tt() && b.v_tmr() == a.v_tmr()
}
spec fn leaf_cbs(leaves: Seq<LeafView>) -> Seq<ControlBlock> { Seq::new(leaves.len(), |l: int| leaves[l].control_block) }
spec fn leaf_scripts(leaves: Seq<LeafView>) -> Seq<(ScriptBuf, LeafVersion)> { Seq::new(leaves.len(), |l: int| (leaves[l].script, leaves[l].version)) }
proof fn lemma_ts_final(ts0: Ts, ts: Ts, leaves: Seq<LeafView>)
    requires ins_inv(ts0, ts, leaf_cbs(leaves), leaf_scripts(leaves), leaves.len() as int),
    ensures ts_every_leaf(ts, leaves), ts_others_kept(ts0, ts, leaves),
{
    let ks = leaf_cbs(leaves);
    let n = leaves.len() as int;
    assert forall|l: int| 0 <= l < leaves.len() implies ts.contains_key((#[trigger] leaves[l]).control_block)
        && exists|l2: int| leaf_at_cb(leaves, n, l2, leaves[l].control_block) && ts[leaves[l].control_block] == (leaves[l2].script, leaves[l2].version) by {
        let cb = leaves[l].control_block;
        assert(hit(ks, n, l, cb));
        let l2 = choose|l2: int| hit(ks, n, l2, cb) && ts[cb] == leaf_scripts(leaves)[l2];
        assert(leaf_at_cb(leaves, n, l2, cb) && ts[cb] == (leaves[l2].script, leaves[l2].version));
    }
    assert forall|cb: ControlBlock| !(exists|l: int| leaf_at_cb(leaves, n, l, cb)) implies (#[trigger] ts.contains_key(cb) <==> ts0.contains_key(cb)) && (ts0.contains_key(cb) ==> ts[cb] == ts0[cb]) by {
        assert forall|l: int| !hit(ks, n, l, cb) by { if hit(ks, n, l, cb) { assert(leaf_at_cb(leaves, n, l, cb)); } }
    }
}
"""


def _after(text, m_end, ins):
    return text[:m_end] + ins + text[m_end:]


@rule("R8/R10/R14-taproot-loops")
def tr_loops(text):
    """The taproot branch: the three `for` loops over BTreeMap::into_iter / TrSpendInfo::leaves / Miniscript::iter_pk iterate the
    vectors `btree_into_vec` / `tr_leaves_as_vec` / `pk_iter_as_vec` (R8; headers only, bodies verbatim) and carry invariants;
    the `values_mut` loop is replaced by `btree_values_mut_sort_dedup` whose per-value step is the loop body, lifted and
    verified separately (R14); everything else is ghost (R10) and mentions no local of the source text besides `item`,
    `descriptor`, `tr_derived`, `spend_info` and `xpub_map`.  Returns None when a loop header is missing."""
    FRAME = "views_kept_except_tko_ts(%s, *item)"
    # the destructuring of the recorder: ghost snapshots
    m = re.search(r"let KeySourceLookUp\(xpub_map, _\) = bip32_derivation;", text)
    if not m:
        return None
    text = _after(text, m.end(), """
        let ghost si_ = tr_derived.spec_spend_info();
        let ghost xpub_ = xpub_map@;
        let ghost keys_ = desc_keys(*descriptor);
        let ghost leaves_ = si_.spec_leaves();
        let ghost t0_ = item.v_tko();
        let ghost ts0_ = item.v_ts();
        proof { axiom_leaf_keys_derived(*descriptor); }""")
    # loop 1: for (k, v) in xpub_map
    m = re.search(r"for (\([^)]*\)) in xpub_map\s*\{", text)
    if not m:
        return None
    close = match_close(text, m.end() - 1)
    body = text[m.end():close]
    text = text[:m.start()] + """let entries_ = btree_into_vec(xpub_map);
        let ghost es_ = entries_@;
        proof { lemma_leaf_keys_new(es_, xpub_, keys_, leaves_); }
        let ghost snap1_ = *item;
        for %s in it1_: entries_
            invariant it1_.seq() == es_, l1_inv(t0_, item.v_tko(), es_, it1_.index() as int), %s, item.v_ts() == snap1_.v_ts(),
        {
            let ghost tb_ = item.v_tko();""" % (m.group(1), FRAME % "snap1_") + body + """    proof {
                let x_ = xonly_of(es_[it1_.index() as int].0);
                assert(item.v_tko() =~= tb_.insert(x_, item.v_tko()[x_]));
                lemma_l1_step(t0_, tb_, es_, it1_.index() as int, item.v_tko()[x_]);
            }
        }
        let ghost t1_ = item.v_tko();""" + text[close + 1:]
    # loop 2: for leaf in spend_info.leaves()
    m = re.search(r"for (\w+) in spend_info\.leaves\(\)\s*\{", text)
    if not m:
        return None
    leaf = m.group(1)
    text = text[:m.start()] + """let leaves_vec_ = tr_leaves_as_vec(spend_info.leaves());
        let ghost snap2_ = *item;
        let mut i2_: usize = 0;
        while i2_ < leaves_vec_.len()
            invariant
                i2_ <= leaves_vec_@.len(),
                l2_inv(t1_, item.v_tko(), es_, leaves_, i2_ as int, 0), //@@ tr.key_origins.leaf_hash_added_to_every_key_of_the_leaf
                ts_inv(ts0_, item.v_ts(), leaves_, i2_ as int), //@@ tr.tap_scripts.leaf_recorded_under_its_control_block
                %s,
            decreases leaves_vec_@.len() - i2_,
        {
            let %s = &leaves_vec_[i2_];
            i2_ += 1;
            let ghost ln_ = i2_ as int - 1;
            proof { axiom_leaf_keys(leaves_vec_@[ln_]); assert(leaves_vec_@[ln_].view() == leaves_[ln_]); }
            let ghost tsb_ = item.v_ts();
            proof { if tsb_ is Some { lemma_ins_step(ts0_->Some_0, tsb_->Some_0, leaf_cbs(leaves_), leaf_scripts(leaves_), ln_); } }""" % (FRAME % "snap2_", leaf) + text[m.end():]
    # loop 3: for pk in leaf.miniscript().iter_pk()   (+ the script-map step before it, the leaf-done step after it)
    m = re.search(r"for (\w+) in (%s\.miniscript\(\)\.iter_pk\(\))\s*\{" % re.escape(leaf), text)
    if not m:
        return None
    close = match_close(text, m.end() - 1)
    body = text[m.end():close]
    head = """proof {
                if tsb_ is Some { assert(item.v_ts()->Some_0 =~= tsb_->Some_0.insert(leaf_cbs(leaves_)[ln_], leaf_scripts(leaves_)[ln_])); }
            }
            let keys_vec_ = pk_iter_as_vec(%s);
            let mut i3_: usize = 0;
            while i3_ < keys_vec_.len()
                invariant
                    i3_ <= keys_vec_@.len(), keys_vec_@ == leaves_[ln_].keys,
                    l2_inv(t1_, item.v_tko(), es_, leaves_, ln_, i3_ as int), //@@ tr.key_origins.leaf_hash_added_to_every_key_of_the_leaf
                    ts_inv(ts0_, item.v_ts(), leaves_, ln_ + 1), //@@ tr.tap_scripts.leaf_recorded_under_its_control_block
                    %s,
                decreases keys_vec_@.len() - i3_,
            {
                let %s = keys_vec_[i3_];
                i3_ += 1;
                let ghost kn_ = i3_ as int - 1;
                let ghost tb_ = item.v_tko();
                let ghost xk_ = xonly_of(leaves_[ln_].keys[kn_].inner);
                let ghost h_ = leaves_[ln_].leaf_hash;
                proof {
                    assert(is_new(es_, xk_));
                    let j_ = choose|j_: int| hit(ent_x(es_), es_.len() as int, j_, xk_);
                    assert(t1_.contains_key(xk_));
                }""" % (m.group(2), FRAME % "snap2_", m.group(1))
    tail = """    proof {
                    let v_ = item.v_tko()[xk_];
                    let s0_ = tb_[xk_].0@;
                    assert(item.v_tko() =~= tb_.insert(xk_, v_));
                    assert(v_.1 == tb_[xk_].1);
                    if v_.0@ =~= s0_ {
                        assert(s0_.len() > 0 && s0_[s0_.len() - 1] == h_);
                        assert(s0_.contains(h_));
                    } else {
                        assert(v_.0@ =~= s0_.push(h_));
                        lemma_push_contains(s0_, h_);
                    }
                    lemma_l2_key_step(t1_, tb_, es_, leaves_, ln_, kn_, v_);
                }
            """
    text = text[:m.start()] + head + body + tail + "}\n            proof { lemma_l2_leaf_done(t1_, item.v_tko(), es_, leaves_, ln_); }" + text[close + 1:]
    # loop 4: for (hashes, _) in item.tap_key_origins().values_mut()
    m = re.search(r"for \((\w+), _\) in item\.tap_key_origins\(\)\.values_mut\(\)\s*\{", text)
    if not m:
        return None
    close = match_close(text, m.end() - 1)
    tr_loops.lifted = (m.group(1), text[m.end() - 1:close + 1])
    text = text[:m.start()] + "let ghost t2_ = item.v_tko();\n        btree_values_mut_sort_dedup(item.tap_key_origins());\n        let ghost t3_ = item.v_tko();" + text[close + 1:]
    # the end of the taproot branch
    m = re.search(r"if let Descriptor::Tr\(ref tr_derived\) = &derived\s*\{", text)
    if not m:
        return None
    close = match_close(text, m.end() - 1)
    text = text[:close] + """    proof {
            lemma_tr_final(t0_, t1_, t2_, t3_, es_, xpub_, keys_, leaves_);
            if ts0_ is Some { lemma_ts_final(ts0_->Some_0, item.v_ts()->Some_0, leaves_); }
        }
    """ + text[close:]
    return text


def _tr_recorded():
    SI = "(%s->Tr_0).spec_spend_info()" % D_
    LV = "%s.spec_leaves()" % SI
    T = "{F}.v_tko()"
    return [
        # BIP371 PSBT_{IN,OUT}_TAP_INTERNAL_KEY / PSBT_IN_TAP_MERKLE_ROOT / PSBT_OUT_TAP_TREE / PSBT_IN_TAP_LEAF_SCRIPT
        ("tr.tap_internal_key_is_the_descriptors_internal_key", "{F}.v_tik() == Some(%s.spec_internal_key())" % SI),
        ("tr.tap_merkle_root_is_the_spend_infos", "{F}.v_tmr() == (if {O}.v_tmr() is Some { Some(%s.spec_merkle_root()) } else { None::<Option<TapNodeHash>> })" % SI),
        ("tr.tap_tree_is_the_spend_infos", "{F}.v_tt() == (if {O}.v_tt() is Some { Some(%s.spec_tap_tree()) } else { None::<Option<TapTree>> })" % SI),
        ("tr.tap_scripts.every_leaf_under_its_control_block_with_script_and_version", "{O}.v_ts() is Some ==> {F}.v_ts() is Some && ts_every_leaf({F}.v_ts()->Some_0, %s)" % LV),
        ("tr.tap_scripts.no_other_entry_added_or_changed", "({O}.v_ts() is Some <==> {F}.v_ts() is Some) && ({O}.v_ts() is Some ==> ts_others_kept({O}.v_ts()->Some_0, {F}.v_ts()->Some_0, %s))" % LV),
        # PSBT_{IN,OUT}_TAP_BIP32_DERIVATION
        ("tr.key_origins.every_key_recorded_under_its_x_only_key", "tko_every_key_recorded(%s, %s)" % (T, K_)),
        ("tr.key_origins.value_is_fingerprint_and_full_path_of_a_key_with_that_x_only_key", "tko_origins(%s, %s)" % (T, K_)),
        ("tr.key_origins.leaf_hashes_are_exactly_the_leaves_the_key_appears_in", "tko_leaf_hashes(%s, %s, %s)" % (T, K_, LV)),
        ("tr.key_origins.key_outside_every_leaf_has_no_leaf_hashes", "tko_keys_outside_leaves_have_no_hashes(%s, %s, %s)" % (T, K_, LV)),
        ("tr.key_origins.leaf_hashes_sorted_without_duplicates", "tko_sorted_without_duplicates(%s)" % T),
        ("tr.key_origins.no_other_entry_added_or_changed", "tko_others_kept({O}.v_tko(), %s, %s)" % (T, K_)),
        ("tr.scripts_bip32_and_unknown_fields_untouched", "{F}.v_rs() == {O}.v_rs() && {F}.v_ws() == {O}.v_ws() && {F}.v_bip32() == {O}.v_bip32() && {F}.v_prop() == {O}.v_prop() && {F}.v_unk() == {O}.v_unk()"),
    ]


def recorded_tr_spec():
    body = "\n".join("    &&& (%s)" % _inst(t, "oi", "fi") for _, t in _tr_recorded())
    return ("// the conjunction of the helper's taproot clauses (what its callers pass on)\n"
            "spec fn recorded_tr<F: PsbtFields>(oi: F, fi: F, descriptor: &Descriptor<DefiniteDescriptorKey>) -> bool {\n%s\n}\n" % body)


def tr_clauses():
    OK = "r is Ok && r->Ok_0.1 && %s is Tr" % D_
    return [C(tag, "%s ==> (%s)" % (OK, _inst(t, "(*old(item))", "(*final(item))"))) for tag, t in _tr_recorded()] + [
        C("records_everything_taproot", "%s ==> recorded_tr(*old(item), *final(item), descriptor)" % OK, ())]


# ----------------------------------------------------------------------------------------------------------------------
# construct_tap_witness
# ----------------------------------------------------------------------------------------------------------------------
CTX = "src/miniscript/context.rs"
CTW_PRELUDE = r"""
// ---- what construct_tap_witness needs of the satisfier layer -------------------------------------------------------------------
impl MiniscriptKey for XOnlyPublicKey {}
pub uninterp spec fn pk_of_xonly(k: XOnlyPublicKey) -> PublicKey;
impl ToPublicKey for XOnlyPublicKey {
    open spec fn spec_pk(&self) -> PublicKey { pk_of_xonly(*self) }
    #[verifier::external_body] fn to_public_key(&self) -> (r: PublicKey) { unimplemented!() }
}
impl XOnlyPublicKey {
    // ToPublicKey::to_pubkeyhash (src/lib.rs): for Schnorr the HASH160 of the x-only serialization
    #[verifier::external_body]
    pub fn to_pubkeyhash(&self, sig_type: SigType) -> (r: hash160::Hash) ensures sig_type is Schnorr ==> r == ctx_key_hash(*self) { unimplemented!() }
}
impl taproot::Signature {
    pub uninterp spec fn ser(&self) -> Seq<u8>;               // 64 bytes (+ sighash byte)
    #[verifier::external_body] pub fn to_vec(&self) -> (r: Vec<u8>) ensures r@ == self.ser() { unimplemented!() }
}
impl ControlBlock {
    pub uninterp spec fn ser(&self) -> Seq<u8>;
    #[verifier::external_body] pub fn serialize(&self) -> (r: Vec<u8>) ensures r@ == self.ser() { unimplemented!() }
}
// util::witness_size: only used to pick the smallest candidate
#[verifier::external_body]
pub fn witness_size(wit: &Vec<Vec<u8>>) -> usize { unimplemented!() }
// `for (k, v) in &map`: every entry once
#[verifier::external_body]
pub fn btree_iter_as_vec<'a, K, V>(m: &'a BTreeMap<K, V>) -> (r: Vec<(&'a K, &'a V)>)
    ensures forall|j: int| 0 <= j < r@.len() ==> m@.contains_key(*(#[trigger] r@[j]).0) && m@[*r@[j].0] == *r@[j].1,
            forall|k: K| m@.contains_key(k) ==> exists|j: int| 0 <= j < r@.len() && *(#[trigger] r@[j]).0 == k,
{ unimplemented!() }
"""

CTW_SAT = r"""
pub open spec fn sat_input(s: PsbtInputSatisfier) -> Input { s.psbt.inputs@[s.index as int] }
impl<'psbt> PsbtInputSatisfier<'psbt> {
    // `impl Satisfier<Pk> for PsbtInputSatisfier` at Pk = XOnlyPublicKey; contracts = the clauses unit c14_psbt_satisfier proves for them
    #[verifier::external_body]
    pub fn lookup_tap_key_spend_sig(&self, pk: &XOnlyPublicKey) -> (r: Option<taproot::Signature>)
        requires (self.index as int) < self.psbt.inputs@.len(),
        ensures r is Some ==> sat_input(*self).tap_internal_key == Some(*pk) && r == sat_input(*self).tap_key_sig,
                sat_input(*self).tap_internal_key == Some(*pk) && sat_input(*self).tap_key_sig is Some ==> r is Some,
    { unimplemented!() }
    #[verifier::external_body]
    pub fn lookup_tap_control_block_map(&self) -> (r: Option<&BTreeMap<ControlBlock, (ScriptBuf, LeafVersion)>>)
        requires (self.index as int) < self.psbt.inputs@.len(),
        ensures r is Some && *r->Some_0 == sat_input(*self).tap_scripts,
    { unimplemented!() }
}
pub uninterp spec fn psbt_sat_ecdsa(s: PsbtInputSatisfier, pk: XOnlyPublicKey) -> Option<bitcoin::ecdsa::Signature>;
impl<'a, 'psbt> Satisfier<XOnlyPublicKey> for &'a PsbtInputSatisfier<'psbt> {
    open spec fn spec_ecdsa_sig(&self, pk: &XOnlyPublicKey) -> Option<bitcoin::ecdsa::Signature> { psbt_sat_ecdsa(**self, *pk) }
    #[verifier::external_body] fn lookup_ecdsa_sig(&self, pk: &XOnlyPublicKey) -> (r: Option<bitcoin::ecdsa::Signature>) { unimplemented!() }
}
"""

CTW_ORACLE = r"""
// ---- oracle: BIP341 witness of a taproot spend ----------------------------------------------------------------------------------
// key path: "the witness stack [is] a single element, the signature" -- made with the input's internal key (BIP371 PSBT_IN_TAP_KEY_SIG)
spec fn key_path_witness(inp: Input, w: Seq<Seq<u8>>) -> bool { inp.tap_internal_key is Some && inp.tap_key_sig is Some && w =~= seq![inp.tap_key_sig->Some_0.ser()] }
// script path: "<script inputs> <script> <control block>", the script being the leaf the control block commits to (BIP371
// PSBT_IN_TAP_LEAF_SCRIPT: control block -> script, leaf version), of the only leaf version with defined semantics (0xc0),
// and the script inputs a satisfaction of that script
spec fn leaf_witness(inp: Input, sat: &PsbtInputSatisfier, mall: bool, cb: ControlBlock, ms: Miniscript<XOnlyPublicKey, Tap>, w: Seq<Seq<u8>>) -> bool {
    &&& inp.tap_scripts@.contains_key(cb) && inp.tap_scripts@[cb].1 == LeafVersion::TapScript
    &&& ms.enc() == inp.tap_scripts@[cb].0
    &&& ms.sat(sat, mall) is Ok && w =~= ms.sat(sat, mall)->Ok_0.push(inp.tap_scripts@[cb].0.bytes()).push(cb.ser())
}
spec fn script_path_witness(inp: Input, sat: &PsbtInputSatisfier, mall: bool, w: Seq<Seq<u8>>) -> bool {
    exists|cb: ControlBlock, ms: Miniscript<XOnlyPublicKey, Tap>| leaf_witness(inp, sat, mall, cb, ms, w)
}
"""


@rule("R8-tap-script-loop")
def tap_script_loop(text):
    """`for (control_block, (script, ver)) in block_map { .. continue .. }` -> index `while` loop over btree_iter_as_vec(block_map),
    body verbatim (Verus' `for` has no `continue`); the invariant says every stored candidate is the BIP341 witness of a leaf."""
    m = re.search(r"for (\(\w+, \(\w+, \w+\)\)) in (\w+)\s*\{", text)
    if not m:
        return None
    head = ("let entries_ = btree_iter_as_vec(%s);\n        let mut i_: usize = 0;\n        while i_ < entries_.len()\n"
            "            invariant i_ <= entries_@.len(), map_consistent(map@), min_wit matches Some(w_) ==> script_path_witness(sat_input(*sat), sat, allow_mall, vv(w_)),\n"
            "            decreases entries_@.len() - i_,\n        {\n            let %s = entries_[i_];\n            i_ += 1;" % (m.group(2), m.group(1)))
    return text[:m.start()] + head + text[m.end():]


def ctw_contract():
    INP = "sat_input(*sat)"
    W = "vv(r->Ok_0)"
    return Contract(requires=[Clause("callers_checked_p2tr", (), "spk.spec_is_p2tr()"), Clause("index_in_input_maps", (), "(sat.index as int) < sat.psbt.inputs@.len()")], ensures=[
        C("bip341.ok_is_key_path_or_script_path_witness", "r is Ok ==> key_path_witness(%s, %s) || script_path_witness(%s, sat, allow_mall, %s)" % (INP, W, INP, W)),
        C("bip341.key_path_preferred_when_internal_key_signed", "%s.tap_internal_key is Some && %s.tap_key_sig is Some ==> r is Ok && key_path_witness(%s, %s)" % (INP, INP, INP, W)),
        C("bip341.script_path_only_without_key_path_signature", "r is Ok && !(%s.tap_internal_key is Some && %s.tap_key_sig is Some) ==> script_path_witness(%s, sat, allow_mall, %s)" % (INP, INP, INP, W)),
        C("failure_is_could_not_satisfy_tr", "r is Err ==> r->Err_0 is CouldNotSatisfyTr"),
    ])


DROPPED = [
    "c14_update: imported preludes (c16_wrappers.PRELUDE, the BTreeMap model of c14_psbt_satisfier.PRELUDE) are adapted textually: bitcoin::PublicKey gets its real fields {compressed, inner} and Copy / Eq, ScriptBuf gets Eq, crate::Error gets the ContextError variant, `mod bitcoin` re-exports the stand-ins",
    "c14_update: `&Script` parameters are `&ScriptBuf`; `*script_pubkey` (ScriptBuf deref'd to the unsized Script for `==` / `!=`) is written `script_pubkey` (R7: both compare the script bytes)",
    "c14_update: get_descriptor: the two nested `for` loops building the hash160 -> key map over `bip32_derivation.keys()` of all inputs are index loops over `btree_keys_as_vec` (R8, bodies verbatim); only the invariant needed downstream (every entry's key hashes to its index) is carried, not which keys are collected",
    "c14_update: get_descriptor: `.find(|&(&pk, _sig)| { .. })` -> `.find(|kv: &(&PublicKey, &Signature)| { let pk = *kv.0; .. })` with a ghost contract (R16 / R10); `X?` with an error conversion (crate::Error -> InputError) -> `q_err(X)?`, q_err being the verified desugaring `Err(e) => Err(From::from(e))` (R17: this Verus leaves the converted error unconstrained); `get_scriptpubkey`'s `.map(|utxo| ..)` closure gets a parameter type and an `ensures` (R10)",
    "c14_update: construct_tap_witness: `<PsbtInputSatisfier as Satisfier<XOnlyPublicKey>>::f(sat, ..)` -> `PsbtInputSatisfier::f(sat, ..)` (inherent stubs carrying the clauses c14_psbt_satisfier proves; R7); the hash -> x-only key loops as in get_descriptor (R8); `for (control_block, (script, ver)) in block_map { .. continue .. }` -> index `while` loop over btree_iter_as_vec (R8: Verus' `for` has no `continue`; body verbatim); which candidate is the smallest (witness_size, Option<usize> ordering) is not claimed; finalize_input_helper, interpreter_check, prevouts are out of this unit (c14_finalize)",
    "c14_update: trait impls are emitted as inherent methods where a precondition-free inherent form suffices (`Translator<DefiniteDescriptorKey> for KeySourceLookUp::pk` with Self::TargetPk / Self::Error written out, `PsbtExt for Psbt::update_{input,output}_with_descriptor`, `Psbt{Input,Output}Ext::update_with_descriptor_unchecked`); `impl PsbtFields for psbt::Input / Output` stay trait impls of the Verus rendering of the trait; the trait's default bodies (`tap_tree`, `tap_scripts`, `tap_merkle_root` -> None) are emitted into the impl that inherits them",
    "c14_update: `Descriptor::translate_pk` is consumed at T = KeySourceLookUp through a contract (structure rebuilt, `pk` called once per key in order: C20), DefiniteDescriptorKey's derivation / fingerprint / path are uninterpreted (c16_keys); `.map_err(UtxoUpdateError::DerivationError)` is eta-expanded (R12')",
    "c14_update: update_item_with_descriptor_helper, taproot branch: `for (k, v) in xpub_map` iterates the vector btree_into_vec (R8, header only), `for leaf in spend_info.leaves()` and `for pk in leaf.miniscript().iter_pk()` are index `while` loops over tr_leaves_as_vec / pk_iter_as_vec (R8: element bound first, index advanced, body verbatim -- so that a `continue` in the body is expressible; the leaf is bound by reference); `for (hashes, _) in item.tap_key_origins().values_mut() { hashes.sort(); hashes.dedup(); }` -> `btree_values_mut_sort_dedup(..)` with the body lifted into `sort_dedup_step` (`.sort()` / `.dedup()` -> vec_sort / vec_dedup) and verified against the per-value relation of the stub (R14 / R16); invariants and lemma calls are ghost (R10); `#[verifier::loop_isolation(false)]`",
    "c14_update: Plan::update_psbt_input: the taproot branch (local enum / struct definitions, `fold` with a state-capturing closure, BTreeMap entry API) is replaced by a stub with an arbitrary effect on the input (R9: nothing claimed for tr plans); the two `for` loops of the other branch keep their text and get ghost iterator names and invariants (R10); `Placeholder`'s associated hash types `Pk::Sha256` .. are written as the concrete hash types of DefiniteDescriptorKey (R7)",
    "c14_update: NOT decided here: that the recorded values are the right BYTES (hash160 / sha256 / taproot hashes, BIP32 derivation, script encoding are uninterpreted; C04 / C15 / C16 units), fields of psbt::Input / Output not reachable through PsbtFields are framed only for update_{input,output}_with_descriptor at the granularity `other inputs / outputs / globals unchanged`",
]


def build(repo):
    vf = VerusFile(NAME, repo)
    dep, ver = dep_repo(repo)
    vf.raw(w_prelude(), keep_vis=True)
    vf.raw(btree_prelude(), keep_vis=True)
    vf.raw(MAP_EXT, keep_vis=True)
    vf.raw(DEPS, keep_vis=True)
    emit_dep_structs(vf, dep, ver)
    vf.raw(PSBT_MODS, keep_vis=True)
    for rel, a in ((SEG, "struct:Wsh"), (SEG, "struct:Wpkh"), (SH, "struct:Sh"), (SH, "enum:ShInner"), (BARE, "struct:Bare"),
                   (BARE, "struct:Pkh"), (DMOD, "enum:Descriptor")):
        vf.item(rel, a, rewrites=[STRIP_DERIVE])
    vf.raw(W.ORACLE)
    vf.raw(MS_EXT)
    item_pub(vf, PMOD, "enum:InputError", rewrites=[STRIP_ATTRS, SUPER_ERR])
    vf.raw(INPUT_ERR_GLUE, keep_vis=True)
    with vf.block("impl From<Error> for InputError"):
        vf.fn(PMOD, from_impl_fn(repo, PMOD, r"super::Error", "InputError"), qual="InputError::From_Error", props=C11, rewrites=[SUPER_ERR])
    with vf.block("impl From<FromSliceError> for InputError"):
        vf.fn(PMOD, from_impl_fn(repo, PMOD, r"bitcoin::key::FromSliceError", "InputError"), qual="InputError::From_FromSliceError", props=C11,
              rewrites=[lit("R7", "bitcoin::key::FromSliceError", "FromSliceError")])
    vf.raw(ORACLE_A)
    vf.spec_obligation("q_err", Q_ERR, C11)
    vf.trust("imported prelude of units/c16_wrappers.py: ScriptBuf / Address / Builder / PushBytes / CompressedPublicKey / PublicKey / Network / Error / Miniscript / Tr stand-ins",
             "bitcoin-crate and out-of-unit types as opaque values; each encoder is an uninterpreted function (P2SH, P2WSH, P2WPKH, P2PKH, enc); "
             "CompressedPublicKey::try_from succeeds iff the key is compressed; to_p2sh / to_p2wsh / Address::p2* apply the named encoder")
    vf.trust("imported BTreeMap model of units/c14_psbt_satisfier.py (uninterpreted Map view; get / iter / Iter::find, Option::copied) + new / insert / keys / append, btree_keys_as_vec",
             "std semantics: find returns an entry satisfying the predicate or None if none does; insert overwrites and returns the previous value; append moves every entry of `other` "
             "into `self`, the entries of `other` winning, and leaves `other` empty; keys() yields exactly the keys")
    vf.trust("opaque dependency values (secp256k1 keys, Txid, Amount, Witness, taproot / bip32 / hash types) incl. PartialEqSpecImpl glue and ScriptBuf::clone",
             "only moved around and compared; derived PartialEq is structural equality; Clone returns an equal value")
    vf.trust("ScriptBuf::is_p2pk / is_p2pkh / is_p2wpkh / is_p2wsh / is_p2sh / is_p2tr (external_body, uninterpreted predicates), axiom_output_types_exclusive, len / to_bytes",
             "bitcoin::Script's template tests are uninterpreted predicates of the script; the six templates are pairwise exclusive (length and first opcode differ); "
             "a P2PK script is 35 or 67 bytes `<key> OP_CHECKSIG`")
    vf.trust("PublicKey::{new, pubkey_hash, from_slice}, PubkeyHash::to_raw_hash, impl ToPublicKey for PublicKey",
             "PublicKey::new = {compressed: true, inner} (bitcoin crate source); HASH160 is uninterpreted; from_slice(b) re-serialises to b; a bitcoin::PublicKey is its own public key")
    vf.trust("Miniscript::decode_consensus (external_body: Ok(ms) ==> ms.encode() == script), substitute_raw_pkh (encoding unchanged when every map entry's key hashes to its index), Descriptor::new_pk",
             "parse / encode are uninterpreted; the round trip decode-then-encode is property C04's subject (units c04_decode / c04_encode); "
             "expr_raw_pkh(h) and pk_h(K), HASH160(K) = h, have the same script template; c:pk_k(K) is `<K> OP_CHECKSIG`")
    vf.trust("ScriptContext checks of the constructors (Segwitv0 / Legacy / BareCtx ::top_level_checks, check_pk) as arbitrary-result stubs; Segwitv0::check_pk Ok ==> key compressed",
             "nothing is assumed about acceptance; the compressed-key rule of segwit v0 is unit c12_validation's subject; From<ScriptContextError> for Error as in src/lib.rs")
    vf.trust("FromSpecImpl glue for InputError / Error", "ties vstd's `?` / From::from specification to the extracted `from` bodies, which are verified against it")

    # ---- descriptor constructors the inference goes through (real text) ---------------------------------------------------
    FP = ("C14", "C11")
    with vf.block("impl<Pk: MiniscriptKey + ToPublicKey> Wsh<Pk>"):
        vf.fn(SEG, impl_with_fn(repo, SEG, "Wsh<Pk>", "new"), qual="Wsh", props=FP, contract=Contract(ensures=[C("wraps_the_miniscript", "r is Ok ==> r->Ok_0.ms == ms")]))
    with vf.block("impl<Pk: MiniscriptKey + ToPublicKey> Wpkh<Pk>"):
        vf.fn(SEG, impl_with_fn(repo, SEG, "Wpkh<Pk>", "new"), qual="Wpkh", props=FP, contract=Contract(ensures=[
            C("wraps_the_key", "r is Ok ==> r->Ok_0.pk == pk"), C("only_compressed_keys", "r is Ok ==> pk.spec_pk().compressed")]))
    with vf.block("impl<Pk: MiniscriptKey + ToPublicKey> Bare<Pk>"):
        vf.fn(BARE, impl_with_fn(repo, BARE, "Bare<Pk>", "new"), qual="Bare", props=FP, contract=Contract(ensures=[C("wraps_the_miniscript", "r is Ok ==> r->Ok_0.ms == ms")]))
    with vf.block("impl<Pk: MiniscriptKey + ToPublicKey> Pkh<Pk>"):
        vf.fn(BARE, impl_with_fn(repo, BARE, "Pkh<Pk>", "new"), qual="Pkh", props=FP, contract=Contract(ensures=[C("wraps_the_key", "r is Ok ==> r->Ok_0.pk == pk")]))
    with vf.block("impl<Pk: MiniscriptKey + ToPublicKey> Sh<Pk>"):
        vf.fn(SH, impl_with_fn(repo, SH, "Sh<Pk>", "new"), qual="Sh", props=FP, contract=Contract(ensures=[C("is_sh_ms", "r is Ok ==> r->Ok_0.inner == ShInner::<Pk>::Ms(ms)")]))
        vf.fn(SH, impl_with_fn(repo, SH, "Sh<Pk>", "new_wsh"), qual="Sh", props=FP, contract=Contract(ensures=[C("is_sh_wsh", "r is Ok ==> r->Ok_0.inner == ShInner::<Pk>::Wsh(Wsh { ms })")]))
        vf.fn(SH, impl_with_fn(repo, SH, "Sh<Pk>", "new_wpkh"), qual="Sh", props=FP, contract=Contract(ensures=[
            C("is_sh_wpkh", "r is Ok ==> r->Ok_0.inner == ShInner::<Pk>::Wpkh(Wpkh { pk })"), C("only_compressed_keys", "r is Ok ==> pk.spec_pk().compressed")]))
    with vf.block("impl<Pk: MiniscriptKey + ToPublicKey> Descriptor<Pk>"):
        I = impl_with_fn(repo, DMOD, "Descriptor<Pk>", "new_pkh").rsplit("/", 1)[0] + "/fn:"
        vf.fn(DMOD, I + "new_pkh", qual="Descriptor", props=FP, contract=Contract(ensures=[C("is_pkh", "r is Ok ==> r->Ok_0 == Descriptor::<Pk>::Pkh(Pkh { pk })")]))
        vf.fn(DMOD, I + "new_wpkh", qual="Descriptor", props=FP, contract=Contract(ensures=[
            C("is_wpkh", "r is Ok ==> r->Ok_0 == Descriptor::<Pk>::Wpkh(Wpkh { pk }) && pk.spec_pk().compressed")]))
        vf.fn(DMOD, I + "new_sh_wpkh", qual="Descriptor", props=FP, contract=Contract(ensures=[
            C("is_sh_wpkh", "r is Ok ==> r->Ok_0 == Descriptor::<Pk>::Sh(Sh { inner: ShInner::Wpkh(Wpkh { pk }) }) && pk.spec_pk().compressed")]))
        vf.fn(DMOD, I + "new_sh", qual="Descriptor", props=FP, contract=Contract(ensures=[C("is_sh_ms", "r is Ok ==> r->Ok_0 == Descriptor::<Pk>::Sh(Sh { inner: ShInner::Ms(ms) })")]))
        vf.fn(DMOD, I + "new_wsh", qual="Descriptor", props=FP, contract=Contract(ensures=[C("is_wsh", "r is Ok ==> r->Ok_0 == Descriptor::<Pk>::Wsh(Wsh { ms })")]))
        vf.fn(DMOD, I + "new_sh_wsh", qual="Descriptor", props=FP, contract=Contract(ensures=[C("is_sh_wsh", "r is Ok ==> r->Ok_0 == Descriptor::<Pk>::Sh(Sh { inner: ShInner::Wsh(Wsh { ms }) })")]))
        vf.fn(DMOD, I + "new_bare", qual="Descriptor", props=FP, contract=Contract(ensures=[C("is_bare", "r is Ok ==> r->Ok_0 == Descriptor::<Pk>::Bare(Bare { ms })")]))

    # ---- A. descriptor inference --------------------------------------------------------------------------------------------
    # body obligations of get_utxo (indexing) are panic-freedom only: C11
    vf.fn(FIN, "fn:get_utxo", props=C11, contract=get_utxo_contract(), rewrites=[lit("R7", "&bitcoin::TxOut", "&TxOut")])
    vf.fn(FIN, "fn:get_scriptpubkey", props=PROPS, contract=get_spk_contract(), rewrites=[
        lit("R10", ".map(|utxo| utxo.script_pubkey.clone())", ".map(|utxo: &TxOut| -> (s: ScriptBuf) ensures s == utxo.script_pubkey { utxo.script_pubkey.clone() })")])
    DEREF = sub("R7-script-deref", r"\*script_pubkey\b", "script_pubkey")
    vf.fn(FIN, "fn:get_descriptor", props=PROPS, contract=get_descriptor_contract(), rewrites=[
        key_map_loops, DEREF, q_conv,
        find_closure("b == (script_pubkey == P2PKH(*kv.0))", "p2pkh.candidate_key_hashes_to_the_script_pubkey"),
        find_closure("b == (kv.0.compressed && script_pubkey == P2WPKH(*kv.0))", "p2wpkh.candidate_key_is_compressed_and_hashes_to_the_script_pubkey"),
        find_closure("b == (kv.0.compressed && *redeem_script == P2WPKH(*kv.0))", "sh_wpkh.candidate_key_is_compressed_and_hashes_to_the_redeem_script"),
        lit("R10", "let inp = &psbt.inputs[index];", "let inp = &psbt.inputs[index];\n    proof { axiom_output_types_exclusive(script_pubkey); }"),
    ])
    PS.register_closure_clauses(vf, "get_descriptor", lambda tag: C14)


    # ---- A'. construct_tap_witness (the p2tr counterpart of descriptor inference) ---------------------------------------------------
    reg = repo.at(CTX, "enum:SigType")
    vf._emit(vf._apply(strip_docs(reg.text), [sub("R1-derive", r"#\[derive\([^)]*\)\]", "#[derive(Clone, Copy)]")], "enum:SigType").strip("\n"),
             dict(origin="repo", file=CTX, lines=reg.lines(), anchor="enum:SigType"))
    vf.raw(CTW_PRELUDE, keep_vis=True)
    item_pub(vf, PMOD, "struct:PsbtInputSatisfier", rewrites=[sub("R1-vis", r"(?m)^(\s*)(psbt|index):", r"\1pub \2:")])
    vf.raw(CTW_SAT, keep_vis=True)
    vf.raw(CTW_ORACLE)
    vf.trust("XOnlyPublicKey as MiniscriptKey / ToPublicKey (uninterpreted), to_pubkeyhash(Schnorr), taproot::Signature::to_vec, ControlBlock::serialize, witness_size (arbitrary), btree_iter_as_vec",
             "serialisations and hashes are uninterpreted; witness_size only orders the candidates; iterating `&map` yields every entry once")
    vf.trust("PsbtInputSatisfier::{lookup_tap_key_spend_sig, lookup_tap_control_block_map} at Pk = XOnlyPublicKey (external_body) and `impl Satisfier<XOnlyPublicKey> for &PsbtInputSatisfier`",
             "assumed-from-proved: the contracts are the clauses unit c14_psbt_satisfier proves on the real bodies (asked_key_is_the_internal_key, sig_is_the_tap_key_sig, "
             "found_whenever_stored, is_this_inputs_tap_scripts); the satisfier's result for a miniscript is an arbitrary function (C01-C03)")
    with vf.block("impl<'psbt> PsbtInputSatisfier<'psbt>"):
        vf.fn(PMOD, "impl:PsbtInputSatisfier/fn:psbt_input", qual="PsbtInputSatisfier", props=PROPS, contract=Contract(
            requires=["(self.index as int) < self.psbt.inputs@.len()"], ensures=[C("is_this_input", "*r == sat_input(*self)")]))
    UNQUAL = sub("R7-trait-qualified-call", r"<PsbtInputSatisfier as Satisfier<XOnlyPublicKey>>::", "PsbtInputSatisfier::")
    PUSH_HINT = sub("R10", r"(wit\.push\(control_block\.serialize\(\)\);)",
                    r"let ghost w0_ = vv(wit);\n            \1\n            proof {\n"
                    r"                assert(vv(wit) =~= w0_.push(control_block.ser()));\n"
                    r"                assert(leaf_witness(sat_input(*sat), sat, allow_mall, *control_block, ms, vv(wit)));\n            }")
    PUSH0 = sub("R10", r"(wit\.push\(ms\.encode\(\)\.into_bytes\(\)\);)", r"let ghost s0_ = vv(wit);\n            \1\n            proof { assert(vv(wit) =~= s0_.push(ms.enc().bytes())); }")
    vf.fn(FIN, "fn:construct_tap_witness", props=PROPS, contract=ctw_contract(), attrs="#[verifier::loop_isolation(false)]", rewrites=[
        SCRIPT_REF, key_map_loops, UNQUAL, tap_script_loop, PUSH0, PUSH_HINT,
        lit("R7", "bitcoin::key::XOnlyPublicKey", "XOnlyPublicKey", required=False)])
    for pat, tag in ((r"assert\(leaf_witness\(", "bip341.candidate_is_satisfaction_then_leaf_script_then_control_block_of_a_tapscript_leaf"),
                     (r"assert\(vv\(wit\) =~= s0_\.push\(", "bip341.candidate_is_satisfaction_then_leaf_script_then_control_block_of_a_tapscript_leaf"),
                     (r"assert\(vv\(wit\) =~= w0_\.push\(", "bip341.candidate_is_satisfaction_then_leaf_script_then_control_block_of_a_tapscript_leaf")):
        PS.register_call_site(vf, "construct_tap_witness", pat, Clause(tag, C14, "loop step of construct_tap_witness"))
    PS.register_closure_clauses(vf, "construct_tap_witness", lambda tag: C14)

    # ---- B. field population ------------------------------------------------------------------------------------------------
    vf.raw(KEYS_B, keep_vis=True)
    vf.raw("use std::sync::Arc;", keep_vis=True)
    vf.raw(TR_PRELUDE, keep_vis=True)
    vf.trust("DefiniteDescriptorKey (opaque; derive_public_key / master_fingerprint / full_derivation_path(s) / to_public_key uninterpreted), Infallible, NonDefiniteKeyError, TranslateErr",
             "which public key, fingerprint and path a definite key stands for is decided by unit c16_keys (the_public_key, master_fingerprint, full_derivation_path; "
             "a definite key is single-path, so full_derivation_path is Some); ToPublicKey::to_public_key of a definite key IS derive_public_key (src/descriptor/key.rs)")
    vf.item(PMOD, "struct:KeySourceLookUp")
    # the real trait, checked to declare exactly the accessors the Verus rendering specifies
    treg = repo.at(PMOD, "trait:PsbtFields")
    declared = re.findall(r"\bfn\s+(\w+)\s*\(", strip_docs(treg.text))
    if sorted(declared) != sorted(f[0] for f in FIELDS):
        raise Undecided("trait PsbtFields declares %s; the unit's rendering knows %s" % (sorted(declared), sorted(f[0] for f in FIELDS)))
    vf.raw(psbt_fields_trait(), keep_vis=True)
    vf.trust("trait PsbtFields rendered with one uninterpreted view per field and an accessor contract (own field handed out, every other view unchanged; optional accessor None iff no such field)",
             "the trait has no contract in the source; the real accessor bodies of `impl PsbtFields for psbt::Input / psbt::Output` (and the trait's default bodies, "
             "emitted into the impl that relies on them) are verified against it")
    i_ = TRANSLATE.index("proof fn lemma_record_all")
    vf.raw(TRANSLATE[:i_])
    vf.spec_obligation("oracle::bip32_bookkeeping_lemmas", TRANSLATE[i_:], C14)
    vf.trust("Descriptor::<DefiniteDescriptorKey>::translate_pk at T = KeySourceLookUp (external_body): Ok, result = derived_desc(self), recorder state = record_all(.., desc_keys(self)), wpkh keys compressed",
             "translate_pk rebuilds the same descriptor structure calling t.pk once per key in order (property C20, units c20_translate / c20_iters); KeySourceLookUp::pk is verified below "
             "against the step folded in record_all; the rebuilt descriptor passes the constructors' context checks again (Wpkh::new: compressed), so no OuterError arises")
    vf.raw(ORACLE_B % dict(desc_redeem=w_spec_fn("desc_redeem"), desc_witness_script=w_spec_fn("desc_witness_script")))
    vf.raw(recorded_spec())
    vf.trust("taproot stand-ins: Tap, xonly_of (uninterpreted), to_x_only_pubkey of secp256k1::PublicKey / bitcoin::PublicKey, ControlBlock::clone, ScriptBuf::from(&Script), "
             "TrSpendInfo / TrSpendInfoIter / TrSpendInfoIterItem / PkIter with uninterpreted views (internal key, merkle root, tap tree, leaves = script / version / leaf hash / control block / keys), Tr::spend_info",
             "the spend data of a tr() descriptor is an uninterpreted function of the descriptor: which hash / control block a leaf has is property C15's subject; "
             "the x-only key of a bitcoin::PublicKey depends on the curve point only (ToPublicKey::to_x_only_pubkey default body, src/lib.rs)")
    vf.trust("tr_leaves_as_vec / pk_iter_as_vec / btree_into_vec (external_body): the element sequences of TrSpendInfo::leaves(), Miniscript::iter_pk(), BTreeMap::into_iter()",
             "R8: the `for` loops of the taproot branch iterate these vectors; leaves come left to right, iter_pk yields the miniscript's keys, into_iter yields every entry once")
    vf.trust("axiom_leaf_keys, axiom_leaf_keys_derived (external_body proof fns)",
             "the keys iter_pk yields for a leaf's miniscript are that leaf's keys; every key in a leaf of the DERIVED descriptor is the derivation of a key of the descriptor "
             "(translate_pk maps key by key: property C20)")
    vf.trust("vec_sort / vec_dedup on Vec<TapLeafHash> (external_body), btree_values_mut_sort_dedup (external_body)",
             "std: sort yields an ascending permutation, dedup removes consecutive repeats (none left on a sorted vector); R14: `for (v, _) in map.values_mut() { BODY }` applies BODY to every "
             "value once -- BODY is lifted verbatim into `sort_dedup_step` and verified against the relation the stub states per value")
    vf.spec_obligation("oracle::taproot_bookkeeping_lemmas", TR_SPEC + TR_SPEC2, C14)
    vf.raw(recorded_tr_spec())

    for kind in ("Input", "Output"):
        impl = "impl:PsbtFields for psbt::%s" % kind
        with vf.block("impl PsbtFields for %s" % kind):
            vf.raw(fields_views(kind), keep_vis=True)
            for m, v, vt, rt, opt in FIELDS:
                attrs_off = sub("R1-attrs", r"#\[allow\(dead_code\)\]\s*", "", required=False)
                try:
                    repo.at(PMOD, "%s/fn:%s" % (impl, m))
                    anchor = "%s/fn:%s" % (impl, m)
                except Exception:
                    if not opt:
                        raise
                    anchor = "trait:PsbtFields/fn:%s" % m          # the trait's default body, inherited by this impl
                vf.fn(PMOD, anchor, qual="PsbtFields_for_%s" % kind, props=PROPS, rewrites=[attrs_off])

    with vf.block("impl KeySourceLookUp"):
        vf.fn(PMOD, "impl:Translator<DefiniteDescriptorKey> for KeySourceLookUp/fn:pk", qual="KeySourceLookUp", props=PROPS,
              rewrites=[lit("R7", "Self::TargetPk", "bitcoin::PublicKey"), lit("R7", "Self::Error", "Infallible")],
              contract=Contract(ensures=[
                  C("returns_the_derived_key", "r is Ok && r->Ok_0 == xpk.spec_derive()"),
                  # BIP174: the KEY of a bip32_derivation entry is the public key itself (as it appears in the script), the VALUE its origin
                  C("records_the_derived_key_with_fingerprint_and_full_path", "final(self).0@ == old(self).0@.insert(xpk.spec_derive().inner, (xpk.spec_fingerprint(), xpk.spec_full_path()))"),
              ]))

    # the script wrappers the updater calls (real text, contracts as in unit c16_wrappers)
    WP = ("C14", "C16")
    with vf.block(W.TOPK % "Wsh"):
        I = "impl:Wsh<Pk>#1/fn:"
        vf.fn(SEG, I + "inner_script", qual="Wsh", props=WP, contract=Contract(ensures=[C("is_witness_script", "r == self.ms.enc()", WP)]))
        vf.fn(SEG, I + "script_pubkey", qual="Wsh", props=WP, contract=Contract(ensures=[C("is_p2wsh_of_witness_script", "r == wsh_spk(*self)", WP)]))
    with vf.block(W.TOPK % "Wpkh"):
        I = "impl:Wpkh<Pk>#1/fn:"
        vf.fn(SEG, I + "script_pubkey", qual="Wpkh", props=WP, contract=Contract(requires=["wpkh_wf(*self)"], ensures=[C("is_p2wpkh", "r == wpkh_spk(*self)", WP)]))
    with vf.block(W.TOPK % "Bare"):
        vf.fn(BARE, "impl:Bare<Pk>#1/fn:script_pubkey", qual="Bare", props=WP, contract=Contract(ensures=[C("is_the_script", "r == self.ms.enc()", WP)]))
    with vf.block(W.TOPK % "Pkh"):
        vf.fn(BARE, "impl:Pkh<Pk>#1/fn:address", qual="Pkh", props=WP, contract=Contract(ensures=[C("address_agrees_with_spk", "r.spk() == pkh_spk(*self) && r.net() == network", WP)]))
        vf.fn(BARE, "impl:Pkh<Pk>#1/fn:script_pubkey", qual="Pkh", props=WP, contract=Contract(ensures=[C("is_p2pkh", "r == P2PKH(self.pk.spec_pk())", WP)]))
    with vf.block(W.TOPK % "Sh"):
        I = "impl:Sh<Pk>#1/fn:"
        kw = ["sh_keys_wf(*self)"]
        vf.fn(SH, I + "script_pubkey", qual="Sh", props=WP, contract=Contract(requires=kw, ensures=[C("bip16_p2sh_of_redeem", "r == P2SH(sh_redeem(*self))", WP)]))
        vf.fn(SH, I + "inner_script", qual="Sh", props=WP, contract=Contract(requires=kw, ensures=[C("explicit_script", "r == sh_explicit(*self)", WP)]))
    with vf.block("impl<Pk: MiniscriptKey> Sh<Pk>"):
        vf.fn(SH, "impl:Sh<Pk>#0/fn:as_inner", qual="Sh", props=C11, contract=Contract(ensures=[C("inner", "*r == self.inner", ())]))
    with vf.block(W.TOPK % "Descriptor"):
        vf.fn(DMOD, "impl:Descriptor<Pk>#1/fn:script_pubkey", qual="Descriptor", props=WP, contract=Contract(requires=["desc_keys_wf(*self)"], ensures=[C("spk_of_variant", "r == desc_spk(*self)", WP)]))

    vf.fn(PMOD, "fn:update_item_with_descriptor_helper", props=PROPS, contract=helper_contract(), attrs="#[verifier::loop_isolation(false)]", rewrites=[
        SCRIPT_REF, tr_loops, sub("R7", r"\bdescriptor::ShInner\b", "ShInner"),
        lit("R10", "item.bip32_derivation().append(&mut bip32_derivation.0);",
            "proof { lemma_union_records(item.v_bip32(), desc_keys(*descriptor)); }\n        item.bip32_derivation().append(&mut bip32_derivation.0);"),
    ])

    HELPER = "update_item_with_descriptor_helper"
    for pat, tag in ((r"lemma_l1_step\(", "tr.key_origins.one_entry_per_key_with_no_leaf_hashes_and_its_origin"),
                     (r"assert\(item\.v_tko\(\) =~= tb_\.insert\(x_, ", "tr.key_origins.one_entry_per_key_with_no_leaf_hashes_and_its_origin"),
                     (r"assert\(item\.v_tko\(\) =~= tb_\.insert\(xk_, v_\)\)", "tr.key_origins.only_the_entry_of_the_leaf_key_is_touched"),
                     (r"assert\(v_\.1 == tb_\[xk_\]\.1\)", "tr.key_origins.origin_of_the_leaf_key_kept"),
                     (r"assert\(s0_\.len\(\) > 0 && ", "tr.key_origins.leaf_hash_added_to_every_key_of_the_leaf"),
                     (r"assert\(v_\.0@ =~= s0_\.push\(h_\)\)", "tr.key_origins.leaf_hash_added_to_every_key_of_the_leaf"),
                     (r"lemma_l2_key_step\(", "tr.key_origins.leaf_hash_added_to_every_key_of_the_leaf"),
                     (r"lemma_ins_step\(ts0_", "tr.tap_scripts.leaf_recorded_under_its_control_block"),
                     (r"assert\(item\.v_ts\(\)->Some_0 =~= ", "tr.tap_scripts.leaf_recorded_under_its_control_block"),
                     (r"lemma_tr_final\(", "tr.key_origins.loops_establish_the_bip371_statements")):
        PS.register_call_site(vf, HELPER, pat, Clause(tag, C14, "loop step of the taproot branch (see the invariants l1_inv / l2_inv / ts_inv)"))
    PS.register_closure_clauses(vf, HELPER, lambda tag: C14)
    # the body of `for (hashes, _) in item.tap_key_origins().values_mut() { .. }`, lifted (R14 / R16)
    reg_h = repo.at(PMOD, "fn:update_item_with_descriptor_helper")
    var, lifted = tr_loops.lifted
    lifted = re.sub(r"\b%s\.sort\(\)" % var, "vec_sort(%s)" % var, lifted)
    lifted = re.sub(r"\b%s\.dedup\(\)" % var, "vec_dedup(%s)" % var, lifted)
    vf.fn_text("update_item_with_descriptor_helper__values_mut_step", "fn sort_dedup_step(%s: &mut Vec<TapLeafHash>) %s" % (var, lifted),
               Contract(ensures=[C("tr.key_origins.leaf_hashes_end_up_sorted_without_duplicates_same_set", "sort_dedup_post(old(%s)@, final(%s)@)" % (var, var))]),
               PROPS, file=PMOD, lines=reg_h.lines(), anchor="fn:update_item_with_descriptor_helper/for .. in values_mut() body")

    # ---- the unchecked per-item entry points ------------------------------------------------------------------------------------
    for kind in ("Input", "Output"):
        with vf.block("impl %s" % kind):
            vf.fn(PMOD, "impl:Psbt%sExt for psbt::%s/fn:update_with_descriptor_unchecked" % (kind, kind), qual=kind, props=PROPS, contract=Contract(ensures=[
                C("never_fails", "r is Ok", ("C14", "C11")),
                C("returns_the_derived_descriptor", "r is Ok ==> r->Ok_0 == %s" % D_),
                C("records_scripts_and_key_origins", "!(%s is Tr) ==> recorded(*old(self), *final(self), descriptor)" % D_),
                C("records_taproot_data", "%s is Tr ==> recorded_tr(*old(self), *final(self), descriptor)" % D_)]))

    # ---- descriptor type (what `witness_utxo alone` is judged by) ------------------------------------------------------------------
    vf.raw("pub enum WitnessVersion { V0, V1, V2 }", keep_vis=True)
    vf.item(DMOD, "enum:DescriptorType", rewrites=[STRIP_DERIVE])
    vf.raw(UTXO_ORACLE)
    with vf.block("impl DescriptorType"):
        vf.fn(DMOD, "impl:DescriptorType/fn:segwit_version", qual="DescriptorType", props=PROPS, contract=Contract(ensures=[
            C("bip141_segwit_v0_native_or_nested", "r == Some(WitnessVersion::V0) <==> (*self is Wpkh || *self is ShWpkh || *self is Wsh || *self is ShWsh)"),
            C("bip341_segwit_v1", "r == Some(WitnessVersion::V1) <==> *self is Tr"),
            C("legacy_has_none", "r is None <==> (*self is Bare || *self is Pkh || *self is Sh)")]))
    with vf.block("impl<Pk: MiniscriptKey> Descriptor<Pk>"):
        vf.fn(DMOD, impl_with_fn(repo, DMOD, "Descriptor<Pk>", "desc_type"), qual="Descriptor", props=PROPS, contract=Contract(ensures=[
            C("names_the_output_type", "r == desc_type_of(*self)")]))

    # ---- PsbtExt::{update_input_with_descriptor, update_output_with_descriptor} (emitted as inherent methods) ------------------------
    ETA_I = lit("R12'", ".map_err(UtxoUpdateError::DerivationError)", ".map_err(|e: NonDefiniteKeyError| -> (o: UtxoUpdateError) ensures o == UtxoUpdateError::DerivationError(e) { UtxoUpdateError::DerivationError(e) })")
    ETA_O = lit("R12'", ".map_err(OutputUpdateError::DerivationError)", ".map_err(|e: NonDefiniteKeyError| -> (o: OutputUpdateError) ensures o == OutputUpdateError::DerivationError(e) { OutputUpdateError::DerivationError(e) })")
    item_pub(vf, PMOD, "enum:UtxoUpdateError", rewrites=[STRIP_ATTRS])
    item_pub(vf, PMOD, "enum:OutputUpdateError", rewrites=[STRIP_ATTRS])
    with vf.block("impl Psbt"):
        vf.fn(PMOD, "impl:PsbtExt for Psbt/fn:update_input_with_descriptor", qual="Psbt", props=PROPS, rewrites=[ETA_I], contract=update_input_contract())
        vf.fn(PMOD, "impl:PsbtExt for Psbt/fn:update_output_with_descriptor", qual="Psbt", props=PROPS, rewrites=[ETA_O], contract=update_output_contract())

    # ---- Plan::update_psbt_input (src/plan.rs) --------------------------------------------------------------------------------------
    vf.raw("pub mod relative { use vstd::prelude::*; verus!{ pub struct LockTime { pub opaque: u32 } } }", keep_vis=True)
    vf.item(SATMOD, "enum:SchnorrSigType", rewrites=[STRIP_DERIVE])
    vf.item(SATMOD, "enum:Placeholder", rewrites=[STRIP_DERIVE, sub("R7-assoc-hash-types", r"\bPk::(Sha256|Hash256|Ripemd160|Hash160)\b", lambda m: {
        "Sha256": "sha256::Hash", "Hash256": "sha256d::Hash", "Ripemd160": "ripemd160::Hash", "Hash160": "hash160::Hash"}[m.group(1)])])
    vf.item(PLAN, "struct:Plan", rewrites=[STRIP_DERIVE])
    in_fields = re.findall(r"(?m)^\s*pub\s+(\w+)\s*:", strip_docs(dep.at("src/psbt/map/input.rs", "struct:Input").text))
    maps = [f for f in in_fields if re.search(r"pub\s+%s\s*:\s*BTreeMap" % f, dep.at("src/psbt/map/input.rs", "struct:Input").text)]
    frame = "\n".join("    &&& a.%s%s == b.%s%s" % (f, "@" if f in maps else "", f, "@" if f in maps else "")
                      for f in in_fields if f not in ("redeem_script", "witness_script", "bip32_derivation"))
    vf.raw(PLAN_SPEC % dict(frame=frame))
    vf.trust("plan_update_taproot_excluded (external_body, no contract)", "R9: stands for the taproot branch of Plan::update_psbt_input; may change the input arbitrarily")
    with vf.block("impl Plan<DefiniteDescriptorKey>"):
        vf.fn(PLAN, impl_with_fn(repo, PLAN, "Plan<DefiniteDescriptorKey>", "update_psbt_input"), qual="Plan", props=PROPS, contract=plan_contract(), rewrites=[
            cut_plan_tr_branch, plan_loops, sub("R7", r"\bdescriptor::ShInner\b", "ShInner")])
    return vf
