"""C14 / C11: the two PSBT mechanisms of C14 that sit between the descriptor and the PSBT maps (Verus).

A. DESCRIPTOR INFERENCE (src/psbt/finalizer.rs): `get_utxo`, `get_scriptpubkey`, `get_descriptor`.
B. FIELD POPULATION (src/psbt/mod.rs): `KeySourceLookUp::pk`, `update_item_with_descriptor_helper`, the two
   `impl PsbtFields` (psbt::Input / psbt::Output), `PsbtExt::{update_input_with_descriptor, update_output_with_descriptor}`,
   `DescriptorType::segwit_version`, `Descriptor::desc_type`; (src/plan.rs) `Plan::update_psbt_input`.
The descriptor constructors the inference goes through (`Descriptor::new_{pkh, wpkh, sh_wpkh, sh, wsh, sh_wsh, bare}`,
`Pkh::new`, `Wpkh::new`, `Wsh::new`, `Bare::new`, `Sh::{new, new_wsh, new_wpkh}`) and the script wrappers the updater calls
(`Wsh::{inner_script, script_pubkey}`, `Wpkh::script_pubkey`, `Sh::{inner_script, script_pubkey, as_inner}`, `Bare` / `Pkh`
`::script_pubkey`, `Descriptor::script_pubkey`) are the real text as well.  `psbt::Input`, `psbt::Output`, `Psbt`,
`Transaction`, `TxIn`, `TxOut`, `OutPoint` are the REAL struct definitions of the `bitcoin` source pinned by Cargo.lock.

Reuse: the descriptor structs, the stand-ins of the bitcoin crate's script / address / key types and the BIP16 / BIP141
oracle (`desc_spk`, `sh_redeem`, `desc_explicit`, uninterpreted P2SH / P2WSH / P2WPKH / P2PKH / enc) are IMPORTED from
units/c16_wrappers.py; the BTreeMap model (uninterpreted `Map<K, V>` view, `get`, `iter`, `Iter::find`) and the closure
clause registration from units/c14_psbt_satisfier.py; the dependency-source lookup from units/c14_finalize.py.

Oracles (none read off the code):
  * BIP174: the spent output is `witness_utxo` if present, else `non_witness_utxo.output[prevout.vout]`; the non-witness
    UTXO must be the transaction named by the prevout's txid; redeemScript / witnessScript are the preimages of the P2SH
    hash / the P2WSH program; `bip32_derivation` maps a PUBLIC KEY (as it appears in the script) to (master fingerprint,
    derivation path); an Updater "must only add" consistent data -- a failed update writes nothing.
  * BIP16 / BIP141 output-type recognition and nesting: p2pkh / p2wpkh commit to HASH160(key), p2wsh to SHA256(witnessScript),
    p2sh to HASH160(redeemScript); nested segwit: the redeemScript IS the witness program.
  * The C14 property text: "updating a PSBT from a descriptor records scripts, key origins [...] consistent with the
    descriptor's output"; an inferred descriptor must have the scriptPubKey of the output it is inferred for.
Hash, encode and parse functions are uninterpreted (see the trusted list).
"""
import re

from vlib.verus import VerusFile, Contract, Clause, sub, lit, rule, Undecided
from vlib.extract import strip_docs, match_close
from units.c14_finalize import dep_repo
from units import c14_psbt_satisfier as PS
from units import c16_wrappers as W

NAME = "c14_update"
ENGINE = "verus"
PROPS = ("C14", "C11")
FIN = "src/psbt/finalizer.rs"
PMOD = "src/psbt/mod.rs"
PLAN = "src/plan.rs"
LIB = "src/lib.rs"
DMOD = "src/descriptor/mod.rs"
SEG = "src/descriptor/segwitv0.rs"
SH = "src/descriptor/sh.rs"
BARE = "src/descriptor/bare.rs"

C14 = ("C14",)
C11 = ("C11",)


def C(tag, text, props=C14):
    return Clause(tag, props, text)


def patched(text, pairs, what):
    """Textual adaptation of an IMPORTED prelude (reuse instead of duplication); a lost pattern is UNDECIDED."""
    for old, new in pairs:
        if old not in text:
            raise Undecided("imported prelude %s no longer contains `%s`" % (what, old[:60]))
        text = text.replace(old, new, 1)
    return text


# ----------------------------------------------------------------------------------------------------------------------
# prelude
# ----------------------------------------------------------------------------------------------------------------------
def w_prelude():
    return patched(W.PRELUDE, [
        # bitcoin::PublicKey with its REAL two fields (as in units/c16_keys.py), Copy + structural equality
        ("#[derive(Debug)]\npub struct PublicKey { pub compressed: bool, pub point: u64 }",
         "#[derive(Debug, Clone, Copy, PartialEq, Eq)]\npub struct PublicKey { pub compressed: bool, pub inner: secp256k1::PublicKey }"),
        ("pub struct ScriptBuf { pub opaque: u64 }", "#[derive(PartialEq, Eq)]\npub struct ScriptBuf { pub opaque: u64 }"),
        ("pub enum Error { BareDescriptorAddr, TrNoScriptCode, MissingSig(PublicKey), AddressError(u8), Other(u8) }",
         "#[derive(Debug)]\npub struct ScriptContextError { pub opaque: u8 }\n"
         "pub enum Error { BareDescriptorAddr, TrNoScriptCode, MissingSig(PublicKey), AddressError(u8), ContextError(ScriptContextError), Other(u8) }"),
        ("pub mod bitcoin {\n", "pub mod bitcoin {\n    pub use crate::{PublicKey, Address, Network, ScriptBuf, TxOut, Transaction, Witness, XOnlyPublicKey};\n"
                                "    pub use crate::{secp256k1, taproot, bip32, psbt, hashes};\n"),
        ("    pub mod key {\n", "    pub mod key {\n        pub use crate::{XOnlyPublicKey, FromSliceError};\n"),
    ], "c16_wrappers.PRELUDE")


def btree_prelude():
    m = re.search(r"(?s)// ---- BTreeMap.*?(?=// std: `impl TryFrom)", PS.PRELUDE)
    if not m:
        raise Undecided("BTreeMap model not found in c14_psbt_satisfier.PRELUDE")
    return m.group(0)


DEPS = r"""
// ---- dependency values that are only moved around (opaque) ------------------------------------------------------------
pub mod secp256k1 {
    use vstd::prelude::*;
    verus!{
    #[derive(Debug, Clone, Copy, PartialEq, Eq)] pub struct PublicKey { pub point: u64 }
    #[derive(Debug, Clone, Copy, PartialEq, Eq)] pub struct XOnlyPublicKey { pub x: u64 }
    pub trait Verification {}
    pub struct VerifyOnly { pub never: u8 }
    impl Verification for VerifyOnly {}
    pub struct Secp256k1<C> { pub ctx: C }
    impl Secp256k1<VerifyOnly> {
        #[verifier::external_body]
        pub fn verification_only() -> Secp256k1<VerifyOnly> { unimplemented!() }
    }
    pub struct Error { pub opaque: u8 }
    }
}
pub use secp256k1::{Secp256k1, VerifyOnly, XOnlyPublicKey};
pub struct FromSliceError { pub opaque: u8 }
pub struct Amount { pub sat: u64 }
#[derive(PartialEq, Eq)]
pub struct Txid { pub opaque: u64 }
pub struct Sequence { pub n: u32 }
pub struct Version { pub n: i32 }
pub mod absolute { use vstd::prelude::*; verus!{ pub struct LockTime { pub opaque: u32 } } }
pub struct Witness { pub opaque: u64 }
pub struct PsbtSighashType { pub opaque: u32 }
pub struct TapNodeHash { pub opaque: u64 }
pub struct ControlBlock { pub opaque: u64 }
#[derive(Clone, Copy, PartialEq, Eq)]
pub enum LeafVersion { TapScript, Future(u8) }
#[derive(Clone, Copy, PartialEq, Eq)]
pub struct TapLeafHash { pub opaque: u64 }
pub struct TapTree { pub opaque: u64 }
pub mod taproot {
    pub use crate::{ControlBlock, LeafVersion, TapLeafHash, TapNodeHash, TapTree};
    use vstd::prelude::*;
    verus!{ pub struct Signature { pub opaque: u64 } }
}
pub mod ecdsa { pub use crate::bitcoin::ecdsa::Signature; }
pub mod raw { use vstd::prelude::*; verus!{ pub struct Key { pub opaque: u64 } pub struct ProprietaryKey { pub opaque: u64 } } }
pub mod ripemd160 { use vstd::prelude::*; verus!{ pub struct Hash { pub opaque: u64 } } }
pub mod sha256 { use vstd::prelude::*; verus!{ pub struct Hash { pub opaque: u64 } } }
pub mod sha256d { use vstd::prelude::*; verus!{ pub struct Hash { pub opaque: u64 } } }
pub mod hash160 { use vstd::prelude::*; verus!{ #[derive(Clone, Copy, PartialEq, Eq)] pub struct Hash { pub opaque: u64 } } }
pub mod hashes { pub use crate::{hash160, ripemd160, sha256, sha256d}; }
pub mod interpreter { use vstd::prelude::*; verus!{ pub struct Error { pub opaque: u8 } } }
pub mod sighash { use vstd::prelude::*; verus!{ pub struct NonStandardSighashTypeError { pub opaque: u32 } pub struct EcdsaSighashType { pub opaque: u8 } } }
pub mod bip32 {
    use vstd::prelude::*;
    verus!{
    #[derive(Clone, Copy)] pub struct Fingerprint { pub bytes: u32 }
    pub struct DerivationPath { pub opaque: u64 }
    pub type KeySource = (Fingerprint, DerivationPath);
    pub struct Xpub { pub opaque: u64 }
    }
}
pub use bip32::{KeySource, Xpub};
impl vstd::std_specs::cmp::PartialEqSpecImpl for PublicKey { open spec fn obeys_eq_spec() -> bool { true } open spec fn eq_spec(&self, o: &PublicKey) -> bool { *self == *o } }
impl vstd::std_specs::cmp::PartialEqSpecImpl for ScriptBuf { open spec fn obeys_eq_spec() -> bool { true } open spec fn eq_spec(&self, o: &ScriptBuf) -> bool { *self == *o } }
impl vstd::std_specs::cmp::PartialEqSpecImpl for Txid { open spec fn obeys_eq_spec() -> bool { true } open spec fn eq_spec(&self, o: &Txid) -> bool { *self == *o } }
impl vstd::std_specs::cmp::PartialEqSpecImpl for LeafVersion { open spec fn obeys_eq_spec() -> bool { true } open spec fn eq_spec(&self, o: &LeafVersion) -> bool { *self == *o } }
impl Clone for ScriptBuf {
    #[verifier::external_body]
    fn clone(&self) -> (r: ScriptBuf) ensures r == *self { unimplemented!() }
}

// ---- output-type recognition (bitcoin::Script::is_p2*): uninterpreted predicates on the script ---------------------------
pub uninterp spec fn p2pk_script(key_bytes: Seq<u8>) -> ScriptBuf;          // <key_bytes> OP_CHECKSIG
impl ScriptBuf {
    pub uninterp spec fn spec_is_p2pk(&self) -> bool;
    pub uninterp spec fn spec_is_p2pkh(&self) -> bool;
    pub uninterp spec fn spec_is_p2wpkh(&self) -> bool;
    pub uninterp spec fn spec_is_p2wsh(&self) -> bool;
    pub uninterp spec fn spec_is_p2sh(&self) -> bool;
    pub uninterp spec fn spec_is_p2tr(&self) -> bool;
    // P2PK: <33 or 65 byte key> OP_CHECKSIG, i.e. 35 or 67 bytes, the key being bytes 1 .. len - 1
    #[verifier::external_body]
    pub fn is_p2pk(&self) -> (r: bool)
        ensures r == self.spec_is_p2pk(),
                r ==> (self.bytes().len() == 35 || self.bytes().len() == 67) && *self == p2pk_script(self.bytes().subrange(1, self.bytes().len() - 1)),
    { unimplemented!() }
    #[verifier::external_body] pub fn is_p2pkh(&self) -> (r: bool) ensures r == self.spec_is_p2pkh() { unimplemented!() }
    #[verifier::external_body] pub fn is_p2wpkh(&self) -> (r: bool) ensures r == self.spec_is_p2wpkh() { unimplemented!() }
    #[verifier::external_body] pub fn is_p2wsh(&self) -> (r: bool) ensures r == self.spec_is_p2wsh() { unimplemented!() }
    #[verifier::external_body] pub fn is_p2sh(&self) -> (r: bool) ensures r == self.spec_is_p2sh() { unimplemented!() }
    #[verifier::external_body] pub fn is_p2tr(&self) -> (r: bool) ensures r == self.spec_is_p2tr() { unimplemented!() }
    #[verifier::external_body] pub fn len(&self) -> (r: usize) ensures r == self.bytes().len() { unimplemented!() }
    #[verifier::external_body] pub fn to_bytes(&self) -> (r: Vec<u8>) ensures r@ == self.bytes() { unimplemented!() }
}
// the six standard templates have pairwise different (length, first opcode): 35|67 / 25 / 22 / 34 OP_0 / 23 / 34 OP_1
#[verifier::external_body]
pub proof fn axiom_output_types_exclusive(s: ScriptBuf)
    ensures
        s.spec_is_p2pk() ==> !s.spec_is_p2pkh() && !s.spec_is_p2wpkh() && !s.spec_is_p2wsh() && !s.spec_is_p2sh() && !s.spec_is_p2tr(),
        s.spec_is_p2pkh() ==> !s.spec_is_p2wpkh() && !s.spec_is_p2wsh() && !s.spec_is_p2sh() && !s.spec_is_p2tr(),
        s.spec_is_p2wpkh() ==> !s.spec_is_p2wsh() && !s.spec_is_p2sh() && !s.spec_is_p2tr(),
        s.spec_is_p2wsh() ==> !s.spec_is_p2sh() && !s.spec_is_p2tr(),
        s.spec_is_p2sh() ==> !s.spec_is_p2tr(),
{}

// ---- keys ----------------------------------------------------------------------------------------------------------------
pub uninterp spec fn hash160_of_pubkey(pk: PublicKey) -> hash160::Hash;     // HASH160 of the SEC1 serialization
pub open spec fn spec_pk_new(k: secp256k1::PublicKey) -> PublicKey { PublicKey { compressed: true, inner: k } }
pub struct PubkeyHash { pub h: hash160::Hash }
impl PubkeyHash { pub fn to_raw_hash(self) -> (r: hash160::Hash) ensures r == self.h { self.h } }
impl PublicKey {
    pub fn new(key: secp256k1::PublicKey) -> (r: PublicKey) ensures r == spec_pk_new(key) { PublicKey { compressed: true, inner: key } }
    #[verifier::external_body]
    pub fn pubkey_hash(&self) -> (r: PubkeyHash) ensures r.h == hash160_of_pubkey(*self) { unimplemented!() }
    // SEC1 parsing; a parsed key serialises back to the bytes it was parsed from (33 bytes <=> compressed)
    #[verifier::external_body]
    pub fn from_slice(data: &[u8]) -> (r: Result<PublicKey, FromSliceError>) ensures r is Ok ==> r->Ok_0.ser() == data@ { unimplemented!() }
}
impl MiniscriptKey for PublicKey {}
impl ToPublicKey for PublicKey {
    open spec fn spec_pk(&self) -> PublicKey { *self }
    fn to_public_key(&self) -> (r: PublicKey) { *self }
}
"""

MS_EXT = r"""
// ---- Miniscript: script decoding / raw-pkh substitution as functions of the script ---------------------------------------
pub open spec fn map_consistent(m: Map<hash160::Hash, PublicKey>) -> bool {
    forall|h: hash160::Hash| #[trigger] m.contains_key(h) ==> hash160_of_pubkey(m[h]) == h
}
impl<Ctx: ScriptContext> Miniscript<PublicKey, Ctx> {
    // C04: a script that decodes re-encodes to itself
    #[verifier::external_body]
    pub fn decode_consensus(script: &ScriptBuf) -> (r: Result<Self, Error>) ensures r is Ok ==> r->Ok_0.enc() == *script { unimplemented!() }
    // expr_raw_pkh(h) and pk_h(K) with HASH160(K) = h are the same script `DUP HASH160 <h> EQUALVERIFY`
    #[verifier::external_body]
    pub fn substitute_raw_pkh(&self, pk_map: &BTreeMap<hash160::Hash, PublicKey>) -> (r: Self) ensures map_consistent(pk_map@) ==> r.enc() == self.enc() { unimplemented!() }
}
// ScriptContext checks of the constructors: arbitrary results, except that Segwitv0 refuses uncompressed keys (BIP143 policy)
impl Segwitv0 {
    #[verifier::external_body] pub fn top_level_checks<Pk: MiniscriptKey>(ms: &Miniscript<Pk, Segwitv0>) -> Result<(), Error> { unimplemented!() }
    #[verifier::external_body] pub fn check_pk<Pk: MiniscriptKey + ToPublicKey>(pk: &Pk) -> (r: Result<(), ScriptContextError>) ensures r is Ok ==> pk.spec_pk().compressed { unimplemented!() }
}
impl Legacy { #[verifier::external_body] pub fn top_level_checks<Pk: MiniscriptKey>(ms: &Miniscript<Pk, Legacy>) -> Result<(), Error> { unimplemented!() } }
impl BareCtx {
    #[verifier::external_body] pub fn top_level_checks<Pk: MiniscriptKey>(ms: &Miniscript<Pk, BareCtx>) -> Result<(), Error> { unimplemented!() }
    #[verifier::external_body] pub fn check_pk<Pk: MiniscriptKey>(pk: &Pk) -> Result<(), ScriptContextError> { unimplemented!() }
}
impl From<ScriptContextError> for Error { fn from(e: ScriptContextError) -> (r: Error) { Error::ContextError(e) } }
impl vstd::std_specs::convert::FromSpecImpl<ScriptContextError> for Error {
    open spec fn obeys_from_spec() -> bool { true }
    open spec fn from_spec(e: ScriptContextError) -> Error { Error::ContextError(e) }
}
impl<Pk: MiniscriptKey + ToPublicKey> Descriptor<Pk> {
    // `c:pk_k(K)` in a bare output is the script <K> OP_CHECKSIG (C04 templates)
    #[verifier::external_body]
    pub fn new_pk(pk: Pk) -> (r: Self) ensures r is Bare, desc_spk(r) == p2pk_script(pk.spec_pk().ser()) { unimplemented!() }
}
"""

PSBT_MODS = r"""
pub mod psbt { pub use crate::{Input, Output, Psbt, raw}; }
pub mod transaction { pub use crate::{Transaction, TxIn, TxOut, OutPoint}; }
impl vstd::std_specs::cmp::PartialEqSpecImpl for TxOut { open spec fn obeys_eq_spec() -> bool { true } open spec fn eq_spec(&self, o: &TxOut) -> bool { *self == *o } }
impl Transaction {
    pub uninterp spec fn spec_txid(&self) -> Txid;
    #[verifier::external_body] pub fn compute_txid(&self) -> (r: Txid) ensures r == self.spec_txid() { unimplemented!() }
}
"""

INPUT_ERR_GLUE = r"""
impl vstd::std_specs::convert::FromSpecImpl<Error> for InputError {
    open spec fn obeys_from_spec() -> bool { true }
    open spec fn from_spec(e: Error) -> InputError { InputError::MiniscriptError(e) }
}
impl vstd::std_specs::convert::FromSpecImpl<FromSliceError> for InputError {
    open spec fn obeys_from_spec() -> bool { true }
    open spec fn from_spec(e: FromSliceError) -> InputError { InputError::KeyErr(e) }
}
"""

ORACLE_A = r"""
// ---- oracle A: BIP174 "which output does input i spend" ---------------------------------------------------------------------
pub open spec fn psbt_wf(p: Psbt, index: int) -> bool { 0 <= index < p.inputs@.len() && index < p.unsigned_tx.input@.len() }
pub open spec fn prev_vout(p: Psbt, index: int) -> int { p.unsigned_tx.input@[index].previous_output.vout as int }
// BIP174: PSBT_IN_WITNESS_UTXO is "the entire transaction output"; PSBT_IN_NON_WITNESS_UTXO is the whole previous transaction,
// the spent output being the one the unsigned transaction's prevout index names
pub open spec fn spent_output(p: Psbt, index: int) -> Option<TxOut> {
    let inp = p.inputs@[index];
    if inp.witness_utxo is Some { inp.witness_utxo }
    else if inp.non_witness_utxo is Some {
        if prev_vout(p, index) < inp.non_witness_utxo->Some_0.output@.len() { Some(inp.non_witness_utxo->Some_0.output@[prev_vout(p, index)]) } else { None }
    } else { None }
}
pub open spec fn spent_spk(p: Psbt, index: int) -> ScriptBuf { spent_output(p, index)->Some_0.script_pubkey }
pub open spec fn this_inp(p: Psbt, index: int) -> Input { p.inputs@[index] }
"""


# ----------------------------------------------------------------------------------------------------------------------
# rewrites
# ----------------------------------------------------------------------------------------------------------------------
STRIP_ATTRS = sub("R1-attrs", r"(?m)^\s*#\[(?:derive|cfg_attr)\(.*\)\]\n", "", required=False)
STRIP_DERIVE = W.STRIP_DERIVE
KEEP_EQ = sub("R1-derive", r"#\[derive\([^)]*\)\]", "#[derive(PartialEq, Eq)]")
SCRIPT_REF = sub("R7", r"&Script\b", "&ScriptBuf", required=False)
SUPER_ERR = sub("R7", r"\bsuper::Error\b", "Error", required=False)


def find_closure(ensures_text, tag, body_prefix="let pk = *kv.0;"):
    """R16 + R10 on the FIRST remaining `.find(|&(&pk, _sig)| {`: typed parameter (Verus rejects tuple / reference patterns in
    closure parameters), the pattern becomes a `let`, and the ghost contract of the predicate is attached."""
    contract = PS._closure_contract("b: bool", [Clause(tag, C14, ensures_text)])
    return sub("R16-closure-params", r"\.find\(\|&\(&pk, _sig\)\|\s*\{",
               lambda m: ".find(|kv: &(&bitcoin::PublicKey, &bitcoin::ecdsa::Signature)|%s {\n            %s" % (contract, body_prefix), count=1)


@rule("R8-key-map-loops")
def key_map_loops(text):
    """The two nested `for` loops that collect hash160(key) -> key over the bip32_derivation keys of all inputs become index
    loops (bodies verbatim) carrying the invariant `map_consistent`."""
    a = re.search(r"for psbt_input in psbt_inputs\s*\{", text)
    b = re.search(r"for key in public_keys\s*\{", text)
    if not a or not b or b.start() < a.start():
        return None
    inner = ("let keys_ = btree_keys_as_vec(public_keys);\n        let mut j_: usize = 0;\n        while j_ < keys_.len()\n"
             "            invariant map_consistent(map@), i_ <= psbt_inputs@.len(),\n            decreases keys_@.len() - j_,\n"
             "        {\n            let key = keys_[j_];\n            j_ += 1;")
    outer = ("let mut i_: usize = 0;\n    while i_ < psbt_inputs.len()\n        invariant map_consistent(map@), i_ <= psbt_inputs@.len(),\n"
             "        decreases psbt_inputs@.len() - i_,\n    {\n        let psbt_input = &psbt_inputs[i_];\n        i_ += 1;")
    return text[:a.start()] + outer + text[a.end():b.start()] + inner + text[b.end():]


MAP_EXT = r"""
// ---- BTreeMap: the further std methods the updater / the key-hash map use (same uninterpreted view) --------------------------
pub struct MapKeys<'a, K, V> { pub m: &'a BTreeMap<K, V> }
impl<K, V> BTreeMap<K, V> {
    #[verifier::external_body]
    pub fn new() -> (r: BTreeMap<K, V>) ensures r@ == Map::<K, V>::empty() { unimplemented!() }
    // std: "If the map did have this key present, the value is updated"
    #[verifier::external_body]
    pub fn insert(&mut self, k: K, v: V) -> (r: Option<V>) ensures final(self)@ == old(self)@.insert(k, v) { unimplemented!() }
    #[verifier::external_body]
    pub fn keys<'a>(&'a self) -> (r: MapKeys<'a, K, V>) ensures r.m == self { unimplemented!() }
    // std: "Moves all elements from other into self, leaving other empty. If a key from other is already present in self, the
    // respective value from self will be overwritten with the respective value from other."
    #[verifier::external_body]
    pub fn append(&mut self, other: &mut BTreeMap<K, V>)
        ensures final(self)@ == old(self)@.union_prefer_right(old(other)@), final(other)@ == Map::<K, V>::empty(),
    { unimplemented!() }
}
// `for key in map.keys()`: the keys in ascending order, each once
#[verifier::external_body]
pub fn btree_keys_as_vec<'a, K, V>(keys: MapKeys<'a, K, V>) -> (r: Vec<&'a K>)
    ensures forall|j: int| 0 <= j < r@.len() ==> keys.m@.contains_key(*#[trigger] r@[j]),
            forall|k: K| keys.m@.contains_key(k) ==> exists|j: int| 0 <= j < r@.len() && *#[trigger] r@[j] == k,
{ unimplemented!() }
"""


def emit_dep_structs(vf, dep, ver):
    for rel, anchor, rws in (("src/blockdata/transaction.rs", "struct:OutPoint", [STRIP_ATTRS]),
                             ("src/blockdata/transaction.rs", "struct:TxOut", [KEEP_EQ, sub("R1-attrs", r"(?m)^\s*#\[cfg_attr\(.*\)\]\n", "", required=False)]),
                             ("src/blockdata/transaction.rs", "struct:TxIn", [STRIP_ATTRS]),
                             ("src/blockdata/transaction.rs", "struct:Transaction", [STRIP_ATTRS]),
                             ("src/psbt/map/input.rs", "struct:Input", [STRIP_ATTRS]),
                             ("src/psbt/map/output.rs", "struct:Output", [STRIP_ATTRS]),
                             ("src/psbt/mod.rs", "struct:Psbt", [STRIP_ATTRS])):
        reg = dep.at(rel, anchor)
        text = vf._apply(strip_docs(reg.text), rws, anchor).strip("\n")
        vf._emit(text, dict(origin="repo", file="bitcoin-%s/%s" % (ver, rel), lines=reg.lines(), anchor=anchor))


# ----------------------------------------------------------------------------------------------------------------------
# contracts, part A
# ----------------------------------------------------------------------------------------------------------------------
P = "*psbt"
IDX = "index as int"
INP = "this_inp(%s, %s)" % (P, IDX)
SPK = "spent_spk(%s, %s)" % (P, IDX)
HAS = "spent_output(%s, %s) is Some" % (P, IDX)
PRE_A = [Clause("index_in_both_input_lists", (), "psbt_wf(%s, %s)" % (P, IDX))]


def err_is(v):
    return "r is Err && r->Err_0 is %s" % v


def get_utxo_contract():
    return Contract(requires=PRE_A, ensures=[
        C("witness_utxo_wins", "%s.witness_utxo is Some ==> r is Ok && *r->Ok_0 == %s.witness_utxo->Some_0" % (INP, INP)),
        C("non_witness_utxo_output_named_by_prevout", "%s.witness_utxo is None && %s ==> r is Ok && *r->Ok_0 == %s.non_witness_utxo->Some_0.output@[prev_vout(%s, %s)]" % (INP, HAS, INP, P, IDX)),
        C("is_the_spent_output", "r is Ok ==> %s && *r->Ok_0 == spent_output(%s, %s)->Some_0" % (HAS, P, IDX)),
        C("missing_utxo_reported", "%s.witness_utxo is None && %s.non_witness_utxo is None ==> %s" % (INP, INP, err_is("MissingUtxo"))),
        # "Malformed or oversized input is reported as an error value" (C11): a prevout index beyond the outputs of the supplied transaction
        C("prevout_index_out_of_range_is_an_error", "%s.witness_utxo is None && %s.non_witness_utxo is Some && !(%s) ==> r is Err" % (INP, INP, HAS), C11),
    ])


def get_spk_contract():
    return Contract(requires=PRE_A, ensures=[
        C("is_the_spent_outputs_script", "r is Ok ==> %s && r->Ok_0 == %s" % (HAS, SPK)),
        C("ok_whenever_the_spent_output_is_known", "%s ==> r is Ok" % HAS),
        C("missing_utxo_reported", "%s.witness_utxo is None && %s.non_witness_utxo is None ==> %s" % (INP, INP, err_is("MissingUtxo"))),
    ])


def get_descriptor_contract():
    D = "r->Ok_0"
    RS = "%s.redeem_script" % INP
    WS = "%s.witness_script" % INP
    PS_ = "%s.partial_sigs@" % INP
    sh = "%s.spec_is_p2sh()" % SPK
    nested_wsh = "%s && %s is Some && %s->Some_0.spec_is_p2wsh()" % (sh, RS, RS)
    nested_wpkh = "%s && %s is Some && !%s->Some_0.spec_is_p2wsh() && %s->Some_0.spec_is_p2wpkh()" % (sh, RS, RS, RS)
    plain_sh = "%s && %s is Some && !%s->Some_0.spec_is_p2wsh() && !%s->Some_0.spec_is_p2wpkh()" % (sh, RS, RS, RS)
    return Contract(requires=PRE_A, ensures=[
        # the one statement every branch must meet: the inferred descriptor pays to the output being spent
        C("inferred_descriptor_has_the_spent_script_pubkey", "r is Ok ==> %s && desc_spk(%s) == %s" % (HAS, D, SPK)),
        C("missing_utxo_reported", "%s.witness_utxo is None && %s.non_witness_utxo is None ==> %s" % (INP, INP, err_is("MissingUtxo"))),
        C("never_infers_taproot", "r is Ok ==> !(%s is Tr)" % D),
        # p2pkh / p2wpkh: THE key among the partial signatures whose hash is committed to
        C("p2pkh.is_pkh_of_a_signing_key_hashing_to_spk", "r is Ok && %s.spec_is_p2pkh() ==> (%s matches Descriptor::Pkh(p) && %s.contains_key(p.pk) && P2PKH(p.pk) == %s)" % (SPK, D, PS_, SPK)),
        C("p2pkh.missing_pubkey_reported", "%s && %s.spec_is_p2pkh() && (forall|k: PublicKey| #[trigger] %s.contains_key(k) ==> P2PKH(k) != %s) ==> %s" % (HAS, SPK, PS_, SPK, err_is("MissingPubkey"))),
        C("p2wpkh.is_wpkh_of_a_compressed_signing_key_hashing_to_spk", "r is Ok && %s.spec_is_p2wpkh() ==> (%s matches Descriptor::Wpkh(w) && %s.contains_key(w.pk) && w.pk.compressed && P2WPKH(w.pk) == %s)" % (SPK, D, PS_, SPK)),
        C("p2wpkh.missing_pubkey_reported", "%s && %s.spec_is_p2wpkh() && (forall|k: PublicKey| #[trigger] %s.contains_key(k) ==> !(k.compressed && P2WPKH(k) == %s)) ==> %s" % (HAS, SPK, PS_, SPK, err_is("MissingPubkey"))),
        # p2wsh: BIP141 witness program = SHA256(witnessScript)
        C("p2wsh.witness_script_hash_checked", "r is Ok && %s.spec_is_p2wsh() ==> %s is Some && P2WSH(%s->Some_0) == %s" % (SPK, WS, WS, SPK)),
        C("p2wsh.is_wsh_of_the_witness_script", "r is Ok && %s.spec_is_p2wsh() ==> (%s matches Descriptor::Wsh(w) && w.ms.enc() == %s->Some_0)" % (SPK, D, WS)),
        C("p2wsh.missing_witness_script_reported", "%s && %s.spec_is_p2wsh() && %s is None && %s is None ==> %s" % (HAS, SPK, WS, RS, err_is("MissingWitnessScript"))),
        C("p2wsh.wrong_witness_script_reported", "%s && %s.spec_is_p2wsh() && %s is None && %s is Some && P2WSH(%s->Some_0) != %s ==> %s" % (HAS, SPK, RS, WS, WS, SPK, err_is("InvalidWitnessScript"))),
        C("p2wsh.stray_redeem_script_reported", "%s && %s.spec_is_p2wsh() && %s is Some ==> %s" % (HAS, SPK, RS, err_is("NonEmptyRedeemScript"))),
        # p2sh: BIP16 HASH160(redeemScript)
        C("p2sh.redeem_script_hash_checked", "r is Ok && %s ==> %s is Some && P2SH(%s->Some_0) == %s" % (sh, RS, RS, SPK)),
        C("p2sh.is_sh", "r is Ok && %s ==> %s is Sh" % (sh, D)),
        C("p2sh.missing_redeem_script_reported", "%s && %s && %s is None ==> %s" % (HAS, sh, RS, err_is("MissingRedeemScript"))),
        C("p2sh.wrong_redeem_script_reported", "%s && %s && %s is Some && P2SH(%s->Some_0) != %s ==> %s" % (HAS, sh, RS, RS, SPK, err_is("InvalidRedeemScript"))),
        # nested segwit (BIP141): the redeemScript is the witness program
        C("sh_wsh.witness_script_hash_checked_against_the_redeem_script", "r is Ok && %s ==> %s is Some && P2WSH(%s->Some_0) == %s->Some_0" % (nested_wsh, WS, WS, RS)),
        C("sh_wsh.is_sh_wsh_of_the_witness_script", "r is Ok && %s ==> (%s matches Descriptor::Sh(s) && (s.inner matches ShInner::Wsh(w) && w.ms.enc() == %s->Some_0))" % (nested_wsh, D, WS)),
        C("sh_wsh.missing_witness_script_reported", "%s && %s && P2SH(%s->Some_0) == %s && %s is None ==> %s" % (HAS, nested_wsh, RS, SPK, WS, err_is("MissingWitnessScript"))),
        C("sh_wsh.wrong_witness_script_reported", "%s && %s && P2SH(%s->Some_0) == %s && %s is Some && P2WSH(%s->Some_0) != %s->Some_0 ==> %s" % (HAS, nested_wsh, RS, SPK, WS, WS, RS, err_is("InvalidWitnessScript"))),
        C("sh_wpkh.is_sh_wpkh_of_a_compressed_signing_key_hashing_to_the_redeem_script", "r is Ok && %s ==> (%s matches Descriptor::Sh(s) && (s.inner matches ShInner::Wpkh(w) && %s.contains_key(w.pk) && w.pk.compressed && P2WPKH(w.pk) == %s->Some_0))" % (nested_wpkh, D, PS_, RS)),
        C("sh_wpkh.missing_pubkey_reported", "%s && %s && P2SH(%s->Some_0) == %s && (forall|k: PublicKey| #[trigger] %s.contains_key(k) ==> !(k.compressed && P2WPKH(k) == %s->Some_0)) ==> %s" % (HAS, nested_wpkh, RS, SPK, PS_, RS, err_is("MissingPubkey"))),
        C("sh_ms.is_sh_of_the_redeem_script", "r is Ok && %s ==> (%s matches Descriptor::Sh(s) && (s.inner matches ShInner::Ms(ms) && ms.enc() == %s->Some_0))" % (plain_sh, D, RS)),
        C("sh_ms.stray_witness_script_reported", "%s && %s && P2SH(%s->Some_0) == %s && %s is Some ==> %s" % (HAS, plain_sh, RS, SPK, WS, err_is("NonEmptyWitnessScript"))),
        # anything else: the scriptPubKey itself is the (bare) script
        C("bare.is_bare_of_the_script_pubkey", "r is Ok && !%s.spec_is_p2pk() && !%s.spec_is_p2pkh() && !%s.spec_is_p2wpkh() && !%s.spec_is_p2wsh() && !%s ==> (%s matches Descriptor::Bare(b) && b.ms.enc() == %s)" % (SPK, SPK, SPK, SPK, sh, D, SPK)),
        C("p2pk.is_bare", "r is Ok && %s.spec_is_p2pk() ==> %s is Bare" % (SPK, D)),
    ])


DROPPED = [
    "c14_update: imported preludes (c16_wrappers.PRELUDE, the BTreeMap model of c14_psbt_satisfier.PRELUDE) are adapted textually: bitcoin::PublicKey gets its real fields {compressed, inner} and Copy / Eq, ScriptBuf gets Eq, crate::Error gets the ContextError variant, `mod bitcoin` re-exports the stand-ins",
    "c14_update: `&Script` parameters are `&ScriptBuf`; `*script_pubkey` (ScriptBuf deref'd to the unsized Script for `==` / `!=`) is written `script_pubkey` (R7: both compare the script bytes)",
    "c14_update: get_descriptor: the two nested `for` loops building the hash160 -> key map over `bip32_derivation.keys()` of all inputs are index loops over `btree_keys_as_vec` (R8, bodies verbatim); only the invariant needed downstream (every entry's key hashes to its index) is carried, not which keys are collected",
    "c14_update: `.find(|&(&pk, _sig)| { .. })` -> `.find(|kv: &(&PublicKey, &Signature)| { let pk = *kv.0; .. })` with a ghost contract (R16 / R10); `get_scriptpubkey`'s `.map(|utxo| ..)` closure gets a parameter type and an `ensures` (R10)",
]


def build(repo):
    vf = VerusFile(NAME, repo)
    dep, ver = dep_repo(repo)
    vf.raw(w_prelude(), keep_vis=True)
    vf.raw(btree_prelude(), keep_vis=True)
    vf.raw(MAP_EXT, keep_vis=True)
    vf.raw(DEPS, keep_vis=True)
    emit_dep_structs(vf, dep, ver)
    vf.raw(PSBT_MODS, keep_vis=True)
    for rel, a in ((SEG, "struct:Wsh"), (SEG, "struct:Wpkh"), (SH, "struct:Sh"), (SH, "enum:ShInner"), (BARE, "struct:Bare"),
                   (BARE, "struct:Pkh"), (DMOD, "enum:Descriptor")):
        vf.item(rel, a, rewrites=[STRIP_DERIVE])
    vf.raw(W.ORACLE)
    vf.raw(MS_EXT, keep_vis=True)
    vf.item(PMOD, "enum:InputError", rewrites=[STRIP_ATTRS, SUPER_ERR])
    vf.raw(INPUT_ERR_GLUE)
    with vf.block("impl From<Error> for InputError"):
        vf.fn(PMOD, "impl:From<super::Error> for InputError/fn:from", qual="InputError as From<Error>", props=C11, rewrites=[SUPER_ERR])
    with vf.block("impl From<FromSliceError> for InputError"):
        vf.fn(PMOD, "impl:From<bitcoin::key::FromSliceError> for InputError/fn:from", qual="InputError as From<FromSliceError>", props=C11,
              rewrites=[lit("R7", "bitcoin::key::FromSliceError", "FromSliceError")])
    vf.raw(ORACLE_A)

    # ---- descriptor constructors the inference goes through (real text) ---------------------------------------------------
    FP = ("C14", "C11")
    with vf.block("impl<Pk: MiniscriptKey + ToPublicKey> Wsh<Pk>"):
        vf.fn(SEG, "impl:Wsh<Pk>#0/fn:new", qual="Wsh", props=FP, contract=Contract(ensures=[C("wraps_the_miniscript", "r is Ok ==> r->Ok_0.ms == ms")]))
    with vf.block("impl<Pk: MiniscriptKey + ToPublicKey> Wpkh<Pk>"):
        vf.fn(SEG, "impl:Wpkh<Pk>#0/fn:new", qual="Wpkh", props=FP, contract=Contract(ensures=[
            C("wraps_the_key", "r is Ok ==> r->Ok_0.pk == pk"), C("only_compressed_keys", "r is Ok ==> pk.spec_pk().compressed")]))
    with vf.block("impl<Pk: MiniscriptKey + ToPublicKey> Bare<Pk>"):
        vf.fn(BARE, "impl:Bare<Pk>#0/fn:new", qual="Bare", props=FP, contract=Contract(ensures=[C("wraps_the_miniscript", "r is Ok ==> r->Ok_0.ms == ms")]))
    with vf.block("impl<Pk: MiniscriptKey + ToPublicKey> Pkh<Pk>"):
        vf.fn(BARE, "impl:Pkh<Pk>#0/fn:new", qual="Pkh", props=FP, contract=Contract(ensures=[C("wraps_the_key", "r is Ok ==> r->Ok_0.pk == pk")]))
    with vf.block("impl<Pk: MiniscriptKey + ToPublicKey> Sh<Pk>"):
        vf.fn(SH, "impl:Sh<Pk>#0/fn:new", qual="Sh", props=FP, contract=Contract(ensures=[C("is_sh_ms", "r is Ok ==> r->Ok_0.inner == ShInner::<Pk>::Ms(ms)")]))
        vf.fn(SH, "impl:Sh<Pk>#0/fn:new_wsh", qual="Sh", props=FP, contract=Contract(ensures=[C("is_sh_wsh", "r is Ok ==> r->Ok_0.inner == ShInner::<Pk>::Wsh(Wsh { ms })")]))
        vf.fn(SH, "impl:Sh<Pk>#0/fn:new_wpkh", qual="Sh", props=FP, contract=Contract(ensures=[
            C("is_sh_wpkh", "r is Ok ==> r->Ok_0.inner == ShInner::<Pk>::Wpkh(Wpkh { pk })"), C("only_compressed_keys", "r is Ok ==> pk.spec_pk().compressed")]))
    with vf.block("impl<Pk: MiniscriptKey + ToPublicKey> Descriptor<Pk>"):
        I = "impl:Descriptor<Pk>#0/fn:"
        vf.fn(DMOD, I + "new_pkh", qual="Descriptor", props=FP, contract=Contract(ensures=[C("is_pkh", "r is Ok ==> r->Ok_0 == Descriptor::<Pk>::Pkh(Pkh { pk })")]))
        vf.fn(DMOD, I + "new_wpkh", qual="Descriptor", props=FP, contract=Contract(ensures=[
            C("is_wpkh", "r is Ok ==> r->Ok_0 == Descriptor::<Pk>::Wpkh(Wpkh { pk }) && pk.spec_pk().compressed")]))
        vf.fn(DMOD, I + "new_sh_wpkh", qual="Descriptor", props=FP, contract=Contract(ensures=[
            C("is_sh_wpkh", "r is Ok ==> r->Ok_0 == Descriptor::<Pk>::Sh(Sh { inner: ShInner::Wpkh(Wpkh { pk }) }) && pk.spec_pk().compressed")]))
        vf.fn(DMOD, I + "new_sh", qual="Descriptor", props=FP, contract=Contract(ensures=[C("is_sh_ms", "r is Ok ==> r->Ok_0 == Descriptor::<Pk>::Sh(Sh { inner: ShInner::Ms(ms) })")]))
        vf.fn(DMOD, I + "new_wsh", qual="Descriptor", props=FP, contract=Contract(ensures=[C("is_wsh", "r is Ok ==> r->Ok_0 == Descriptor::<Pk>::Wsh(Wsh { ms })")]))
        vf.fn(DMOD, I + "new_sh_wsh", qual="Descriptor", props=FP, contract=Contract(ensures=[C("is_sh_wsh", "r is Ok ==> r->Ok_0 == Descriptor::<Pk>::Sh(Sh { inner: ShInner::Wsh(Wsh { ms }) })")]))
        vf.fn(DMOD, I + "new_bare", qual="Descriptor", props=FP, contract=Contract(ensures=[C("is_bare", "r is Ok ==> r->Ok_0 == Descriptor::<Pk>::Bare(Bare { ms })")]))

    # ---- A. descriptor inference --------------------------------------------------------------------------------------------
    vf.fn(FIN, "fn:get_utxo", props=PROPS, contract=get_utxo_contract(), rewrites=[lit("R7", "&bitcoin::TxOut", "&TxOut")])
    vf.fn(FIN, "fn:get_scriptpubkey", props=PROPS, contract=get_spk_contract(), rewrites=[
        lit("R10", ".map(|utxo| utxo.script_pubkey.clone())", ".map(|utxo: &TxOut| -> (s: ScriptBuf) ensures s == utxo.script_pubkey { utxo.script_pubkey.clone() })")])
    DEREF = sub("R7-script-deref", r"\*script_pubkey\b", "script_pubkey")
    vf.fn(FIN, "fn:get_descriptor", props=PROPS, contract=get_descriptor_contract(), rewrites=[
        key_map_loops, DEREF,
        find_closure("b == (script_pubkey == P2PKH(*kv.0))", "p2pkh.candidate_key_hashes_to_the_script_pubkey"),
        find_closure("b == (kv.0.compressed && script_pubkey == P2WPKH(*kv.0))", "p2wpkh.candidate_key_is_compressed_and_hashes_to_the_script_pubkey"),
        find_closure("b == (kv.0.compressed && *redeem_script == P2WPKH(*kv.0))", "sh_wpkh.candidate_key_is_compressed_and_hashes_to_the_redeem_script"),
        lit("R10", "let inp = &psbt.inputs[index];", "let inp = &psbt.inputs[index];\n    proof { axiom_output_types_exclusive(script_pubkey); }"),
    ])
    PS.register_closure_clauses(vf, "get_descriptor", lambda tag: C14)
    return vf
