"""Shared prelude for per-node step units: the real `Terminal`, `Miniscript`, `Threshold` type
definitions extracted from /repo, plus stubs for the external types they mention.

What is a stub (trusted, listed by `emit`): the traits `MiniscriptKey` / `ScriptContext` reduced to
what the steps use, `hash160::Hash`, `AbsLockTime`, `RelLockTime` as opaque value types.
"""
from vlib.verus import Contract, Clause, sub, lit

DECODE = "src/miniscript/decode.rs"
MSMOD = "src/miniscript/mod.rs"
THRESH = "src/primitives/threshold.rs"
LIMITS = "src/miniscript/limits.rs"
TYPES = "src/miniscript/types/mod.rs"
CORR = "src/miniscript/types/correctness.rs"
MALL = "src/miniscript/types/malleability.rs"
EXT = "src/miniscript/types/extra_props.rs"

STUBS = r"""
use std::sync::Arc;
use core::marker::PhantomData;

// ---- stubs of external / out-of-unit types (trusted, listed in evidence) --------------------------
trait MiniscriptKey: Sized + Clone + Eq {
    type Sha256: Clone + Eq;
    type Hash256: Clone + Eq;
    type Ripemd160: Clone + Eq;
    type Hash160: Clone + Eq;
    spec fn spec_is_uncompressed(&self) -> bool;
    fn is_uncompressed(&self) -> (r: bool) ensures r == self.spec_is_uncompressed();
    spec fn spec_is_x_only_key(&self) -> bool;
    fn is_x_only_key(&self) -> (r: bool) ensures r == self.spec_is_x_only_key();
}
mod hash160 {
    use vstd::prelude::*;
    verus!{
    #[derive(Clone, Copy, PartialEq, Eq)]
    pub struct Hash(pub [u8; 20]);
    }
}
#[derive(Clone, Copy, PartialEq, Eq)]
struct AbsLockTime(u32);
#[derive(Clone, Copy, PartialEq, Eq)]
struct RelLockTime(u32);
impl AbsLockTime {
    spec fn consensus(self) -> u32 { self.0 }
    fn to_consensus_u32(self) -> (r: u32) ensures r == self.consensus() { self.0 }
}
impl RelLockTime {
    spec fn consensus(self) -> u32 { self.0 }
    fn to_consensus_u32(self) -> (r: u32) ensures r == self.consensus() { self.0 }
}
"""

SCRIPT_CONTEXT_MIN = r"""
trait ScriptContext: Sized {}
"""


def emit(vf, ext="opaque", types="defs", script_context=SCRIPT_CONTEXT_MIN, terminal=True):
    """Emit the prelude.  ext: 'opaque' | 'real' ; types: 'defs' (struct/enum definitions of
    Type, Correctness, Malleability extracted) | 'none'."""
    vf.raw(STUBS, keep_vis=True)
    vf.raw(script_context)
    vf.trust("prelude stubs MiniscriptKey / ScriptContext / hash160::Hash / AbsLockTime / RelLockTime",
             "external or out-of-unit types reduced to opaque values + the methods the unit calls")
    for c in ("MAX_PUBKEYS_PER_MULTISIG", "MAX_PUBKEYS_IN_CHECKSIGADD"):
        vf.item(LIMITS, "const:%s" % c)
    if types == "defs":
        vf.item(CORR, "enum:Base")
        vf.item(CORR, "enum:Input")
        vf.item(CORR, "struct:Correctness")
        vf.item(MALL, "enum:Dissat")
        vf.item(MALL, "struct:Malleability")
        vf.item(TYPES, "struct:Type")
    if ext == "real":
        vf.item(EXT, "struct:TimelockInfo")
        vf.item(EXT, "struct:SatData")
        vf.item(EXT, "struct:ExtData")
    elif ext == "opaque":
        vf.raw("struct ExtData { opaque: u8 }\n")
    # Threshold: real struct + accessors
    vf.item(THRESH, "struct:Threshold", rewrites=[sub("derive-off", r"#\[derive\([^)]*\)\]\s*", "", required=False)])
    vf.raw("""
impl<T, const MAX: usize> Threshold<T, MAX> {
    spec fn spec_k(&self) -> usize { self.k }
    spec fn spec_n(&self) -> nat { self.inner@.len() }
    spec fn elems(&self) -> Seq<T> { self.inner@ }
    // the invariant `Threshold::new` establishes (validate_k_n is verified in the C12 unit)
    spec fn wf(&self) -> bool { 1 <= self.k && self.k <= self.inner@.len() && (MAX == 0 || self.inner@.len() <= MAX) }
}
""")
    with vf.block("impl<T, const MAX: usize> Threshold<T, MAX>"):
        vf.fn(THRESH, "impl:Threshold<T, MAX>/fn:n", qual="Threshold", props=("C11",),
              contract=Contract(ensures=[Clause("n", (), "r == self.spec_n()")]))
        vf.fn(THRESH, "impl:Threshold<T, MAX>/fn:k", qual="Threshold", props=("C11",),
              contract=Contract(ensures=[Clause("k", (), "r == self.spec_k()")]))
        vf.fn(THRESH, "impl:Threshold<T, MAX>/fn:data", qual="Threshold", props=("C11",),
              contract=Contract(ensures=[Clause("data", (), "r@ == self.elems()")]))
    if terminal:
        vf.item(DECODE, "enum:Terminal")
        vf.item(MSMOD, "mod:private/struct:Miniscript",
                rewrites=[lit("R7", "types::extra_props::ExtData", "ExtData"), lit("R7", "types::Type", "Type")])
