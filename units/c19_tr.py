"""C19 unit (3/3): descriptor / policy level.

* `impl PartialEq / Ord / Hash for Tr` (src/descriptor/tr/mod.rs, hand-written because of the cached
  `spend_info: Mutex<..>`): equality is internal key AND script tree (structurally, not via a cached /
  derived digest), the order is lexicographic on the same two fields and its Equal is equality, the hash
  feeds exactly those two fields.
* `impl PartialEq / Ord / Hash for Miniscript` (src/miniscript/mod.rs): delegate to the fragment tree only
  (type and ext data are derived from it).
* `impl Ord for Policy` (concrete and semantic): variant name first, then the variant's payload;
  Equal exactly on structurally equal nodes; the `unreachable!` arm is unreachable.
* recorded as assumptions (derived impls): Threshold, TapTree, both Policy `PartialEq`s.
"""
import re

from vlib.verus import VerusFile, Contract, Clause, sub, lit, replace_arm
from units import _tree
from units import c19_eq as E
from units import c19_ord as O

NAME = "c19_tr"
ENGINE = "verus"
PROPS = ("C19", "C11")
TRMOD = "src/descriptor/tr/mod.rs"
TAPTREE = "src/descriptor/tr/taptree.rs"
MSMOD = "src/miniscript/mod.rs"
CONCRETE = "src/policy/concrete.rs"
SEMANTIC = "src/policy/semantic.rs"

DROPPED = [
    "struct Tr: the field type `Mutex<Option<Arc<TrSpendInfo<Pk>>>>` is replaced by the opaque stub SpendInfoCache<Pk> (R7); no extracted function reads it",
    "struct TapTree / enum Policy (both): #[derive(..)] lines dropped, the derived impls are replaced by assumed glue (listed)",
    "Policy::cmp (both): `a.cmp(b)` on Vec<Arc<Policy>> / Vec<(usize, Arc<Policy>)> / Threshold<Arc<Policy>, 0> goes to std's / the derive's lexicographic Ord, which calls back "
    "into Policy::cmp on the children: consumed through assumed specs (cmp_spec of the container), i.e. the node-level induction step is what is verified",
    "the semantic `enum Policy` is renamed SemPolicy in the woven file (two types of the same name in one module)",
]

TR_PRELUDE = r"""
// ---- Terminal-level relations (decided per pair in c19_eq / c19_ord; here: names for the whole-tree results) ----
uninterp spec fn term_eq<Pk: MiniscriptKey, Ctx: ScriptContext>(a: Terminal<Pk, Ctx>, b: Terminal<Pk, Ctx>) -> bool;
uninterp spec fn term_cmp<Pk: MiniscriptKey, Ctx: ScriptContext>(a: Terminal<Pk, Ctx>, b: Terminal<Pk, Ctx>) -> Ordering;
uninterp spec fn term_feed<Pk: MiniscriptKey, Ctx: ScriptContext>(a: Terminal<Pk, Ctx>) -> Seq<HItem>;
impl<Pk: MiniscriptKey, Ctx: ScriptContext> PartialEq for Terminal<Pk, Ctx> { #[verifier::external_body] fn eq(&self, other: &Self) -> bool { unimplemented!() } }
impl<Pk: MiniscriptKey, Ctx: ScriptContext> Eq for Terminal<Pk, Ctx> {}
impl<Pk: MiniscriptKey, Ctx: ScriptContext> vstd::std_specs::cmp::PartialEqSpecImpl for Terminal<Pk, Ctx> {
    closed spec fn obeys_eq_spec() -> bool { true }
    closed spec fn eq_spec(&self, other: &Self) -> bool { term_eq(*self, *other) }
}
impl<Pk: MiniscriptKey, Ctx: ScriptContext> PartialOrd for Terminal<Pk, Ctx> { #[verifier::external_body] fn partial_cmp(&self, other: &Self) -> Option<Ordering> { unimplemented!() } }
impl<Pk: MiniscriptKey, Ctx: ScriptContext> Ord for Terminal<Pk, Ctx> { #[verifier::external_body] fn cmp(&self, other: &Self) -> Ordering { unimplemented!() } }
impl<Pk: MiniscriptKey, Ctx: ScriptContext> vstd::std_specs::cmp::PartialOrdSpecImpl for Terminal<Pk, Ctx> {
    closed spec fn obeys_partial_cmp_spec() -> bool { true }
    closed spec fn partial_cmp_spec(&self, other: &Self) -> Option<Ordering> { Some(term_cmp(*self, *other)) }
}
impl<Pk: MiniscriptKey, Ctx: ScriptContext> vstd::std_specs::cmp::OrdSpecImpl for Terminal<Pk, Ctx> {
    closed spec fn obeys_cmp_spec() -> bool { true }
    closed spec fn cmp_spec(&self, other: &Self) -> Ordering { term_cmp(*self, *other) }
}
impl<Pk: MiniscriptKey, Ctx: ScriptContext> Hash for Terminal<Pk, Ctx> {
    closed spec fn hitems(&self) -> Seq<HItem> { term_feed(*self) }
    #[verifier::external_body] fn hash<H: Hasher>(&self, state: &mut H) { unimplemented!() }
}
"""

TAP_GLUE = r"""
// ---- Tap context, TapTree (derives -> assumed glue), spend-info cache stub -----------------------------
struct Tap;
impl ScriptContext for Tap {}
struct SpendInfoCache<Pk> { opaque: PhantomData<Pk> }

// #[derive(PartialEq, Eq, PartialOrd, Ord, Hash)] on struct TapTree { depths_leaves: Vec<(u8, Arc<Miniscript<Pk, Tap>>)> }:
// element-wise on (depth, leaf); a leaf compares through Miniscript::eq/cmp/hash = the fragment tree
spec fn taptree_eq<Pk: MiniscriptKey>(a: TapTree<Pk>, b: TapTree<Pk>) -> bool {
    &&& a.depths_leaves@.len() == b.depths_leaves@.len()
    &&& forall|i: int| 0 <= i < a.depths_leaves@.len() ==>
            (#[trigger] a.depths_leaves@[i]).0 == b.depths_leaves@[i].0 && term_eq(a.depths_leaves@[i].1.node, b.depths_leaves@[i].1.node)
}
uninterp spec fn taptree_cmp<Pk: MiniscriptKey>(a: TapTree<Pk>, b: TapTree<Pk>) -> Ordering;
uninterp spec fn taptree_feed<Pk: MiniscriptKey>(a: TapTree<Pk>) -> Seq<HItem>;
impl<Pk: MiniscriptKey> PartialEq for TapTree<Pk> { #[verifier::external_body] fn eq(&self, other: &Self) -> bool { unimplemented!() } }
impl<Pk: MiniscriptKey> Eq for TapTree<Pk> {}
impl<Pk: MiniscriptKey> vstd::std_specs::cmp::PartialEqSpecImpl for TapTree<Pk> {
    closed spec fn obeys_eq_spec() -> bool { true }
    closed spec fn eq_spec(&self, other: &Self) -> bool { taptree_eq(*self, *other) }
}
impl<Pk: MiniscriptKey> PartialOrd for TapTree<Pk> { #[verifier::external_body] fn partial_cmp(&self, other: &Self) -> Option<Ordering> { unimplemented!() } }
impl<Pk: MiniscriptKey> Ord for TapTree<Pk> { #[verifier::external_body] fn cmp(&self, other: &Self) -> Ordering { unimplemented!() } }
impl<Pk: MiniscriptKey> vstd::std_specs::cmp::PartialOrdSpecImpl for TapTree<Pk> {
    closed spec fn obeys_partial_cmp_spec() -> bool { true }
    closed spec fn partial_cmp_spec(&self, other: &Self) -> Option<Ordering> { Some(taptree_cmp(*self, *other)) }
}
impl<Pk: MiniscriptKey> vstd::std_specs::cmp::OrdSpecImpl for TapTree<Pk> {
    closed spec fn obeys_cmp_spec() -> bool { true }
    closed spec fn cmp_spec(&self, other: &Self) -> Ordering { taptree_cmp(*self, *other) }
}
impl<Pk: MiniscriptKey> Hash for TapTree<Pk> {
    closed spec fn hitems(&self) -> Seq<HItem> { taptree_feed(*self) }
    #[verifier::external_body] fn hash<H: Hasher>(&self, state: &mut H) { unimplemented!() }
}
// std: Hash for Option<T> = discriminant, then the payload
impl<T: Hash> Hash for Option<T> {
    closed spec fn hitems(&self) -> Seq<HItem> { match *self { None => seq![HItem::Disc(0)], Some(x) => seq![HItem::Disc(1)] + x.hitems() } }
    #[verifier::external_body] fn hash<H: Hasher>(&self, state: &mut H) { unimplemented!() }
}

// ---- oracle for Tr: a taproot descriptor IS (internal key, optional script tree) -------------------------
spec fn opt_tree_eq<Pk: MiniscriptKey>(a: Option<TapTree<Pk>>, b: Option<TapTree<Pk>>) -> bool {
    match (a, b) { (None, None) => true, (Some(x), Some(y)) => taptree_eq(x, y), _ => false }
}
spec fn opt_tree_cmp<Pk: MiniscriptKey>(a: Option<TapTree<Pk>>, b: Option<TapTree<Pk>>) -> Ordering {
    match (a, b) { (None, None) => Ordering::Equal, (None, Some(_)) => Ordering::Less, (Some(_), None) => Ordering::Greater, (Some(x), Some(y)) => taptree_cmp(x, y) }
}
spec fn tr_same<Pk: MiniscriptKey>(a: Tr<Pk>, b: Tr<Pk>) -> bool { a.internal_key == b.internal_key && opt_tree_eq(a.tree, b.tree) }
spec fn tr_cmp_spec<Pk: MiniscriptKey + Ord>(a: Tr<Pk>, b: Tr<Pk>) -> Ordering { lex(a.internal_key.cmp_spec(&b.internal_key), opt_tree_cmp(a.tree, b.tree)) }
// induction hypothesis for the order laws: the derived order of the script tree is a total order whose Equal
// is the derived equality (needs Miniscript's Ord/Eq consistency: decided -- and today refuted, F2/F6 -- in c19_eq / c19_ord)
spec fn taptree_order_laws<Pk: MiniscriptKey>() -> bool {
    &&& forall|a: TapTree<Pk>, b: TapTree<Pk>| (#[trigger] taptree_cmp(a, b) == Ordering::Equal) <==> taptree_eq(a, b)
    &&& forall|a: TapTree<Pk>, b: TapTree<Pk>| #[trigger] taptree_cmp(a, b) == rev(taptree_cmp(b, a))
}
"""

TR_LAWS = r"""
proof fn tr_cmp_equal_iff_eq<Pk: MiniscriptKey + Ord>(a: Tr<Pk>, b: Tr<Pk>)
    requires ord_structural::<Pk>(), taptree_order_laws::<Pk>(),
    ensures tr_cmp_spec(a, b) == Ordering::Equal <==> tr_same(a, b),
{
}
proof fn tr_cmp_antisymmetric<Pk: MiniscriptKey + Ord>(a: Tr<Pk>, b: Tr<Pk>)
    requires ord_structural::<Pk>(), taptree_order_laws::<Pk>(),
    ensures tr_cmp_spec(a, b) == rev(tr_cmp_spec(b, a)),
{
}
"""

POLICY_GLUE = r"""
// std / derive: lexicographic Ord of the child containers, calling back into Policy::cmp for the elements.
// Assumed (induction hypothesis at node level): it is Equal exactly on equal containers.
#[verifier::external_body]
fn vec_cmp<T>(a: &Vec<T>, b: &Vec<T>) -> (r: Ordering) ensures r == vec_cmp_spec(*a, *b) { unimplemented!() }
uninterp spec fn vec_cmp_spec<T>(a: Vec<T>, b: Vec<T>) -> Ordering;
uninterp spec fn thr_cmp_spec<T, const MAX: usize>(a: Threshold<T, MAX>, b: Threshold<T, MAX>) -> Ordering;
impl<T: Ord, const MAX: usize> PartialOrd for Threshold<T, MAX> { #[verifier::external_body] fn partial_cmp(&self, other: &Self) -> Option<Ordering> { unimplemented!() } }
impl<T: Ord, const MAX: usize> Eq for Threshold<T, MAX> {}
impl<T: Ord, const MAX: usize> Ord for Threshold<T, MAX> { #[verifier::external_body] fn cmp(&self, other: &Self) -> Ordering { unimplemented!() } }
impl<T: Ord, const MAX: usize> vstd::std_specs::cmp::PartialOrdSpecImpl for Threshold<T, MAX> {
    closed spec fn obeys_partial_cmp_spec() -> bool { true }
    closed spec fn partial_cmp_spec(&self, other: &Self) -> Option<Ordering> { Some(thr_cmp_spec(*self, *other)) }
}
impl<T: Ord, const MAX: usize> vstd::std_specs::cmp::OrdSpecImpl for Threshold<T, MAX> {
    closed spec fn obeys_cmp_spec() -> bool { true }
    closed spec fn cmp_spec(&self, other: &Self) -> Ordering { thr_cmp_spec(*self, *other) }
}
spec fn children_order_consistent<T, const MAX: usize>() -> bool {
    &&& forall|a: Vec<T>, b: Vec<T>| (#[trigger] vec_cmp_spec(a, b) == Ordering::Equal) <==> a == b
    &&& forall|a: Vec<(usize, T)>, b: Vec<(usize, T)>| (#[trigger] vec_cmp_spec(a, b) == Ordering::Equal) <==> a == b
    &&& forall|a: Threshold<T, MAX>, b: Threshold<T, MAX>| (#[trigger] thr_cmp_spec(a, b) == Ordering::Equal) <==> a == b
}
"""


def policy_block(vf, rel, ty, variants, names_fn):
    """enum + variant_name + cmp of one of the two Policy types."""
    rn = [] if ty == "Policy" else [sub("R7-rename", r"\benum Policy\b", "enum %s" % ty)]
    vf.item(rel, "enum:Policy", rewrites=[sub("derive-off", r"#\[derive\([^)]*\)\]\s*", "")] + rn)
    pairs = "\n".join('        %s::%s%s => "%s",' % (ty, v, "" if v in ("Unsatisfiable", "Trivial") else "(..)", v.lower()) for v in variants)
    idx = "\n".join('        %s::%s%s => %d,' % (ty, v, "" if v in ("Unsatisfiable", "Trivial") else "(..)", i) for i, v in enumerate(variants))
    reveals = " ".join('reveal_strlit("%s");' % v.lower() for v in variants)
    vf.raw(r"""
// oracle: a policy node is its combinator (named as in the policy language) and that combinator's arguments
spec fn %(p)s_name<Pk: MiniscriptKey>(p: %(ty)s<Pk>) -> &'static str {
    match p {
%(pairs)s
    }
}
spec fn %(p)s_idx<Pk: MiniscriptKey>(p: %(ty)s<Pk>) -> int {
    match p {
%(idx)s
    }
}
// derived PartialEq on the enum (assumption): structural equality, children through Arc
impl<Pk: MiniscriptKey> PartialEq for %(ty)s<Pk> { #[verifier::external_body] fn eq(&self, other: &Self) -> bool { unimplemented!() } }
impl<Pk: MiniscriptKey> Eq for %(ty)s<Pk> {}
// trait-level Ord of the policy type: only here so that the child containers are `Ord` (the recursive calls go
// through std / the derive, see vec_cmp / Threshold); the hand-written body is verified below as an inherent fn
impl<Pk: MiniscriptKey> PartialOrd for %(ty)s<Pk> { #[verifier::external_body] fn partial_cmp(&self, other: &Self) -> Option<Ordering> { unimplemented!() } }
impl<Pk: MiniscriptKey> Ord for %(ty)s<Pk> { #[verifier::external_body] fn cmp(&self, other: &Self) -> Ordering { unimplemented!() } }
""" % dict(p=names_fn, ty=ty, pairs=pairs, idx=idx))
    vf.spec_obligation("lemma::%s_names_distinct" % names_fn, r"""
proof fn %(p)s_names_distinct<Pk: MiniscriptKey>()
    ensures forall|x: %(ty)s<Pk>, y: %(ty)s<Pk>| #[trigger] %(p)s_name(x)@ == #[trigger] %(p)s_name(y)@ ==> %(p)s_idx(x) == %(p)s_idx(y),
{
    %(reveals)s
    assert forall|x: %(ty)s<Pk>, y: %(ty)s<Pk>| #[trigger] %(p)s_name(x)@ == #[trigger] %(p)s_name(y)@ implies %(p)s_idx(x) == %(p)s_idx(y) by {
        let a = %(p)s_name(x)@; let b = %(p)s_name(y)@;
        assert(a.len() == b.len());
        assert(a[0] == b[0]);
        if a.len() > 1 { assert(a[1] == b[1]); }
        if a.len() > 4 { assert(a[4] == b[4]); }
    }
}
""" % dict(p=names_fn, ty=ty, reveals=reveals), ("C19",))
    leaf_same = " && ".join("(self is %s ==> self->%s_0 == other->%s_0)" % (v, v, v)
                            for v in variants if v not in ("Unsatisfiable", "Trivial"))
    with vf.block("impl<%s> %s<Pk> %s" % ("Pk: MiniscriptKey + Ord", ty, O_WHERE)):
        vf.fn(rel, "impl:Policy<Pk>/fn:variant_name", qual=ty, props=PROPS,
              contract=Contract(ensures=[Clause("is_language_name", ("C19",), "r == %s_name(*self)" % names_fn)]))
        vf.fn(rel, "impl:Ord for Policy<Pk>/fn:cmp", qual=ty, props=PROPS,
              rewrites=[E.R_UNREACHABLE, sub("R4-vec-cmp", r"\(Self::(And|Or)\(a\), Self::\1\(b\)\) => a\.cmp\(b\),", r"(Self::\1(a), Self::\1(b)) => vec_cmp(a, b),",
                            required=(ty == "Policy")),
                        lit("R10", "match self.variant_name().cmp(other.variant_name()) {", "proof { axiom_str_ord(); %s_names_distinct::<Pk>(); }\n        match self.variant_name().cmp(other.variant_name()) {" % names_fn)],
              contract=Contract(
                  requires=["key_ord_laws::<Pk>()", "children_order_consistent::<Arc<%s<Pk>>, 0>()" % ty],
                  ensures=[
                      Clause("variant_first", ("C19",), "%s_idx(*self) != %s_idx(*other) ==> r == %s_name(*self).cmp_spec(%s_name(*other)) && r != Ordering::Equal" % ((names_fn,) * 4)),
                      Clause("payload_order", ("C19",), " && ".join(
                          ["(self is %s && other is %s ==> r == self->%s_0.cmp_spec(&other->%s_0))" % (v, v, v, v) for v in ("Key", "Sha256", "Hash256", "Ripemd160", "Hash160")] +
                          ["(self is %s && other is %s ==> r == u_cmp(self->%s_0.consensus() as int, other->%s_0.consensus() as int))" % (v, v, v, v) for v in ("After", "Older")])),
                      Clause("equal_iff_same_node", ("C19",), "r == Ordering::Equal <==> (%s_idx(*self) == %s_idx(*other) && %s)" % (names_fn, names_fn, leaf_same)),
                  ]))


O_WHERE = "where Pk::Sha256: Ord, Pk::Hash256: Ord, Pk::Ripemd160: Ord, Pk::Hash160: Ord"
CONCRETE_VARIANTS = ["Unsatisfiable", "Trivial", "Key", "After", "Older", "Sha256", "Hash256", "Ripemd160", "Hash160", "And", "Or", "Thresh"]
SEMANTIC_VARIANTS = ["Unsatisfiable", "Trivial", "Key", "After", "Older", "Sha256", "Hash256", "Ripemd160", "Hash160", "Thresh"]


def build(repo):
    vf = VerusFile(NAME, repo)
    E.emit_prelude(vf, hashing=True)
    vf.raw(O.ORD_GLUE)
    vf.trust("PartialOrd / Ord for hash160::Hash (external_body) + ord_structural::<hash160::Hash>() inside key_ord_laws",
             "derived byte-wise lexicographic order of bitcoin_hashes' hash160::Hash")
    vf.trust("axiom_str_ord (external_body proof fn)", "std: Ord for str is the lexicographic total order on the characters, Equal iff same string")
    vf.raw(TR_PRELUDE)
    vf.trust("PartialEq / Ord / Hash for Terminal (external_body; eq_spec = term_eq, cmp_spec = term_cmp, hitems = term_feed, all uninterpreted)",
             "the whole-tree results of the zipped loops; their per-pair steps are decided in c19_eq / c19_ord.  Nothing is assumed about them here")

    # ---- Miniscript: eq / cmp / hash look at the fragment tree only -----------------------------------
    with vf.block("impl<Pk: MiniscriptKey, Ctx: ScriptContext> Miniscript<Pk, Ctx>"):
        vf.fn(MSMOD, "impl:PartialEq for Miniscript<Pk, Ctx>/fn:eq", qual="Miniscript", props=PROPS,
              contract=Contract(ensures=[Clause("node_only", ("C19",), "r == term_eq(self.node, other.node)")]))
        vf.fn(MSMOD, "impl:Ord for Miniscript<Pk, Ctx>/fn:cmp", qual="Miniscript", props=PROPS,
              contract=Contract(ensures=[Clause("node_only", ("C19",), "r == term_cmp(self.node, other.node)")]))
        vf.fn(MSMOD, "impl:PartialOrd for Miniscript<Pk, Ctx>/fn:partial_cmp", qual="Miniscript", props=PROPS,
              contract=Contract(ensures=[Clause("some_cmp", ("C19",), "r == Some(term_cmp(self.node, other.node))")]))
        vf.fn(MSMOD, "impl:hash::Hash for Miniscript<Pk, Ctx>/fn:hash", qual="Miniscript", props=PROPS, rewrites=[lit("R7", "hash::Hasher", "Hasher")],
              contract=Contract(ensures=[Clause("node_only", ("C19",), "final(state).feed() == old(state).feed() + term_feed(self.node)")]))

    # ---- Tr -------------------------------------------------------------------------------------------
    vf.item(TAPTREE, "struct:TapTree", rewrites=[sub("derive-off", r"#\[derive\([^)]*\)\]\s*", "")])
    vf.item(TRMOD, "struct:Tr", rewrites=[lit("R7", "Mutex<Option<Arc<TrSpendInfo<Pk>>>>", "SpendInfoCache<Pk>")])
    vf.raw(TAP_GLUE)
    vf.trust("PartialEq / Ord / Hash for TapTree (external_body; eq_spec = element-wise (depth, leaf tree), cmp_spec / hitems uninterpreted)",
             "#[derive(PartialEq, Eq, PartialOrd, Ord, Hash)] on struct TapTree { depths_leaves: Vec<(u8, Arc<Miniscript>)> } (recorded as assumption)")
    vf.trust("Hash for Option<T> (external_body)", "std: discriminant then payload")
    vf.trust("struct Tap / SpendInfoCache stubs", "context marker; the cache field is never read by the extracted functions")
    with vf.block("impl<Pk: MiniscriptKey + Ord + Hash> Tr<Pk>"):
        vf.fn(TRMOD, "impl:PartialEq for Tr<Pk>/fn:eq", qual="Tr", props=PROPS,
              contract=Contract(requires=["eq_structural::<Pk>()"], ensures=[
                  Clause("key_and_tree_structurally", ("C19",), "r == tr_same(*self, *other)"),
                  Clause("tree_is_compared", ("C19",), "r ==> opt_tree_eq(self.tree, other.tree)"),
                  Clause("key_is_compared", ("C19",), "r ==> self.internal_key == other.internal_key")]))
        vf.fn(TRMOD, "impl:Ord for Tr<Pk>/fn:cmp", qual="Tr", props=PROPS,
              contract=Contract(requires=["ord_structural::<Pk>()"], ensures=[
                  Clause("lexicographic_key_then_tree", ("C19",), "r == tr_cmp_spec(*self, *other)"),
                  Clause("equal_iff_eq", ("C19",), "taptree_order_laws::<Pk>() ==> (r == Ordering::Equal <==> tr_same(*self, *other))")]))
        vf.fn(TRMOD, "impl:PartialOrd for Tr<Pk>/fn:partial_cmp", qual="Tr", props=PROPS,
              contract=Contract(requires=["ord_structural::<Pk>()"], ensures=[Clause("some_cmp", ("C19",), "r == Some(tr_cmp_spec(*self, *other))")]))
        vf.fn(TRMOD, "impl:hash::Hash for Tr<Pk>/fn:hash", qual="Tr", props=PROPS, rewrites=[lit("R7", "hash::Hasher", "Hasher")],
              contract=Contract(ensures=[
                  Clause("feeds_key_then_tree", ("C19",), "final(state).feed() == old(state).feed() + self.internal_key.hitems() + self.tree.hitems()")]))
    for name in ("tr_cmp_equal_iff_eq", "tr_cmp_antisymmetric"):
        m = re.search(r"(?s)(proof fn %s<.*?\n}\n)" % name, TR_LAWS)
        vf.spec_obligation("law::%s" % name, m.group(1), ("C19",))

    # ---- Policy (concrete, semantic): hand-written Ord, derived PartialEq --------------------------------
    by_cons = Contract(ensures=[Clause("by_consensus", ("C19",), "r == u_cmp(self.consensus() as int, other.consensus() as int)")])
    with vf.block("impl AbsLockTime"):
        vf.fn(O.ABSLT, "impl:AbsLockTime/fn:cmp_by_consensus", qual="AbsLockTime", assumed=True, contract=by_cons)
    with vf.block("impl RelLockTime"):
        vf.fn(O.RELLT, "impl:RelLockTime/fn:cmp_by_consensus", qual="RelLockTime", assumed=True, contract=by_cons)
    vf.trust("AbsLockTime / RelLockTime::cmp_by_consensus (external_body here)", "proved in unit c19_ord from the identical clause text (and by the Kani unit k_locktime)")
    vf.raw(POLICY_GLUE)
    vf.trust("vec_cmp (external_body wrapper of <Vec<T> as Ord>::cmp), PartialOrd / Ord for Threshold (external_body), spec fns vec_cmp_spec / thr_cmp_spec uninterpreted; "
             "precondition children_order_consistent", "std's / the derive's lexicographic order on the child containers calls back into Policy::cmp; "
             "that it is Equal exactly on equal containers is the induction hypothesis of the node-level step")
    vf.trust("PartialEq / Eq / PartialOrd / Ord trait impls for Policy, SemPolicy (external_body, no spec)", "#[derive(PartialEq, Eq)] (recorded as assumption); the Ord trait impl only satisfies bounds, its hand-written body is verified as the inherent fn `cmp`")
    policy_block(vf, CONCRETE, "Policy", CONCRETE_VARIANTS, "cpol")
    policy_block(vf, SEMANTIC, "SemPolicy", SEMANTIC_VARIANTS, "spol")
    return vf
