"""C20 unit: key translation / deep clone / raw-pkh substitution / key iteration, per node.

The three rebuilding algorithms have the shape

    for item in self.rtl_post_order_iter() { let new_term = match item.node.node { ARMS }; <wrap>; stack.push(..) }

Here the WHOLE LOOP BODY (match + wrap + push) is cut verbatim into a step function (`*_step`), so the contract also
covers what is pushed (`ty` / `ext` carried over by Clone / substitute_raw_pkh, `from_ast` re-checking by translate).
The rtl traversal pushes the children right-to-left, so child 0 of the node is on TOP of the stack:
`child(S, i) = S[len-1-i]`.

Oracle (not the code): functor laws of a structure-preserving key map.  With `f = T::spec_*` the (uninterpreted,
possibly failing) key / hash maps of the `Translator`:  the rebuilt node is the SAME variant; child i of the result is
the translation of child i; keys / hashes are mapped pointwise, in order; `k` is preserved; lock times and raw hashes
are untouched; the step fails iff some `f` call fails or the rebuilt node is rejected by the target context
(`from_ast`).  Identity `f` ==> equal node, composition ==> pointwise composition (lemmas over the same relation).
"""
import re

from vlib.verus import VerusFile, Contract, Clause, sub, lit, Undecided
from vlib.extract import AnchorLost
from units import _tree

NAME = "c20_translate"
ENGINE = "verus"
PROPS = ("C20", "C11")

MSMOD = "src/miniscript/mod.rs"
MSITER = "src/miniscript/iter.rs"
LIB = "src/lib.rs"
ITER = "src/iter/tree.rs"
THRESH = _tree.THRESH
SEGWIT = "src/descriptor/segwitv0.rs"
BARE = "src/descriptor/bare.rs"
SH = "src/descriptor/sh.rs"
TR = "src/descriptor/tr/mod.rs"
DESC = "src/descriptor/mod.rs"

DROPPED = [
    "translate_pk_ctx / Clone::clone / substitute_raw_pkh: the `for .. in self.rtl_post_order_iter()` loop header and the epilogue "
    "`Arc::try_unwrap(stack.pop().unwrap()).unwrap()` are dropped (per-node step = the whole loop body, verbatim); traversal order is "
    "the contract of iter/tree.rs",
    "Thresh arms `thresh.map_ref(|_| stack.pop().unwrap())` (closure captures `&mut stack`): call replaced (R9) by the stub map_ref_pop "
    "carrying Threshold::map_ref's contract instantiated with the popping closure",
    "translate multi arms `thresh.translate_ref(|k| t.pk(k))` (closure captures `&mut t`): call replaced (R9) by the stub translate_ref_pk "
    "carrying Threshold::translate_ref's contract instantiated with `|k| t.pk(k)`",
    "`.map_err(TranslateErr::OuterError)`: constructor used as a function value is eta-expanded to a closure (Verus limitation)",
    "`?` on a Translator error: Verus does not expose the `From` conversion of `?`, so the clauses only claim `r is Err` (not the "
    "`TranslatorErr(e)` payload) when the key map fails",
    "Threshold::{map, map_ref, translate, translate_ref}: `iter().map(f).collect()` replaced (R4-style std wrapper) by "
    "slice_iter_map_collect / vec_into_iter_map_collect / *_try_collect with the std semantics as trusted spec; the struct literal "
    "`Threshold { k: self.k, inner: .. }` is verified text",
    "for_each_key step: `thresh.iter().all(&mut pred)` replaced by the std wrapper slice_all(thresh.data(), &mut pred)",
    "for_each_key step: arms `P1 | P2 if guard => ..` are split into one arm per alternative (R13; Verus rejects or-pattern + guard)",
    "get_nth_child: the closure `|x| &**x` gets a type ascription + ghost `ensures` (R10)",
    "TapTree::translate_pk (for loop over `&self.depths_leaves` with tuple patterns), Tr::for_each_key (`.leaves().all(closure)`), Tr::new "
    "(Mutex field), Miniscript::branches (`iter().map(Arc::deref).collect()`), the driver loops Iter::next / PkIter::next / descriptor "
    "PkIter::next (loop-with-break-value, `Option::and_then(Iterator::next)`), semantic / concrete Policy::translate_pk + for_each_key "
    "(iterator adapters `.all`, `(0..n).map(..).collect()`), Threshold::{translate_by_index, map_from_post_order_iter}: excluded, not claimed",
    "whole-tree functions (translate_pk_ctx, for_each_key, clone) are consumed by the descriptor wrappers through uninterpreted summaries; the "
    "induction from the per-node steps to the whole tree (traversal contract of iter/tree.rs) is not mechanised",
]

# ------------------------------------------------------------------------------------------------------------
SCRIPT_CONTEXT = r"""
trait ScriptContext: Sized {
    spec fn spec_pk_ok<Pk: MiniscriptKey>(pk: Pk) -> bool;
    fn check_pk<Pk: MiniscriptKey>(pk: &Pk) -> (r: Result<(), ScriptContextError>) ensures r is Ok <==> Self::spec_pk_ok(*pk);
    spec fn spec_top_level_ok<Pk: MiniscriptKey>(ms: Miniscript<Pk, Self>) -> bool;
    fn top_level_checks<Pk: MiniscriptKey>(ms: &Miniscript<Pk, Self>) -> (r: Result<(), Error>) ensures r is Ok <==> Self::spec_top_level_ok(*ms);
}
"""
CTX_IMPL = """
uninterp spec fn %(l)s_pk_ok<Pk: MiniscriptKey>(pk: Pk) -> bool;
uninterp spec fn %(l)s_top_level_ok<Pk: MiniscriptKey>(ms: Miniscript<Pk, %(c)s>) -> bool;
impl ScriptContext for %(c)s {
    spec fn spec_pk_ok<Pk: MiniscriptKey>(pk: Pk) -> bool { %(l)s_pk_ok(pk) }
    #[verifier::external_body] fn check_pk<Pk: MiniscriptKey>(pk: &Pk) -> Result<(), ScriptContextError> { unimplemented!() }
    spec fn spec_top_level_ok<Pk: MiniscriptKey>(ms: Miniscript<Pk, Self>) -> bool { %(l)s_top_level_ok(ms) }
    #[verifier::external_body] fn top_level_checks<Pk: MiniscriptKey>(ms: &Miniscript<Pk, Self>) -> Result<(), Error> { unimplemented!() }
}
"""

PUB_TYPES = r"""
pub struct Error { opaque: u8 }
pub struct ScriptContextError { opaque: u8 }
"""

DESC_STUBS = r"""
// ---- descriptor layer: Tr / TapTree reduced to the fields the wrappers touch (Mutex-cached spend info dropped) ----
struct TapTree<Pk: MiniscriptKey> { opaque: PhantomData<Pk> }
struct Tr<Pk: MiniscriptKey> { internal_key: Pk, tree: Option<TapTree<Pk>> }
"""


def emit_descriptors(vf, ctx_impl):
    """Real definitions of Wsh / Wpkh / Bare / Pkh / Sh / ShInner / Descriptor (+ accessors), the four context marker
    types with the unit's ScriptContext stub impl, and stubs for Tr / TapTree.  Shared with c07_lift."""
    strip_derive = sub("derive-off", r"#\[derive\([^)]*\)\]\s*", "", required=False)
    for c in ("Segwitv0", "Legacy", "BareCtx", "Tap"):
        vf.repo.at("src/miniscript/context.rs", "enum:%s" % c)          # anchor must exist; `enum X {}` (uninhabited) is not accepted by Verus
        vf.raw("struct %s { marker: u8 }" % c)
        vf.raw(ctx_impl % dict(c=c, l=c.lower()))
    vf.raw(DESC_STUBS)
    vf.trust("struct Tr { internal_key, tree }, struct TapTree (opaque)", "descriptor::Tr without the Mutex-cached spend_info; TapTree opaque "
             "(its methods use iterator adapters / tuple-pattern loops)")
    vf.trust("impl ScriptContext for Segwitv0 / Legacy / BareCtx / Tap (uninterpreted verdicts)", "context rules are C12's")
    vf.item(SEGWIT, "struct:Wsh", rewrites=[strip_derive])
    vf.item(SEGWIT, "struct:Wpkh", rewrites=[strip_derive])
    vf.item(BARE, "struct:Bare", rewrites=[strip_derive])
    vf.item(BARE, "struct:Pkh", rewrites=[strip_derive])
    vf.item(SH, "struct:Sh", rewrites=[strip_derive])
    vf.item(SH, "enum:ShInner", rewrites=[strip_derive])
    vf.item(DESC, "enum:Descriptor", rewrites=[strip_derive])
    for rel, ty, field in ((SEGWIT, "Wsh", "ms"), (SEGWIT, "Wpkh", "pk"), (BARE, "Bare", "ms"), (BARE, "Pkh", "pk"), (SH, "Sh", "inner")):
        with vf.block("impl<Pk: MiniscriptKey> %s<Pk>" % ty):
            vf.fn(rel, "impl:%s<Pk>/fn:as_inner" % ty, qual=ty, props=("C11",),
                  contract=Contract(ensures=[Clause("field", (), "*r == self.%s" % field)]))


PRELUDE = r"""
// ---- Translator: the key / hash maps are uninterpreted, possibly failing functions of the key ---------------
trait Translator<P: MiniscriptKey> {
    type TargetPk: MiniscriptKey;
    type Error;
    spec fn spec_pk(pk: P) -> Result<Self::TargetPk, Self::Error>;
    spec fn spec_sha256(h: P::Sha256) -> Result<<Self::TargetPk as MiniscriptKey>::Sha256, Self::Error>;
    spec fn spec_hash256(h: P::Hash256) -> Result<<Self::TargetPk as MiniscriptKey>::Hash256, Self::Error>;
    spec fn spec_ripemd160(h: P::Ripemd160) -> Result<<Self::TargetPk as MiniscriptKey>::Ripemd160, Self::Error>;
    spec fn spec_hash160(h: P::Hash160) -> Result<<Self::TargetPk as MiniscriptKey>::Hash160, Self::Error>;
    fn pk(&mut self, pk: &P) -> (r: Result<Self::TargetPk, Self::Error>) ensures r == Self::spec_pk(*pk);
    fn sha256(&mut self, sha256: &P::Sha256) -> (r: Result<<Self::TargetPk as MiniscriptKey>::Sha256, Self::Error>) ensures r == Self::spec_sha256(*sha256);
    fn hash256(&mut self, hash256: &P::Hash256) -> (r: Result<<Self::TargetPk as MiniscriptKey>::Hash256, Self::Error>) ensures r == Self::spec_hash256(*hash256);
    fn ripemd160(&mut self, ripemd160: &P::Ripemd160) -> (r: Result<<Self::TargetPk as MiniscriptKey>::Ripemd160, Self::Error>) ensures r == Self::spec_ripemd160(*ripemd160);
    fn hash160(&mut self, hash160: &P::Hash160) -> (r: Result<<Self::TargetPk as MiniscriptKey>::Hash160, Self::Error>) ensures r == Self::spec_hash160(*hash160);
}
impl<E> vstd::std_specs::convert::FromSpecImpl<E> for TranslateErr<E> {
    open spec fn obeys_from_spec() -> bool { true }
    open spec fn from_spec(v: E) -> Self { Self::TranslatorErr(v) }
}

// ---- the rtl post-order stack discipline -------------------------------------------------------------------
pub open spec fn child<T>(s: Seq<T>, i: int) -> T { s[s.len() - 1 - i] }
pub open spec fn top<T>(s: Seq<T>) -> T { s[s.len() - 1] }
pub open spec fn children_seq<T>(s: Seq<T>, n: nat) -> Seq<T> { Seq::new(n, |i: int| child(s, i)) }
pub open spec fn arity<Pk: MiniscriptKey, Ctx: ScriptContext>(t: Terminal<Pk, Ctx>) -> nat {
    match t {
        Terminal::Alt(..) | Terminal::Swap(..) | Terminal::Check(..) | Terminal::DupIf(..) | Terminal::Verify(..)
        | Terminal::NonZero(..) | Terminal::ZeroNotEqual(..) => 1,
        Terminal::AndV(..) | Terminal::AndB(..) | Terminal::OrB(..) | Terminal::OrD(..) | Terminal::OrC(..) | Terminal::OrI(..) => 2,
        Terminal::AndOr(..) => 3,
        Terminal::Thresh(th) => th.inner@.len(),
        _ => 0,
    }
}
// the rest of the stack is untouched, exactly `n` entries are replaced by one
pub open spec fn replaced_top<T>(before: Seq<T>, after: Seq<T>, n: nat) -> bool {
    &&& before.len() >= n
    &&& after.len() == before.len() - n + 1
    &&& after.take(after.len() - 1) =~= before.take(before.len() - n)
}

// ---- from_ast: re-typing + context check of the rebuilt node (C05 / C12 units); here only its verdict ------
uninterp spec fn spec_from_ast_ok<Pk: MiniscriptKey, Ctx: ScriptContext>(t: Terminal<Pk, Ctx>) -> bool;
impl<Pk: MiniscriptKey, Ctx: ScriptContext> Miniscript<Pk, Ctx> {
    #[verifier::external_body]
    fn from_ast(t: Terminal<Pk, Ctx>) -> (r: Result<Self, Error>)
        ensures r is Ok <==> spec_from_ast_ok(t), r is Ok ==> r->Ok_0.node == t,
    { unimplemented!() }
}

// ---- assumptions about std / derived impls (trusted, listed) ---------------------------------------------
broadcast proof fn axiom_key_clone<Pk: MiniscriptKey>(a: Pk, b: Pk)
    requires #[trigger] call_ensures(Pk::clone, (&a,), b) ensures a == b { admit(); }
broadcast proof fn axiom_sha256_clone<Pk: MiniscriptKey>(a: Pk::Sha256, b: Pk::Sha256)
    requires #[trigger] call_ensures(<Pk::Sha256 as Clone>::clone, (&a,), b) ensures a == b { admit(); }
broadcast proof fn axiom_hash256_clone<Pk: MiniscriptKey>(a: Pk::Hash256, b: Pk::Hash256)
    requires #[trigger] call_ensures(<Pk::Hash256 as Clone>::clone, (&a,), b) ensures a == b { admit(); }
broadcast proof fn axiom_ripemd160_clone<Pk: MiniscriptKey>(a: Pk::Ripemd160, b: Pk::Ripemd160)
    requires #[trigger] call_ensures(<Pk::Ripemd160 as Clone>::clone, (&a,), b) ensures a == b { admit(); }
broadcast proof fn axiom_hash160_clone<Pk: MiniscriptKey>(a: Pk::Hash160, b: Pk::Hash160)
    requires #[trigger] call_ensures(<Pk::Hash160 as Clone>::clone, (&a,), b) ensures a == b { admit(); }
broadcast group clone_is_identity { axiom_threshold_clone, axiom_key_clone, axiom_sha256_clone, axiom_hash256_clone, axiom_ripemd160_clone, axiom_hash160_clone }

// derived `Clone` of Threshold<Pk, MAX> (keys): same k, equal elements
impl<Pk: MiniscriptKey, const MAX: usize> Clone for Threshold<Pk, MAX> {
    #[verifier::external_body]
    fn clone(&self) -> Self { unimplemented!() }
}
broadcast proof fn axiom_threshold_clone<Pk: MiniscriptKey, const MAX: usize>(a: Threshold<Pk, MAX>, b: Threshold<Pk, MAX>)
    requires #[trigger] call_ensures(<Threshold<Pk, MAX> as Clone>::clone, (&a,), b) ensures b.k == a.k, b.inner@ == a.inner@ { admit(); }

// R9 stub for `thresh.map_ref(|_| stack.pop().unwrap())` (see c07_lift): map_ref's contract with the popping closure
#[verifier::external_body]
fn map_ref_pop<T, U, const MAX: usize>(thresh: &Threshold<T, MAX>, stack: &mut Vec<U>) -> (r: Threshold<U, MAX>)
    requires old(stack)@.len() >= thresh.inner@.len(),
    ensures r.k == thresh.k,
            r.inner@ == children_seq(old(stack)@, thresh.inner@.len()),
            final(stack)@ == old(stack)@.take(old(stack)@.len() - thresh.inner@.len()),
{ unimplemented!() }

// R9 stub for `thresh.translate_ref(|k| t.pk(k))`: translate_ref's contract with the closure calling the translator:
// Ok iff every key maps, then same k and keys mapped pointwise in order; otherwise the error of the FIRST failing key
pub open spec fn keys_mapped<P: MiniscriptKey, T: Translator<P>>(src: Seq<P>, dst: Seq<T::TargetPk>) -> bool {
    dst.len() == src.len() && forall|i: int| 0 <= i < src.len() ==> T::spec_pk(#[trigger] src[i]) == Ok::<T::TargetPk, T::Error>(dst[i])
}
pub open spec fn all_keys_map<P: MiniscriptKey, T: Translator<P>>(src: Seq<P>) -> bool {
    forall|i: int| 0 <= i < src.len() ==> T::spec_pk(#[trigger] src[i]) is Ok
}
#[verifier::external_body]
fn translate_ref_pk<P: MiniscriptKey, T: Translator<P>, const MAX: usize>(thresh: &Threshold<P, MAX>, t: &mut T) -> (r: Result<Threshold<T::TargetPk, MAX>, T::Error>)
    ensures r is Ok <==> all_keys_map::<P, T>(thresh.inner@),
            r is Ok ==> r->Ok_0.k == thresh.k && keys_mapped::<P, T>(thresh.inner@, r->Ok_0.inner@),
            r is Err ==> exists|i: int| 0 <= i < thresh.inner@.len() && T::spec_pk(#[trigger] thresh.inner@[i]) == Err::<T::TargetPk, T::Error>(r->Err_0),
{ unimplemented!() }
"""

MAPS = r"""
// ---- BTreeMap<hash160::Hash, Pk> reduced to its lookup (substitute_raw_pkh) -------------------------------
#[verifier::external_body]
#[verifier::reject_recursive_types(K)]
#[verifier::reject_recursive_types(V)]
struct BTreeMap<K, V> { m: std::collections::BTreeMap<K, V> }
uninterp spec fn spec_map_get<K, V>(m: BTreeMap<K, V>, k: K) -> Option<V>;
impl<K, V> BTreeMap<K, V> {
    #[verifier::external_body]
    fn get(&self, k: &K) -> (r: Option<&V>)
        ensures r is Some <==> spec_map_get(*self, *k) is Some, r is Some ==> *r->Some_0 == spec_map_get(*self, *k)->Some_0,
    { unimplemented!() }
}

// ---- keys of ONE node, in the order of the string form: pk_k(KEY) pk_h(KEY) multi(k,KEY,..) multi_a(k,KEY,..) ----
pub open spec fn node_keys<Pk: MiniscriptKey, Ctx: ScriptContext>(t: Terminal<Pk, Ctx>) -> Seq<Pk> {
    match t {
        Terminal::PkK(p) => seq![p],
        Terminal::PkH(p) => seq![p],
        Terminal::Multi(th) => th.inner@,
        Terminal::SortedMulti(th) => th.inner@,
        Terminal::MultiA(th) => th.inner@,
        Terminal::SortedMultiA(th) => th.inner@,
        _ => Seq::empty(),
    }
}
// children of ONE node, left to right (the order of the string form)
pub open spec fn node_children<Pk: MiniscriptKey, Ctx: ScriptContext>(t: Terminal<Pk, Ctx>) -> Seq<Arc<Miniscript<Pk, Ctx>>> {
    match t {
        Terminal::Alt(x) | Terminal::Swap(x) | Terminal::Check(x) | Terminal::DupIf(x) | Terminal::Verify(x)
        | Terminal::NonZero(x) | Terminal::ZeroNotEqual(x) => seq![x],
        Terminal::AndV(x, y) | Terminal::AndB(x, y) | Terminal::OrB(x, y) | Terminal::OrD(x, y) | Terminal::OrC(x, y) | Terminal::OrI(x, y) => seq![x, y],
        Terminal::AndOr(x, y, z) => seq![x, y, z],
        Terminal::Thresh(th) => th.inner@,
        _ => Seq::empty(),
    }
}
// the predicate answered `true` on every key / answered `false` on key i after `true` on all earlier ones
pub open spec fn pred_all_true<'a, Pk: 'a, F: FnMut(&'a Pk) -> bool>(pred: F, keys: Seq<Pk>) -> bool {
    forall|i: int| 0 <= i < keys.len() ==> call_ensures(pred, (&#[trigger] keys[i],), true)
}
pub open spec fn pred_first_false<'a, Pk: 'a, F: FnMut(&'a Pk) -> bool>(pred: F, keys: Seq<Pk>) -> bool {
    exists|i: int| 0 <= i < keys.len() && call_ensures(pred, (&#[trigger] keys[i],), false)
        && forall|j: int| 0 <= j < i ==> call_ensures(pred, (&#[trigger] keys[j],), true)
}
// std: `slice.iter().all(&mut pred)` -- calls pred in index order, stops at the first `false`
#[verifier::external_body]
fn iter_all<'a, T: 'a, F: FnMut(&'a T) -> bool, const MAX: usize>(thresh: &'a Threshold<T, MAX>, pred: &mut F) -> (r: bool)
    requires forall|i: int| 0 <= i < thresh.inner@.len() ==> call_requires(*old(pred), (&#[trigger] thresh.inner@[i],)),
    ensures r ==> pred_all_true(*old(pred), thresh.inner@), !r ==> pred_first_false(*old(pred), thresh.inner@),
{ unimplemented!() }
"""

STD_ITER = r"""
// ---- std iterator pipelines as trusted wrappers (R4 style): semantics of iter().map(f).collect() ----------
#[verifier::external_body]
fn slice_iter_map_collect<T, U, F: FnMut(&T) -> U>(v: &Vec<T>, f: F) -> (r: Vec<U>)
    requires forall|i: int| 0 <= i < v@.len() ==> call_requires(f, (&#[trigger] v@[i],)),
    ensures r@.len() == v@.len(), forall|i: int| 0 <= i < v@.len() ==> call_ensures(f, (&v@[i],), #[trigger] r@[i]),
{ v.iter().map(f).collect() }
#[verifier::external_body]
fn vec_into_iter_map_collect<T, U, F: FnMut(T) -> U>(v: Vec<T>, f: F) -> (r: Vec<U>)
    requires forall|i: int| 0 <= i < v@.len() ==> call_requires(f, (#[trigger] v@[i],)),
    ensures r@.len() == v@.len(), forall|i: int| 0 <= i < v@.len() ==> call_ensures(f, (v@[i],), #[trigger] r@[i]),
{ v.into_iter().map(f).collect() }
// collect::<Result<Vec<_>, _>>(): Ok(all results) if every call is Ok, else the first error (later elements not visited)
#[verifier::external_body]
fn slice_iter_map_try_collect<T, U, E, F: FnMut(&T) -> Result<U, E>>(v: &Vec<T>, f: F) -> (r: Result<Vec<U>, E>)
    requires forall|i: int| 0 <= i < v@.len() ==> call_requires(f, (&#[trigger] v@[i],)),
    ensures r is Ok ==> r->Ok_0@.len() == v@.len() && forall|i: int| 0 <= i < v@.len() ==> call_ensures(f, (&v@[i],), Ok::<U, E>(#[trigger] r->Ok_0@[i])),
            r is Err ==> exists|i: int| 0 <= i < v@.len() && call_ensures(f, (&#[trigger] v@[i],), Err::<U, E>(r->Err_0)),
{ v.iter().map(f).collect::<Result<Vec<_>, _>>() }
#[verifier::external_body]
fn vec_into_iter_map_try_collect<T, U, E, F: FnMut(T) -> Result<U, E>>(v: Vec<T>, f: F) -> (r: Result<Vec<U>, E>)
    requires forall|i: int| 0 <= i < v@.len() ==> call_requires(f, (#[trigger] v@[i],)),
    ensures r is Ok ==> r->Ok_0@.len() == v@.len() && forall|i: int| 0 <= i < v@.len() ==> call_ensures(f, (v@[i],), Ok::<U, E>(#[trigger] r->Ok_0@[i])),
            r is Err ==> exists|i: int| 0 <= i < v@.len() && call_ensures(f, (#[trigger] v@[i],), Err::<U, E>(r->Err_0)),
{ v.into_iter().map(f).collect::<Result<Vec<_>, _>>() }
"""


WRAP_STUBS = r"""
// ---- callee summaries for the descriptor-level wrappers (whole-tree functions whose per-node steps are verified above) ----
uninterp spec fn spec_ms_translate<Pk: MiniscriptKey, Ctx: ScriptContext, CtxQ: ScriptContext, T: Translator<Pk>>(ms: Miniscript<Pk, Ctx>)
    -> Result<Miniscript<T::TargetPk, CtxQ>, TranslateErr<T::Error>>;
uninterp spec fn spec_taptree_translate<Pk: MiniscriptKey, T: Translator<Pk>>(t: TapTree<Pk>) -> Result<TapTree<T::TargetPk>, TranslateErr<T::Error>>;
uninterp spec fn spec_ms_all_keys<'a, Pk: MiniscriptKey + 'a, Ctx: ScriptContext, F: FnMut(&'a Pk) -> bool>(ms: Miniscript<Pk, Ctx>, pred: F) -> bool;
uninterp spec fn spec_tr_all_keys<'a, Pk: MiniscriptKey + 'a, F: FnMut(&'a Pk) -> bool>(tr: Tr<Pk>, pred: F) -> bool;
impl<Pk: MiniscriptKey, Ctx: ScriptContext> Miniscript<Pk, Ctx> {
    #[verifier::external_body]
    fn translate_pk_ctx<CtxQ: ScriptContext, T: Translator<Pk>>(&self, t: &mut T) -> (r: Result<Miniscript<T::TargetPk, CtxQ>, TranslateErr<T::Error>>)
        ensures r == spec_ms_translate::<Pk, Ctx, CtxQ, T>(*self),
    { unimplemented!() }
    #[verifier::external_body]
    fn for_each_key<'a, F: FnMut(&'a Pk) -> bool>(&'a self, pred: F) -> (r: bool)
        ensures r == spec_ms_all_keys(*self, pred),
    { unimplemented!() }
}
impl<Pk: MiniscriptKey> TapTree<Pk> {
    #[verifier::external_body]
    fn translate_pk<T: Translator<Pk>>(&self, translate: &mut T) -> (r: Result<TapTree<T::TargetPk>, TranslateErr<T::Error>>)
        ensures r == spec_taptree_translate::<Pk, T>(*self),
    { unimplemented!() }
}
impl<Pk: MiniscriptKey> Tr<Pk> {
    // from the body of Tr::new: `Tap::check_pk(&internal_key)?; Ok(Self { internal_key, tree, spend_info: Mutex::new(None) })`
    #[verifier::external_body]
    fn new(internal_key: Pk, tree: Option<TapTree<Pk>>) -> (r: Result<Self, Error>)
        ensures r is Ok <==> Tap::spec_pk_ok(internal_key), r is Ok ==> r->Ok_0.internal_key == internal_key && r->Ok_0.tree == tree,
    { unimplemented!() }
    #[verifier::external_body]
    fn for_each_key<'a, F: FnMut(&'a Pk) -> bool>(&'a self, pred: F) -> (r: bool)
        ensures r == spec_tr_all_keys(*self, pred),
    { unimplemented!() }
}
impl From<ScriptContextError> for Error {
    #[verifier::external_body]
    fn from(e: ScriptContextError) -> Self { unimplemented!() }
}
"""



LAWS = r"""
// ---- the structure-preserving map as ONE relation (same content as the per-variant clauses), and its laws -------
pub open spec fn translated_as<Pk: MiniscriptKey, Ctx: ScriptContext, CtxQ: ScriptContext, T: Translator<Pk>>(
    n: Terminal<Pk, Ctx>, kids: Seq<Arc<Miniscript<T::TargetPk, CtxQ>>>, m: Terminal<T::TargetPk, CtxQ>) -> bool
{
    match n {
        Terminal::True => m is True,
        Terminal::False => m is False,
        Terminal::PkK(p) => T::spec_pk(p) is Ok && m == Terminal::<T::TargetPk, CtxQ>::PkK(T::spec_pk(p)->Ok_0),
        Terminal::PkH(p) => T::spec_pk(p) is Ok && m == Terminal::<T::TargetPk, CtxQ>::PkH(T::spec_pk(p)->Ok_0),
        Terminal::RawPkH(h) => m == Terminal::<T::TargetPk, CtxQ>::RawPkH(h),
        Terminal::After(x) => m == Terminal::<T::TargetPk, CtxQ>::After(x),
        Terminal::Older(x) => m == Terminal::<T::TargetPk, CtxQ>::Older(x),
        Terminal::Sha256(h) => T::spec_sha256(h) is Ok && m == Terminal::<T::TargetPk, CtxQ>::Sha256(T::spec_sha256(h)->Ok_0),
        Terminal::Hash256(h) => T::spec_hash256(h) is Ok && m == Terminal::<T::TargetPk, CtxQ>::Hash256(T::spec_hash256(h)->Ok_0),
        Terminal::Ripemd160(h) => T::spec_ripemd160(h) is Ok && m == Terminal::<T::TargetPk, CtxQ>::Ripemd160(T::spec_ripemd160(h)->Ok_0),
        Terminal::Hash160(h) => T::spec_hash160(h) is Ok && m == Terminal::<T::TargetPk, CtxQ>::Hash160(T::spec_hash160(h)->Ok_0),
        Terminal::Alt(_) => kids.len() == 1 && m == Terminal::<T::TargetPk, CtxQ>::Alt(kids[0]),
        Terminal::Swap(_) => kids.len() == 1 && m == Terminal::<T::TargetPk, CtxQ>::Swap(kids[0]),
        Terminal::Check(_) => kids.len() == 1 && m == Terminal::<T::TargetPk, CtxQ>::Check(kids[0]),
        Terminal::DupIf(_) => kids.len() == 1 && m == Terminal::<T::TargetPk, CtxQ>::DupIf(kids[0]),
        Terminal::Verify(_) => kids.len() == 1 && m == Terminal::<T::TargetPk, CtxQ>::Verify(kids[0]),
        Terminal::NonZero(_) => kids.len() == 1 && m == Terminal::<T::TargetPk, CtxQ>::NonZero(kids[0]),
        Terminal::ZeroNotEqual(_) => kids.len() == 1 && m == Terminal::<T::TargetPk, CtxQ>::ZeroNotEqual(kids[0]),
        Terminal::AndV(_, _) => kids.len() == 2 && m == Terminal::<T::TargetPk, CtxQ>::AndV(kids[0], kids[1]),
        Terminal::AndB(_, _) => kids.len() == 2 && m == Terminal::<T::TargetPk, CtxQ>::AndB(kids[0], kids[1]),
        Terminal::OrB(_, _) => kids.len() == 2 && m == Terminal::<T::TargetPk, CtxQ>::OrB(kids[0], kids[1]),
        Terminal::OrD(_, _) => kids.len() == 2 && m == Terminal::<T::TargetPk, CtxQ>::OrD(kids[0], kids[1]),
        Terminal::OrC(_, _) => kids.len() == 2 && m == Terminal::<T::TargetPk, CtxQ>::OrC(kids[0], kids[1]),
        Terminal::OrI(_, _) => kids.len() == 2 && m == Terminal::<T::TargetPk, CtxQ>::OrI(kids[0], kids[1]),
        Terminal::AndOr(_, _, _) => kids.len() == 3 && m == Terminal::<T::TargetPk, CtxQ>::AndOr(kids[0], kids[1], kids[2]),
        Terminal::Thresh(th) => m is Thresh && m->Thresh_0.k == th.k && kids.len() == th.inner@.len() && m->Thresh_0.inner@ == kids,
        Terminal::Multi(th) => m is Multi && m->Multi_0.k == th.k && keys_mapped::<Pk, T>(th.inner@, m->Multi_0.inner@),
        Terminal::SortedMulti(th) => m is SortedMulti && m->SortedMulti_0.k == th.k && keys_mapped::<Pk, T>(th.inner@, m->SortedMulti_0.inner@),
        Terminal::MultiA(th) => m is MultiA && m->MultiA_0.k == th.k && keys_mapped::<Pk, T>(th.inner@, m->MultiA_0.inner@),
        Terminal::SortedMultiA(th) => m is SortedMultiA && m->SortedMultiA_0.k == th.k && keys_mapped::<Pk, T>(th.inner@, m->SortedMultiA_0.inner@),
    }
}
// structural equality of two nodes (Vec-backed thresholds compared through their views)
pub open spec fn same_node<Pk: MiniscriptKey, Ctx: ScriptContext>(a: Terminal<Pk, Ctx>, b: Terminal<Pk, Ctx>) -> bool {
    match a {
        Terminal::Thresh(th) => b is Thresh && b->Thresh_0.k == th.k && b->Thresh_0.inner@ == th.inner@,
        Terminal::Multi(th) => b is Multi && b->Multi_0.k == th.k && b->Multi_0.inner@ == th.inner@,
        Terminal::SortedMulti(th) => b is SortedMulti && b->SortedMulti_0.k == th.k && b->SortedMulti_0.inner@ == th.inner@,
        Terminal::MultiA(th) => b is MultiA && b->MultiA_0.k == th.k && b->MultiA_0.inner@ == th.inner@,
        Terminal::SortedMultiA(th) => b is SortedMultiA && b->SortedMultiA_0.k == th.k && b->SortedMultiA_0.inner@ == th.inner@,
        _ => a == b,
    }
}
pub open spec fn is_identity<Pk: MiniscriptKey, T: Translator<Pk, TargetPk = Pk>>() -> bool {
    &&& forall|p: Pk| #[trigger] T::spec_pk(p) == Ok::<Pk, T::Error>(p)
    &&& forall|h: Pk::Sha256| #[trigger] T::spec_sha256(h) == Ok::<Pk::Sha256, T::Error>(h)
    &&& forall|h: Pk::Hash256| #[trigger] T::spec_hash256(h) == Ok::<Pk::Hash256, T::Error>(h)
    &&& forall|h: Pk::Ripemd160| #[trigger] T::spec_ripemd160(h) == Ok::<Pk::Ripemd160, T::Error>(h)
    &&& forall|h: Pk::Hash160| #[trigger] T::spec_hash160(h) == Ok::<Pk::Hash160, T::Error>(h)
}
// T12 = "T1 then T2" on every key / hash that both accept
pub open spec fn is_composition<Pk: MiniscriptKey, T1: Translator<Pk>, T2: Translator<T1::TargetPk>, T12: Translator<Pk, TargetPk = T2::TargetPk>>() -> bool {
    &&& forall|p: Pk| T1::spec_pk(p) is Ok && T2::spec_pk(T1::spec_pk(p)->Ok_0) is Ok ==> #[trigger] T12::spec_pk(p) == Ok::<T2::TargetPk, T12::Error>(T2::spec_pk(T1::spec_pk(p)->Ok_0)->Ok_0)
    &&& forall|h: Pk::Sha256| T1::spec_sha256(h) is Ok && T2::spec_sha256(T1::spec_sha256(h)->Ok_0) is Ok ==> #[trigger] T12::spec_sha256(h) == Ok::<<T2::TargetPk as MiniscriptKey>::Sha256, T12::Error>(T2::spec_sha256(T1::spec_sha256(h)->Ok_0)->Ok_0)
    &&& forall|h: Pk::Hash256| T1::spec_hash256(h) is Ok && T2::spec_hash256(T1::spec_hash256(h)->Ok_0) is Ok ==> #[trigger] T12::spec_hash256(h) == Ok::<<T2::TargetPk as MiniscriptKey>::Hash256, T12::Error>(T2::spec_hash256(T1::spec_hash256(h)->Ok_0)->Ok_0)
    &&& forall|h: Pk::Ripemd160| T1::spec_ripemd160(h) is Ok && T2::spec_ripemd160(T1::spec_ripemd160(h)->Ok_0) is Ok ==> #[trigger] T12::spec_ripemd160(h) == Ok::<<T2::TargetPk as MiniscriptKey>::Ripemd160, T12::Error>(T2::spec_ripemd160(T1::spec_ripemd160(h)->Ok_0)->Ok_0)
    &&& forall|h: Pk::Hash160| T1::spec_hash160(h) is Ok && T2::spec_hash160(T1::spec_hash160(h)->Ok_0) is Ok ==> #[trigger] T12::spec_hash160(h) == Ok::<<T2::TargetPk as MiniscriptKey>::Hash160, T12::Error>(T2::spec_hash160(T1::spec_hash160(h)->Ok_0)->Ok_0)
}
"""

LEMMA_IDENTITY = r"""
// identity mapping ==> equal node (given the children are the node's own children)
proof fn lemma_translate_identity<Pk: MiniscriptKey, Ctx: ScriptContext, T: Translator<Pk, TargetPk = Pk>>(n: Terminal<Pk, Ctx>, m: Terminal<Pk, Ctx>)
    requires is_identity::<Pk, T>(), translated_as::<Pk, Ctx, Ctx, T>(n, node_children(n), m),
    ensures same_node(n, m),
{
    match n {
        Terminal::Multi(th) => { assert(m->Multi_0.inner@ =~= th.inner@); }
        Terminal::SortedMulti(th) => { assert(m->SortedMulti_0.inner@ =~= th.inner@); }
        Terminal::MultiA(th) => { assert(m->MultiA_0.inner@ =~= th.inner@); }
        Terminal::SortedMultiA(th) => { assert(m->SortedMultiA_0.inner@ =~= th.inner@); }
        _ => {}
    }
}
"""

LEMMA_COMPOSE = r"""
// translation composes: translating with T1 and then T2 is a translation with "T1 then T2"
proof fn lemma_translate_compose<Pk: MiniscriptKey, Ctx: ScriptContext, C1: ScriptContext, C2: ScriptContext,
        T1: Translator<Pk>, T2: Translator<T1::TargetPk>, T12: Translator<Pk, TargetPk = T2::TargetPk>>(
    n: Terminal<Pk, Ctx>, k1: Seq<Arc<Miniscript<T1::TargetPk, C1>>>, m1: Terminal<T1::TargetPk, C1>,
    k2: Seq<Arc<Miniscript<T2::TargetPk, C2>>>, m2: Terminal<T2::TargetPk, C2>)
    requires is_composition::<Pk, T1, T2, T12>(),
             translated_as::<Pk, Ctx, C1, T1>(n, k1, m1),
             translated_as::<T1::TargetPk, C1, C2, T2>(m1, k2, m2),
    ensures translated_as::<Pk, Ctx, C2, T12>(n, k2, m2),
{
    match n {
        Terminal::Multi(th) => { lemma_keys_compose::<Pk, T1, T2, T12>(th.inner@, m1->Multi_0.inner@, m2->Multi_0.inner@); }
        Terminal::SortedMulti(th) => { lemma_keys_compose::<Pk, T1, T2, T12>(th.inner@, m1->SortedMulti_0.inner@, m2->SortedMulti_0.inner@); }
        Terminal::MultiA(th) => { lemma_keys_compose::<Pk, T1, T2, T12>(th.inner@, m1->MultiA_0.inner@, m2->MultiA_0.inner@); }
        Terminal::SortedMultiA(th) => { lemma_keys_compose::<Pk, T1, T2, T12>(th.inner@, m1->SortedMultiA_0.inner@, m2->SortedMultiA_0.inner@); }
        _ => {}
    }
}
proof fn lemma_keys_compose<Pk: MiniscriptKey, T1: Translator<Pk>, T2: Translator<T1::TargetPk>, T12: Translator<Pk, TargetPk = T2::TargetPk>>(
    a: Seq<Pk>, b: Seq<T1::TargetPk>, c: Seq<T2::TargetPk>)
    requires is_composition::<Pk, T1, T2, T12>(), keys_mapped::<Pk, T1>(a, b), keys_mapped::<T1::TargetPk, T2>(b, c),
    ensures keys_mapped::<Pk, T12>(a, c),
{
    assert forall|i: int| 0 <= i < a.len() implies T12::spec_pk(#[trigger] a[i]) == Ok::<T2::TargetPk, T12::Error>(c[i]) by {
        assert(T1::spec_pk(a[i]) == Ok::<T1::TargetPk, T1::Error>(b[i]));
        assert(T2::spec_pk(b[i]) == Ok::<T2::TargetPk, T2::Error>(c[i]));
    }
}
"""


def map_ref_contract():
    """Contract of Threshold::map_ref (shared with c07_lift, where map_ref is consumed as a callee)."""
    return Contract(
        requires=["forall|i: int| 0 <= i < self.inner@.len() ==> call_requires(mapfn, (&#[trigger] self.inner@[i],))"],
        ensures=[Clause("k_preserved", ("C20",), "r.k == self.k"),
                 Clause("n_preserved", ("C20",), "r.inner@.len() == self.inner@.len()"),
                 Clause("pointwise_in_order", ("C20",),
                        "forall|i: int| 0 <= i < self.inner@.len() ==> call_ensures(mapfn, (&self.inner@[i],), #[trigger] r.inner@[i])")],
        canary=False)


# ------------------------------------------------------------------------------------------------------------
def loop_body_step(vf, rel, anchor, fq, signature, tail, contract, props, rewrites=(), pre=""):
    """Per-node step = the WHOLE body of the `for` loop at `anchor` (a `block:` anchor), verbatim, wrapped into
    `<signature> { <pre> BODY <tail> }`.  `tail` is generated text (e.g. `Ok(())`) and carries no repo code."""
    reg = vf.repo.at(rel, anchor)
    body = reg.text
    text = "%s {\n%s\n%s\n%s\n}\n" % (signature.strip(), pre, body, tail)
    from vlib.extract import strip_docs
    from vlib.verus import drop_vis
    text = drop_vis(strip_docs(text))
    text = vf._apply(text, rewrites, anchor)
    vf.fn_text(fq, text, contract, props, file=rel, lines=reg.lines(), anchor=anchor)


def impl_with_fn(repo, rel, impl, fn):
    """Anchor of the `impl <impl>` block (several share the header) that contains `fn`."""
    for i in range(12):
        a = "impl:%s#%d" % (impl, i)
        try:
            repo.at(rel, a)
        except AnchorLost:
            break
        try:
            repo.at(rel, a + "/fn:" + fn)
            return a + "/fn:" + fn
        except AnchorLost:
            continue
    raise AnchorLost("%s: no `impl %s` block with fn %s" % (rel, impl, fn))


def split_or_guard_arms(scrutinee):
    """Rewrite R13: `P1 | P2 if g => body` becomes `P1 if g => body, P2 if g => body` (Verus does not support a
    match arm with both an or-pattern and a guard; the two forms are equivalent because only one alternative can
    match and the guard is evaluated after the pattern matched)."""
    from vlib.extract import Region, split_arms
    from vlib.verus import rule

    @rule("R13")
    def rw(text):
        reg = Region("<text>", text, 0, len(text))
        try:
            m = reg._find_match(scrutinee, 0)
        except AnchorLost:
            return None
        out, pos, n = [], 0, 0
        for a in split_arms(text, m.start, m.end):
            alts = [x.strip() for x in re.split(r"\s\|\s", a["pat"])]
            if a["guard"] and len(alts) > 1:
                n += 1
                out.append(text[pos:a["start"]])
                out.append("".join("%s if %s => %s,\n        " % (alt, a["guard"], a["body"]) for alt in alts))
                pos = a["end"]
        if not n:
            return None
        out.append(text[pos:])
        return "".join(out)
    return rw


UNARY = ["Alt", "Swap", "Check", "DupIf", "Verify", "NonZero", "ZeroNotEqual"]
BINARY = ["AndV", "AndB", "OrB", "OrD", "OrC", "OrI"]
MULTIS = ["Multi", "SortedMulti", "MultiA", "SortedMultiA"]


def rebuild_clauses(N, stackname, props, hash_leaf=None, key_leaf=None, multi=None, rawpkh=None, ok="true", extra_ok=""):
    """Clauses shared by the three rebuilding steps.  `N` = scrutinee text, the result node is
    `top(final(stack)@).node`.  The *_leaf callbacks give the clause body for the leaf kinds that differ between
    clone / translate / substitute."""
    S = "old(%s)@" % stackname
    R = "top(final(%s)@).node" % stackname
    cl = []
    for v in UNARY:
        cl.append(Clause(v, props, "%s is %s ==> %s ==> %s == Terminal::%s(child(%s, 0))" % (N, v, ok, R, v, S)))
    for v in BINARY:
        cl.append(Clause(v, props, "%s is %s ==> %s ==> %s == Terminal::%s(child(%s, 0), child(%s, 1))" % (N, v, ok, R, v, S, S)))
    cl.append(Clause("AndOr", props, "%s is AndOr ==> %s ==> %s == Terminal::AndOr(child(%s, 0), child(%s, 1), child(%s, 2))" % (N, ok, R, S, S, S)))
    cl.append(Clause("Thresh", props, "%s matches Terminal::Thresh(th) ==> %s ==> %s is Thresh && %s->Thresh_0.k == th.k && "
                     "%s->Thresh_0.inner@ == children_seq(%s, th.inner@.len())" % (N, ok, R, R, R, S)))
    cl.append(Clause("True", props, "%s is True ==> %s ==> %s == Terminal::True" % (N, ok, R)))
    cl.append(Clause("False", props, "%s is False ==> %s ==> %s == Terminal::False" % (N, ok, R)))
    cl.append(Clause("After", props, "%s matches Terminal::After(n) ==> %s ==> %s == Terminal::After(n)" % (N, ok, R)))
    cl.append(Clause("Older", props, "%s matches Terminal::Older(n) ==> %s ==> %s == Terminal::Older(n)" % (N, ok, R)))
    return cl


def clone_like_clauses(N, stackname, props, substitute=False):
    S = "old(%s)@" % stackname
    R = "top(final(%s)@).node" % stackname
    cl = rebuild_clauses(N, stackname, props)
    for v in ("PkK", "PkH", "Sha256", "Hash256", "Ripemd160", "Hash160"):
        cl.append(Clause(v, props, "%s matches Terminal::%s(x) ==> %s == Terminal::%s(x)" % (N, v, R, v)))
    for v in MULTIS:
        cl.append(Clause(v, props, "%s matches Terminal::%s(th) ==> %s is %s && %s->%s_0.k == th.k && %s->%s_0.inner@ == th.inner@" % (N, v, R, v, R, v, R, v)))
    if not substitute:
        cl.append(Clause("RawPkH", props, "%s matches Terminal::RawPkH(h) ==> %s == Terminal::RawPkH(h)" % (N, R)))
    else:
        cl.append(Clause("RawPkH.substituted", props, "%s matches Terminal::RawPkH(h) ==> (spec_map_get(*pk_map, h) matches Some(p) ==> %s == Terminal::PkH(p))" % (N, R)))
        cl.append(Clause("RawPkH.kept", props, "%s matches Terminal::RawPkH(h) ==> (spec_map_get(*pk_map, h) is None ==> %s == Terminal::RawPkH(h))" % (N, R)))
    cl.append(Clause("type_carried_over", props, "top(final(%s)@).ty == item.node.ty && top(final(%s)@).ext == item.node.ext" % (stackname, stackname)))
    cl.append(Clause("replaces_children", props, "replaced_top(%s, final(%s)@, arity(%s))" % (S, stackname, N)))
    return cl


def translate_clauses():
    N = "data.node.node"
    S = "old(translated)@"
    R = "top(final(translated)@).node"
    P = ("C20",)
    TT = "Terminal::<T::TargetPk, CtxQ>"
    cl = rebuild_clauses(N, "translated", P, ok="r is Ok")
    # success of structural nodes depends only on the target context accepting the rebuilt node
    for v in UNARY:
        cl.append(Clause(v + ".fails_only_in_ctx", P, "%s is %s ==> (r is Ok <==> spec_from_ast_ok(%s::%s(child(%s, 0))))" % (N, v, TT, v, S)))
    for v in BINARY:
        cl.append(Clause(v + ".fails_only_in_ctx", P, "%s is %s ==> (r is Ok <==> spec_from_ast_ok(%s::%s(child(%s, 0), child(%s, 1))))" % (N, v, TT, v, S, S)))
    cl.append(Clause("AndOr.fails_only_in_ctx", P, "%s is AndOr ==> (r is Ok <==> spec_from_ast_ok(%s::AndOr(child(%s, 0), child(%s, 1), child(%s, 2))))" % (N, TT, S, S, S)))
    for v, args in (("True", ""), ("False", ""), ("After", "(n)"), ("Older", "(n)"), ("RawPkH", "(h)")):
        pat = "%s matches Terminal::%s%s" % (N, v, args) if args else "%s is %s" % (N, v)
        cl.append(Clause(v + ".fails_only_in_ctx", P, "%s ==> (r is Ok <==> spec_from_ast_ok(%s::%s%s))" % (pat, TT, v, args)))
    cl.append(Clause("RawPkH", P, "%s matches Terminal::RawPkH(h) ==> r is Ok ==> %s == Terminal::RawPkH(h)" % (N, R)))
    # keys / hashes: mapped by f, Ok iff f is Ok and the context accepts
    for v, f in (("PkK", "spec_pk"), ("PkH", "spec_pk"), ("Sha256", "spec_sha256"), ("Hash256", "spec_hash256"),
                 ("Ripemd160", "spec_ripemd160"), ("Hash160", "spec_hash160")):
        cl.append(Clause(v + ".ok_iff", P, "%s matches Terminal::%s(x) ==> (r is Ok <==> T::%s(x) is Ok && spec_from_ast_ok(%s::%s(T::%s(x)->Ok_0)))" % (N, v, f, TT, v, f)))
        cl.append(Clause(v, P, "%s matches Terminal::%s(x) ==> r is Ok ==> %s == Terminal::%s(T::%s(x)->Ok_0)" % (N, v, R, v, f)))
    for v in MULTIS:
        cl.append(Clause(v + ".fails_if_key_fails", P, "%s matches Terminal::%s(th) ==> (!all_keys_map::<Pk, T>(th.inner@) ==> r is Err)" % (N, v)))
        cl.append(Clause(v, P, "%s matches Terminal::%s(th) ==> r is Ok ==> %s is %s && %s->%s_0.k == th.k && keys_mapped::<Pk, T>(th.inner@, %s->%s_0.inner@)" % (N, v, R, v, R, v, R, v)))
        cl.append(Clause(v + ".ok_iff", P, "%s matches Terminal::%s(th) ==> (all_keys_map::<Pk, T>(th.inner@) ==> exists|q: Threshold<T::TargetPk, %s>| q.k == th.k && keys_mapped::<Pk, T>(th.inner@, q.inner@) && (r is Ok <==> spec_from_ast_ok(%s::%s(q))))"
                         % (N, v, "MAX_PUBKEYS_PER_MULTISIG" if v in ("Multi", "SortedMulti") else "MAX_PUBKEYS_IN_CHECKSIGADD", TT, v)))
    cl.append(Clause("replaces_children", P, "r is Ok ==> replaced_top(%s, final(translated)@, arity(%s))" % (S, N)))
    cl.append(Clause("structure_preserving_map", P, "r is Ok ==> translated_as::<Pk, Ctx, CtxQ, T>(%s, children_seq(%s, arity(%s)), %s)" % (N, S, N, R)))
    return cl


ETA_OLD = ".map_err(TranslateErr::OuterError)"
ETA_NEW = (".map_err(|e: Error| -> (o: TranslateErr<T::Error>) ensures o == TranslateErr::<T::Error>::OuterError(e) "
           "{ TranslateErr::OuterError(e) })")


def build(repo):
    vf = VerusFile(NAME, repo)
    _tree.emit(vf, ext="real", types="defs", script_context=SCRIPT_CONTEXT)
    vf.item(ITER, "struct:PostOrderIterItem")
    vf.item(LIB, "enum:TranslateErr", rewrites=[sub("vis", r"^enum TranslateErr", "pub enum TranslateErr")])
    vf.item(LIB, "impl:From<E> for TranslateErr<E>")
    vf.raw(PUB_TYPES, keep_vis=True)
    vf.raw(PRELUDE)
    vf.raw(STD_ITER)
    vf.raw(MAPS)
    vf.raw(LAWS)
    vf.spec_obligation("lemma_translate_identity", LEMMA_IDENTITY, ("C20",))
    vf.spec_obligation("lemma_translate_compose", LEMMA_COMPOSE, ("C20",))
    vf.trust("trait Translator (spec_pk / spec_sha256 / ...)", "the translator's maps are modelled as uninterpreted, possibly failing FUNCTIONS of "
             "the key / hash (a translator whose answers depend on call history is outside the model)")
    vf.trust("FromSpecImpl for TranslateErr", "glue: the extracted `impl From<E> for TranslateErr<E>` is checked against it")
    vf.trust("Miniscript::from_ast (external_body) + spec_from_ast_ok", "typing rules / context checks of the rebuilt node are C05 / C12; here only "
             "`Ok ==> node == t` (from the body `node: t`) and an uninterpreted verdict")
    vf.trust("axiom_*_clone (clone_is_identity), derived Clone for Threshold", "Clone on keys / hashes / derived Clone returns an equal value (DESIGN 3.4)")
    vf.trust("map_ref_pop, translate_ref_pk (external_body)", "R9: contracts of Threshold::map_ref / translate_ref (proved below) instantiated with the "
             "closures `|_| stack.pop().unwrap()` and `|k| t.pk(k)` that Verus cannot take (captured &mut)")
    vf.trust("slice_iter_map_collect, vec_into_iter_map_collect, *_try_collect, slice_all (external_body)",
             "std semantics of iter().map(f).collect(), collect::<Result<Vec,_>>(), iter().all(f)")
    vf.trust("struct Error (opaque)", "crate::Error reduced to an opaque value")

    # ---- Threshold combinators ------------------------------------------------------------------------------
    with vf.block("impl<T, const MAX: usize> Threshold<T, MAX>"):
        vf.fn(THRESH, "impl:Threshold<T, MAX>/fn:map_ref", qual="Threshold", props=PROPS, contract=map_ref_contract(),
              rewrites=[lit("R4", "self.inner.iter().map(mapfn).collect()", "slice_iter_map_collect(&self.inner, mapfn)")])
        vf.fn(THRESH, "impl:Threshold<T, MAX>/fn:map", qual="Threshold", props=PROPS, contract=Contract(
            requires=["forall|i: int| 0 <= i < self.inner@.len() ==> call_requires(mapfn, (#[trigger] self.inner@[i],))"],
            ensures=[Clause("k_preserved", ("C20",), "r.k == self.k"),
                     Clause("n_preserved", ("C20",), "r.inner@.len() == self.inner@.len()"),
                     Clause("pointwise_in_order", ("C20",), "forall|i: int| 0 <= i < self.inner@.len() ==> call_ensures(mapfn, (self.inner@[i],), #[trigger] r.inner@[i])")],
            canary=False),
            rewrites=[lit("R4", "self.inner.into_iter().map(mapfn).collect()", "vec_into_iter_map_collect(self.inner, mapfn)")])

    TR_ENS = lambda arg: [
        Clause("ok_iff_all_ok", ("C20",), "r is Ok ==> r->Ok_0.inner@.len() == self.inner@.len() && forall|i: int| 0 <= i < self.inner@.len() ==> "
               "call_ensures(translatefn, (%s,), Ok::<U, FuncError>(#[trigger] r->Ok_0.inner@[i]))" % arg),
        Clause("k_preserved", ("C20",), "r is Ok ==> r->Ok_0.k == self.k"),
        Clause("fails_only_if_f_fails", ("C20",), "r is Err ==> exists|i: int| 0 <= i < self.inner@.len() && call_ensures(translatefn, (%s,), Err::<U, FuncError>(r->Err_0))" % arg.replace("self.inner@[i]", "#[trigger] self.inner@[i]"))]
    MAPK = ("|inner: Vec<U>| -> (o: Threshold<U, MAX>) ensures o.k == k && o.inner == inner { Threshold { k, inner } }")
    with vf.block("impl<T, const MAX: usize> Threshold<T, MAX>"):
        vf.fn(THRESH, "impl:Threshold<T, MAX>/fn:translate_ref", qual="Threshold", props=PROPS, contract=Contract(
            requires=["forall|i: int| 0 <= i < self.inner@.len() ==> call_requires(translatefn, (&#[trigger] self.inner@[i],))"],
            ensures=TR_ENS("&self.inner@[i]"), canary=False),
            rewrites=[sub("R4", r"self\.inner\s*\.iter\(\)\s*\.map\(translatefn\)\s*\.collect::<Result<Vec<_>, _>>\(\)", "slice_iter_map_try_collect(&self.inner, translatefn)"),
                      lit("R10", "|inner| Threshold { k, inner }", MAPK)])
        vf.fn(THRESH, "impl:Threshold<T, MAX>/fn:translate", qual="Threshold", props=PROPS, contract=Contract(
            requires=["forall|i: int| 0 <= i < self.inner@.len() ==> call_requires(translatefn, (#[trigger] self.inner@[i],))"],
            ensures=TR_ENS("self.inner@[i]"), canary=False),
            rewrites=[sub("R4", r"self\.inner\s*\.into_iter\(\)\s*\.map\(translatefn\)\s*\.collect::<Result<Vec<_>, _>>\(\)", "vec_into_iter_map_try_collect(self.inner, translatefn)"),
                      lit("R10", "|inner| Threshold { k, inner }", MAPK)])

    # ---- translate_pk_ctx: whole loop body ------------------------------------------------------------------
    sig = ("fn translate_step<Pk: MiniscriptKey, Ctx: ScriptContext, CtxQ: ScriptContext, T: Translator<Pk>>("
           "data: &PostOrderIterItem<&Miniscript<Pk, Ctx>>, t: &mut T, translated: &mut Vec<Arc<Miniscript<T::TargetPk, CtxQ>>>) "
           "-> Result<(), TranslateErr<T::Error>>")
    loop_body_step(vf, MSMOD, impl_with_fn(repo, MSMOD, "Miniscript<Pk, Ctx>", "translate_pk_ctx") + "/block:for data in", "translate_step", sig, "    Ok(())",
                   Contract(requires=["old(translated)@.len() >= arity(data.node.node)"], ensures=translate_clauses()), PROPS,
                   rewrites=[lit("R12-eta", ETA_OLD, ETA_NEW),
                             lit("R9", "thresh.map_ref(|_| translated.pop().unwrap())", "map_ref_pop(thresh, translated)"),
                             sub("R9", r"thresh\.translate_ref\(\|k\| t\.pk\(k\)\)", "translate_ref_pk(thresh, t)")])

    # ---- Clone::clone and substitute_raw_pkh: whole loop body -----------------------------------------------
    vf.trust("struct BTreeMap + get (external_body)", "alloc::collections::BTreeMap reduced to an uninterpreted lookup")
    with vf.block("impl<Pk: MiniscriptKey, Ctx: ScriptContext> Miniscript<Pk, Ctx>"):
        vf.fn(MSMOD, "mod:private/impl:Miniscript<Pk, Ctx>/fn:from_components_unchecked", qual="Miniscript", props=PROPS,
              contract=Contract(ensures=[Clause("fields", ("C20",), "r.node == node && r.ty == ty && r.ext == ext")]),
              rewrites=[lit("R7", "types::extra_props::ExtData", "ExtData"), lit("R7", "types::Type", "Type")])
        sig = "fn clone_step(item: &PostOrderIterItem<&Miniscript<Pk, Ctx>>, stack: &mut Vec<Arc<Miniscript<Pk, Ctx>>>)"
        loop_body_step(vf, MSMOD, "mod:private/impl:Clone for Miniscript<Pk, Ctx>/fn:clone/block:for item in", "Miniscript::clone_step", sig, "",
                       Contract(requires=["old(stack)@.len() >= arity(item.node.node)"],
                                ensures=clone_like_clauses("item.node.node", "stack", ("C20", "C19"))), PROPS + ("C19",),
                       pre="    broadcast use clone_is_identity;",
                       rewrites=[lit("R9", "thresh.map_ref(|_| stack.pop().unwrap())", "map_ref_pop(thresh, stack)")])
        sig = ("fn substitute_raw_pkh_step(item: &PostOrderIterItem<&Miniscript<Pk, Ctx>>, pk_map: &BTreeMap<hash160::Hash, Pk>, "
               "stack: &mut Vec<Arc<Miniscript<Pk, Ctx>>>)")
        loop_body_step(vf, MSMOD, impl_with_fn(repo, MSMOD, "Miniscript<Pk, Ctx>", "substitute_raw_pkh") + "/block:for item in",
                       "Miniscript::substitute_raw_pkh_step", sig, "",
                       Contract(requires=["old(stack)@.len() >= arity(item.node.node)"],
                                ensures=clone_like_clauses("item.node.node", "stack", ("C20",), substitute=True)), PROPS,
                       pre="    broadcast use clone_is_identity;",
                       rewrites=[lit("R9", "thresh.map_ref(|_| stack.pop().unwrap())", "map_ref_pop(thresh, stack)")])

    # ---- for_each_key: per-node step ---------------------------------------------------------------------------
    N = "ms.node"
    fek = []
    for v in ("PkK", "PkH", "Multi", "SortedMulti", "MultiA", "SortedMultiA"):
        fek.append(Clause(v, ("C20",), "%s is %s ==> (r ==> pred_all_true(pred, node_keys(%s))) && (!r ==> pred_first_false(pred, node_keys(%s)))" % (N, v, N, N)))
    fek.append(Clause("keyless_nodes_continue", ("C20",), "node_keys(%s).len() == 0 ==> r" % N))
    sig = ("fn for_each_key_step<'a, Pk: MiniscriptKey + 'a, Ctx: ScriptContext, F: FnMut(&'a Pk) -> bool>(ms: &'a Miniscript<Pk, Ctx>, mut pred: F) -> bool")
    vf.step(MSMOD, "impl:ForEachKey<Pk> for Miniscript<Pk, Ctx>/fn:for_each_key/match:ms.node", "for_each_key_step", sig, props=PROPS,
            contract=Contract(requires=["forall|i: int| 0 <= i < node_keys(%s).len() ==> call_requires(pred, (&#[trigger] node_keys(%s)[i],))" % (N, N)],
                              ensures=fek, canary=False),
            rewrites=[lit("R4", "thresh.iter().all(&mut pred)", "iter_all(thresh, &mut pred)"), split_or_guard_arms("ms.node")],
            pre_match=("    proof { if ms.node is PkK { assert(node_keys(ms.node)[0] == ms.node->PkK_0); } "
                       "if ms.node is PkH { assert(node_keys(ms.node)[0] == ms.node->PkH_0); } }"),
            post_match="    let step_result = true;")

    # ---- descriptor-level wrappers: contracts over the whole-tree summaries ---------------------------------
    emit_descriptors(vf, CTX_IMPL)
    vf.raw(WRAP_STUBS)
    vf.trust("Miniscript::translate_pk_ctx / for_each_key, TapTree::translate_pk, Tr::new, Tr::for_each_key, From<ScriptContextError> for Error (external_body)",
             "whole-tree callees summarised by uninterpreted results (their per-node steps are the obligations above); Tr::new's contract is "
             "read off its two-line body (Mutex field not representable)")

    def MT(ctx, e):
        return "spec_ms_translate::<Pk, %s, %s, T>(%s)" % (ctx, ctx, e)

    def key_clauses(ctx, pk="self.pk", res="r->Ok_0.pk", guard=""):
        g = guard + " ==> " if guard else ""
        return [Clause("fails_only_if_map_fails_or_key_illegal", ("C20",), "%s(r is Ok <==> T::spec_pk(%s) is Ok && %s::spec_pk_ok(T::spec_pk(%s)->Ok_0))" % (g, pk, ctx, pk)),
                Clause("key_mapped", ("C20",), "%s(r is Ok ==> %s == T::spec_pk(%s)->Ok_0)" % (g, res, pk))]

    with vf.block("impl<Pk: MiniscriptKey, Ctx: ScriptContext> Miniscript<Pk, Ctx>"):
        vf.fn(MSMOD, impl_with_fn(repo, MSMOD, "Miniscript<Pk, Ctx>", "translate_pk"), qual="Miniscript", props=PROPS,
              contract=Contract(ensures=[Clause("same_ctx", ("C20",), "r == %s" % MT("Ctx", "*self"))]))
    with vf.block("impl<Pk: MiniscriptKey> Wsh<Pk>"):
        vf.fn(SEGWIT, "impl:Wsh<Pk>/fn:translate_pk", qual="Wsh", props=PROPS, contract=Contract(ensures=[
            Clause("fails_only_if_ms_fails", ("C20",), "r is Ok <==> %s is Ok" % MT("Segwitv0", "self.ms")),
            Clause("ms_translated", ("C20",), "r is Ok ==> r->Ok_0.ms == %s->Ok_0" % MT("Segwitv0", "self.ms"))]))
    with vf.block("impl<Pk: MiniscriptKey> Wpkh<Pk>"):
        vf.fn(SEGWIT, "impl:Wpkh<Pk>/fn:new", qual="Wpkh", props=PROPS, contract=Contract(ensures=[
            Clause("new", ("C20",), "(r is Ok <==> Segwitv0::spec_pk_ok(pk)) && (r is Ok ==> r->Ok_0.pk == pk)")]))
        vf.fn(SEGWIT, "impl:Wpkh<Pk>/fn:translate_pk", qual="Wpkh", props=PROPS, contract=Contract(ensures=key_clauses("Segwitv0")))
    with vf.block("impl<Pk: MiniscriptKey> Pkh<Pk>"):
        vf.fn(BARE, "impl:Pkh<Pk>/fn:new", qual="Pkh", props=PROPS, contract=Contract(ensures=[
            Clause("new", ("C20",), "(r is Ok <==> BareCtx::spec_pk_ok(pk)) && (r is Ok ==> r->Ok_0.pk == pk)")]))
        vf.fn(BARE, "impl:Pkh<Pk>/fn:translate_pk", qual="Pkh", props=PROPS, contract=Contract(ensures=key_clauses("BareCtx")))
    with vf.block("impl<Pk: MiniscriptKey> Bare<Pk>"):
        vf.fn(BARE, "impl:Bare<Pk>/fn:new", qual="Bare", props=PROPS, contract=Contract(ensures=[
            Clause("new", ("C20",), "(r is Ok <==> BareCtx::spec_top_level_ok(ms)) && (r is Ok ==> r->Ok_0.ms == ms)")]))
        vf.fn(BARE, "impl:Bare<Pk>/fn:translate_pk", qual="Bare", props=PROPS, rewrites=[lit("R12-eta", ETA_OLD, ETA_NEW)], contract=Contract(ensures=[
            Clause("fails_only_if_ms_fails_or_ctx_rejects", ("C20",), "r is Ok <==> %s is Ok && BareCtx::spec_top_level_ok(%s->Ok_0)" % (MT("BareCtx", "self.ms"), MT("BareCtx", "self.ms"))),
            Clause("ms_translated", ("C20",), "r is Ok ==> r->Ok_0.ms == %s->Ok_0" % MT("BareCtx", "self.ms"))]))
    with vf.block("impl<Pk: MiniscriptKey> Sh<Pk>"):
        vf.fn(SH, "impl:Sh<Pk>/fn:translate_pk", qual="Sh", props=PROPS, contract=Contract(ensures=[
            Clause("Wsh", ("C20",), "self.inner matches ShInner::Wsh(w) ==> (r is Ok <==> %s is Ok) && (r is Ok ==> r->Ok_0.inner is Wsh && r->Ok_0.inner->Wsh_0.ms == %s->Ok_0)" % (MT("Segwitv0", "w.ms"), MT("Segwitv0", "w.ms"))),
            Clause("Ms", ("C20",), "self.inner matches ShInner::Ms(m) ==> (r is Ok <==> %s is Ok) && (r is Ok ==> r->Ok_0.inner is Ms && r->Ok_0.inner->Ms_0 == %s->Ok_0)" % (MT("Legacy", "m"), MT("Legacy", "m"))),
            Clause("Wpkh", ("C20",), "self.inner matches ShInner::Wpkh(w) ==> (r is Ok <==> T::spec_pk(w.pk) is Ok && Segwitv0::spec_pk_ok(T::spec_pk(w.pk)->Ok_0)) "
                   "&& (r is Ok ==> r->Ok_0.inner is Wpkh && r->Ok_0.inner->Wpkh_0.pk == T::spec_pk(w.pk)->Ok_0)")]))
    TT = "spec_taptree_translate::<Pk, T>"
    with vf.block("impl<Pk: MiniscriptKey> Tr<Pk>"):
        vf.fn(TR, "impl:Tr<Pk>/fn:translate_pk", qual="Tr", props=PROPS, rewrites=[lit("R12-eta", ETA_OLD, ETA_NEW)], contract=Contract(ensures=[
            Clause("fails_only_if_map_fails_or_key_illegal", ("C20",),
                   "r is Ok <==> (self.tree matches Some(tt) ==> %s(tt) is Ok) && T::spec_pk(self.internal_key) is Ok && Tap::spec_pk_ok(T::spec_pk(self.internal_key)->Ok_0)" % TT),
            Clause("key_mapped", ("C20",), "r is Ok ==> r->Ok_0.internal_key == T::spec_pk(self.internal_key)->Ok_0"),
            Clause("tree_mapped", ("C20",), "r is Ok ==> (self.tree is None ==> r->Ok_0.tree is None) && "
                   "(self.tree matches Some(tt) ==> r->Ok_0.tree == Some(%s(tt)->Ok_0))" % TT)]))
    with vf.block("impl<Pk: MiniscriptKey> Descriptor<Pk>"):
        KO = "T::spec_pk(%s) is Ok && %s::spec_pk_ok(T::spec_pk(%s)->Ok_0)"
        vf.fn(DESC, impl_with_fn(repo, DESC, "Descriptor<Pk>", "translate_pk"), qual="Descriptor", props=PROPS, contract=Contract(ensures=[
            Clause("Bare", ("C20",), "*self matches Descriptor::Bare(d) ==> (r is Ok <==> %s is Ok && BareCtx::spec_top_level_ok(%s->Ok_0)) && "
                   "(r is Ok ==> r->Ok_0 is Bare && r->Ok_0->Bare_0.ms == %s->Ok_0)" % ((MT("BareCtx", "d.ms"),) * 3)),
            Clause("Pkh", ("C20",), "*self matches Descriptor::Pkh(d) ==> (r is Ok <==> %s) && (r is Ok ==> r->Ok_0 is Pkh && r->Ok_0->Pkh_0.pk == T::spec_pk(d.pk)->Ok_0)" % (KO % ("d.pk", "BareCtx", "d.pk"))),
            Clause("Wpkh", ("C20",), "*self matches Descriptor::Wpkh(d) ==> (r is Ok <==> %s) && (r is Ok ==> r->Ok_0 is Wpkh && r->Ok_0->Wpkh_0.pk == T::spec_pk(d.pk)->Ok_0)" % (KO % ("d.pk", "Segwitv0", "d.pk"))),
            Clause("Wsh", ("C20",), "*self matches Descriptor::Wsh(d) ==> (r is Ok <==> %s is Ok) && (r is Ok ==> r->Ok_0 is Wsh && r->Ok_0->Wsh_0.ms == %s->Ok_0)" % ((MT("Segwitv0", "d.ms"),) * 2)),
            Clause("Sh.variant", ("C20",), "*self is Sh ==> (r is Ok ==> r->Ok_0 is Sh)"),
            Clause("Sh.Ms", ("C20",), "*self matches Descriptor::Sh(d) ==> d.inner matches ShInner::Ms(m) ==> (r is Ok <==> %s is Ok) && (r is Ok ==> r->Ok_0->Sh_0.inner is Ms && r->Ok_0->Sh_0.inner->Ms_0 == %s->Ok_0)" % ((MT("Legacy", "m"),) * 2)),
            Clause("Sh.Wsh", ("C20",), "*self matches Descriptor::Sh(d) ==> d.inner matches ShInner::Wsh(w) ==> (r is Ok <==> %s is Ok) && (r is Ok ==> r->Ok_0->Sh_0.inner is Wsh && r->Ok_0->Sh_0.inner->Wsh_0.ms == %s->Ok_0)" % ((MT("Segwitv0", "w.ms"),) * 2)),
            Clause("Sh.Wpkh", ("C20",), "*self matches Descriptor::Sh(d) ==> d.inner matches ShInner::Wpkh(w) ==> (r is Ok <==> %s) && (r is Ok ==> r->Ok_0->Sh_0.inner is Wpkh && r->Ok_0->Sh_0.inner->Wpkh_0.pk == T::spec_pk(w.pk)->Ok_0)" % (KO % ("w.pk", "Segwitv0", "w.pk"))),
            Clause("Tr", ("C20",), "*self matches Descriptor::Tr(d) ==> (r is Ok <==> (d.tree matches Some(tt) ==> %s(tt) is Ok) && %s) && "
                   "(r is Ok ==> r->Ok_0 is Tr && r->Ok_0->Tr_0.internal_key == T::spec_pk(d.internal_key)->Ok_0 && "
                   "(d.tree is None ==> r->Ok_0->Tr_0.tree is None) && (d.tree matches Some(tt) ==> r->Ok_0->Tr_0.tree == Some(%s(tt)->Ok_0)))" % (TT, KO % ("d.internal_key", "Tap", "d.internal_key"), TT)),
        ]))

    # ---- for_each_key wrappers ---------------------------------------------------------------------------------
    def fek_anchor(rel, ty):
        return "impl:ForEachKey<Pk> for %s<Pk>/fn:for_each_key" % ty
    for rel, ty in ((SEGWIT, "Wpkh"), (BARE, "Pkh")):
        with vf.block("impl<Pk: MiniscriptKey> %s<Pk>" % ty):
            vf.fn(rel, fek_anchor(rel, ty), qual=ty, props=PROPS, contract=Contract(
                requires=["call_requires(pred, (&self.pk,))"], canary=False,
                ensures=[Clause("the_key_exactly", ("C20",), "call_ensures(pred, (&self.pk,), r)")]))
    for rel, ty in ((SEGWIT, "Wsh"), (BARE, "Bare")):
        with vf.block("impl<Pk: MiniscriptKey> %s<Pk>" % ty):
            vf.fn(rel, fek_anchor(rel, ty), qual=ty, props=PROPS, contract=Contract(
                ensures=[Clause("the_script_keys", ("C20",), "r == spec_ms_all_keys(self.ms, pred)")]))
    with vf.block("impl<Pk: MiniscriptKey> Sh<Pk>"):
        vf.fn(SH, fek_anchor(SH, "Sh"), qual="Sh", props=PROPS, contract=Contract(
            requires=["self.inner matches ShInner::Wpkh(w) ==> call_requires(pred, (&w.pk,))"], canary=False,
            ensures=[Clause("Wsh", ("C20",), "self.inner matches ShInner::Wsh(w) ==> r == spec_ms_all_keys(w.ms, pred)"),
                     Clause("Ms", ("C20",), "self.inner matches ShInner::Ms(m) ==> r == spec_ms_all_keys(m, pred)"),
                     Clause("Wpkh", ("C20",), "self.inner matches ShInner::Wpkh(w) ==> call_ensures(pred, (&w.pk,), r)")]))
    with vf.block("impl<Pk: MiniscriptKey> Descriptor<Pk>"):
        vf.fn(DESC, fek_anchor(DESC, "Descriptor"), qual="Descriptor", props=PROPS, contract=Contract(
            requires=["*self matches Descriptor::Pkh(d) ==> call_requires(pred, (&d.pk,))",
                      "*self matches Descriptor::Wpkh(d) ==> call_requires(pred, (&d.pk,))",
                      "*self matches Descriptor::Sh(d) ==> d.inner matches ShInner::Wpkh(w) ==> call_requires(pred, (&w.pk,))"], canary=False,
            ensures=[Clause("Bare", ("C20",), "*self matches Descriptor::Bare(d) ==> r == spec_ms_all_keys(d.ms, pred)"),
                     Clause("Pkh", ("C20",), "*self matches Descriptor::Pkh(d) ==> call_ensures(pred, (&d.pk,), r)"),
                     Clause("Wpkh", ("C20",), "*self matches Descriptor::Wpkh(d) ==> call_ensures(pred, (&d.pk,), r)"),
                     Clause("Wsh", ("C20",), "*self matches Descriptor::Wsh(d) ==> r == spec_ms_all_keys(d.ms, pred)"),
                     Clause("Sh.Ms", ("C20",), "*self matches Descriptor::Sh(d) ==> d.inner matches ShInner::Ms(m) ==> r == spec_ms_all_keys(m, pred)"),
                     Clause("Sh.Wsh", ("C20",), "*self matches Descriptor::Sh(d) ==> d.inner matches ShInner::Wsh(w) ==> r == spec_ms_all_keys(w.ms, pred)"),
                     Clause("Sh.Wpkh", ("C20",), "*self matches Descriptor::Sh(d) ==> d.inner matches ShInner::Wpkh(w) ==> call_ensures(pred, (&w.pk,), r)"),
                     Clause("Tr", ("C20",), "*self matches Descriptor::Tr(d) ==> r == spec_tr_all_keys(d, pred)")]))

    # ---- key iterator (PkIter / Iter) per-node functions ----------------------------------------------------
    with vf.block("impl<Pk: MiniscriptKey, Ctx: ScriptContext> Miniscript<Pk, Ctx>"):
        vf.fn(MSITER, "impl:Miniscript<Pk, Ctx>/fn:get_nth_pk", qual="Miniscript", props=PROPS, contract=Contract(ensures=[
            Clause("exactly_the_node_keys", ("C20",), "r is Some <==> n < node_keys(self.node).len()"),
            Clause("in_order", ("C20",), "r is Some ==> r->Some_0 == node_keys(self.node)[n as int]")]),
            rewrites=[lit("R10", "match (&self.node, n) {", "broadcast use clone_is_identity;\n        match (&self.node, n) {")])
    with vf.block("impl<Pk: MiniscriptKey, Ctx: ScriptContext> Miniscript<Pk, Ctx>"):
        vf.fn(MSITER, "impl:Miniscript<Pk, Ctx>/fn:get_nth_child", qual="Miniscript", props=PROPS, contract=Contract(ensures=[
            Clause("exactly_the_children", ("C20",), "r is Some <==> n < node_children(self.node).len()"),
            Clause("in_order", ("C20",), "r is Some ==> *r->Some_0 == *node_children(self.node)[n as int]")]),
            rewrites=[lit("R10", "|x| &**x", "|x: &Arc<Miniscript<Pk, Ctx>>| -> (o: &Miniscript<Pk, Ctx>) ensures *o == **x { &**x }")])
    return vf
