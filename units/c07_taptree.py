"""C07 (Verus): `impl Liftable for TapTree { fn lift }` (src/descriptor/tr/taptree.rs) and `impl Liftable for Tr { fn lift }`
(src/descriptor/tr/mod.rs) against BIP341's spending rule, judged SEMANTICALLY.

ORACLE (BIP341 + the property statement, nothing read off the code).  A taproot output is spent either through its
internal key or through ANY ONE leaf of its script tree, so under every assignment `a` of the atoms (which keys sign,
which preimages are known, which older / after atoms hold):

    script tree:   sem(lift(tree), a)  <==>  exists leaf j:  lift(leaf_j) = Ok(p_j)  and  sem(p_j, a)
    tr(K, tree):   sem(lift(tr), a)    <==>  K signs  or  exists leaf j: sem(p_j, a)
    tr(K):         sem(lift(tr), a)    <==>  K signs

  consequences stated as clauses of their own: a leaf whose policy is TRIVIAL makes the whole tree always spendable
  (an anyone-can-spend leaf must not be hidden), leaves that are UNSATISFIABLE contribute nothing, a leaf that cannot
  be lifted makes the lift of the tree (and of the descriptor) an error, and every error reported is a leaf's error.
  `sem` is the truth-table meaning of an abstract policy of unit c18_semantic (Thresh(k, subs) = at least k subs hold),
  imported, the same function `Semantic::normalized` is proved to preserve in unit c18_normalized.  Nothing in the
  clauses mentions `normalized`, `Threshold::new` or the shape of the returned policy: a lift that stops normalizing
  is still judged (and stays green), a lift that flattens by hand is judged by what its result MEANS.

VERIFIED TEXT (verbatim from /repo unless listed under REWRITES): TapTree::lift, the closure body of its `.map(..)`,
Tr::lift, TapTreeIterItem::miniscript, Threshold::{new, or, and, or_n, and_n, is_or, is_and, into_data, iter} (the last six are
not called by /repo's lift; a restructured lift is likely to call them, and without a contract it could not be judged).
  consumed through contracts: Semantic::normalized (proved in c18_normalized from the identical clause text:
  sem-preserving, keeps the Threshold invariant `wf_deep`), validate_k_n (c12), Miniscript::lift (uninterpreted per-leaf
  result `spec_ms_lift(leaf)`; its per-node step is unit c07_lift; an Ok result satisfies the Threshold invariant because
  it comes out of `normalized()`).

REWRITES
  R14/R16  `self.leaves()[.skip(N)][.rev()].map(|item| BODY).collect::<Result<Vec<_>, _>>()`  ->  `tap_leaves_collect(self)`:
           BODY is lambda-lifted verbatim into `tap_leaf_closure(item)` (it captures nothing) and the chain becomes a verified
           index loop over `depths_leaves` that builds `TapTreeIterItem { depth, node }` per entry (TapTreeIter::next), calls the
           lifted closure, pushes the Ok values and returns the FIRST Err (std: `collect` into `Result<Vec<_>, _>` stops at the
           first error).  The spelling `.filter_map(|item| BODY).collect::<Vec<_>>()` (keeps the `Some` results) is mapped to the
           corresponding loop so that a lift that swallows leaf errors is judged instead of losing the anchor.
  R8       (only if the code is restructured that way) `for item in self.leaves() { BODY }` filling ONE `Vec` accumulator -> index
           loop over `depths_leaves`, BODY verbatim, with two named invariant clauses over the accumulator:
           `leaves_so_far_are_the_disjunction` [C07] (no leaf so far failed to lift; one of the collected policies holds iff one of the
           leaves visited so far spends; each round may drop a never-satisfiable policy, push a policy meaning the leaf's, or splice
           the children of an `or` node -- lemma_acc_step) and `accumulator_not_empty_after_a_leaf` [C11] (else the `expect` panics);
           `accumulator_not_empty_after_a_leaf` is inserted only when the text after the loop never looks at `ACC.len()` /
           `ACC.is_empty()` (a tail `match ACC.len() { 0 => .., 1 => .., _ => .. }` handles the empty vector itself);
           `acc.extend(x.iter().cloned())` -> vec_extend_cloned (R4); the `?` in `match item.miniscript().lift()? {` is the text of /repo
  R7       `crate::Error` -> the unit's `Error`;  `Policy` (tr/mod.rs' name of the abstract policy) = `Semantic` (type alias);
           struct Tr without its `spend_info: Mutex<..>` cache field
  R7       `assert_ne!(a, b);` -> `assert!(a != b);` (or_n / and_n; std: panics iff equal);  `Arc::try_unwrap(X).unwrap()` ->
           arc_try_unwrap_unique(X) (trusted stub of unit c18_normalized: yields the pointee; uniqueness NOT verified)
  R10      ghost: `proof { lemma_collected(..) }` after the loop / after `let X = tap_leaves_collect(self)?;` (what any node built from
           the collected vector means: empty = never, one element = itself, Thresh(k, vec) = at least k, Threshold invariant);
           `proof { lemma_thresh_node(..) }` after `let <x> = Threshold::new(..).expect(..);` (establishes the Threshold
           invariant normalized() requires and unfolds the meaning of the node), one lemma call at the top of TapTree::lift,
           Tr::lift's tail expression (`match` / `if let .. else` / ..; L7.bind_tail) is bound to a name so that a ghost block can follow it (as in c07_lift)
Any other way of visiting the leaves (`.take(..)`, a different collector, two accumulators, ...) is an anchor loss: UNDECIDED.

NOTE on reading a red run: Verus does not stop a path at a failed callee precondition.  When a change makes the collected
vector possibly EMPTY (first leaf skipped, failing leaves filtered out), `Threshold::new(1, v).expect(..)` is reported
(TapTree::lift.body, C11: the real code panics there) and the clauses after it are judged on that phantom path too, so
`invents_no_path` / `unsatisfiable_leaves_add_nothing` may be listed next to the clause that names the actual defect.
"""
import re

from vlib.verus import VerusFile, Contract, Clause, sub, lit, rule, Undecided, split_fn
from vlib.extract import match_close
from units import _tree
from units import c18_semantic as S
from units import c18_normalized as N
from units import c07_lift as L7
from units.c20_translate import impl_with_fn
from units.c02_multi import for_slice_loop, register_named_invariants

NAME = "c07_taptree"
ENGINE = "verus"
PROPS = ("C07", "C11")

TAPTREE = "src/descriptor/tr/taptree.rs"
TR = "src/descriptor/tr/mod.rs"
POLICY = "src/policy/mod.rs"
CTX = "src/miniscript/context.rs"

DROPPED = [
    "c07_taptree: TapTree::lift: the iterator chain `self.leaves().map(|item| BODY).collect::<Result<Vec<_>, _>>()` is rewritten (R14 + R16): "
    "BODY is lambda-lifted verbatim into `tap_leaf_closure` and the chain becomes a call of the verified index loop `tap_leaves_collect` over "
    "`depths_leaves` (trusted: `TapTree::leaves()` yields `TapTreeIterItem { depth, node }` for every entry of `depths_leaves` in order -- "
    "TapTreeIter::next --, `Iterator::map(f)` applies f to every item in order, `collect::<Result<Vec<_>, _>>()` returns the Ok values in order or "
    "the first Err); the trailing `?` is the text of /repo",
    "c07_taptree: Miniscript::lift on a leaf is an uninterpreted per-leaf result `spec_ms_lift(leaf)` (its per-node step is unit c07_lift); an Ok "
    "result is assumed to satisfy the Threshold type invariant (it is the output of `normalized()`: c18_normalized.wf_preserved)",
    "c07_taptree: Semantic::normalized is consumed through its contract (proved in c18_normalized, identical clause text)",
    "c07_taptree: precondition `the tree has at least one leaf` (type invariant of TapTree: `leaf` creates one, `combine` / `translate_pk` keep the "
    "count, TapTreeBuilder::finalize asserts non-emptiness); without it `Threshold::new(1, []).expect(..)` panics",
    "c07_taptree: struct Tr is extracted without its `spend_info: Mutex<..>` cache field (not read by lift); Tr::lift's tail expression is bound to a "
    "name so that a ghost block can follow it (R10)",
    "c07_taptree: Threshold::{or_n, and_n}: `assert_ne!(inner.len(), 0)` is written `assert!(inner.len() != 0)` (R7; core::panicking::assert_failed has no "
    "Verus specification); the assertion is the functions' precondition",
    "c07_taptree: Descriptor::lift's Tr arm is a plain delegation (verified in c07_lift); not repeated here",
]

STUBS = r"""
// ---- the script context of tap leaves (uninhabited marker enum in /repo) -----------------------------------------------
struct Tap { marker: u8 }
impl ScriptContext for Tap {}

// crate::Error reduced to the variant the lift constructs
enum Error { LiftError(LiftError), Other(u8) }
// src/descriptor/tr/mod.rs: `use crate::policy::semantic::Policy`; src/policy/mod.rs: `pub use semantic::Policy as Semantic`
type Policy<Pk> = Semantic<Pk>;

// ---- per-leaf lift: uninterpreted result (its per-node step is unit c07_lift) ------------------------------------------------
uninterp spec fn spec_ms_lift<Pk: MiniscriptKey, Ctx: ScriptContext>(ms: Miniscript<Pk, Ctx>) -> Result<Semantic<Pk>, Error>;
impl<Pk: MiniscriptKey, Ctx: ScriptContext> Miniscript<Pk, Ctx> {
    #[verifier::external_body]
    fn lift(&self) -> (r: Result<Semantic<Pk>, Error>)
        ensures r == spec_ms_lift(*self),
                r is Ok ==> wf_deep(r->Ok_0),          // the last step of Miniscript::lift is normalized(): c18_normalized.wf_preserved
    { unimplemented!() }
}
"""

ORACLE = r"""
// ---- ORACLE (BIP341): a script tree is spendable through ANY ONE of its leaves ----------------------------------------------
pub open spec fn n_leaves<Pk: MiniscriptKey>(t: TapTree<Pk>) -> int { t.depths_leaves@.len() as int }
// what the j-th leaf (in the order of depths_leaves) lifts to
pub open spec fn leaf_lift<Pk: MiniscriptKey>(t: TapTree<Pk>, j: int) -> Result<Semantic<Pk>, Error> { spec_ms_lift(*t.depths_leaves@[j].1) }
// leaf j can be spent under the assignment a
pub open spec fn leaf_spends<Pk: MiniscriptKey>(t: TapTree<Pk>, j: int, a: Asg<Pk>) -> bool {
    leaf_lift(t, j) is Ok && sem(leaf_lift(t, j)->Ok_0, a)
}
pub open spec fn some_leaf_spends_in<Pk: MiniscriptKey>(t: TapTree<Pk>, lo: int, hi: int, a: Asg<Pk>) -> bool {
    exists|j: int| lo <= j < hi && #[trigger] leaf_spends(t, j, a)
}
pub open spec fn some_leaf_spends<Pk: MiniscriptKey>(t: TapTree<Pk>, a: Asg<Pk>) -> bool { some_leaf_spends_in(t, 0, n_leaves(t), a) }
pub open spec fn leaf_fails<Pk: MiniscriptKey>(t: TapTree<Pk>, j: int) -> bool { leaf_lift(t, j) is Err }
pub open spec fn some_leaf_fails_in<Pk: MiniscriptKey>(t: TapTree<Pk>, lo: int, hi: int) -> bool {
    exists|j: int| lo <= j < hi && #[trigger] leaf_fails(t, j)
}
pub open spec fn some_leaf_fails<Pk: MiniscriptKey>(t: TapTree<Pk>) -> bool { some_leaf_fails_in(t, 0, n_leaves(t)) }
// the error reported is the error of one of the leaves
pub open spec fn is_a_leaf_error<Pk: MiniscriptKey>(t: TapTree<Pk>, lo: int, hi: int, e: Error) -> bool {
    exists|j: int| lo <= j < hi && #[trigger] leaf_lift(t, j) == Err::<Semantic<Pk>, Error>(e)
}
// the policy p is what one of the leaves lifts to
pub open spec fn is_a_leaf_policy<Pk: MiniscriptKey>(t: TapTree<Pk>, lo: int, hi: int, p: Semantic<Pk>) -> bool {
    exists|j: int| lo <= j < hi && #[trigger] leaf_lift(t, j) == Ok::<Semantic<Pk>, Error>(p)
}
pub open spec fn some_leaf_is_trivial<Pk: MiniscriptKey>(t: TapTree<Pk>) -> bool {
    exists|j: int| 0 <= j < n_leaves(t) && #[trigger] leaf_lift(t, j) == Ok::<Semantic<Pk>, Error>(Semantic::Trivial)
}
pub open spec fn all_leaves_unsatisfiable<Pk: MiniscriptKey>(t: TapTree<Pk>) -> bool {
    forall|j: int| 0 <= j < n_leaves(t) ==> #[trigger] leaf_lift(t, j) == Ok::<Semantic<Pk>, Error>(Semantic::Unsatisfiable)
}
// type invariant of TapTree (leaf / combine / translate_pk / TapTreeBuilder::finalize)
pub open spec fn tree_nonempty<Pk: MiniscriptKey>(t: TapTree<Pk>) -> bool { n_leaves(t) >= 1 }

"""


# pure oracle / counting facts (obligations of the unit, no code involved); each is proved
LEMMAS = [
    ("constant_leaves", r"""
// pure consequences of the oracle: an anyone-can-spend leaf makes the tree always spendable; unsatisfiable leaves add nothing
proof fn lemma_constant_leaves<Pk: MiniscriptKey>(t: TapTree<Pk>)
    ensures some_leaf_is_trivial(t) ==> forall|a: Asg<Pk>| #[trigger] some_leaf_spends_in(t, 0, n_leaves(t), a),
            some_leaf_is_trivial(t) ==> some_leaf_spends_in(t, 0, n_leaves(t), arbitrary::<Asg<Pk>>()),
            all_leaves_unsatisfiable(t) ==> forall|a: Asg<Pk>| !#[trigger] some_leaf_spends_in(t, 0, n_leaves(t), a),
{
    if some_leaf_is_trivial(t) {
        let j = choose|j: int| 0 <= j < n_leaves(t) && #[trigger] leaf_lift(t, j) == Ok::<Semantic<Pk>, Error>(Semantic::Trivial);
        assert forall|a: Asg<Pk>| #[trigger] some_leaf_spends_in(t, 0, n_leaves(t), a) by { assert(leaf_spends(t, j, a)); }
    }
    if all_leaves_unsatisfiable(t) {
        assert forall|a: Asg<Pk>| !#[trigger] some_leaf_spends_in(t, 0, n_leaves(t), a) by {
            if some_leaf_spends_in(t, 0, n_leaves(t), a) {
                let j = choose|j: int| 0 <= j < n_leaves(t) && #[trigger] leaf_spends(t, j, a);
                assert(leaf_lift(t, j) == Ok::<Semantic<Pk>, Error>(Semantic::Unsatisfiable));
            }
        }
    }
}
"""),
    ("thresh_node_means_at_least_k", r"""
// a threshold node over well-formed children: it satisfies the Threshold invariant and means "at least k children hold"
proof fn lemma_thresh_node<Pk: MiniscriptKey>(p: Semantic<Pk>)
    requires p is Thresh, 1 <= p->Thresh_0.k <= p->Thresh_0.inner@.len(),
             forall|i: int| 0 <= i < p->Thresh_0.inner@.len() ==> wf_deep(*#[trigger] p->Thresh_0.inner@[i]),
    ensures wf_deep(p),
            forall|a: Asg<Pk>| #[trigger] sem(p, a) == (cnt(p->Thresh_0.inner@, p->Thresh_0.inner@.len() as int, a) >= p->Thresh_0.k),
{
    lemma_wf_build(p, p->Thresh_0.inner@.len());
    assert forall|a: Asg<Pk>| #[trigger] sem(p, a) == (cnt(p->Thresh_0.inner@, p->Thresh_0.inner@.len() as int, a) >= p->Thresh_0.k) by {
        lemma_thresh_sem(p, a);
    }
}
"""),
    ("count_after_push", r"""
// counting the policies that hold, after one more policy was appended
proof fn lemma_cnt_push<Pk: MiniscriptKey>(s: PolSeq<Pk>, x: Arc<Semantic<Pk>>, a: Asg<Pk>)
    ensures cnt(s.push(x), s.len() as int + 1, a) == cnt(s, s.len() as int, a) + b2n(sem(*x, a)),
{
    lemma_cnt_prefix(s.push(x), s, s.len() as int, a);
}
"""),
    ("two_element_threshold", r"""
// a two-element threshold (Threshold::or / Threshold::and): the number of children that hold
proof fn lemma_thresh_pair<Pk: MiniscriptKey>(p: Semantic<Pk>, a: Asg<Pk>)
    requires p is Thresh, p->Thresh_0.inner@.len() == 2,
    ensures sem(p, a) == (b2n(sem(*p->Thresh_0.inner@[0], a)) + b2n(sem(*p->Thresh_0.inner@[1], a)) >= p->Thresh_0.k),
{
    lemma_thresh_sem(p, a);
    reveal_with_fuel(cnt, 3);
}
"""),
    ("collected_policies_mean_the_visited_leaves", r"""
// whatever is built from a vector of policies one of which holds iff one of the leaves lo..hi spends: the empty vector means
// "never", a single policy is the disjunction itself, and every threshold node over the vector means "at least k hold" and
// satisfies the Threshold invariant when 1 <= k <= n
spec fn collected_means<Pk: MiniscriptKey>(t: TapTree<Pk>, lo: int, hi: int, acc: PolSeq<Pk>) -> bool {
    &&& forall|q: int| 0 <= q < acc.len() ==> wf_deep(*#[trigger] acc[q])
    &&& forall|a: Asg<Pk>| (#[trigger] cnt(acc, acc.len() as int, a) >= 1) == some_leaf_spends_in(t, lo, hi, a)
}
spec fn collected_facts<Pk: MiniscriptKey>(t: TapTree<Pk>, lo: int, hi: int, acc: PolSeq<Pk>) -> bool {
    &&& (acc.len() == 0 ==> forall|a: Asg<Pk>| !#[trigger] some_leaf_spends_in(t, lo, hi, a))
    // (the same at one fixed assignment: a ground fact that meets lemma_constant_leaves' without a trigger)
    &&& (acc.len() == 0 ==> !some_leaf_spends_in(t, lo, hi, arbitrary::<Asg<Pk>>()))
    &&& (acc.len() == 1 ==> forall|a: Asg<Pk>| #[trigger] sem(*acc[0], a) == some_leaf_spends_in(t, lo, hi, a))
    &&& (forall|r2: Semantic<Pk>, a: Asg<Pk>| r2 is Thresh && r2->Thresh_0.inner@ == acc ==> #[trigger] sem(r2, a) == (cnt(acc, acc.len() as int, a) >= r2->Thresh_0.k))
    &&& (forall|r2: Semantic<Pk>| r2 is Thresh && r2->Thresh_0.inner@ == acc && 1 <= r2->Thresh_0.k <= acc.len() ==> #[trigger] wf_deep(r2))
}
proof fn lemma_collected<Pk: MiniscriptKey>(t: TapTree<Pk>, lo: int, hi: int, acc: PolSeq<Pk>)
    requires collected_means(t, lo, hi, acc),
    ensures collected_facts(t, lo, hi, acc),
{
    let n = acc.len() as int;
    if n == 0 {
        assert forall|a: Asg<Pk>| !#[trigger] some_leaf_spends_in(t, lo, hi, a) by { assert(cnt(acc, n, a) == 0); }
    }
    if n == 1 {
        assert forall|a: Asg<Pk>| #[trigger] sem(*acc[0], a) == some_leaf_spends_in(t, lo, hi, a) by {
            reveal_with_fuel(cnt, 2);
            assert(cnt(acc, n, a) == b2n(sem(*acc[0], a)));
        }
    }
    assert forall|r2: Semantic<Pk>, a: Asg<Pk>| r2 is Thresh && r2->Thresh_0.inner@ == acc implies #[trigger] sem(r2, a) == (cnt(acc, acc.len() as int, a) >= r2->Thresh_0.k) by {
        lemma_thresh_sem(r2, a);
    }
    assert forall|r2: Semantic<Pk>| r2 is Thresh && r2->Thresh_0.inner@ == acc && 1 <= r2->Thresh_0.k <= acc.len() implies #[trigger] wf_deep(r2) by {
        lemma_wf_build(r2, acc.len());
    }
}
"""),
    ("one_more_leaf", r"""
// one more leaf at the upper / lower end of a range of leaves
proof fn lemma_range_step<Pk: MiniscriptKey>(t: TapTree<Pk>, lo: int, hi: int, a: Asg<Pk>)
    requires lo < hi,
    ensures some_leaf_spends_in(t, lo, hi, a) == (some_leaf_spends_in(t, lo, hi - 1, a) || leaf_spends(t, hi - 1, a)),
            some_leaf_spends_in(t, lo, hi, a) == (some_leaf_spends_in(t, lo + 1, hi, a) || leaf_spends(t, lo, a)),
{
    if some_leaf_spends_in(t, lo, hi, a) {
        let j = choose|j: int| lo <= j < hi && #[trigger] leaf_spends(t, j, a);
        if j < hi - 1 { assert(some_leaf_spends_in(t, lo, hi - 1, a)); }
        if j > lo { assert(some_leaf_spends_in(t, lo + 1, hi, a)); }
    }
    if some_leaf_spends_in(t, lo, hi - 1, a) {
        let j = choose|j: int| lo <= j < hi - 1 && #[trigger] leaf_spends(t, j, a);
        assert(lo <= j < hi && leaf_spends(t, j, a));
    }
    if some_leaf_spends_in(t, lo + 1, hi, a) {
        let j = choose|j: int| lo + 1 <= j < hi && #[trigger] leaf_spends(t, j, a);
        assert(lo <= j < hi && leaf_spends(t, j, a));
    }
    if leaf_spends(t, hi - 1, a) { assert(lo <= hi - 1 < hi && leaf_spends(t, hi - 1, a)); }
    if leaf_spends(t, lo, a) { assert(lo <= lo < hi && leaf_spends(t, lo, a)); }
}
"""),
]

# ---- the leaf loops (R14): verified /verif text standing for the iterator chain -------------------------------------------------
# %(lo)s / %(hi)s: the range of depths_leaves the chain visits (`.skip(N)`), %(idx)s: the entry visited in round i (`.rev()`)
COLLECT_LOOP = r"""
// the range of depths_leaves the chain visits
spec fn tap_collected_lo<Pk: MiniscriptKey>(tree: &TapTree<Pk>) -> int { %(lo)s }
spec fn tap_collected_hi<Pk: MiniscriptKey>(tree: &TapTree<Pk>) -> int { %(hi)s }
// R14: `tree.leaves()%(adapters)s.%(kind)s(|item| BODY).collect::<%(coll)s>()` with BODY lambda-lifted to `tap_leaf_closure`
fn tap_leaves_collect<Pk: MiniscriptKey>(tree: &TapTree<Pk>) -> (r: %(ret)s)
    ensures
        // exact content: the Ok values in the order of the visit / the first Err (std `map` + `collect`)
        %(post_exact)s
        // what the collected vector means: one of the visited leaves spends iff one of the collected policies holds
        %(ok)s ==> forall|q: int| 0 <= q < %(vec)s@.len() ==> wf_deep(*#[trigger] %(vec)s@[q]),
        %(ok)s ==> forall|a: Asg<Pk>| (#[trigger] cnt(%(vec)s@, %(vec)s@.len() as int, a) >= 1) == some_leaf_spends_in(*tree, %(lo)s, %(hi)s, a),
{
    let n: usize = tree.depths_leaves.len();
    let mut out: Vec<Arc<Semantic<Pk>>> = Vec::new();
    let mut i: usize = 0;
    while i < %(count)s
        invariant
            n == tree.depths_leaves@.len(), i <= %(count)s, %(lo)s <= %(hi)s <= n,
            %(inv_exact)s
            forall|q: int| 0 <= q < out@.len() ==> wf_deep(*#[trigger] out@[q]),
            forall|a: Asg<Pk>| (#[trigger] cnt(out@, out@.len() as int, a) >= 1) == some_leaf_spends_in(*tree, %(vlo)s, %(vhi)s, a),
        decreases %(count)s - i,
    {
        let ghost old_out = out@;
        // TapTreeIter::next: `.map(|&(depth, ref node)| TapTreeIterItem { depth, node })`
        let item = TapTreeIterItem { depth: tree.depths_leaves[%(idx)s].0, node: &tree.depths_leaves[%(idx)s].1 };
        %(step)s
        proof {
            assert forall|a: Asg<Pk>| (#[trigger] cnt(out@, out@.len() as int, a) >= 1) == some_leaf_spends_in(*tree, %(nlo)s, %(nhi)s, a) by {
                lemma_range_step(*tree, %(nlo)s, %(nhi)s, a);
                if out@.len() == old_out.len() + 1 { lemma_cnt_push(old_out, out@.last(), a); assert(out@ =~= old_out.push(out@.last())); }
            }
        }
        i += 1;
    }
    %(done)s
}
"""


def collect_loop(kind, skip_first, skip_n, rev):
    """Text of the verified loop for `leaves()[.skip(N)][.rev()][.skip(N)].<kind>(closure).collect()`."""
    NL = "n_leaves(*tree)"
    if skip_n is None:
        lo, hi = "0", NL
    elif skip_first:                       # .skip(N) then (maybe) .rev(): the first N entries are left out
        lo, hi = "(if %s < %s { %s as int } else { %s })" % (skip_n, NL, skip_n, NL), NL
    else:                                  # .rev().skip(N): the last N entries are left out
        lo, hi = "0", "(if %s < %s { %s - %s } else { 0 })" % (skip_n, NL, NL, skip_n)
    lo_e = "0usize" if lo == "0" else "(if %s < n { %s } else { n })" % (skip_n, skip_n)
    hi_e = "n" if hi == NL else "(if %s < n { n - %s } else { 0 })" % (skip_n, skip_n)
    count = "(%s - %s)" % (hi_e, lo_e)
    if rev:
        idx = "%s - 1 - i" % hi_e
        pos = "%s - 1 - q" % hi                  # entry behind the q-th collected value
        vlo, vhi = "%s - i" % hi, hi
        nlo, nhi = "%s - i - 1" % hi, hi
        first_err = "forall|q: int| j < q < %s ==> !leaf_fails(*tree, q)" % hi
    else:
        idx = "%s + i" % lo_e
        pos = "%s + q" % lo
        vlo, vhi = lo, "%s + i" % lo
        nlo, nhi = lo, "%s + i + 1" % lo
        first_err = "forall|q: int| %s <= q < j ==> !leaf_fails(*tree, q)" % lo
    adapters = ""
    if skip_n is not None and skip_first:
        adapters += ".skip(%s)" % skip_n
    if rev:
        adapters += ".rev()"
    if skip_n is not None and not skip_first:
        adapters += ".skip(%s)" % skip_n
    d = dict(kind=kind, lo=lo, hi=hi, count=count, idx=idx, vlo=vlo, vhi=vhi, nlo=nlo, nhi=nhi, adapters=adapters)
    if kind == "map":
        d.update(
            coll="Result<Vec<_>, _>", ret="Result<Vec<Arc<Semantic<Pk>>>, Error>", ok="r is Ok", vec="r->Ok_0",
            post_exact=("r is Ok ==> r->Ok_0@.len() == %(hi)s - %(lo)s && forall|q: int| 0 <= q < r->Ok_0@.len() ==> "
                        "leaf_lift(*tree, %(pos)s) == Ok::<Semantic<Pk>, Error>(*#[trigger] r->Ok_0@[q]),\n"
                        "        r is Err ==> is_a_leaf_error(*tree, %(lo)s, %(hi)s, r->Err_0),\n"
                        "        r is Err <==> some_leaf_fails_in(*tree, %(lo)s, %(hi)s),") % dict(lo=lo, hi=hi, pos=pos),
            inv_exact=("out@.len() == i, forall|q: int| 0 <= q < i ==> leaf_lift(*tree, %(pos)s) == Ok::<Semantic<Pk>, Error>(*#[trigger] out@[q]),\n"
                       "            !some_leaf_fails_in(*tree, %(vlo)s, %(vhi)s),") % dict(pos=pos, vlo=vlo, vhi=vhi),
            step=("match tap_leaf_closure(item) {\n"
                  "            Ok(x) => { out.push(x); }\n"
                  "            Err(e) => {\n"
                  "                proof { assert(leaf_fails(*tree, (%(idx)s) as int)); assert(leaf_lift(*tree, (%(idx)s) as int) == Err::<Semantic<Pk>, Error>(e)); }\n"
                  "                return Err(e);\n"
                  "            }\n"
                  "        }\n"
                  "        proof { assert(!leaf_fails(*tree, (%(idx)s) as int)); }") % dict(idx=idx),
            done="Ok(out)")
    else:
        d.update(
            coll="Vec<_>", ret="Vec<Arc<Semantic<Pk>>>", ok="true", vec="r",
            post_exact="forall|q: int| 0 <= q < r@.len() ==> is_a_leaf_policy(*tree, %(lo)s, %(hi)s, *#[trigger] r@[q])," % dict(lo=lo, hi=hi),
            inv_exact="forall|q: int| 0 <= q < out@.len() ==> is_a_leaf_policy(*tree, %(lo)s, %(hi)s, *#[trigger] out@[q])," % dict(lo=lo, hi=hi),
            step=("match tap_leaf_closure(item) {\n"
                  "            Some(x) => {\n"
                  "                proof { assert(leaf_lift(*tree, (%(idx)s) as int) == Ok::<Semantic<Pk>, Error>(*x)); }\n"
                  "                out.push(x);\n"
                  "            }\n"
                  "            None => {}\n"
                  "        }") % dict(idx=idx),
            done="out")
    return COLLECT_LOOP % d


class LeafCollectChain:
    """R14 + R16 on `self.leaves()[.skip(N)][.rev()].map(|item| BODY).collect::<Result<Vec<_>, _>>()` (and the
    `.filter_map(..).collect::<Vec<_>>()` spelling): the closure body is cut out verbatim (kept in `self.body`, emitted
    as the lifted function by the caller), the chain becomes a call of the leaf loop.  Anything else in the chain is an
    anchor loss (UNDECIDED, never guessed)."""
    rule = "R14/R16-leaf-collect-chain"

    def __init__(self):
        self.kind = self.param = self.body = None
        self.skip_n, self.skip_first, self.rev = None, True, False
        self.fired = False

    def __call__(self, text):
        m = re.search(r"\bself\s*\.leaves\(\)", text)
        if not m:
            return None
        pos = m.end()
        while True:
            m2 = re.match(r"\s*\.(skip|rev|map|filter_map)\(", text[pos:])
            if not m2:
                return None
            name = m2.group(1)
            open_ = pos + m2.end() - 1
            close = match_close(text, open_)
            arg = text[open_ + 1:close].strip()
            pos = close + 1
            if name == "skip":
                if self.skip_n is not None or not re.fullmatch(r"\d+", arg):
                    return None
                self.skip_n, self.skip_first = arg, not self.rev
            elif name == "rev":
                if arg or self.rev:
                    return None
                self.rev = True
            else:
                mc = re.match(r"\|(\w+)\|\s*(.*)$", arg, flags=re.S)
                if not mc:
                    return None
                self.kind, self.param, self.body = name, mc.group(1), mc.group(2).strip()
                break
        m3 = re.match(r"\s*\.collect::<\s*(.*?)\s*>\(\)", text[pos:], flags=re.S)
        if not m3:
            return None
        coll = re.sub(r"\s+", "", m3.group(1))
        if (self.kind, coll) not in (("map", "Result<Vec<_>,_>"), ("filter_map", "Vec<_>")):
            return None
        self.fired = True
        return text[:m.start()] + "tap_leaves_collect(self)" + text[pos + m3.end():]

    def lifted_text(self):
        ret = "Result<Arc<Semantic<Pk>>, Error>" if self.kind == "map" else "Option<Arc<Semantic<Pk>>>"
        return "fn tap_leaf_closure<Pk: MiniscriptKey>(%s: TapTreeIterItem<'_, Pk>) -> %s {\n        %s\n}" % (self.param, ret, self.body)

    def lifted_contract(self):
        leaf = "spec_ms_lift(**%s.node)" % self.param
        if self.kind == "map":
            # oracle for the per-leaf closure: it is the leaf's lift, nothing more and nothing less
            return Contract(ensures=[
                Clause("is_the_leafs_policy", ("C07",), "%s is Ok ==> r is Ok && *r->Ok_0 == %s->Ok_0" % (leaf, leaf)),
                Clause("is_the_leafs_error", ("C07",), "%s is Err ==> r is Err && r->Err_0 == %s->Err_0" % (leaf, leaf)),
                Clause("keeps_threshold_invariant", ("C07", "C11"), "r is Ok ==> wf_deep(*r->Ok_0)")])
        # filter_map spelling: whatever is kept is the leaf's policy and no liftable leaf is dropped
        return Contract(ensures=[
            Clause("is_the_leafs_policy", ("C07",), "r is Some ==> %s is Ok && *r->Some_0 == %s->Ok_0" % (leaf, leaf)),
            Clause("keeps_every_liftable_leaf", ("C07",), "%s is Ok ==> r is Some" % leaf),
            Clause("keeps_threshold_invariant", ("C07", "C11"), "r is Some ==> wf_deep(*r->Some_0)")])


# ---- hand-rolled loops (only if the code is restructured): `for item in self.leaves() { BODY }` over an accumulator ----------------
ACC_LEMMA = r"""
// what one round of a hand-written leaf loop may do with the accumulator, given the policy p of the leaf it visits:
// leave it alone if p never holds, add one policy that means p, or splice the children of an `or` node
spec fn step_drop<Pk: MiniscriptKey>(p: Semantic<Pk>, old_acc: PolSeq<Pk>, new_acc: PolSeq<Pk>) -> bool {
    new_acc =~= old_acc && forall|a: Asg<Pk>| !#[trigger] sem(p, a)
}
spec fn step_push<Pk: MiniscriptKey>(p: Semantic<Pk>, old_acc: PolSeq<Pk>, new_acc: PolSeq<Pk>) -> bool {
    new_acc.len() == old_acc.len() + 1 && new_acc.drop_last() =~= old_acc && wf_deep(*new_acc.last())
    && forall|a: Asg<Pk>| #[trigger] sem(*new_acc.last(), a) == sem(p, a)
}
spec fn step_splice<Pk: MiniscriptKey>(p: Semantic<Pk>, old_acc: PolSeq<Pk>, new_acc: PolSeq<Pk>) -> bool {
    p is Thresh && p->Thresh_0.k == 1 && new_acc =~= old_acc + p->Thresh_0.inner@
}
spec fn acc_step_ok<Pk: MiniscriptKey>(p: Semantic<Pk>, old_acc: PolSeq<Pk>, new_acc: PolSeq<Pk>) -> bool {
    step_drop(p, old_acc, new_acc) || step_push(p, old_acc, new_acc) || step_splice(p, old_acc, new_acc)
}
// the accumulator after the first i leaves: no leaf so far failed to lift, every collected policy keeps the Threshold
// invariant, and one of the collected policies holds iff one of the first i leaves spends
spec fn acc_inv<Pk: MiniscriptKey>(t: TapTree<Pk>, i: int, acc: PolSeq<Pk>) -> bool {
    &&& !some_leaf_fails_in(t, 0, i)
    &&& forall|q: int| 0 <= q < acc.len() ==> wf_deep(*#[trigger] acc[q])
    &&& forall|a: Asg<Pk>| (#[trigger] cnt(acc, acc.len() as int, a) >= 1) == some_leaf_spends_in(t, 0, i, a)
}
proof fn lemma_acc_step<Pk: MiniscriptKey>(t: TapTree<Pk>, i: int, old_acc: PolSeq<Pk>, new_acc: PolSeq<Pk>)
    requires 0 <= i < n_leaves(t), acc_inv(t, i, old_acc),
    ensures leaf_lift(t, i) is Ok && wf_deep(leaf_lift(t, i)->Ok_0) && acc_step_ok(leaf_lift(t, i)->Ok_0, old_acc, new_acc) ==> acc_inv(t, i + 1, new_acc),
{
    if !(leaf_lift(t, i) is Ok && wf_deep(leaf_lift(t, i)->Ok_0) && acc_step_ok(leaf_lift(t, i)->Ok_0, old_acc, new_acc)) { return; }
    let p = leaf_lift(t, i)->Ok_0;
    let ol = old_acc.len() as int;
    assert(!leaf_fails(t, i));
    if step_drop(p, old_acc, new_acc) {
        assert forall|a: Asg<Pk>| (#[trigger] cnt(new_acc, new_acc.len() as int, a) >= 1) == some_leaf_spends_in(t, 0, i + 1, a) by {
            lemma_range_step(t, 0, i + 1, a);
            assert(!sem(p, a));
        }
    } else if step_push(p, old_acc, new_acc) {
        assert forall|q: int| 0 <= q < new_acc.len() implies wf_deep(*#[trigger] new_acc[q]) by {
            if q < ol { assert(new_acc[q] == new_acc.drop_last()[q]); }
        }
        assert forall|a: Asg<Pk>| (#[trigger] cnt(new_acc, new_acc.len() as int, a) >= 1) == some_leaf_spends_in(t, 0, i + 1, a) by {
            lemma_range_step(t, 0, i + 1, a);
            lemma_cnt_push(old_acc, new_acc.last(), a);
            assert(new_acc =~= old_acc.push(new_acc.last()));
        }
    } else {
        let ch = p->Thresh_0.inner@;
        assert forall|q: int| 0 <= q < new_acc.len() implies wf_deep(*#[trigger] new_acc[q]) by {
            if q >= ol { lemma_wf_child(p, ch.len(), q - ol); assert(new_acc[q] == ch[q - ol]); } else { assert(new_acc[q] == old_acc[q]); }
        }
        assert forall|a: Asg<Pk>| (#[trigger] cnt(new_acc, new_acc.len() as int, a) >= 1) == some_leaf_spends_in(t, 0, i + 1, a) by {
            lemma_range_step(t, 0, i + 1, a);
            lemma_cnt_concat(old_acc, ch, ch.len() as int, a);
            lemma_thresh_sem(p, a);
        }
    }
}
"""


def _pick_fn(text, name):
    """One fn item (with its attribute line) out of another unit's prelude text (reuse, not retyped)."""
    m = re.search(r"(#\[verifier::external_body\]\s*)?(broadcast proof fn|proof fn|fn) %s\b" % re.escape(name), text)
    if not m:
        raise RuntimeError("prelude text changed: fn %s not found" % name)
    open_ = text.index("{", m.end())
    return text[m.start():match_close(text, open_) + 1] + "\n"


class LeafForLoop:
    """R8 on `for ITEM in self.leaves() { BODY }` filling `let mut ACC = Vec::new();`: index loop over depths_leaves, BODY
    verbatim.  Optional: absent in /repo's text (then nothing is rewritten)."""
    rule = "R8-leaf-for-loop"

    def __init__(self):
        self.fired = False
        self.extend = False
        self.handles_empty = False

    def __call__(self, text):
        m = re.search(r"\bfor\s+(\w+)\s+in\s+self\s*\.leaves\(\)\s*\{", text)
        if not m:
            return text
        item = m.group(1)
        accs = re.findall(r"let\s+mut\s+(\w+)\s*(?::[^=;]+)?=\s*(?:Vec::new\(\)|vec!\[\]|Vec::with_capacity\([^;]*\))\s*;", text[:m.start()])
        if len(accs) != 1:
            return None
        acc = accs[0]
        inv = ("                        tt_i <= tt_src@.len(), tt_src@ == self.depths_leaves@,\n"
               "                        acc_inv(*self, tt_i as int, %s@), //@inv leaves_so_far_are_the_disjunction [C07]" % acc)
        # a tail that builds a threshold from the accumulator without looking at its length panics on an empty one
        # (Threshold::new(1, []).expect / or_n): then non-emptiness is an invariant of its own
        self.handles_empty = re.search(r"\b%s\s*\.(len|is_empty)\(\)" % acc, text[m.end():]) is not None
        if not self.handles_empty:
            inv += "\n                        tt_i > 0 ==> %s@.len() > 0, //@inv accumulator_not_empty_after_a_leaf [C11]" % acc
        rw = for_slice_loop(
            "for %s in self" % item, "self.depths_leaves.as_slice()", "tt_src", "tt_entry", "tt_i", inv,
            body_pre=("            let ghost tt_old_acc = %s@;\n"
                      "            let %s = TapTreeIterItem { depth: tt_entry.0, node: &tt_entry.1 };\n"
                      "            proof { assert(leaf_lift(*self, tt_i as int) == spec_ms_lift(**%s.node)); assert(leaf_fails(*self, tt_i as int) == (spec_ms_lift(**%s.node) is Err)); }\n" % (acc, item, item, item)),
            body_post="            proof { lemma_acc_step(*self, tt_i as int, tt_old_acc, %s@); }\n" % acc,
            after="        proof { lemma_collected(*self, 0, n_leaves(*self), %s@); }\n" % acc)
        new = rw(text)
        if new is None:
            return None
        self.fired = True
        # R4: `acc.extend(x.iter().cloned())` -> vec_extend_cloned(&mut acc, x.data())
        new, k = re.subn(r"\b(\w+)\.extend\((\w+)\.iter\(\)\.cloned\(\)\)", r"vec_extend_cloned(&mut \1, \2.data())", new)
        self.extend = k > 0
        return new


class SkipFns:
    """Forwards to a VerusFile but drops the listed extracted functions (already emitted by units._tree)."""

    def __init__(self, vf, skip):
        self._vf, self._skip = vf, skip

    def __getattr__(self, n):
        return getattr(self._vf, n)

    def fn(self, rel, anchor, **kw):
        if anchor.split("fn:")[-1] in self._skip:
            return None
        return self._vf.fn(rel, anchor, **kw)


@rule("R10-thresh-node-hint")
def thresh_node_hint(text):
    """ghost: after `let X = Threshold::new(K, V).expect(..);` establish the Threshold invariant of the node and unfold
    its meaning (lemma_thresh_node).  Optional: a lift that builds its node differently gets no hint."""
    def ins(m):
        return m.group(0) + "\n        proof { lemma_thresh_node(Semantic::<Pk>::Thresh(%s)); }" % m.group(1)
    new, k = re.subn(r"let\s+(\w+)\s*=\s*Threshold::new\([^;]*?\)\s*\.(?:expect\(\"[^\"]*\"\)|unwrap\(\))\s*;", ins, text, flags=re.S)
    return new


@rule("R10-collected-hint")
def collected_hint(text):
    """ghost: after `let X = tap_leaves_collect(self)[?];` state what can be built from X (lemma_collected).  The range of
    leaves is read off the loop function's own postcondition (`collected_range`)."""
    def ins(m):
        return m.group(0) + "\n        proof { lemma_collected(*self, tap_collected_lo(self), tap_collected_hi(self), %s@); }" % m.group(1)
    new, k = re.subn(r"let\s+(?:mut\s+)?(\w+)\s*(?::[^=;]+)?=\s*tap_leaves_collect\(self\)\??\s*;", ins, text)
    return new


# R7: `Arc::try_unwrap(X).unwrap()` / `.expect("..")` -> arc_try_unwrap_unique(X) (stub of unit c18_normalized)
@rule("R7-arc-try-unwrap")
def arc_try_unwrap(text):
    while True:
        m = re.search(r"\bArc::try_unwrap\(", text)
        if not m:
            return text
        close = match_close(text, m.end() - 1)
        m2 = re.match(r"\s*\.(?:unwrap\(\)|expect\(\"[^\"]*\"\))", text[close + 1:])
        if not m2:
            return None
        text = text[:m.start()] + "arc_try_unwrap_unique(" + text[m.end():close + 1] + text[close + 1 + m2.end():]


@rule("R10-body-start")
def constant_leaves_hint(text):
    head, ret, where, body = split_fn(text)
    return text[:len(text) - len(body)] + "{\n        proof { lemma_constant_leaves(*self); }" + body[1:]


def C(tag, text, props=("C07",)):
    return Clause(tag, props, text)


# ----------------------------------------------------------------------------------------------------------------------
def build(repo):
    vf = VerusFile(NAME, repo)
    strip_derive = sub("derive-off", r"#\[derive\([^)]*\)\]\s*", "", required=False)

    # ---- prelude: real Miniscript / Terminal / Threshold definitions, the abstract policy and its meaning (imported) ----------
    _tree.emit(vf, ext="real", types="defs")
    # the lock-time vocabulary of the oracle text (BIP68 / BIP65 atoms); its exec conversion stubs `impl From<..LockTime>` are not needed here
    bitcoin_stubs, k = re.subn(r"impl From<\w+> for \w+::LockTime \{.*?\n\}\n", "", S.BITCOIN_STUBS, flags=re.S)
    if k != 2:
        raise RuntimeError("units/c18_semantic.py BITCOIN_STUBS changed")
    vf.raw(bitcoin_stubs, keep_vis=True)
    S.semantic_enum(vf)
    vf.raw(S.ORACLE)
    vf.trust("sem / Asg / bip68_lock / bip65_lock (oracle text of unit c18_semantic, imported)", "the truth-table meaning of an abstract policy; "
             "thresh_arm_excluded (external_body, contract-free) comes with that text and is not called here")
    vf.item(POLICY, "enum:LiftError", rewrites=[strip_derive])
    N.emit_threshold_fns(SkipFns(vf, ("n", "k", "data")))
    N.emit_normalized(vf, assumed=True)
    vf.trust("Semantic::normalized (external_body, contract only)", "proved in unit c18_normalized from the identical clause text "
             "(sem_preserved, wf_preserved, ...), under the Threshold invariant wf_deep")

    repo.at(CTX, "enum:Tap")                      # anchor must exist; `enum X {}` (uninhabited) is not accepted by Verus
    vf.raw(STUBS)
    vf.trust("struct Tap { marker } + impl ScriptContext", "the uninhabited context marker enum as a unit-like struct (never constructed)")
    vf.trust("enum Error { LiftError(LiftError), Other }; type Policy = Semantic", "crate::Error reduced to the variant the lift uses; the two names of the abstract policy")
    vf.trust("Miniscript::lift (external_body): r == spec_ms_lift(ms) (uninterpreted), an Ok result satisfies the Threshold invariant",
             "whole-leaf lift summarised (its per-node step is unit c07_lift); Miniscript::lift ends with normalized(), whose contract "
             "(c18_normalized.wf_preserved) gives wf_deep; Threshold's fields are private and every constructor checks 1 <= k <= n")

    vf.item(TAPTREE, "struct:TapTree", rewrites=[strip_derive])
    vf.item(TAPTREE, "struct:TapTreeIterItem", rewrites=[strip_derive])
    vf.item(TR, "struct:Tr", rewrites=[strip_derive, sub("R7-drop-cache-field", r"spend_info\s*:\s*Mutex<[^\n]*>\s*,", "")])
    vf.raw(ORACLE)
    for name, text in LEMMAS:
        vf.spec_obligation("oracle::" + name, text, ("C07",))
    vf.raw(_pick_fn(L7.PRELUDE, "axiom_key_clone"))
    vf.trust("axiom_key_clone (admit)", "Clone on keys returns an equal value (DESIGN 3.4; text of unit c07_lift)")

    with vf.block("impl<'tr, Pk: MiniscriptKey> TapTreeIterItem<'tr, Pk>"):
        vf.fn(TAPTREE, "impl:TapTreeIterItem<'tr, Pk>/fn:miniscript", qual="TapTreeIterItem", props=("C11",),
              contract=Contract(ensures=[Clause("field", (), "r == self.node")]))
    with vf.block("impl<T, const MAX: usize> Threshold<T, MAX>"):
        for name, k in (("or", 1), ("and", 2)):
            vf.fn(_tree.THRESH, "impl:Threshold<T, MAX>/fn:%s" % name, qual="Threshold", props=PROPS,
                  contract=Contract(requires=["MAX == 0 || MAX > 1"],
                                    ensures=[Clause("k", ("C07",), "r.k == %d" % k),
                                             Clause("elems", ("C07",), "r.inner@ == seq![left, right]")]))

        # the small accessors / predicates a restructured lift is likely to call (verbatim, with contracts)
        vf.fn(_tree.THRESH, "impl:Threshold<T, MAX>/fn:is_or", qual="Threshold", props=PROPS,
              contract=Contract(ensures=[Clause("one_of_n", ("C07",), "r == (self.k == 1)")]))
        vf.fn(_tree.THRESH, "impl:Threshold<T, MAX>/fn:is_and", qual="Threshold", props=PROPS,
              contract=Contract(ensures=[Clause("n_of_n", ("C07",), "r == (self.k == self.inner@.len())")]))
        vf.fn(_tree.THRESH, "impl:Threshold<T, MAX>/fn:into_data", qual="Threshold", props=PROPS,
              contract=Contract(ensures=[Clause("the_children", ("C07",), "r@ == self.inner@")]))
        vf.fn(_tree.THRESH, "impl:Threshold<T, MAX>/fn:iter", qual="Threshold", props=("C11",), contract=Contract())
    ASSERT_NE = sub("R7-assert-ne", r"assert_ne!\(([^;]*?),\s*([^,;]*?)\);", r"assert!(\1 != \2);")
    with vf.block("impl<T> Threshold<T, 0>"):
        vf.fn(_tree.THRESH, impl_with_fn(repo, _tree.THRESH, "Threshold", "or_n"), qual="Threshold", props=PROPS, rewrites=[ASSERT_NE],
              contract=Contract(requires=["inner@.len() != 0"], ensures=[Clause("k", ("C07",), "r.k == 1"), Clause("elems", ("C07",), "r.inner@ == inner@")]))
        vf.fn(_tree.THRESH, impl_with_fn(repo, _tree.THRESH, "Threshold", "and_n"), qual="Threshold", props=PROPS, rewrites=[ASSERT_NE],
              contract=Contract(requires=["inner@.len() != 0"], ensures=[Clause("k", ("C07",), "r.k == inner@.len()"), Clause("elems", ("C07",), "r.inner@ == inner@")]))

    # ---- TapTree::lift ----------------------------------------------------------------------------------------------------------
    def leaves_rewrite():
        """the leaves are visited either by the iterator chain (the text of /repo) or by a hand-written for loop"""
        chain, loop = LeafCollectChain(), LeafForLoop()

        def rw(text):
            new = loop(text)
            if new is None:
                return None
            return new if loop.fired else chain(text)
        rw.rule = "R14/R16/R8-leaves"
        return chain, loop, rw

    R7E = sub("R7", r"\bcrate::Error\b", "Error", required=False)
    OK = "r is Ok ==> "
    lift_contract = Contract(requires=["tree_nonempty(*self)"], ensures=[
        C("hides_no_leaf", OK + "forall|a: Asg<Pk>| some_leaf_spends(*self, a) ==> #[trigger] sem(r->Ok_0, a)"),
        C("invents_no_path", OK + "forall|a: Asg<Pk>| #[trigger] sem(r->Ok_0, a) ==> some_leaf_spends(*self, a)"),
        C("trivial_leaf_is_not_hidden", OK + "some_leaf_is_trivial(*self) ==> forall|a: Asg<Pk>| #[trigger] sem(r->Ok_0, a)"),
        C("unsatisfiable_leaves_add_nothing", OK + "all_leaves_unsatisfiable(*self) ==> forall|a: Asg<Pk>| !#[trigger] sem(r->Ok_0, a)"),
        C("leaf_error_is_tree_error", "some_leaf_fails(*self) ==> r is Err"),
        C("error_is_a_leaf_error", "r is Err ==> is_a_leaf_error(*self, 0, n_leaves(*self), r->Err_0)"),
        C("keeps_threshold_invariant", OK + "wf_deep(r->Ok_0)", ("C07", "C11")),
    ])
    # the rewrites say which loop shape is needed: run them once on the raw text, emit the helpers, then the function
    reg = repo.at(TAPTREE, "impl:Liftable<Pk> for TapTree<Pk>/fn:lift")
    chain, loop, probe = leaves_rewrite()
    probed = probe(reg.text)
    if probed is None:
        raise Undecided("TapTree::lift: the leaves are visited neither by `self.leaves()[.skip(N)][.rev()].map(..).collect::<Result<Vec<_>, _>>()` "
                        "nor by a `for item in self.leaves()` loop over one Vec accumulator (anchor lost)")
    if chain.fired:
        vf.fn_text("TapTree::lift__leaf_closure", chain.lifted_text(), chain.lifted_contract(), PROPS,
                   file=TAPTREE, lines=reg.lines(), anchor="impl:Liftable<Pk> for TapTree<Pk>/fn:lift closure |%s|" % chain.param)
        vf.spec_obligation("TapTree::lift__leaf_loop", collect_loop(chain.kind, chain.skip_first, chain.skip_n, chain.rev), PROPS)
        vf.trust("tap_leaves_collect (verified loop standing for the iterator chain)",
                 "TapTree::leaves() yields TapTreeIterItem { depth, node } for every entry of depths_leaves in order (TapTreeIter::next = slice iterator + map); "
                 "Iterator::skip / rev / map / filter_map and collect::<Result<Vec<_>, _>>() (Ok values in order, or the first Err) / collect::<Vec<_>>() have their std meaning")
    probed = arc_try_unwrap(probed)
    if probed is None:
        raise Undecided("TapTree::lift: `Arc::try_unwrap(..)` not followed by `.unwrap()` / `.expect(..)` (anchor lost)")
    if "arc_try_unwrap_unique(" in probed:
        vf.raw(_pick_fn(N.NORM_STUBS, "arc_try_unwrap_unique"))
        vf.trust("arc_try_unwrap_unique (external_body)", "R7: `Arc::try_unwrap(a).unwrap()` yields the pointee (panics unless the reference is unique; uniqueness is "
                 "NOT verified; text of unit c18_normalized)")
    if loop.fired:
        vf.raw(ACC_LEMMA)
        if loop.extend:
            vf.raw(_pick_fn(N.NORM_STUBS, "vec_extend_cloned"))
            vf.trust("vec_extend_cloned (external_body)", "R4: `v.extend(s.iter().cloned())` appends the elements of s, in order (text of unit c18_normalized)")
        vf.trust("for-loop over self.leaves() as an index loop over depths_leaves (R8)", "TapTreeIter::next = slice iterator + map")
    # a fresh rewrite object for the emission (the first one was used to find out which helpers are needed)
    _, _, leaves_rw = leaves_rewrite()
    with vf.block("impl<Pk: MiniscriptKey> TapTree<Pk>"):
        vf.fn(TAPTREE, "impl:Liftable<Pk> for TapTree<Pk>/fn:lift", qual="TapTree", props=PROPS,
              rewrites=[R7E, leaves_rw, arc_try_unwrap, collected_hint, thresh_node_hint, constant_leaves_hint], contract=lift_contract)
    register_named_invariants(vf, "TapTree::lift")

    # ---- Tr::lift: key spend OR any one leaf ------------------------------------------------------------------------------------------
    KEY = "a.keys.contains(self.internal_key)"
    ALL = "forall|a: Asg<Pk>| #[trigger] sem(r->Ok_0, a) == "
    with vf.block("impl<Pk: MiniscriptKey> Tr<Pk>"):
        vf.fn(TR, "impl:Liftable<Pk> for Tr<Pk>/fn:lift", qual="Tr", props=PROPS,
              rewrites=[R7E,
                        L7.bind_tail("tr_result", "broadcast use axiom_key_clone;",
                                     "proof { if tr_result is Ok && tr_result->Ok_0 is Thresh && tr_result->Ok_0->Thresh_0.inner@.len() == 2 { "
                                     "let ghost p = tr_result->Ok_0; "
                                     "assert forall|a: Asg<Pk>| #[trigger] sem(p, a) == (b2n(sem(*p->Thresh_0.inner@[0], a)) + b2n(sem(*p->Thresh_0.inner@[1], a)) >= p->Thresh_0.k) "
                                     "by { lemma_thresh_pair(p, a); } } }")],
              contract=Contract(requires=["self.tree matches Some(t) ==> tree_nonempty(t)"], ensures=[
                  C("key_spend_only", "self.tree is None ==> r is Ok && " + ALL + KEY),
                  C("key_or_any_one_leaf", "self.tree matches Some(t) ==> r is Ok ==> " + ALL + "(%s || some_leaf_spends(t, a))" % KEY),
                  C("key_spend_is_not_hidden", "r is Ok ==> forall|a: Asg<Pk>| %s ==> #[trigger] sem(r->Ok_0, a)" % KEY),
                  C("leaf_error_is_descriptor_error", "self.tree matches Some(t) ==> (some_leaf_fails(t) ==> r is Err)"),
                  C("error_is_a_leaf_error", "r is Err ==> self.tree is Some && is_a_leaf_error(self.tree->Some_0, 0, n_leaves(self.tree->Some_0), r->Err_0)"),
              ]))
    return vf
