"""C14 / C01 / C11: how the PSBT's facts reach the satisfier -- `PsbtInputSatisfier` (src/psbt/mod.rs).

The finalizer satisfies an input through `impl Satisfier<Pk> for PsbtInputSatisfier<'_>` and then runs the
interpreter on the result.  The interpreter receives nLockTime and nSequence but NOT the transaction version, so for
some consensus rules (BIP68/112 `tx.version >= 2`) the satisfier's own checks are the only guard; and every signature
/ preimage a finalized input carries is whatever these lookups hand out.

Verified text (verbatim from /repo, see "Rewrites" in DROPPED for the mechanical changes):
  * `PsbtInputSatisfier::{new, psbt, psbt_input}`;
  * all 13 methods of `impl Satisfier<Pk> for PsbtInputSatisfier<'_>`: check_after, check_older, lookup_ecdsa_sig,
    lookup_tap_key_spend_sig, lookup_tap_leaf_script_sig, lookup_tap_control_block_map, lookup_raw_pkh_pk,
    lookup_raw_pkh_ecdsa_sig, lookup_raw_pkh_tap_leaf_script_sig, lookup_sha256 / hash256 / ripemd160 / hash160;
  * the lock-time satisfiers they delegate to (src/miniscript/satisfy/mod.rs): `impl Satisfier<Pk> for Sequence`,
    `for relative::LockTime`, `for absolute::LockTime`;
  * the head of `sanity_check` (the `WrongInputCount` test: the one place that establishes
    `unsigned_tx.input.len() == inputs.len()`);
  * the call sites of `finalize_input` (C11): `finalizer::finalize_helper` (deprecated `finalize` / `finalize_mall`) and
    `PsbtExt::{finalize_mut, finalize_mall_mut, finalize_inp_mut, finalize_inp_mall_mut}`, against the two index
    preconditions the satisfier needs (`index < inputs.len()` for the lookups, `index < unsigned_tx.input.len()` for
    check_after / check_older).  finalize_helper establishes both (sanity_check); the four PsbtExt entry points establish
    only the first; the second follows from the structural validity of the PSBT (one input map per transaction input), which is
    the quantifier of C11 / C14 and therefore a precondition of the four entry points (a Psbt VALUE with 2 input maps and 1
    transaction input -- impossible to deserialize -- makes `finalize_mut` panic at `self.psbt.unsigned_tx.input[self.index]`
    instead of returning Error::WrongInputCount as `finalize` / `extract` do: noted, outside the property).
`psbt::Input`, `Psbt`, `Transaction`, `TxIn`, `transaction::Version`, `Sequence` are the REAL struct definitions cut
from the `bitcoin` source that /repo's Cargo.lock pins (field types opaque / modelled).

Oracles (none of them read off the code):
  * BIP65: `<n> OP_CHECKLOCKTIMEVERIFY` fails if the input's nSequence is 0xffffffff, if n and nLockTime are of
    different kinds (threshold 500_000_000), or if n > nLockTime.
  * BIP68 / BIP112: `<n> OP_CHECKSEQUENCEVERIFY` (disable flag of n clear) fails if tx.version < 2 (Bitcoin Core:
    `static_cast<uint32_t>(nVersion) < 2`), if bit 31 of nSequence is set, if bit 22 differs, or if the low 16 bits of n
    exceed those of nSequence.  The two comparison rules on raw u32 are IMPORTED from units/c13_iter_step.py
    (`bip65_values_ok`, `bip112_values_ok`), every conjunct is additionally stated as its own named clause.
  * BIP174 / BIP371 field semantics: partial_sigs[pubkey] is THE signature of that key for THIS input;
    tap_script_sigs[(xonly, leaf_hash)] is the signature of that key for that leaf; tap_key_sig is the key-path
    signature and tap_internal_key names the key; *_preimages[h] is the preimage of h.
  * Miniscript specification: hash preimages are exactly 32 bytes (SIZE <32> EQUALVERIFY).
  * Frame: a lookup on the satisfier of input `index` is a function of `psbt.inputs[index]` (lock-time checks: of
    `unsigned_tx.{version, lock_time, input[index].sequence}`) and of the query only -- every clause is stated
    against exactly those fields, so reading another input's data fails it.
"""
import re

from vlib.verus import VerusFile, Contract, Clause, sub, lit, rule, Undecided
from vlib.extract import strip_docs, match_close
from units.c14_finalize import dep_repo
from units import c13_iter_step

NAME = "c14_psbt_satisfier"
ENGINE = "verus"
PROPS = ("C14", "C01", "C11")
PMOD = "src/psbt/mod.rs"
SAT = "src/miniscript/satisfy/mod.rs"
FIN = "src/psbt/finalizer.rs"
CTX = "src/miniscript/context.rs"
DROPPED = [
    "c14_psbt_satisfier: `impl<Pk> Satisfier<Pk> for PsbtInputSatisfier<'_>` is emitted as inherent methods generic in Pk (`fn f<Pk: MiniscriptKey + ToPublicKey>(&self, ..)`): Verus allows no `requires` on trait-impl methods and the index-in-range precondition is the point (R7)",
    "c14_psbt_satisfier: `<dyn Satisfier<Pk>>::check_older(&seq, n)` / `check_after(&lock_time, n)` -> `Satisfier::<Pk>::check_..(..)` (Verus has no trait objects; the receiver's static type is Sequence / absolute::LockTime, so the vtable call and the static call reach the same impl) (R7)",
    "c14_psbt_satisfier: the three lock-time impls of satisfy/mod.rs are verified as inherent methods (named clauses) and consumed through trait impls carrying the same oracle as `external_body` (assumed-from-same-contract technique of DESIGN 11.3)",
    "c14_psbt_satisfier: closures `|&(k, v)| E` / `|(k, v)| E` over map entries -> `|kv: &(&K, &V)| { let (k, v) = *kv; E }` / `|kv: (&K, &V)| { let (k, v) = kv; E }` (Verus rejects tuple patterns in closure parameters; rule R16) plus ghost closure contracts (R10); `BTreeMap::{get, iter}`, `Iter::find` are contracted stubs over an uninterpreted `Map<K, V>` view (vstd has no BTreeMap)",
    "c14_psbt_satisfier: `<[u8; 32]>::try_from(&x[..]).ok()` -> `array32_try_from(slice_full(x)).ok()` (std: Ok iff the slice has exactly 32 elements, which are copied) (R7)",
    "c14_psbt_satisfier: sanity_check: the `for (index, input) in psbt.inputs.iter().enumerate() { .. }` loop (sighash-type consistency of partial_sigs / tap sigs) is cut out (R9); only the WrongInputCount head is under contract",
    "c14_psbt_satisfier: NOT decided here: that the finalizer calls these lookups with the keys / hashes of the descriptor it inferred, signature validity (secp), `construct_tap_witness` (which additionally collects pkh -> x-only key hints from the tap_key_origins of ALL inputs), `ToPublicKey` conversions (uninterpreted), and the dependency's lock-time arithmetic itself (trusted stubs with BIP semantics; checked on the compiled dependency over the full u32 domain by the Kani unit k14_psbt_satisfier)",
    "c14_psbt_satisfier: check_older's completeness clause is stated for non-negative nVersion only: rust-bitcoin's Version is i32 and `Version(-1) < Version::TWO`, while consensus compares nVersion as uint32 (a CSV spend in a transaction with negative nVersion is refused by the satisfier although consensus accepts it; conservative, not a C14/C01 violation)",
]

# ----------------------------------------------------------------------------------------------------------------------
# prelude: dependency types (opaque values / modelled views), std stubs
# ----------------------------------------------------------------------------------------------------------------------
PRELUDE = r"""
use core::marker::PhantomData;
use core::cmp::Ordering;

// ---- BTreeMap: an uninterpreted view Map<K, V> (vstd has no BTreeMap) ------------------------------------------------
#[verifier::external_body]
#[verifier::accept_recursive_types(K)]
#[verifier::accept_recursive_types(V)]
pub struct BTreeMap<K, V> { k: PhantomData<K>, v: PhantomData<V> }
impl<K, V> View for BTreeMap<K, V> {
    type V = Map<K, V>;
    uninterp spec fn view(&self) -> Map<K, V>;
}
pub struct MapIter<'a, K, V> { pub m: &'a BTreeMap<K, V> }
impl<K, V> BTreeMap<K, V> {
    // std BTreeMap::get (Q = K): the value stored under a key equal to *k
    #[verifier::external_body]
    pub fn get<'a>(&'a self, k: &K) -> (r: Option<&'a V>)
        ensures r == (if self@.contains_key(*k) { Some(&self@[*k]) } else { None::<&V> })
    { unimplemented!() }
    #[verifier::external_body]
    pub fn iter<'a>(&'a self) -> (r: MapIter<'a, K, V>) ensures r.m == self { unimplemented!() }
}
impl<'a, K, V> MapIter<'a, K, V> {
    // std Iterator::find on btree_map::Iter: SOME entry of the map for which the predicate answers true (which one is
    // not specified here), None only if the predicate answers false on every entry.  (By value instead of `&mut self`.)
    #[verifier::external_body]
    pub fn find<P: FnMut(&(&'a K, &'a V)) -> bool>(self, p: P) -> (r: Option<(&'a K, &'a V)>)
        requires forall|kv: (&'a K, &'a V)| p.requires((&kv,)),
        ensures r matches Some(kv) ==> self.m@.contains_key(*kv.0) && self.m@[*kv.0] == *kv.1 && p.ensures((&kv,), true),
                r is None ==> forall|k: K| #[trigger] self.m@.contains_key(k) ==> p.ensures((&(&k, &self.m@[k]),), false),
    { unimplemented!() }
}
pub assume_specification<'a, T: Copy> [Option::<&'a T>::copied] (o: Option<&'a T>) -> (r: Option<T>)
    ensures r == (match o { Some(x) => Some(*x), None => None::<T> });

// std: `impl TryFrom<&[u8]> for [u8; 32]` -- Ok iff the slice has exactly 32 elements, which are copied; `&v[..]`,
// `&v[..n]` (the latter is not used by the unchanged code; it panics when n > len)
#[verifier::external_body]
pub struct TryFromSliceError {}
#[verifier::external_body]
pub fn array32_try_from(s: &[u8]) -> (r: Result<[u8; 32], TryFromSliceError>)
    ensures r is Ok <==> s@.len() == 32, r is Ok ==> r->Ok_0@ == s@,
{ unimplemented!() }
#[verifier::external_body]
pub fn slice_full<'a>(v: &'a Vec<u8>) -> (r: &'a [u8]) ensures r@ == v@ { unimplemented!() }
#[verifier::external_body]
pub fn slice_to<'a>(v: &'a Vec<u8>, n: usize) -> (r: &'a [u8]) requires n <= v@.len() ensures r@ == v@.subrange(0, n as int) { unimplemented!() }

// ---- opaque dependency values ---------------------------------------------------------------------------------------
pub struct TxOut { pub opaque: u64 }
pub struct Output { pub opaque: u64 }
pub struct OutPoint { pub opaque: u64 }
pub struct ScriptBuf { pub opaque: u64 }
pub struct Witness { pub opaque: u64 }
pub struct PsbtSighashType { pub opaque: u32 }
pub struct KeySource { pub opaque: u64 }
pub struct TapNodeHash { pub opaque: u64 }
pub struct ControlBlock { pub opaque: u64 }
pub struct LeafVersion { pub opaque: u8 }
pub struct Xpub { pub opaque: u64 }
#[derive(Clone, Copy, PartialEq, Eq)]
pub struct TapLeafHash { pub opaque: u64 }
#[derive(Clone, Copy, PartialEq, Eq)]
pub struct PublicKey { pub opaque: u64 }
#[derive(Clone, Copy, PartialEq, Eq)]
pub struct XOnlyPublicKey { pub opaque: u64 }
pub mod ecdsa { use vstd::prelude::*; verus!{ #[derive(Clone, Copy)] pub struct Signature { pub opaque: u64 } } }
pub mod taproot {
    pub use crate::{ControlBlock, LeafVersion, TapLeafHash};
    use vstd::prelude::*;
    verus!{ #[derive(Clone, Copy)] pub struct Signature { pub opaque: u64 } }
}
pub mod raw { use vstd::prelude::*; verus!{ pub struct Key { pub opaque: u64 } pub struct ProprietaryKey { pub opaque: u64 } } }
pub mod secp256k1 {
    pub use crate::XOnlyPublicKey;
    use vstd::prelude::*;
    verus!{
    #[derive(Clone, Copy, PartialEq, Eq)] pub struct PublicKey { pub opaque: u64 }
    pub trait Verification {}
    pub struct Secp256k1<C> { pub ctx: C }
    }
}
use secp256k1::Secp256k1;
// hash newtypes: the value IS its bytes (bitcoin_hashes `Hash::{from_byte_array, to_byte_array}`)
pub mod sha256 { use vstd::prelude::*; verus!{ #[derive(Clone, Copy, PartialEq, Eq)] pub struct Hash(pub [u8; 32]);
    impl Hash { pub fn from_byte_array(a: [u8; 32]) -> (r: Hash) ensures r == Hash(a) { Hash(a) } pub fn to_byte_array(self) -> (r: [u8; 32]) ensures r == self.0 { self.0 } } } }
pub mod sha256d { use vstd::prelude::*; verus!{ #[derive(Clone, Copy, PartialEq, Eq)] pub struct Hash(pub [u8; 32]);
    impl Hash { pub fn from_byte_array(a: [u8; 32]) -> (r: Hash) ensures r == Hash(a) { Hash(a) } pub fn to_byte_array(self) -> (r: [u8; 32]) ensures r == self.0 { self.0 } } } }
pub mod hash256 { use vstd::prelude::*; verus!{ #[derive(Clone, Copy, PartialEq, Eq)] pub struct Hash(pub [u8; 32]);
    impl Hash { pub fn from_byte_array(a: [u8; 32]) -> (r: Hash) ensures r == Hash(a) { Hash(a) } pub fn to_byte_array(self) -> (r: [u8; 32]) ensures r == self.0 { self.0 } } } }
pub mod ripemd160 { use vstd::prelude::*; verus!{ #[derive(Clone, Copy, PartialEq, Eq)] pub struct Hash(pub [u8; 20]); } }
pub mod hash160 { use vstd::prelude::*; verus!{ #[derive(Clone, Copy, PartialEq, Eq)] pub struct Hash(pub [u8; 20]); } }
impl vstd::std_specs::cmp::PartialEqSpecImpl for hash160::Hash { open spec fn obeys_eq_spec() -> bool { true } open spec fn eq_spec(&self, o: &hash160::Hash) -> bool { *self == *o } }
impl vstd::std_specs::cmp::PartialEqSpecImpl for TapLeafHash { open spec fn obeys_eq_spec() -> bool { true } open spec fn eq_spec(&self, o: &TapLeafHash) -> bool { *self == *o } }
impl vstd::std_specs::cmp::PartialEqSpecImpl for XOnlyPublicKey { open spec fn obeys_eq_spec() -> bool { true } open spec fn eq_spec(&self, o: &XOnlyPublicKey) -> bool { *self == *o } }
impl vstd::std_specs::cmp::PartialEqSpecImpl for PublicKey { open spec fn obeys_eq_spec() -> bool { true } open spec fn eq_spec(&self, o: &PublicKey) -> bool { *self == *o } }

// ---- lock-time types of the dependency: opaque values with their consensus encoding as an uninterpreted view ----------
// absolute::LockTime: `to_consensus_u32()` = the nLockTime / CLTV operand.  relative::LockTime: `to_consensus_u32()` =
// value | (1 << 22 if time based).  The stubs' contracts are the dependency's documented meaning; k14_psbt_satisfier
// (Kani, complete over u32) checks each of them on the compiled dependency.
pub mod absolute { use vstd::prelude::*; verus!{
    #[derive(Clone, Copy)]
    pub struct LockTime { pub opaque: u32 }
    impl LockTime {
        pub uninterp spec fn spec_consensus(&self) -> u32;
        // "Returns true if satisfaction of `other` lock time implies satisfaction of this": same unit and self <= other
        #[verifier::external_body]
        pub fn is_implied_by(&self, other: LockTime) -> (r: bool)
            ensures r == (((self.spec_consensus() < 500_000_000) == (other.spec_consensus() < 500_000_000)) && self.spec_consensus() <= other.spec_consensus())
        { unimplemented!() }
    }
} }
pub mod relative { use vstd::prelude::*; verus!{
    #[derive(Clone, Copy)]
    pub struct LockTime { pub opaque: u32 }
    impl LockTime {
        pub uninterp spec fn spec_consensus(&self) -> u32;
        // same unit (Blocks/Blocks or Time/Time) and self.value() <= other.value()
        #[verifier::external_body]
        pub fn is_implied_by(&self, other: LockTime) -> (r: bool)
            ensures r == ((self.spec_consensus() & 0x0040_0000u32) == (other.spec_consensus() & 0x0040_0000u32)
                          && (self.spec_consensus() & 0xffffu32) <= (other.spec_consensus() & 0xffffu32))
        { unimplemented!() }
    }
} }
"""

# after the real struct definitions (Version, Sequence, TxIn, Transaction, Input, Psbt)
DEP_METHODS = r"""
pub mod transaction { pub use crate::{Version, Sequence, TxIn, Transaction}; }
pub mod psbt { pub use crate::{Input, Psbt}; }
pub mod bitcoin {
    pub use crate::{PublicKey, ScriptBuf, Transaction, TxOut, Witness, Sequence, TxIn, XOnlyPublicKey};
    pub use crate::{ecdsa, taproot, secp256k1, absolute, relative, transaction, psbt};
}
// derived PartialEq / PartialOrd of the newtypes Version(i32), Sequence(u32): comparison of the inner integer
impl vstd::std_specs::cmp::PartialEqSpecImpl for Version { open spec fn obeys_eq_spec() -> bool { true } open spec fn eq_spec(&self, o: &Version) -> bool { *self == *o } }
impl vstd::std_specs::cmp::PartialOrdSpecImpl for Version {
    open spec fn obeys_partial_cmp_spec() -> bool { true }
    open spec fn partial_cmp_spec(&self, o: &Version) -> Option<Ordering> {
        Some(if self.0 < o.0 { Ordering::Less } else if self.0 == o.0 { Ordering::Equal } else { Ordering::Greater })
    }
}
impl vstd::std_specs::cmp::PartialEqSpecImpl for Sequence { open spec fn obeys_eq_spec() -> bool { true } open spec fn eq_spec(&self, o: &Sequence) -> bool { *self == *o } }
impl Sequence {
    pub const MAX: Self = Sequence(0xFFFFFFFF);
    // `*self != Sequence::MAX`
    #[verifier::external_body]
    pub fn enables_absolute_lock_time(&self) -> (r: bool) ensures r == (self.0 != 0xffff_ffffu32) { unimplemented!() }
    // `self.0 & LOCK_TIME_DISABLE_FLAG_MASK == 0`
    #[verifier::external_body]
    pub fn is_relative_lock_time(&self) -> (r: bool) ensures r == (self.0 & 0x8000_0000u32 == 0) { unimplemented!() }
    // BIP68: None if the disable flag is set, else the type flag and the low 16 bits
    #[verifier::external_body]
    pub fn to_relative_lock_time(&self) -> (r: Option<relative::LockTime>)
        ensures r is None <==> self.0 & 0x8000_0000u32 != 0,
                r is Some ==> r->Some_0.spec_consensus() == self.0 & 0x0040_ffffu32,
    { unimplemented!() }
}
impl TxIn {
    // `self.sequence != Sequence::MAX`
    #[verifier::external_body]
    pub fn enables_lock_time(&self) -> (r: bool) ensures r == (self.sequence.0 != 0xffff_ffffu32) { unimplemented!() }
}
"""

KEYS = r"""
// ---- keys: MiniscriptKey / ToPublicKey (src/lib.rs), conversions uninterpreted ----------------------------------------
pub trait MiniscriptKey { type Sha256; type Hash256; type Ripemd160; type Hash160; }
pub uninterp spec fn hash160_of_pubkey(pk: bitcoin::PublicKey) -> hash160::Hash;       // HASH160 of the SEC1 serialization
pub uninterp spec fn hash160_of_xonly(pk: XOnlyPublicKey) -> hash160::Hash;            // HASH160 of the 32-byte BIP340 key
// the default body of ToPublicKey::to_pubkeyhash (src/lib.rs)
pub open spec fn spec_pubkeyhash(pk: bitcoin::PublicKey, xonly: XOnlyPublicKey, t: SigType) -> hash160::Hash {
    match t { SigType::Ecdsa => hash160_of_pubkey(pk), SigType::Schnorr => hash160_of_xonly(xonly) }
}
pub trait ToPublicKey: MiniscriptKey {
    spec fn spec_to_public_key(&self) -> bitcoin::PublicKey;
    fn to_public_key(&self) -> (r: bitcoin::PublicKey) ensures r == self.spec_to_public_key();
    spec fn spec_to_x_only_pubkey(&self) -> XOnlyPublicKey;
    fn to_x_only_pubkey(&self) -> (r: XOnlyPublicKey) ensures r == self.spec_to_x_only_pubkey();
    fn to_pubkeyhash(&self, sig_type: SigType) -> (r: hash160::Hash)
        ensures r == spec_pubkeyhash(self.spec_to_public_key(), self.spec_to_x_only_pubkey(), sig_type);
    spec fn spec_to_sha256(hash: &<Self as MiniscriptKey>::Sha256) -> sha256::Hash;
    fn to_sha256(hash: &<Self as MiniscriptKey>::Sha256) -> (r: sha256::Hash) ensures r == Self::spec_to_sha256(hash);
    spec fn spec_to_hash256(hash: &<Self as MiniscriptKey>::Hash256) -> hash256::Hash;
    fn to_hash256(hash: &<Self as MiniscriptKey>::Hash256) -> (r: hash256::Hash) ensures r == Self::spec_to_hash256(hash);
    spec fn spec_to_ripemd160(hash: &<Self as MiniscriptKey>::Ripemd160) -> ripemd160::Hash;
    fn to_ripemd160(hash: &<Self as MiniscriptKey>::Ripemd160) -> (r: ripemd160::Hash) ensures r == Self::spec_to_ripemd160(hash);
    spec fn spec_to_hash160(hash: &<Self as MiniscriptKey>::Hash160) -> hash160::Hash;
    fn to_hash160(hash: &<Self as MiniscriptKey>::Hash160) -> (r: hash160::Hash) ensures r == Self::spec_to_hash160(hash);
}
// `bitcoin::PublicKey::new(secp_key)`: the compressed key
pub uninterp spec fn spec_pk_new(k: secp256k1::PublicKey) -> PublicKey;
pub uninterp spec fn spec_xonly_of(k: PublicKey) -> XOnlyPublicKey;
pub uninterp spec fn spec_pk_of_xonly(k: XOnlyPublicKey) -> PublicKey;
impl PublicKey {
    #[verifier::external_body]
    pub fn new(key: secp256k1::PublicKey) -> (r: PublicKey) ensures r == spec_pk_new(key) { unimplemented!() }
}
// the three key types of the PSBT maps (src/lib.rs `impl ToPublicKey for ..`): to_public_key is `*self` /
// `bitcoin::PublicKey::new(*self)`; XOnlyPublicKey::to_x_only_pubkey is `*self`; hashes are themselves
%(key_impls)s
"""

KEY_IMPL = r"""
impl MiniscriptKey for %(t)s { type Sha256 = sha256::Hash; type Hash256 = hash256::Hash; type Ripemd160 = ripemd160::Hash; type Hash160 = hash160::Hash; }
impl ToPublicKey for %(t)s {
    open spec fn spec_to_public_key(&self) -> bitcoin::PublicKey { %(pk)s }
    #[verifier::external_body] fn to_public_key(&self) -> (r: bitcoin::PublicKey) { unimplemented!() }
    open spec fn spec_to_x_only_pubkey(&self) -> XOnlyPublicKey { %(xo)s }
    #[verifier::external_body] fn to_x_only_pubkey(&self) -> (r: XOnlyPublicKey) { unimplemented!() }
    #[verifier::external_body] fn to_pubkeyhash(&self, sig_type: SigType) -> (r: hash160::Hash) { unimplemented!() }
    open spec fn spec_to_sha256(hash: &sha256::Hash) -> sha256::Hash { *hash }
    #[verifier::external_body] fn to_sha256(hash: &sha256::Hash) -> (r: sha256::Hash) { unimplemented!() }
    open spec fn spec_to_hash256(hash: &hash256::Hash) -> hash256::Hash { *hash }
    #[verifier::external_body] fn to_hash256(hash: &hash256::Hash) -> (r: hash256::Hash) { unimplemented!() }
    open spec fn spec_to_ripemd160(hash: &ripemd160::Hash) -> ripemd160::Hash { *hash }
    #[verifier::external_body] fn to_ripemd160(hash: &ripemd160::Hash) -> (r: ripemd160::Hash) { unimplemented!() }
    open spec fn spec_to_hash160(hash: &hash160::Hash) -> hash160::Hash { *hash }
    #[verifier::external_body] fn to_hash160(hash: &hash160::Hash) -> (r: hash160::Hash) { unimplemented!() }
}
"""
KEY_IMPLS = "".join(KEY_IMPL % d for d in (
    dict(t="PublicKey", pk="*self", xo="spec_xonly_of(*self)"),
    dict(t="secp256k1::PublicKey", pk="spec_pk_new(*self)", xo="spec_xonly_of(spec_pk_new(*self))"),
    dict(t="XOnlyPublicKey", pk="spec_pk_of_xonly(*self)", xo="*self")))

ORACLE = r"""
// ---- oracle: BIP65 / BIP68 / BIP112 ------------------------------------------------------------------------------------
// the comparison rules on raw u32 values, imported from units/c13_iter_step.py (one source for interpreter and satisfier)
%(bip65_values_ok)s
%(bip112_values_ok)s
// BIP65: "the nSequence field of the txin is 0xffffffff" => OP_CHECKLOCKTIMEVERIFY fails
pub open spec fn bip65_ok(lock_time: u32, sequence: u32, n: u32) -> bool { sequence != 0xffff_ffffu32 && bip65_values_ok(n, lock_time) }
// BIP68/112: "the transaction version is less than 2" => OP_CHECKSEQUENCEVERIFY fails; Bitcoin Core reads nVersion as
// uint32 for this test (`static_cast<uint32_t>(txTo->nVersion) < 2`)
pub open spec fn version_at_least_2(v: i32) -> bool { v >= 2 || v < 0 }
pub open spec fn bip112_ok(tx_version: i32, sequence: u32, n: u32) -> bool { version_at_least_2(tx_version) && bip112_values_ok(n, sequence) }
"""

VOCAB = r"""
// ---- vocabulary --------------------------------------------------------------------------------------------------------
pub open spec fn this_input(s: PsbtInputSatisfier) -> Input { s.psbt.inputs@[s.index as int] }
pub open spec fn this_sequence(s: PsbtInputSatisfier) -> u32 { s.psbt.unsigned_tx.input@[s.index as int].sequence.0 }
pub open spec fn tx_lock_time(s: PsbtInputSatisfier) -> u32 { s.psbt.unsigned_tx.lock_time.spec_consensus() }
pub open spec fn tx_version(s: PsbtInputSatisfier) -> i32 { s.psbt.unsigned_tx.version.0 }
// what the finalizer's call sites guarantee: finalize_input indexes psbt.inputs[index] before anything else and every caller
// passes index < inputs.len() (proved in c14_finalize); a structurally valid PSBT (BIP174; enforced by Psbt::deserialize /
// from_unsigned_tx, re-checked by sanity_check) has one input map per transaction input
pub open spec fn index_in_input_maps(s: PsbtInputSatisfier) -> bool { (s.index as int) < s.psbt.inputs@.len() }
pub open spec fn index_in_tx_inputs(s: PsbtInputSatisfier) -> bool { (s.index as int) < s.psbt.unsigned_tx.input@.len() }
pub open spec fn one_map_per_tx_input(p: Psbt) -> bool { p.unsigned_tx.input@.len() == p.inputs@.len() }
"""

SATISFIER_TRAIT = r"""
// ---- trait Satisfier, reduced to the two lock-time methods (the lookups of PsbtInputSatisfier are inherent here) -----------
pub trait Satisfier<Pk: MiniscriptKey + ToPublicKey> {
    spec fn spec_check_older(&self, n: relative::LockTime) -> bool;
    fn check_older(&self, n: relative::LockTime) -> (r: bool) ensures r == self.spec_check_older(n);
    spec fn spec_check_after(&self, n: absolute::LockTime) -> bool;
    fn check_after(&self, n: absolute::LockTime) -> (r: bool) ensures r == self.spec_check_after(n);
}
// the impls of satisfy/mod.rs, consumed through the oracle; their real bodies are verified below (inherent form) against
// exactly these statements; methods an impl does not override are the trait's default `false`
impl<Pk: MiniscriptKey + ToPublicKey> Satisfier<Pk> for Sequence {
    open spec fn spec_check_older(&self, n: relative::LockTime) -> bool { bip112_values_ok(n.spec_consensus(), self.0) }
    #[verifier::external_body] fn check_older(&self, n: relative::LockTime) -> (r: bool) { unimplemented!() }
    open spec fn spec_check_after(&self, n: absolute::LockTime) -> bool { false }
    #[verifier::external_body] fn check_after(&self, n: absolute::LockTime) -> (r: bool) { unimplemented!() }
}
impl<Pk: MiniscriptKey + ToPublicKey> Satisfier<Pk> for relative::LockTime {
    open spec fn spec_check_older(&self, n: relative::LockTime) -> bool { rel_implied(n.spec_consensus(), self.spec_consensus()) }
    #[verifier::external_body] fn check_older(&self, n: relative::LockTime) -> (r: bool) { unimplemented!() }
    open spec fn spec_check_after(&self, n: absolute::LockTime) -> bool { false }
    #[verifier::external_body] fn check_after(&self, n: absolute::LockTime) -> (r: bool) { unimplemented!() }
}
impl<Pk: MiniscriptKey + ToPublicKey> Satisfier<Pk> for absolute::LockTime {
    open spec fn spec_check_older(&self, n: relative::LockTime) -> bool { false }
    #[verifier::external_body] fn check_older(&self, n: relative::LockTime) -> (r: bool) { unimplemented!() }
    open spec fn spec_check_after(&self, n: absolute::LockTime) -> bool { bip65_values_ok(n.spec_consensus(), self.spec_consensus()) }
    #[verifier::external_body] fn check_after(&self, n: absolute::LockTime) -> (r: bool) { unimplemented!() }
}
// BIP68 between two relative lock times (neither has a disable flag): same type flag, masked value <=
pub open spec fn rel_implied(n: u32, have: u32) -> bool { (n & 0x0040_0000u32) == (have & 0x0040_0000u32) && (n & 0xffffu32) <= (have & 0xffffu32) }
"""


def imported_oracle(name):
    """The text of `pub open spec fn <name>` in units/c13_iter_step.py (reuse by import: one source of truth)."""
    m = re.search(r"(?ms)^pub open spec fn %s\(.*?\}[ \t]*$" % re.escape(name), c13_iter_step.SPEC)
    if not m:
        raise Undecided("oracle %s not found in units/c13_iter_step.py" % name)
    return m.group(0)


# ----------------------------------------------------------------------------------------------------------------------
# rewrites
# ----------------------------------------------------------------------------------------------------------------------
STRIP_ATTRS = sub("R1-attrs", r"(?m)^\s*#\[(?:derive|cfg_attr)\(.*\)\]\n", "", required=False)
GENERIC = sub("R7-inherent-generic", r"\bfn\s+(\w+)\s*\(", r"fn \1<Pk: MiniscriptKey + ToPublicKey>(", count=1)
NODYN = sub("R7-dyn", r"<dyn Satisfier<Pk>>::", "Satisfier::<Pk>::")
# `<[u8; 32]>::try_from(&x[..])` (R7); the `&x[..N]` form only occurs in changed code (it panics when N > len)
@rule("R7-slice")
def _slices(text):
    new, n1 = re.subn(r"&(\w+)\[\.\.\]", r"slice_full(\1)", text)
    new, n2 = re.subn(r"&(\w+)\[\.\.(\w+)\]", r"slice_to(\1, \2)", new)
    return new if n1 + n2 else None


TRYFROM = [sub("R7", r"<\[u8; 32\]>::try_from\(", "array32_try_from("), _slices]

# key / value types of psbt::Input's maps (for typing closure parameters)
MAP_TYPES = {
    "partial_sigs": ("bitcoin::PublicKey", "bitcoin::ecdsa::Signature"),
    "bip32_derivation": ("bitcoin::secp256k1::PublicKey", "KeySource"),
    "tap_script_sigs": ("(XOnlyPublicKey, TapLeafHash)", "bitcoin::taproot::Signature"),
    "ripemd160_preimages": ("ripemd160::Hash", "Vec<u8>"),
    "sha256_preimages": ("sha256::Hash", "Vec<u8>"),
    "hash160_preimages": ("hash160::Hash", "Vec<u8>"),
    "hash256_preimages": ("sha256d::Hash", "Vec<u8>"),
}


def _closure_contract(ret, clauses):
    """` -> (ret) ensures <one clause per line, each marked //@@ tag>` (R10, ghost)."""
    if not clauses:
        return ""
    lines = ["\n                %s, //@@ %s" % (c.text, c.tag) for c in clauses]
    return " -> (%s)\n            ensures%s\n           " % (ret, "".join(lines))


def typed_closures(find=None, map_=None, map_ret=None, required=True):
    """R16: every `.find(|&PAT| E)` / `.map(|PAT| E)` of a chain `.<map field>.iter()...` gets a typed parameter and the
    pattern moves into a `let` (Verus rejects tuple patterns in closure parameters); the key / value types are those of the
    psbt::Input field.  R10: the ghost contracts `find` / `map_` (lists of Clause) are attached to the closures."""
    @rule("R16-closure-params")
    def rw(text):
        m = re.search(r"\.(%s)\s*\.iter\(\)" % "|".join(MAP_TYPES), text)
        if not m:
            return None if required else text
        k, v = MAP_TYPES[m.group(1)]
        pos = m.end()
        out = text[:pos]
        while True:
            mm = re.match(r"\s*\.(find|map)\(", text[pos:])
            if not mm:
                break
            meth = mm.group(1)
            op = pos + mm.end() - 1
            cl = match_close(text, op)
            cm = re.match(r"\s*\|([^|]*)\|\s*(.*)\Z", text[op + 1:cl], flags=re.S)
            if not cm:
                return None
            pat, body = cm.group(1).strip(), cm.group(2).strip()
            if meth == "find":
                if not pat.startswith("&"):
                    return None
                param, let, contract = "kv: &(&%s, &%s)" % (k, v), "let %s = *kv;" % pat[1:], _closure_contract("b: bool", find)
            else:
                param, let, contract = "kv: (&%s, &%s)" % (k, v), "let %s = kv;" % pat, _closure_contract("o: %s" % map_ret, map_)
            out += text[pos:op + 1] + "|%s|%s { %s %s }" % (param, contract, let, body) + ")"
            pos = cl + 1
        return out + text[pos:]
    return rw


def and_then_contract(clauses):
    """R10: ghost contract on the `.and_then(|x: &Vec<u8>| E)` closure of the four hash lookups."""
    @rule("R10-closure-contract")
    def rw(text):
        m = re.search(r"\.and_then\(", text)
        if not m:
            return None
        op = m.end() - 1
        cl = match_close(text, op)
        cm = re.match(r"\s*\|([^|]*)\|\s*(.*)\Z", text[op + 1:cl], flags=re.S)
        if not cm:
            return None
        return text[:op + 1] + "|%s|%s { %s }" % (cm.group(1), _closure_contract("o: Option<Preimage32>", clauses), cm.group(2).strip()) + text[cl:]
    return rw


@rule("R9-sanity-loop")
def cut_sanity_loop(text):
    """sanity_check: the per-input loop is replaced by a stub with an arbitrary result (nothing assumed)."""
    m = re.search(r"for \(index, input\) in psbt\.inputs\.iter\(\)\.enumerate\(\)\s*\{", text)
    if not m:
        return None
    cl = match_close(text, m.end() - 1)
    return text[:m.start()] + "sanity_check_inputs(psbt)?;" + text[cl + 1:]


def register_closure_clauses(vf, fq, props_of):
    """The closure contracts carry `//@@ tag` markers, one clause per line: register those lines as named obligations of
    the enclosing function (a failing closure postcondition is reported by Verus at that line)."""
    info = vf.functions[fq]
    for text, meta in vf.chunks:
        if meta.get("fn") != fq or meta.get("origin") != "repo":
            continue
        for i, line in enumerate(text.split("\n")):
            m = re.search(r"^\s*(.*?), //@@ (\S+)\s*$", line)
            if m:
                info["clauses"][meta["start"] + i] = ("ensures", Clause(m.group(2), props_of(m.group(2)), m.group(1)))


def register_call_site(vf, fq, pattern, clause):
    """Name the obligation "the preconditions of the call matching `pattern` hold" (Verus reports a failed callee
    precondition at the line of the call): the first line of `fq` matching `pattern` is registered as a named clause."""
    info = vf.functions[fq]
    for text, meta in vf.chunks:
        if meta.get("fn") != fq or meta.get("origin") != "repo":
            continue
        for i, line in enumerate(text.split("\n")):
            if re.search(pattern, line):
                info["clauses"][meta["start"] + i] = ("ensures", clause)
                return
    raise Undecided("call site %s not found in %s" % (pattern, fq))


# ----------------------------------------------------------------------------------------------------------------------
# contracts
# ----------------------------------------------------------------------------------------------------------------------
INP = "this_input(*self)"
PRE_MAPS = Clause("index_in_input_maps", (), "index_in_input_maps(*self)")
PRE_TX = Clause("index_in_tx_inputs", (), "index_in_tx_inputs(*self)")
S14 = ("C14", "C01")      # soundness direction: what a finalized input can contain
C14 = ("C14",)


def check_after_contract():
    n, lt, sq = "n.spec_consensus()", "tx_lock_time(*self)", "this_sequence(*self)"
    return Contract(requires=[PRE_TX], ensures=[
        Clause("input_not_final", S14, "r ==> %s != 0xffff_ffffu32" % sq),
        Clause("same_kind", S14, "r ==> ((%s < 500_000_000) == (%s < 500_000_000))" % (n, lt)),
        Clause("value_reached", S14, "r ==> %s <= %s" % (n, lt)),
        Clause("bip65", S14, "r ==> bip65_ok(%s, %s, %s)" % (lt, sq, n)),
        Clause("accepts_when_bip65_met", C14, "bip65_ok(%s, %s, %s) ==> r" % (lt, sq, n)),
    ])


def check_older_contract():
    n, sq, v = "n.spec_consensus()", "this_sequence(*self)", "tx_version(*self)"
    return Contract(requires=[PRE_TX], ensures=[
        Clause("version_at_least_2", S14, "r ==> version_at_least_2(%s)" % v),
        Clause("sequence_is_relative", S14, "r ==> %s & 0x8000_0000u32 == 0" % sq),
        Clause("same_unit", S14, "r ==> (%s & 0x0040_0000u32) == (%s & 0x0040_0000u32)" % (n, sq)),
        Clause("value_reached", S14, "r ==> (%s & 0xffffu32) <= (%s & 0xffffu32)" % (n, sq)),
        Clause("bip112", S14, "r ==> bip112_ok(%s, %s, %s)" % (v, sq, n)),
        # completeness, for the non-negative versions on which i32 and uint32 comparison agree (see DROPPED)
        Clause("accepts_when_bip112_met", C14, "%s >= 0 && bip112_ok(%s, %s, %s) ==> r" % (v, v, sq, n)),
    ])


def get_contract(field, key, sig_tag):
    """lookups that are one `map.get(key).copied()`."""
    return Contract(requires=[PRE_MAPS], ensures=[
        Clause(sig_tag, S14, "r is Some ==> %s.%s@.contains_key(%s) && r->Some_0 == %s.%s@[%s]" % (INP, field, key, INP, field, key)),
        Clause("found_whenever_stored", C14, "%s.%s@.contains_key(%s) ==> r is Some" % (INP, field, key)),
    ])


def hash_contract(field, key):
    m = "%s.%s@" % (INP, field)
    return Contract(requires=[PRE_MAPS], ensures=[
        Clause("preimage_stored_under_asked_hash", S14, "r is Some ==> %s.contains_key(%s)" % (m, key)),
        Clause("returns_the_stored_32_byte_preimage", S14, "r is Some ==> %s[%s]@.len() == 32 && r->Some_0@ == %s[%s]@" % (m, key, m, key)),
        Clause("found_whenever_stored_with_32_bytes", C14, "%s.contains_key(%s) && %s[%s]@.len() == 32 ==> r is Some" % (m, key, m, key)),
    ])


# ghost contract of the `<[u8; 32]>::try_from(&x[..]).ok()` closure (Miniscript: preimages are exactly 32 bytes)
PREIMAGE_CLOSURE = [
    Clause("preimage_is_32_bytes", S14, "o is Some ==> x@.len() == 32"),
    Clause("preimage_bytes_unchanged", S14, "o is Some ==> o->Some_0@ == x@"),
    Clause("accepts_32_byte_preimage", C14, "x@.len() == 32 ==> o is Some"),
]


def _closure_props(tag):
    return C14 if tag.startswith("accepts_") else S14


def build(repo):
    vf = VerusFile(NAME, repo)
    dep, ver = dep_repo(repo)
    vf.raw(PRELUDE, keep_vis=True)
    vf.trust("prelude stubs BTreeMap (uninterpreted Map view; get / iter / Iter::find), Option::copied, array32_try_from / slice_full / slice_to",
             "std semantics: BTreeMap::get returns the value stored under the key, find returns an entry satisfying the predicate or None if none does, "
             "`<[u8; 32]>::try_from(&[u8])` is Ok iff the length is 32 and copies the bytes")
    vf.trust("prelude stubs of bitcoin value types (keys, signatures, hashes, scripts, TapLeafHash, ...) incl. PartialEqSpecImpl glue",
             "opaque Copy values / byte-array newtypes; derived PartialEq is structural equality; Hash::{from,to}_byte_array are the newtype's bytes")
    vf.trust("absolute::LockTime / relative::LockTime (opaque, uninterpreted `spec_consensus`), `is_implied_by` (external_body)",
             "the dependency's documented meaning (same unit and <=); checked on the compiled dependency over the full u32 domain by Kani unit k14_psbt_satisfier "
             "(dep_abs_is_implied_by, dep_rel_is_implied_by)")

    # the REAL struct definitions, from the dependency source pinned by Cargo.lock
    keep_ord = sub("R1-derive", r"#\[derive\([^)]*\)\]", "#[derive(Clone, Copy, PartialEq, Eq, PartialOrd, Ord)]")
    keep_eq = sub("R1-derive", r"#\[derive\([^)]*\)\]", "#[derive(Clone, Copy, PartialEq, Eq)]")
    cfg_off = sub("R1-attrs", r"(?m)^\s*#\[cfg_attr\(.*\)\]\n", "", required=False)
    for rel, anchor, rws in (("src/blockdata/transaction.rs", "struct:Version", [keep_ord, cfg_off]),
                             ("src/blockdata/transaction.rs", "struct:Sequence", [keep_eq, cfg_off]),
                             ("src/blockdata/transaction.rs", "struct:TxIn", [STRIP_ATTRS]),
                             ("src/blockdata/transaction.rs", "struct:Transaction", [STRIP_ATTRS]),
                             ("src/psbt/map/input.rs", "struct:Input", [STRIP_ATTRS]),
                             ("src/psbt/mod.rs", "struct:Psbt", [STRIP_ATTRS])):
        reg = dep.at(rel, anchor)
        text = vf._apply(strip_docs(reg.text), rws, anchor).strip("\n")      # `pub` kept: the stubs live in sub-modules
        vf._emit(text, dict(origin="repo", file="bitcoin-%s/%s" % (ver, rel), lines=reg.lines(), anchor=anchor))
    consts = [dep.at("src/blockdata/transaction.rs", "impl:Version/const:%s" % c) for c in ("ONE", "TWO")]
    vf._emit("impl Version {\n%s}" % "".join("    %s\n" % strip_docs(r.text).strip() for r in consts),
             dict(origin="repo", file="bitcoin-%s/src/blockdata/transaction.rs" % ver, lines=consts[-1].lines(), anchor="impl:Version/const:ONE,TWO"))
    vf.raw(DEP_METHODS, keep_vis=True)
    vf.trust("PartialEqSpecImpl / PartialOrdSpecImpl for Version and Sequence", "derived comparison of a one-field newtype is comparison of the field "
             "(Kani: k14_psbt_satisfier dep_version_lt_two)")
    vf.trust("Sequence::{enables_absolute_lock_time, is_relative_lock_time, to_relative_lock_time}, TxIn::enables_lock_time (external_body)",
             "the dependency's BIP65 / BIP68 flag tests; checked on the compiled dependency over the full u32 domain by Kani unit k14_psbt_satisfier "
             "(dep_sequence_flags, dep_to_relative_lock_time)")
    reg = repo.at(CTX, "enum:SigType")       # `pub` kept: named by the pub trait ToPublicKey
    vf._emit(vf._apply(strip_docs(reg.text), [sub("R1-derive", r"#\[derive\([^)]*\)\]", "#[derive(Clone, Copy)]")], "enum:SigType").strip("\n"),
             dict(origin="repo", file=CTX, lines=reg.lines(), anchor="enum:SigType"))
    vf.item(SAT, "type:Preimage32")
    vf.raw(KEYS % dict(key_impls=KEY_IMPLS), keep_vis=True)
    vf.trust("traits MiniscriptKey / ToPublicKey and their impls for bitcoin::PublicKey, secp256k1::PublicKey, XOnlyPublicKey (external_body, uninterpreted conversions)",
             "key / hash conversions are uninterpreted functions; `to_pubkeyhash` carries the trait's default body (HASH160 of the SEC1 bytes of to_public_key() for Ecdsa, "
             "of the x-only serialization for Schnorr); `to_public_key` of the PSBT key types as written in src/lib.rs")
    vf.item(PMOD, "struct:PsbtInputSatisfier")
    vf.raw(ORACLE % dict(bip65_values_ok=imported_oracle("bip65_values_ok"), bip112_values_ok=imported_oracle("bip112_values_ok")), keep_vis=True)
    vf.raw(VOCAB)
    vf.raw(SATISFIER_TRAIT, keep_vis=True)
    vf.trust("impl Satisfier<Pk> for Sequence / relative::LockTime / absolute::LockTime (external_body with the BIP oracle as spec)",
             "assumed-from-same-contract: the real bodies are verified in this unit as `Sequence::check_older`, `relative::LockTime::check_older`, "
             "`absolute::LockTime::check_after` against exactly these statements (and by Kani on the compiled crate: k14_psbt_satisfier)")

    # ---- the lock-time satisfiers of satisfy/mod.rs, real bodies ---------------------------------------------------------
    with vf.block("impl relative::LockTime"):
        vf.fn(SAT, "impl:Satisfier<Pk> for relative::LockTime/fn:check_older", qual="relative::LockTime", props=PROPS, rewrites=[GENERIC],
              contract=Contract(ensures=[Clause("bip68_same_unit_and_value", S14, "r == rel_implied(n.spec_consensus(), self.spec_consensus())")]))
    with vf.block("impl absolute::LockTime"):
        vf.fn(SAT, "impl:Satisfier<Pk> for absolute::LockTime/fn:check_after", qual="absolute::LockTime", props=PROPS, rewrites=[GENERIC],
              contract=Contract(ensures=[Clause("bip65_same_kind_and_value", S14, "r == bip65_values_ok(n.spec_consensus(), self.spec_consensus())")]))
    with vf.block("impl Sequence"):
        vf.fn(SAT, "impl:Satisfier<Pk> for Sequence/fn:check_older", qual="Sequence", props=PROPS, rewrites=[GENERIC,
              # ghost (R10): the three masks of BIP68 are disjoint parts of nSequence & 0x0040ffff
              sub("R10", r"\{", "{\n        proof { let s = self.0; assert((s & 0x0040_ffffu32) & 0x0040_0000u32 == s & 0x0040_0000u32 && (s & 0x0040_ffffu32) & 0xffffu32 == s & 0xffffu32) by(bit_vector); }", count=1)],
              contract=Contract(ensures=[
                  Clause("disabled_sequence_rejected", S14, "r ==> self.0 & 0x8000_0000u32 == 0"),
                  Clause("bip112", S14, "r == bip112_values_ok(n.spec_consensus(), self.0)")]))

    # ---- sanity_check: the head that establishes one input map per transaction input ---------------------------------------
    vf.item(PMOD, "enum:Error", rewrites=[STRIP_ATTRS])
    vf.raw("pub struct InputError { pub opaque: u64 }\n#[verifier::external_body]\nfn sanity_check_inputs(psbt: &Psbt) -> Result<(), Error> { unimplemented!() }\n", keep_vis=True)
    vf.trust("sanity_check_inputs (external_body, no contract)", "stands for the per-input loop of sanity_check (R9): arbitrary result, takes `&Psbt`")
    vf.fn(PMOD, "fn:sanity_check", props=("C11", "C14"), rewrites=[cut_sanity_loop], contract=Contract(ensures=[
        Clause("ok_only_with_one_map_per_tx_input", ("C11", "C14"), "r is Ok ==> one_map_per_tx_input(*psbt)"),
        Clause("wrong_input_count_reported", ("C11",), "!one_map_per_tx_input(*psbt) ==> r == Err::<(), Error>(Error::WrongInputCount { in_tx: psbt.unsigned_tx.input@.len() as usize, in_map: psbt.inputs@.len() as usize })"),
    ]))

    # ---- PsbtInputSatisfier ------------------------------------------------------------------------------------------------
    IMPL = "impl:Satisfier<Pk> for PsbtInputSatisfier<'_>"
    with vf.block("impl<'psbt> PsbtInputSatisfier<'psbt>"):
        vf.fn(PMOD, "impl:PsbtInputSatisfier/fn:new", qual="PsbtInputSatisfier", props=PROPS, contract=Contract(ensures=[
            Clause("holds_the_given_psbt_and_index", C14, "r.psbt == psbt && r.index == index")]))
        vf.fn(PMOD, "impl:PsbtInputSatisfier/fn:psbt", qual="PsbtInputSatisfier", props=PROPS, contract=Contract(ensures=[
            Clause("is_the_psbt", C14, "r == self.psbt")]))
        vf.fn(PMOD, "impl:PsbtInputSatisfier/fn:psbt_input", qual="PsbtInputSatisfier", props=PROPS, contract=Contract(requires=[PRE_MAPS], ensures=[
            Clause("is_this_input", C14, "*r == %s" % INP)]))

        def m(name, contract, rewrites=(), closure_props=None):
            fq = "PsbtInputSatisfier::%s" % name
            vf.fn(PMOD, "%s/fn:%s" % (IMPL, name), qual="PsbtInputSatisfier", props=PROPS, rewrites=[GENERIC] + list(rewrites), contract=contract)
            register_closure_clauses(vf, fq, closure_props or _closure_props)

        # lock times
        m("check_after", check_after_contract(), [NODYN])
        m("check_older", check_older_contract(), [NODYN])

        # signatures stored under a key
        # (the closure typing rule is idle on the unchanged text: it keeps a search-based rewrite of these lookups judgeable)
        m("lookup_ecdsa_sig", get_contract("partial_sigs", "pk.spec_to_public_key()", "sig_is_stored_under_asked_key"), [typed_closures(required=False)])
        m("lookup_tap_leaf_script_sig", get_contract("tap_script_sigs", "(pk.spec_to_x_only_pubkey(), *lh)", "sig_is_stored_under_asked_key_and_leaf"),
          [typed_closures(required=False)])
        m("lookup_tap_key_spend_sig", Contract(requires=[PRE_MAPS], ensures=[
            Clause("asked_key_is_the_internal_key", S14, "r is Some ==> %s.tap_internal_key == Some(pk.spec_to_x_only_pubkey())" % INP),
            Clause("sig_is_the_tap_key_sig", S14, "r is Some ==> r == %s.tap_key_sig" % INP),
            Clause("found_whenever_stored", C14, "%s.tap_internal_key == Some(pk.spec_to_x_only_pubkey()) && %s.tap_key_sig is Some ==> r is Some" % (INP, INP)),
        ]))
        m("lookup_tap_control_block_map", Contract(requires=[PRE_MAPS], ensures=[
            Clause("is_this_inputs_tap_scripts", S14, "r is Some && *r->Some_0 == %s.tap_scripts" % INP)]))

        # raw pkh: search by key hash
        m("lookup_raw_pkh_pk", Contract(requires=[PRE_MAPS], ensures=[
            Clause("key_hashes_to_asked_pkh", S14, "r is Some ==> hash160_of_pubkey(r->Some_0) == *pkh"),
            Clause("key_is_listed_in_this_inputs_derivations", S14, "r is Some ==> exists|s: secp256k1::PublicKey| #[trigger] %s.bip32_derivation@.contains_key(s) && r->Some_0 == spec_pk_new(s)" % INP),
            Clause("found_whenever_listed", C14, "forall|s: secp256k1::PublicKey| #[trigger] %s.bip32_derivation@.contains_key(s) && hash160_of_pubkey(spec_pk_new(s)) == *pkh ==> r is Some" % INP),
        ]), [typed_closures(find=[Clause("candidate_hashes_to_asked_pkh", S14, "b == (hash160_of_pubkey(spec_pk_new(*kv.0)) == *pkh)")],
                            map_=[Clause("returns_the_candidate", S14, "o == spec_pk_new(*kv.0)")], map_ret="bitcoin::PublicKey")])
        m("lookup_raw_pkh_ecdsa_sig", Contract(requires=[PRE_MAPS], ensures=[
            Clause("key_hashes_to_asked_pkh", S14, "r is Some ==> hash160_of_pubkey(r->Some_0.0) == *pkh"),
            Clause("sig_is_stored_under_returned_key", S14, "r is Some ==> %s.partial_sigs@.contains_key(r->Some_0.0) && r->Some_0.1 == %s.partial_sigs@[r->Some_0.0]" % (INP, INP)),
            Clause("found_whenever_stored", C14, "forall|k: PublicKey| #[trigger] %s.partial_sigs@.contains_key(k) && hash160_of_pubkey(k) == *pkh ==> r is Some" % INP),
        ]), [typed_closures(find=[Clause("candidate_hashes_to_asked_pkh", S14, "b == (hash160_of_pubkey(*kv.0) == *pkh)")],
                            map_=[Clause("returns_the_candidate", S14, "o == (*kv.0, *kv.1)")], map_ret="(bitcoin::PublicKey, bitcoin::ecdsa::Signature)")])
        m("lookup_raw_pkh_tap_leaf_script_sig", Contract(requires=[PRE_MAPS], ensures=[
            Clause("key_hashes_to_asked_pkh", S14, "r is Some ==> hash160_of_xonly(r->Some_0.0) == pkh.0"),
            Clause("sig_is_stored_under_returned_key_and_asked_leaf", S14, "r is Some ==> %s.tap_script_sigs@.contains_key((r->Some_0.0, pkh.1)) && r->Some_0.1 == %s.tap_script_sigs@[(r->Some_0.0, pkh.1)]" % (INP, INP)),
            Clause("found_whenever_stored", C14, "forall|k: XOnlyPublicKey| #[trigger] %s.tap_script_sigs@.contains_key((k, pkh.1)) && hash160_of_xonly(k) == pkh.0 ==> r is Some" % INP),
        ]), [typed_closures(find=[Clause("candidate_hashes_to_asked_pkh_and_is_for_asked_leaf", S14, "b == (hash160_of_xonly(kv.0.0) == pkh.0 && kv.0.1 == pkh.1)")],
                            map_=[Clause("returns_the_candidate", S14, "o == (kv.0.0, *kv.1)")], map_ret="(bitcoin::secp256k1::XOnlyPublicKey, bitcoin::taproot::Signature)")])

        # hash preimages
        for name, field, key in (("lookup_hash160", "hash160_preimages", "Pk::spec_to_hash160(h)"),
                                 ("lookup_sha256", "sha256_preimages", "Pk::spec_to_sha256(h)"),
                                 ("lookup_hash256", "hash256_preimages", "sha256d::Hash(Pk::spec_to_hash256(h).0)"),
                                 ("lookup_ripemd160", "ripemd160_preimages", "Pk::spec_to_ripemd160(h)")):
            m(name, hash_contract(field, key), TRYFROM + [and_then_contract(PREIMAGE_CLOSURE)])

    # ---- the call sites: who establishes the satisfier's index preconditions? ---------------------------------------------------
    # finalize_input(psbt, index, ..) -> finalize_input_helper -> PsbtInputSatisfier::new(psbt, index): the satisfier is used for
    # psbt.inputs[index] (every lookup) and unsigned_tx.input[index] (check_after / check_older; also interpreter_inp_check), so
    # panic-freedom of finalize_input needs BOTH bounds.  Its frame (unsigned_tx and the number of input maps unchanged) is proved
    # in c14_finalize (`frame_other_inputs` / `globals_kept`).
    vf.fn(FIN, "fn:finalize_input", assumed=True, rewrites=[lit("R7", "super::Error", "Error")], contract=Contract(
        requires=[Clause("index_in_input_maps", (), "(index as int) < old(psbt).inputs@.len()"),
                  Clause("satisfier_index_in_tx_inputs", (), "(index as int) < old(psbt).unsigned_tx.input@.len()")],
        ensures=[Clause("globals_kept", (), "final(psbt).unsigned_tx == old(psbt).unsigned_tx && final(psbt).inputs@.len() == old(psbt).inputs@.len()")]))
    vf.trust("finalize_input (external_body: two index preconditions, frame on unsigned_tx / inputs.len())",
             "the preconditions are what PsbtInputSatisfier's methods (this unit) and `psbt.inputs[index]` need; the frame is proved in unit c14_finalize")
    CALL = Clause("finalize_input_preconditions_established", ("C11",), "index < psbt.inputs.len() && index < psbt.unsigned_tx.input.len() at the call of finalize_input")
    # the deprecated whole-PSBT finalizer: sanity_check first
    vf.fn(FIN, "fn:finalize_helper", props=("C11",), rewrites=[lit("R7", "super::Error", "Error"),
          sub("R10", r"for index in ([^{]+?)\s*\{", lambda mm: "for index in %s\n        invariant one_map_per_tx_input(*psbt), psbt.inputs@.len() == old(psbt).inputs@.len(),\n    {" % mm.group(1), count=1)])
    register_call_site(vf, "finalize_helper", r"\bfinalize_input\(", CALL)
    # the PsbtExt per-input entry points: bounds check against inputs.len() only
    FLAT = sub("R7", r"\bfinalizer::finalize_input\b", "finalize_input")
    # C11 / C14 quantify over STRUCTURALLY VALID PSBTs (BIP174: exactly one input map per transaction input; Psbt::deserialize and
    # Psbt::from_unsigned_tx establish it, the deprecated `finalize` and `extract` re-check it with sanity_check).  A `Psbt` value
    # whose public fields were edited into 2 maps for 1 transaction input makes finalize_mut panic (index out of bounds) instead of
    # returning WrongInputCount -- outside the property's quantifier, hence a precondition here, not a finding.
    STRUCT = Clause("psbt_structurally_valid", (), "one_map_per_tx_input(*old(self))")
    with vf.block("impl Psbt"):
        for name in ("finalize_inp_mut", "finalize_inp_mall_mut"):
            vf.fn(PMOD, "impl:PsbtExt for Psbt/fn:%s" % name, qual="Psbt", props=("C11",), rewrites=[FLAT], contract=Contract(requires=[STRUCT]))
            register_call_site(vf, "Psbt::%s" % name, r"\bfinalize_input\(", CALL)
        # the PsbtExt whole-PSBT entry points: every index below inputs.len(), no sanity_check
        for name in ("finalize_mut", "finalize_mall_mut"):
            vf.fn(PMOD, "impl:PsbtExt for Psbt/fn:%s" % name, qual="Psbt", props=("C11",), rewrites=[FLAT,
                  sub("R10", r"for index in ([^{]+?)\s*\{", lambda mm: "for index in %s\n            invariant self.inputs@.len() == old(self).inputs@.len(), self.unsigned_tx == old(self).unsigned_tx, one_map_per_tx_input(*old(self)),\n        {" % mm.group(1), count=1)],
                  contract=Contract(requires=[STRUCT]))
            register_call_site(vf, "Psbt::%s" % name, r"\bfinalize_input\(", CALL)
    return vf
