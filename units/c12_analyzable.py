"""C12 unit (Verus): the ANALYSES the validation switches rely on (src/miniscript/analyzable.rs), and the duplicate-key /
raw-key-hash switches END TO END.

units/c12_validation.py proves `Miniscript::validate`: every switch rejects exactly the scripts with the stated defect -- but there the
defect "duplicate keys" is the UNINTERPRETED predicate `spec_has_repeated_keys` (contract of has_repeated_keys assumed as
`r == spec_has_repeated_keys(*self)`) and the nodes the per-node switches talk about are the UNINTERPRETED sequence `spec_nodes`.
units/c20_iters.py proves that Miniscript::iter_pk / Miniscript::iter run to exhaustion yield `keys_of_ms` (keys in string order) /
`preorder` (nodes in pre-order).  This unit closes the gap:

Part 1  src/miniscript/analyzable.rs, all six functions, real text:
          requires_sig / is_non_malleable / has_mixed_timelocks   against the type property / ExtData flag the doc comment names
          within_resource_limits                                  is the verdict of Ctx::check_local_validity (not of any other check)
          has_repeated_keys      ORACLE (doc comment + property C12 "duplicate keys"): true <==> some key occurs at two different
                                 positions of keys_of_ms(self)  (exists i < j: keys[i] == keys[j]).  The code compares
                                 `iter_pk().count()` with `iter_pk().collect::<BTreeSet<_>>().len()`: iter_pk / next are consumed by the
                                 contracts c20_iters proves, `count` = number of items drained, `collect::<BTreeSet>().len()` = cardinality
                                 of the SET of drained items (trusted std semantics); that "cardinality == length <==> no duplicate" is
                                 PROVED here (recursive distinct count + pigeonhole lemma).
          contains_raw_pkh       true <==> some node of the pre-order is an expr_raw_pkh fragment; `.any(closure)` is the loop that
                                 Iterator::any is (over the proved Iter::next), the closure body is verified verbatim.
Part 2  `spec_has_repeated_keys` and `spec_nodes` are DEFINED here (exists-duplicate over keys_of_ms; nodes of the pre-order) and the vocabulary
        + contract of `validate` are IMPORTED from c12_validation (same text / same Clause objects): has_repeated_keys is proved against
        exactly the clause text c12_validation assumes, so its results hold for this interpretation.  Laws on the real functions:
        with `allow_duplicate_keys = false` an accepted script has pairwise distinct keys; that switch alone rejects exactly the scripts
        in which a key occurs twice; `allow_raw_pkh = false` alone rejects exactly the scripts for which contains_raw_pkh() is true.
Part 3  (asked for: Descriptor::sanity_check and the per-wrapper sanity_check)  THESE FUNCTIONS DO NOT EXIST in /repo (nor in its history):
        this snapshot has no `sanity_check` / `ext_check` on Descriptor, Bare, Pkh, Wpkh, Wsh, Sh or Tr.  The checks a descriptor goes through
        are made by the parsers (Wsh / Sh / Bare / Tr ::from_tree, Descriptor::from_tree, Descriptor::from_str with its per-leaf
        `validate(&Tap::SANE)` loop), all under contract in units/c12_from_tree.py.  Nothing is claimed here.
"""
import inspect
import re

from vlib.verus import VerusFile, Contract, Clause, Undecided, sub, lit, rule, drop_vis
from vlib.extract import match_close, strip_docs
from units import _tree
from units import c12_validation as V
from units import c20_iters as I

NAME = "c12_analyzable"
ENGINE = "verus"
PROPS = ("C12", "C11", "C03")     # C03: duplicate keys break non-malleability (C03 quantifies over scripts passing the default sanity rules)
FP = ("C12", "C11")               # body obligations of the functions that have nothing to do with C03
P = ("C12",)
PD = ("C12", "C03")               # the duplicate-key clauses

ANALYZE = "src/miniscript/analyzable.rs"
MSMOD = _tree.MSMOD
MSITER = I.MSITER
VAL = V.VAL
EXT = V.EXT
CTXRS = V.CTX

DROPPED = [
    "Descriptor::sanity_check / Bare / Pkh / Wpkh / Wsh / Sh / Tr ::sanity_check: NOT IN /repo (no such functions in this snapshot or its history); the "
    "descriptor-level checks are the parsers' (units/c12_from_tree.py). No obligation is generated for them here",
    "has_repeated_keys: `self.iter_pk()` -> `drain_pk_iter_(self.iter_pk())` (R14: std's consuming adaptors run the iterator to exhaustion by repeated `next`; "
    "drain_pk_iter_ is that loop, VERIFIED here against the contract of MsPkIter::next that units/c20_iters.py proves; result = the drained items as `Drained<Pk>`); "
    "`.count()` = Drained::count (verified: number of drained items); `.collect::<BTreeSet<_>>()` -> `.collect_btreeset_()` and `.len()` on it: TRUSTED std semantics "
    "`BTreeSet::len of the collected set == cardinality of the set of drained items`; `.take(n)` / `.skip(n)` (not in the current text) are modelled with std semantics so that "
    "such an edit is judged; `.collect::<Vec<_>>()` (also `let x: Vec<_> = ..collect()`) -> `.collect_vec_()` = the drained items as `KeyVec<Pk>` with len / is_empty (verified) and "
    "dedup / sort / sort_unstable / contains (TRUSTED std specs: dedup removes CONSECUTIVE repeats, sort leaves an ascending permutation); HashSet is treated as BTreeSet "
    "(cardinality); any other adaptor / method (windows, indexing, for loops over the vector, ..) -> UNDECIDED",
    "has_repeated_keys: vstd's Vec has no capacity precondition on push, so `count()` overflowing usize (more than usize::MAX keys) is outside the model",
    "contains_raw_pkh: `self.iter().any(|ms| BODY)` -> the loop that std's Iterator::any is (R14; /verif text with its invariant, over Iter::next by the contract "
    "units/c20_iters.py proves) calling the lambda-lifted closure `contains_raw_pkh__pred(ms)` (R16: BODY verbatim)",
    "within_resource_limits: ScriptContext is reduced to uninterpreted verdicts of its check_* functions (WHAT check_local_validity enforces per context is proved "
    "in units/c12_validation.py part 3, clause `within_resource_limits`); here: the analysis answers with the verdict of check_local_validity and of no other check",
    "Miniscript::validate, Miniscript::iter / iter_pk, Iter::next, PkIter::next (emitted as MsPkIter), TimelockInfo::contains_unspendable_path are external_body with the "
    "contracts proved in units/c12_validation.py / units/c20_iters.py (Clause objects taken from those units' build: a changed contract there changes it here)",
    "`impl Iterator for X { fn next }` emitted as inherent methods (`Self::Item` -> concrete type, R7), as in units/c20_iters.py",
    "equality of keys is Verus' structural spec equality; the key type's `Ord` (used by BTreeSet) and `Eq` are ASSUMED consistent with it (a key type whose "
    "`cmp` calls two different keys Equal, or two equal keys not Equal, is outside the model)",
]

# ----------------------------------------------------------------------------------------------------------------------
# prelude
# ----------------------------------------------------------------------------------------------------------------------
SCRIPT_CONTEXT = r"""
// ---- ScriptContext reduced to the VERDICTS of its checks (uninterpreted; c12_validation part 3 decides what each enforces) ----
struct ScriptContextError { opaque: u8 }
trait ScriptContext: Sized {
    // consensus + policy rules INCLUDING the ones about the satisfaction (opcode count, stack / witness / scriptSig limits)
    spec fn spec_local_valid<Pk: MiniscriptKey>(ms: Miniscript<Pk, Self>) -> bool;
    fn check_local_validity<Pk: MiniscriptKey>(ms: &Miniscript<Pk, Self>) -> (r: Result<(), ScriptContextError>)
        ensures r is Ok <==> Self::spec_local_valid(*ms);
    // the other checks of the trait: different verdicts (nothing relates them to spec_local_valid)
    spec fn spec_global_valid<Pk: MiniscriptKey>(ms: Miniscript<Pk, Self>) -> bool;
    fn check_global_validity<Pk: MiniscriptKey>(ms: &Miniscript<Pk, Self>) -> (r: Result<(), ScriptContextError>)
        ensures r is Ok <==> Self::spec_global_valid(*ms);
    spec fn spec_global_consensus_valid<Pk: MiniscriptKey>(ms: Miniscript<Pk, Self>) -> bool;
    fn check_global_consensus_validity<Pk: MiniscriptKey>(ms: &Miniscript<Pk, Self>) -> (r: Result<(), ScriptContextError>)
        ensures r is Ok <==> Self::spec_global_consensus_valid(*ms);
    spec fn spec_global_policy_valid<Pk: MiniscriptKey>(ms: Miniscript<Pk, Self>) -> bool;
    fn check_global_policy_validity<Pk: MiniscriptKey>(ms: &Miniscript<Pk, Self>) -> (r: Result<(), ScriptContextError>)
        ensures r is Ok <==> Self::spec_global_policy_valid(*ms);
    spec fn spec_local_consensus_valid<Pk: MiniscriptKey>(ms: Miniscript<Pk, Self>) -> bool;
    fn check_local_consensus_validity<Pk: MiniscriptKey>(ms: &Miniscript<Pk, Self>) -> (r: Result<(), ScriptContextError>)
        ensures r is Ok <==> Self::spec_local_consensus_valid(*ms);
    spec fn spec_local_policy_valid<Pk: MiniscriptKey>(ms: Miniscript<Pk, Self>) -> bool;
    fn check_local_policy_validity<Pk: MiniscriptKey>(ms: &Miniscript<Pk, Self>) -> (r: Result<(), ScriptContextError>)
        ensures r is Ok <==> Self::spec_local_policy_valid(*ms);
}
// crate::Error (only named by signatures that are not verified here)
enum Error { Other }
impl vstd::std_specs::cmp::PartialEqSpecImpl for Base {
    open spec fn obeys_eq_spec() -> bool { true }
    open spec fn eq_spec(&self, other: &Base) -> bool { *self == *other }
}
"""

THRESH_HELPERS = r"""
impl<T, const MAX: usize> Threshold<T, MAX> {
    spec fn spec_k(&self) -> usize { self.k }
    spec fn spec_n(&self) -> nat { self.inner@.len() }
    spec fn elems(&self) -> Seq<T> { self.inner@ }
}
"""

# ----------------------------------------------------------------------------------------------------------------------
# ORACLE (property C12 "duplicate keys" + doc comment "Whether the miniscript has repeated Pk or Pkh"), and the pigeonhole proof
# ----------------------------------------------------------------------------------------------------------------------
ORACLE = r"""
// ================================================================================================
// ORACLE: some value occurs at two DIFFERENT positions of the sequence
// ================================================================================================
spec fn has_dup<T>(s: Seq<T>) -> bool {
    exists|i: int, j: int| #![trigger s[i], s[j]] 0 <= i < j < s.len() && s[i] == s[j]
}
// number of DISTINCT values of a sequence, position by position: the last element counts iff it did not occur before
spec fn distinct_count<T>(s: Seq<T>) -> nat
    decreases s.len(),
{
    if s.len() == 0 { 0 } else { distinct_count(s.drop_last()) + (if s.drop_last().contains(s.last()) { 0nat } else { 1nat }) }
}
"""

LEMMA_SET = r"""
// the recursive count IS the cardinality of the set of the sequence's elements (what a set collected from it holds)
proof fn lemma_distinct_count_is_set_cardinality<T>(s: Seq<T>)
    ensures s.to_set().finite(), distinct_count(s) == s.to_set().len(),
    decreases s.len(),
{
    if s.len() == 0 {
        assert(s.to_set() =~= Set::<T>::empty());
    } else {
        let p = s.drop_last();
        let x = s.last();
        lemma_distinct_count_is_set_cardinality(p);
        assert(s.to_set() =~= p.to_set().insert(x)) by {
            assert forall|a: T| s.to_set().contains(a) <==> p.to_set().insert(x).contains(a) by {
                if s.contains(a) {
                    let i = choose|i: int| 0 <= i < s.len() && s[i] == a;
                    if i < s.len() - 1 { assert(p[i] == a); }
                }
                if p.contains(a) {
                    let i = choose|i: int| 0 <= i < p.len() && p[i] == a;
                    assert(s[i] == a);
                }
                if a == x { assert(s[s.len() - 1] == a); }
            }
        }
        assert(p.to_set().contains(x) <==> p.contains(x));
    }
}
"""

LEMMA_PIGEONHOLE = r"""
// PIGEONHOLE: a sequence has as many distinct values as positions iff no value occurs twice (and never more)
proof fn lemma_pigeonhole<T>(s: Seq<T>)
    ensures distinct_count(s) <= s.len(), distinct_count(s) == s.len() <==> !has_dup(s),
    decreases s.len(),
{
    if s.len() > 0 {
        let p = s.drop_last();
        let x = s.last();
        let n = s.len() as int;
        lemma_pigeonhole(p);
        assert forall|i: int| 0 <= i < n - 1 implies p[i] == s[i] by {}
        if has_dup(p) {
            let (i, j) = choose|i: int, j: int| #![trigger p[i], p[j]] 0 <= i < j < p.len() && p[i] == p[j];
            assert(s[i] == s[j]);
            assert(has_dup(s));
        }
        if p.contains(x) {
            let i = choose|i: int| 0 <= i < p.len() && p[i] == x;
            assert(s[i] == s[n - 1]);
            assert(has_dup(s));
        }
        if has_dup(s) {
            let (i, j) = choose|i: int, j: int| #![trigger s[i], s[j]] 0 <= i < j < s.len() && s[i] == s[j];
            if j < n - 1 {
                assert(p[i] == p[j]);
                assert(has_dup(p));
            } else {
                assert(p[i] == x);
                assert(p.contains(x));
            }
        }
    }
}
// corollary in the form the analysis uses it
proof fn lemma_set_smaller_iff_duplicate<T>(s: Seq<T>)
    ensures s.to_set().finite(), s.to_set().len() <= s.len(), s.to_set().len() != s.len() <==> has_dup(s),
{
    lemma_distinct_count_is_set_cardinality(s);
    lemma_pigeonhole(s);
}
"""

STD_STUBS = r"""
// ================================================================================================
// std: the consuming iterator adaptors, on the items the iterator yields when run to exhaustion
// ================================================================================================
struct Drained<T> { items: Vec<T> }
// BTreeSet<T>, reduced to its cardinality
#[verifier::external_body]
#[verifier::reject_recursive_types(T)]
struct KeySet<T> { p: core::marker::PhantomData<T> }
impl<T> KeySet<T> {
    uninterp spec fn card(&self) -> nat;
    // BTreeSet::len
    #[verifier::external_body]
    fn len(&self) -> (r: usize) ensures r == self.card() { unimplemented!() }
}
impl<T> Drained<T> {
    // Iterator::count: the number of items before the first None (verified: the length of the drained vector)
    fn count(self) -> (r: usize) ensures r == self.items@.len() { self.items.len() }
    // Iterator::take(n) / skip(n): keep / drop a prefix
    #[verifier::external_body]
    fn take(self, n: usize) -> (r: Drained<T>)
        ensures r.items@ == (if n <= self.items@.len() { self.items@.take(n as int) } else { self.items@ }),
    { unimplemented!() }
    #[verifier::external_body]
    fn skip(self, n: usize) -> (r: Drained<T>)
        ensures r.items@ == (if n <= self.items@.len() { self.items@.skip(n as int) } else { Seq::empty() }),
    { unimplemented!() }
    // Iterator::collect::<BTreeSet<_>>(): a set holds each value once -- its size is the cardinality of the SET of the items
    // (the element type's Ord / Eq are assumed consistent with equality of values)
    #[verifier::external_body]
    fn collect_btreeset_(self) -> (r: KeySet<T>)
        ensures r.card() == self.items@.to_set().len(),
    { unimplemented!() }
}
"""

VEC_MODEL = r"""
// ================================================================================================
// std: Vec<T> collected from the drained items, with dedup / sort / contains  (other ways of looking for duplicates)
// ================================================================================================
// Vec::dedup removes CONSECUTIVE repeated elements (keeps the first of every run) -- std doc; as a recursive definition
spec fn dedup_consecutive<T>(s: Seq<T>) -> Seq<T>
    decreases s.len(),
{
    if s.len() <= 1 { s } else {
        let d = dedup_consecutive(s.drop_last());
        if s[s.len() - 2] == s.last() { d } else { d.push(s.last()) }
    }
}
// the element type's `Ord::cmp(a, b) != Greater`
uninterp spec fn ord_le<T>(a: T, b: T) -> bool;
// ASSUMED (same assumption as for BTreeSet): Ord is a total order and `Equal` means equality of values
proof fn axiom_ord_total_order<T>()
    ensures
        forall|a: T, b: T| #![trigger ord_le(a, b)] ord_le(a, b) || ord_le(b, a),
        forall|a: T, b: T| #![trigger ord_le(a, b), ord_le(b, a)] ord_le(a, b) && ord_le(b, a) ==> a == b,
        forall|a: T, b: T, c: T| #![trigger ord_le(a, b), ord_le(b, c)] ord_le(a, b) && ord_le(b, c) ==> ord_le(a, c),
{ admit(); }
spec fn sorted_le<T>(s: Seq<T>) -> bool {
    forall|i: int, j: int| #![trigger s[i], s[j]] 0 <= i <= j < s.len() ==> ord_le(s[i], s[j])
}
// equal values stand next to each other
spec fn runs_contiguous<T>(s: Seq<T>) -> bool {
    forall|i: int, j: int, k: int| #![trigger s[i], s[j], s[k]] 0 <= i < j < k < s.len() && s[i] == s[k] ==> s[j] == s[i]
}
struct KeyVec<T> { v: Vec<T> }
impl<T> KeyVec<T> {
    fn len(&self) -> (r: usize) ensures r == self.v@.len() { self.v.len() }
    fn is_empty(&self) -> (r: bool) ensures r == (self.v@.len() == 0) { self.v.len() == 0 }
    #[verifier::external_body]
    fn dedup(&mut self) ensures final(self).v@ == dedup_consecutive(old(self).v@) { unimplemented!() }
    // slice::sort / sort_unstable: a permutation of the elements, ascending
    #[verifier::external_body]
    fn sort(&mut self) ensures final(self).v@.to_multiset() == old(self).v@.to_multiset(), sorted_le(final(self).v@) { unimplemented!() }
    #[verifier::external_body]
    fn sort_unstable(&mut self) ensures final(self).v@.to_multiset() == old(self).v@.to_multiset(), sorted_le(final(self).v@) { unimplemented!() }
    #[verifier::external_body]
    fn contains(&self, x: &T) -> (r: bool) ensures r == self.v@.contains(*x) { unimplemented!() }
}
impl<T> Drained<T> {
    // Iterator::collect::<Vec<_>>(): the items, in order
    fn collect_vec_(self) -> (r: KeyVec<T>) ensures r.v@ == self.items@ { KeyVec { v: self.items } }
}
"""

LEMMA_SORT_DEDUP = r"""
proof fn lemma_sorted_runs_contiguous<T>(s: Seq<T>)
    requires sorted_le(s),
    ensures runs_contiguous(s),
{
    axiom_ord_total_order::<T>();
    assert forall|i: int, j: int, k: int| #![trigger s[i], s[j], s[k]] 0 <= i < j < k < s.len() && s[i] == s[k] implies s[j] == s[i] by {
        assert(ord_le(s[i], s[j]) && ord_le(s[j], s[k]));
    }
}
// when equal values stand next to each other, removing consecutive repeats leaves one element per distinct value
proof fn lemma_dedup_of_contiguous_runs<T>(s: Seq<T>)
    requires runs_contiguous(s),
    ensures dedup_consecutive(s).len() == distinct_count(s),
    decreases s.len(),
{
    if s.len() == 1 {
        assert(s.drop_last().len() == 0);
        assert(!s.drop_last().contains(s.last()));
        assert(distinct_count(s.drop_last()) == 0);
    } else if s.len() > 1 {
        let p = s.drop_last();
        let x = s.last();
        let n = s.len() as int;
        assert forall|i: int| 0 <= i < n - 1 implies p[i] == s[i] by {}
        assert(runs_contiguous(p)) by {
            assert forall|i: int, j: int, k: int| #![trigger p[i], p[j], p[k]] 0 <= i < j < k < p.len() && p[i] == p[k] implies p[j] == p[i] by {
                assert(s[i] == s[k] ==> s[j] == s[i]);
            }
        }
        lemma_dedup_of_contiguous_runs(p);
        if s[n - 2] == x {
            assert(p[n - 2] == x);
            assert(p.contains(x));
        } else if p.contains(x) {
            let i = choose|i: int| 0 <= i < p.len() && p[i] == x;
            assert(s[i] == s[n - 1]);
            assert(i < n - 2);
            assert(s[n - 2] == s[i]);       // runs_contiguous(s) at (i, n-2, n-1)
            assert(false);
        }
    }
}
// a permutation has the same length and the same set of elements
proof fn lemma_permutation_same_set<T>(s: Seq<T>, t: Seq<T>)
    requires s.to_multiset() == t.to_multiset(),
    ensures s.len() == t.len(), s.to_set() =~= t.to_set(),
{
    s.to_multiset_ensures();
    t.to_multiset_ensures();
    assert forall|a: T| s.to_set().contains(a) <==> t.to_set().contains(a) by {
        assert(s.contains(a) <==> s.to_multiset().count(a) > 0);
        assert(t.contains(a) <==> t.to_multiset().count(a) > 0);
    }
}
// everything the analysis may use about the drained key sequence `s`, whichever std route it takes:
//   set route:        |set(s)| != |s|  <==>  a key occurs twice
//   sort+dedup route: for every sorted permutation t of s, |dedup(t)| = |set(s)|
// (NOTHING is said about dedup of an UNSORTED sequence: it only removes adjacent repeats)
proof fn lemma_sort_dedup_route<T>(s: Seq<T>, t: Seq<T>)
    requires t.to_multiset() == s.to_multiset(), sorted_le(t),
    ensures t.len() == s.len(), s.to_set().finite(), dedup_consecutive(t).len() == s.to_set().len(),
{
    lemma_permutation_same_set(s, t);
    lemma_sorted_runs_contiguous(t);
    lemma_dedup_of_contiguous_runs(t);
    lemma_distinct_count_is_set_cardinality(t);
    lemma_distinct_count_is_set_cardinality(s);
    assert(s.to_set() == t.to_set());
}
spec fn sort_dedup_route_ok<T>(s: Seq<T>, t: Seq<T>) -> bool {
    t.to_multiset() == s.to_multiset() && sorted_le(t) ==> t.len() == s.len() && dedup_consecutive(t).len() == s.to_set().len()
}
proof fn lemma_duplicate_detection_facts<T>(s: Seq<T>)
    ensures
        s.to_set().finite(), s.to_set().len() <= s.len(), s.to_set().len() != s.len() <==> has_dup(s),
        forall|t: Seq<T>| #![trigger sorted_le(t)] sort_dedup_route_ok(s, t),
{
    lemma_set_smaller_iff_duplicate(s);
    assert forall|t: Seq<T>| #![trigger sorted_le(t)] sort_dedup_route_ok(s, t) by {
        if t.to_multiset() == s.to_multiset() && sorted_le(t) { lemma_sort_dedup_route(s, t); }
    }
}
"""

DRAIN = r"""
// running the key iterator to exhaustion (what count / collect do): exactly the remaining keys, in order; terminates
fn drain_pk_iter_<'a, Pk: MiniscriptKey, Ctx: ScriptContext>(it0: MsPkIter<'a, Pk, Ctx>) -> (out: Drained<Pk>)
    requires ms_pk_inv(it0),
    ensures out.items@ == ms_pk_rem(it0),
{
    let ghost all = ms_pk_rem(it0);
    let mut it = it0;
    let mut out: Vec<Pk> = Vec::new();
    loop
        invariant ms_pk_inv(it), all == ms_pk_rem(it0), out@ + ms_pk_rem(it) =~= all,
        decreases ms_pk_rem(it).len(),
    {
        let ghost before = ms_pk_rem(it);
        match it.next() {
            None => { assert(before =~= Seq::<Pk>::empty()); assert(out@ =~= all); return Drained { items: out }; }
            Some(x) => {
                out.push(x);
                assert(before =~= seq![x] + before.skip(1));
            }
        }
    }
}
"""

# Part 2: the two symbols c12_validation leaves uninterpreted, defined
DEF_HAS_REPEATED = r"""// DEFINED (uninterpreted in units/c12_validation.py): some key occurs at two different positions of the keys in string order
pub open spec fn spec_has_repeated_keys<Pk: MiniscriptKey, Ctx: ScriptContext>(ms: Miniscript<Pk, Ctx>) -> bool { has_dup(keys_of_ms(ms)) }"""
DEF_NODES = r"""// DEFINED (uninterpreted in units/c12_validation.py): the fragments of the expression in pre-order (what Miniscript::iter yields: units/c20_iters.py)
pub open spec fn spec_nodes<Pk: MiniscriptKey, Ctx: ScriptContext>(ms: Miniscript<Pk, Ctx>) -> Seq<Terminal<Pk, Ctx>> {
    Seq::new(preorder(ms).len(), |i: int| preorder(ms)[i].node)
}"""
UNINTERP_HAS_REPEATED = r"pub uninterp spec fn spec_has_repeated_keys<Pk: MiniscriptKey, Ctx: ScriptContext>\(ms: Miniscript<Pk, Ctx>\) -> bool;"
UNINTERP_NODES = r"pub uninterp spec fn spec_nodes<Pk: MiniscriptKey, Ctx: ScriptContext>\(ms: Miniscript<Pk, Ctx>\) -> Seq<Terminal<Pk, Ctx>>;[^\n]*"
# the clause c12_validation ASSUMES of has_repeated_keys (proved here from the same text)
ASSUMED_THERE = "r == spec_has_repeated_keys(*self)"

NODE_KEYS_AGREE = r"""
// the per-node key list of units/c12_validation.py (renamed vnode_keys here: one Verus module) is the one of units/c20_translate.py
proof fn lemma_node_keys_agree<Pk: MiniscriptKey, Ctx: ScriptContext>(t: Terminal<Pk, Ctx>)
    ensures vnode_keys(t) == node_keys(t),
{}
"""


def validation_vocabulary():
    """units/c12_validation.py PART2_SPEC with (1) its `node_keys` renamed (c20_translate's has the same name), (2) the two uninterpreted
    symbols replaced by their definitions.  UNDECIDED when the text no longer has them (nothing left to discharge / anchor lost)."""
    text = V.PART2_SPEC
    text, n = re.subn(r"\bnode_keys\b", "vnode_keys", text)
    if n == 0:
        raise Undecided("units/c12_validation.py PART2_SPEC: node_keys not found (text changed)")
    for pat, new, what in ((UNINTERP_HAS_REPEATED, DEF_HAS_REPEATED, "spec_has_repeated_keys"), (UNINTERP_NODES, DEF_NODES, "spec_nodes")):
        text, n = re.subn(pat, lambda m: new, text)
        if n != 1:
            raise Undecided("units/c12_validation.py PART2_SPEC no longer declares `%s` as an uninterpreted spec fn (found %d times): nothing to discharge" % (what, n))
    src = inspect.getsource(V.emit_part2)
    if ('"%s"' % ASSUMED_THERE) not in src or "fn:has_repeated_keys" not in src:
        raise Undecided("units/c12_validation.py no longer assumes `%s` of Miniscript::has_repeated_keys" % ASSUMED_THERE)
    return text


def proved_contract(other, fq, unit):
    """the contract ANOTHER unit proves for `fq` (its Clause objects), to be consumed here by an external_body twin"""
    f = other.functions.get(fq)
    if f is None or f.get("origin") != "repo":
        raise Undecided("units/%s.py no longer proves a contract for %s" % (unit, fq))
    cl = [kc for _, kc in sorted(f["clauses"].items())]
    req = [c.text for k, c in cl if k == "requires"]
    ens = [Clause(c.tag, c.props, c.text) for k, c in cl if k == "ensures"]
    if not ens:
        raise Undecided("units/%s.py: %s has no ensures clause" % (unit, fq))
    return Contract(requires=req, ensures=ens, canary=False)


# ----------------------------------------------------------------------------------------------------------------------
# rewrites
# ----------------------------------------------------------------------------------------------------------------------
R14_DRAIN = sub("R14-drain", r"\bself\s*\.iter_pk\(\)", "drain_pk_iter_(self.iter_pk())")
R14_SET = sub("R14-collect-set", r"\.collect::<\s*(?:BTreeSet|HashSet)<[^<>]*>\s*>\(\)", ".collect_btreeset_()", required=False)
R14_VEC = sub("R14-collect-vec", r"\.collect::<\s*Vec<[^<>]*>\s*>\(\)", ".collect_vec_()", required=False)


@rule("R14-collect-annotated")
def annotated_collect(text):
    """`let [mut] X: Vec<..> = E.collect();` / `: BTreeSet<..>` / `: HashSet<..>`  ->  `let [mut] X = E.collect_vec_();` / `.collect_btreeset_();`
    (the annotation only selects the FromIterator impl; the model types are KeyVec / KeySet)."""
    def one(m):
        stmt = m.group(0)
        if ".collect()" not in stmt:
            return stmt
        target = ".collect_vec_()" if m.group(3) == "Vec" else ".collect_btreeset_()"
        return "let %s%s = %s" % (m.group(1) or "", m.group(2), m.group(4).replace(".collect()", target))
    return re.sub(r"\blet\s+(mut\s+)?(\w+)\s*:\s*(Vec|BTreeSet|HashSet)<[^=;]*>\s*=\s*([^;]*;)", one, text)


def at_body_start(ghost):
    """R10: ghost statement inserted right after the opening brace of the function body."""
    @rule("R10")
    def rw(text):
        brace = text.index("{", text.index(")"))
        return text[:brace + 1] + "\n        " + ghost + text[brace + 1:]
    return rw


# the loop that Iterator::any is, over the real Iter::next, calling the lambda-lifted closure
ANY_LOOP = """{
            let mut any_iter = %(recv)s;
            let mut any_result = false;
            let ghost mut done: Seq<Miniscript<Pk, Ctx>> = Seq::empty();
            loop
                invariant_except_break
                    !any_result,
                    forall|i: int| 0 <= i < done.len() ==> !((#[trigger] done[i]).node is RawPkH),
                    done + iter_rem(any_iter) =~= preorder(*self),
                ensures
                    any_result <==> exists|i: int| 0 <= i < preorder(*self).len() && (#[trigger] preorder(*self)[i]).node is RawPkH,
                decreases iter_rem(any_iter).len(),
            {
                let ghost rem0 = iter_rem(any_iter);
                match any_iter.next() {
                    None => {
                        proof { assert(done =~= preorder(*self)); }
                        break;
                    }
                    Some(%(var)s) => {
                        proof { assert(rem0 =~= seq![*%(var)s] + rem0.skip(1)); }
                        if Self::contains_raw_pkh__pred(%(var)s) {
                            any_result = true;
                            proof { assert(preorder(*self)[done.len() as int] == *%(var)s); }
                            break;
                        }
                        proof { done = done.push(*%(var)s); }
                    }
                }
            }
            proof {
                // spec_nodes is the node-wise projection of the pre-order (definitions only)
                assert(spec_nodes(*self).len() == preorder(*self).len());
                assert forall|i: int| #![trigger preorder(*self)[i]] #![trigger spec_nodes(*self)[i]] 0 <= i < preorder(*self).len()
                    implies spec_nodes(*self)[i] == preorder(*self)[i].node by {}
            }
            any_result
        }"""


class IterAny:
    """R14 + R16 on `self.iter().any(|VAR| BODY)`: the chain becomes the loop that std's Iterator::any is (ANY_LOOP, /verif text); the
    closure is lambda-lifted: BODY is kept verbatim in `self.body` and emitted by the caller as `contains_raw_pkh__pred(VAR)`."""
    rule = "R14/R16-iterator-any"

    def __init__(self):
        self.body = None
        self.var = None

    def __call__(self, text):
        m = re.search(r"(self\s*\.iter\(\))\s*\.any\(\s*\|\s*(\w+)\s*\|", text)
        if not m:
            return None
        open_ = text.index("(", text.index(".any", m.start()))
        close = match_close(text, open_)
        self.body = text[m.end():close].strip()
        self.var = m.group(2)
        recv = re.sub(r"\s+", "", m.group(1))
        return text[:m.start()] + ANY_LOOP % dict(recv=recv, var=self.var) + text[close + 1:]


DUP = ("exists|i: int, j: int| #![trigger keys_of_ms(%(m)s)[i], keys_of_ms(%(m)s)[j]] 0 <= i < j < keys_of_ms(%(m)s).len() "
       "&& keys_of_ms(%(m)s)[i] == keys_of_ms(%(m)s)[j]")
DISTINCT = ("forall|i: int, j: int| #![trigger keys_of_ms(%(m)s)[i], keys_of_ms(%(m)s)[j]] 0 <= i < j < keys_of_ms(%(m)s).len() "
            "==> keys_of_ms(%(m)s)[i] != keys_of_ms(%(m)s)[j]")
SOME_RAW_PKH = "exists|i: int| 0 <= i < spec_nodes(%(m)s).len() && #[trigger] spec_nodes(%(m)s)[i] is RawPkH"

LAWS = r"""
// ---- the duplicate-key and raw-key-hash switches END TO END, on the REAL functions (through their contracts) ----------------------
// with the switch off, an accepted script has pairwise distinct keys; a script in which a key occurs twice is rejected
fn law_duplicate_key_switch_end_to_end<Pk: MiniscriptKey, Ctx: ScriptContext>(ms: &Miniscript<Pk, Ctx>, p: &ValidationParams)
    requires ext_small(ms.ext),
{
    let r = ms.validate(p);
    let d = ms.has_repeated_keys();
    assert(!p.allow_duplicate_keys && d ==> r is Err);
    assert(!p.allow_duplicate_keys && r is Ok ==> %(distinct)s);
}
// the switch, on its own, rejects EXACTLY the scripts in which some key occurs at two positions
fn law_switch_duplicate_keys_exact<Pk: MiniscriptKey, Ctx: ScriptContext>(ms: &Miniscript<Pk, Ctx>)
    requires ext_small(ms.ext), ms.ext.tree_height <= 402,
{
    let p = ValidationParams { allow_duplicate_keys: false, ..ValidationParams::MAX };
    let r = ms.validate(&p);
    let d = ms.has_repeated_keys();
    proof { lemma_only_switch(spec_nodes(*ms), p); }
    assert(r is Err <==> d);
    assert(r is Err <==> %(dup)s);
}
// allow_raw_pkh = false, on its own, rejects EXACTLY the scripts for which the analysis contains_raw_pkh answers true
fn law_switch_raw_pkh_exact<Pk: MiniscriptKey, Ctx: ScriptContext>(ms: &Miniscript<Pk, Ctx>)
    requires ext_small(ms.ext), ms.ext.tree_height <= 402,
{
    let p = ValidationParams { allow_raw_pkh: false, ..ValidationParams::MAX };
    let r = ms.validate(&p);
    let c = ms.contains_raw_pkh();
    proof { lemma_only_switch(spec_nodes(*ms), p); }
    assert(r is Err <==> c);
}
// the other three analyses are the defects of the switches of the same name
fn law_analyses_are_the_switch_defects<Pk: MiniscriptKey, Ctx: ScriptContext>(ms: &Miniscript<Pk, Ctx>, p: &ValidationParams)
    requires ext_small(ms.ext),
{
    let r = ms.validate(p);
    let s = ms.requires_sig();
    let m = ms.is_non_malleable();
    let t = ms.has_mixed_timelocks();
    assert(r is Ok ==> (p.allow_sigless_branch || s) && (p.allow_malleability || m) && (p.allow_mixed_time_locks || !t));
}
// a script accepted with parameters that forbid duplicate keys (every context's SANE does: c12_validation's table) has distinct keys
proof fn law_validate_ok_means_distinct_keys<Pk: MiniscriptKey, Ctx: ScriptContext>(ms: Miniscript<Pk, Ctx>, p: ValidationParams)
    requires validate_ok(ms, p), !p.allow_duplicate_keys,
    ensures %(distinct_v)s,
{}
"""
LAW_NAMES = ["law_duplicate_key_switch_end_to_end", "law_switch_duplicate_keys_exact", "law_switch_raw_pkh_exact", "law_analyses_are_the_switch_defects",
             "law_validate_ok_means_distinct_keys"]


def strip_derive():
    return sub("R1-derive", r"#\[derive\([^)]*\)\]\s*", "", required=False)


def build(repo):
    vf = VerusFile(NAME, repo)
    other_v = V.build(repo)          # extraction only (no Verus run): the Clause objects those units prove
    other_i = I.build(repo)
    if "within_resource_limits" not in inspect.getsource(V.emit_part3):
        raise Undecided("units/c12_validation.py no longer carries the clause `within_resource_limits` on check_local_validity")

    # ---- prelude: stubs + the REAL type definitions -----------------------------------------------------------------------------
    vf.raw(V.STUBS, keep_vis=True)
    vf.raw(SCRIPT_CONTEXT)
    vf.trust("prelude stubs MiniscriptKey / hash160::Hash / AbsLockTime / RelLockTime (text of units/c12_validation.py STUBS), crate::Error (opaque)",
             "external or out-of-unit types reduced to opaque values")
    vf.trust("trait ScriptContext reduced to the uninterpreted verdicts of check_local_validity / check_global_validity / check_{global,local}_{consensus,policy}_validity; struct ScriptContextError (opaque)",
             "what the contexts enforce is decided in units/c12_validation.py part 3; here only WHICH check the analysis consults")
    vf.trust("PartialEqSpecImpl for Base", "derived PartialEq on a field-less enum is structural equality")
    for c in ("MAX_PUBKEYS_PER_MULTISIG", "MAX_PUBKEYS_IN_CHECKSIGADD"):
        vf.item(_tree.LIMITS, "const:%s" % c)
    for f, a in ((_tree.CORR, "enum:Base"), (_tree.CORR, "enum:Input"), (_tree.CORR, "struct:Correctness"), (_tree.MALL, "enum:Dissat"),
                 (_tree.MALL, "struct:Malleability"), (_tree.TYPES, "struct:Type"), (EXT, "struct:TimelockInfo"), (EXT, "struct:SatData"), (EXT, "struct:ExtData")):
        vf.item(f, a)
    vf.item(_tree.THRESH, "struct:Threshold", rewrites=[strip_derive()])
    vf.raw(THRESH_HELPERS)
    vf.item(_tree.DECODE, "enum:Terminal")
    vf.item(MSMOD, "mod:private/struct:Miniscript", rewrites=[lit("R7", "types::extra_props::ExtData", "ExtData"), lit("R7", "types::Type", "Type")])
    vf.item(VAL, "struct:ValidationParams", rewrites=[sub("R1-attrs", r"#\[non_exhaustive\]\s*", "", required=False),
                                                        sub("derive-off", r"#\[derive\([^)]*\)\]\s*", "#[derive(Copy, Clone)]\n", required=True)])
    with vf.block("impl ValidationParams"):
        vf.item(VAL, "impl:ValidationParams/const:MAX")
    vf.item(VAL, "enum:KeyError", rewrites=[strip_derive()])
    vf.item(VAL, "enum:Error", rewrites=[strip_derive(), lit("R7-rename", "enum Error {", "enum ValidationError {"), lit("R7", "crate::miniscript::types::Base", "Base")])

    # ---- oracle vocabulary of c20_iters (keys in string order, nodes in pre-order, iterator representation) -----------------------
    vf.raw(I.shared_specs())
    vf.raw(I.ORACLE_MS)
    vf.item(MSITER, "struct:Iter", rewrites=[strip_derive()])
    vf.item(MSITER, "struct:PkIter", rewrites=[strip_derive(), I.RENAME])
    vf.raw(I.ITER_INV)
    vf.trust("spec vocabulary keys_of_ms / preorder / iter_rem / ms_pk_rem / ms_pk_inv (text of units/c20_iters.py ORACLE_MS + ITER_INV, node_keys / node_children / ms_height of "
             "units/c20_translate.py / c00_treelike.py)", "the oracle sequences of C20 and the iterator representation its contracts are stated over")
    # ---- the iterators, by the contracts c20_iters PROVES ----------------------------------------------------------------------------
    with vf.block("impl<'a, Pk: MiniscriptKey, Ctx: ScriptContext> Iter<'a, Pk, Ctx>"):
        vf.fn(MSITER, "impl:Iterator for Iter<'a, Pk, Ctx>/fn:next", qual="Iter", assumed=True,
              rewrites=[lit("R7-assoc-type", "Option<Self::Item>", "Option<&'a Miniscript<Pk, Ctx>>")], contract=proved_contract(other_i, "Iter::next", "c20_iters"))
    with vf.block("impl<'a, Pk: MiniscriptKey, Ctx: ScriptContext> MsPkIter<'a, Pk, Ctx>"):
        vf.fn(MSITER, "impl:Iterator for PkIter<'_, Pk, Ctx>/fn:next", qual="MsPkIter", assumed=True,
              rewrites=[lit("R7-assoc-type", "Option<Self::Item>", "Option<Pk>")], contract=proved_contract(other_i, "MsPkIter::next", "c20_iters"))
    with vf.block("impl<Pk: MiniscriptKey, Ctx: ScriptContext> Miniscript<Pk, Ctx>"):
        vf.fn(MSITER, "impl:Miniscript<Pk, Ctx>/fn:iter", qual="Miniscript", assumed=True, contract=proved_contract(other_i, "Miniscript::iter", "c20_iters"))
        vf.fn(MSITER, "impl:Miniscript<Pk, Ctx>/fn:iter_pk", qual="Miniscript", assumed=True, rewrites=[I.RENAME], contract=proved_contract(other_i, "Miniscript::iter_pk", "c20_iters"))
    vf.trust("Iter::next, MsPkIter::next, Miniscript::iter, Miniscript::iter_pk (external_body)",
             "proved on the real text by units/c20_iters.py; the Clause objects are taken from that unit's build (UNDECIDED if it stops proving them)")

    # ---- Part 2 vocabulary: c12_validation's, with its two uninterpreted symbols DEFINED ---------------------------------------------
    vf.raw(ORACLE)
    vf.raw(validation_vocabulary())
    vf.trust("spec vocabulary validate_ok / vnt_ok / nodes_ok / limits_ok / ext_small / d_* (text of units/c12_validation.py PART2_SPEC; spec_script_size stays uninterpreted)",
             "the meaning of `validate(params) is Ok`, proved against the real validate in c12_validation. DISCHARGED here: `spec_has_repeated_keys` := has_dup(keys_of_ms(ms)) and "
             "`spec_nodes` := the fragments of preorder(ms); c12_validation's proofs never look inside these symbols, its only assumption about the first is the clause "
             "`%s` of has_repeated_keys, which this unit PROVES (clause is_duplicate_key_predicate) from the same text; about the second, that the cut loop of "
             "validate_non_top_level visits what Miniscript::iter yields (units/c20_iters.py: iter drains to preorder)" % ASSUMED_THERE)
    vf.spec_obligation("lemma::node_keys_agree", NODE_KEYS_AGREE, P)
    vf.raw(V.ONLY_SWITCH_LEMMA)
    V._register_raw_fns(vf, ["lemma_only_switch", "lemma_mp_fold_single", "lemma_mp_fold_empty"], P)
    vf.spec_obligation("lemma::distinct_count_is_set_cardinality", LEMMA_SET, P)
    vf.spec_obligation("lemma::pigeonhole", LEMMA_PIGEONHOLE, P)

    # ---- std adaptors --------------------------------------------------------------------------------------------------------------------
    vf.raw(STD_STUBS)
    vf.trust("KeySet<T> (external_body type) + KeySet::len + Drained::collect_btreeset_ (external_body)",
             "std: `iter.collect::<BTreeSet<_>>().len()` is the number of DIFFERENT items the iterator yields = cardinality of the set of drained items; "
             "ASSUMES the key type's Ord / Eq agree with equality of values")
    vf.trust("Drained::take / Drained::skip (external_body)", "std Iterator::take / skip keep / drop a prefix; not called by the current text, present so that such an edit is judged")
    vf.raw(VEC_MODEL)
    vf.trust("KeyVec<T>::dedup / sort / sort_unstable / contains (external_body), axiom_ord_total_order (admit)",
             "std: Vec::dedup removes consecutive repeated elements (recursive spec dedup_consecutive); slice::sort / sort_unstable leave an ascending permutation; "
             "Vec::contains; ASSUMES the element type's Ord is a total order whose Equal is equality of values (same assumption as for the set route). "
             "Not called by the current text: present so that a refactor of has_repeated_keys over collect::<Vec<_>>() is JUDGED")
    vf.spec_obligation("lemma::sort_dedup", LEMMA_SORT_DEDUP, PD)
    vf.spec_obligation("compose::drain_pk_iter_", DRAIN, FP)

    # ---- callees by contract ---------------------------------------------------------------------------------------------------------------
    with vf.block("impl TimelockInfo"):
        vf.fn(EXT, "impl:TimelockInfo/fn:contains_unspendable_path", qual="TimelockInfo", assumed=True,
              contract=proved_contract(other_v, "TimelockInfo::contains_unspendable_path", "c12_validation"))
    MS_IMPL = "impl<Pk: MiniscriptKey, Ctx: ScriptContext> Miniscript<Pk, Ctx>"
    with vf.block(MS_IMPL):
        vf.fn(MSMOD, "mod:private/impl:Miniscript<Pk, Ctx>/fn:validate", qual="Miniscript", assumed=True, rewrites=[lit("R7", "types::Base::", "Base::", required=False)],
              contract=proved_contract(other_v, "Miniscript::validate", "c12_validation"))
    vf.trust("Miniscript::validate, TimelockInfo::contains_unspendable_path (external_body)",
             "proved on the real text by units/c12_validation.py; the Clause objects (incl. validate's precondition ext_small) are taken from that unit's build")

    # ---- Part 1: analyzable.rs ---------------------------------------------------------------------------------------------------------------
    A = "impl:Miniscript<Pk, Ctx>/fn:"
    any = IterAny()
    with vf.block(MS_IMPL):
        # doc: "Whether all spend paths of miniscript require a signature" = the `s` property of the malleability type
        vf.fn(ANALYZE, A + "requires_sig", qual="Miniscript", props=FP, contract=Contract(ensures=[
            Clause("is_s_property", P, "r == self.ty.mall.signed"),
            Clause("is_the_sigless_switch_defect", P, "r == !d_sigless(*self)")]))
        # doc: "Whether the miniscript is [non-]malleable" = the `m` property
        vf.fn(ANALYZE, A + "is_non_malleable", qual="Miniscript", props=FP, contract=Contract(ensures=[
            Clause("is_m_property", P, "r == self.ty.mall.non_malleable"),
            Clause("is_the_malleability_switch_defect", P, "r == !d_malleable(*self)")]))
        # doc: "Whether the miniscript can exceed the resource limits (Opcodes, Stack limit etc)": the check that includes the satisfaction's resources
        vf.fn(ANALYZE, A + "within_resource_limits", qual="Miniscript", props=FP, contract=Contract(ensures=[
            Clause("is_local_validity_verdict", P, "r == Ctx::spec_local_valid(*self)")]))
        # doc: "Whether the miniscript contains a combination of timelocks"
        vf.fn(ANALYZE, A + "has_mixed_timelocks", qual="Miniscript", props=FP, contract=Contract(ensures=[
            Clause("is_combination_flag", P, "r == self.ext.timelock_info.contains_combination"),
            Clause("is_the_mixed_time_locks_switch_defect", P, "r == d_mixed_locks(*self)")]))
        # doc: "Whether the miniscript has repeated Pk or Pkh"
        vf.fn(ANALYZE, A + "has_repeated_keys", qual="Miniscript", props=PROPS,
              rewrites=[R14_DRAIN, annotated_collect, R14_SET, R14_VEC,
                        at_body_start("proof { lemma_duplicate_detection_facts(keys_of_ms(*self)); }")],
              contract=Contract(ensures=[
                  Clause("true_iff_some_key_occurs_twice", PD, "r <==> " + DUP % dict(m="*self")),
                  Clause("false_iff_all_keys_distinct", PD, "!r <==> " + DISTINCT % dict(m="*self")),
                  Clause("is_duplicate_key_predicate", PD, ASSUMED_THERE)]))
        # doc: "Whether the given miniscript contains a raw pkh fragment"
        reg = vf.fn(ANALYZE, A + "contains_raw_pkh", qual="Miniscript", props=FP, rewrites=[any],
                    contract=Contract(ensures=[
                        Clause("true_iff_some_node_is_raw_pkh", P, "r <==> exists|i: int| 0 <= i < preorder(*self).len() && (#[trigger] preorder(*self)[i]).node is RawPkH"),
                        Clause("is_the_raw_pkh_switch_defect", P, "r <==> " + SOME_RAW_PKH % dict(m="*self"))]))
        # the closure `|ms| BODY` of the `.any(..)`, lambda-lifted (R16), BODY verbatim
        text = "fn contains_raw_pkh__pred(%s: &Miniscript<Pk, Ctx>) -> bool {\n        %s\n    }\n" % (any.var, any.body)
        vf.rewrites_used.append("R16-lambda-lift @ closure of contains_raw_pkh")
        vf.fn_text("Miniscript::contains_raw_pkh__pred", text, Contract(ensures=[
            Clause("tests_for_the_raw_pkh_fragment", P, "r == (%s.node is RawPkH)" % any.var)]),
            FP, file=ANALYZE, lines=reg.lines(), anchor=A + "contains_raw_pkh closure |%s|" % any.var)

    # ---- Part 2: end to end ------------------------------------------------------------------------------------------------------------------
    vf.raw(LAWS % dict(dup=DUP % dict(m="*ms"), distinct=DISTINCT % dict(m="*ms"), distinct_v=DISTINCT % dict(m="ms")))
    V._register_raw_fns(vf, LAW_NAMES, P)
    return vf
