"""C10 unit (Verus): printer and parser of miniscripts use the SAME notation, node by node.

Oracle = the Miniscript specification's notation: NAME(ARG,...,ARG) per fragment (threshold first for thresh / multi*, then the arguments in
order), `0` / `1` bare, a run of wrapper letters a s c t d v j n l u followed by `:`, and the sugar list  pk(K) = c:pk_k(K), pkh(K) = c:pk_h(K),
and_n(X,Y) = andor(X,Y,0), t:X = and_v(X,1), l:X = or_i(0,X), u:X = or_i(X,0).  It is written down twice, independently:
    printer's side   `frag(t)` + `display_children(t)` (table FRAGS / oracle of units/c19_ord.py, imported) and `ntn(t)`: the token sequence
                     Name | WrapChar | Colon | Open | Close | Comma | Key | Num | Hash ... of a fragment (tokens = Tok::Str / Tok::Disp);
    reader's side    `denote(NAME, args)`: the VALUE a name applied to written arguments stands for, `wrap_tree(letters, x)` for wrapper runs.
Values are compared by `atree` (fragment kind, thresholds, keys, hashes, lock times, sub-expressions in place) = what PartialEq of Miniscript decides.

Part 1  PRINTER  src/miniscript/display.rs: `Terminal::fragment_name`, `is_wrapper`, `DisplayNode::{as_node, nary_len, nary_index}` against frag /
        is_wrap_frag / display_children; the body of the `for item in ..verbose_pre_order_iter()` loop of `conditional_fmt` verbatim as
        `conditional_fmt_step` with `f.write_str` / `fmt::Display::fmt` appending to a ghost token log: one visit (node, k children done) writes
        step_toks = its share of the notation; lemma `printed_is_notation`: the shares in verbose pre-order add up to `ntn(t)`.
Part 2  PARSER   the HEAD of `impl FromTree for Miniscript { fn from_tree }` in src/miniscript/mod.rs (everything before what units/c12_from_tree.py
        verifies): the arm table (one case per name of the notation: `from_tree_step__<Frag>.builds_what_the_name_denotes`), the nested helper
        `binary` (one instance per call site), the wrapper loop (`from_tree_wrap_step.letter_<c>_builds_<Frag>`, `from_tree_wrap_loop`), the two
        closure shapes of verify_threshold, `verify_terminal_parent / verify_after / verify_older` with the value they hand on, the list of names
        the reader knows (`from_tree_name_known`), and the result stack: `from_tree_head` = the loop as a verified index loop with
        INVARIANT stack.len() == mpending(i); no `pop().unwrap()`, `parent().unwrap()`, `assert_eq!(stack.len(), 1)` can fire (C11).
Part 3  ROUND TRIP (spec level, machine-checked): `printed_form_denotes_the_node`: denote(frag(t), display_children(t)) == atree(t) for every
        fragment kind incl. all sugar; `roundtrip_node`; `printed_name_selects_one_arm` (names pairwise different: c19_ord's frag_names_distinct);
        `wrapper_letters_agree`.

FOUND by this unit (fixed in /repo 832b3f4e; the clauses below are red again when that commit is reverted):
    the printer wrote a bare key-hash fragment as `expr_raw_pk_h(H)` (a name the reader does not know) and c:<key hash> as `expr_raw_pkh(H)` (after the pattern
    pk_h / pkh), which the reader's arm "expr_raw_pkh" reads as the BARE fragment (type K).  Miniscript::<PublicKey, Segwitv0>::from_str_with_validation_params(
    "c:expr_raw_pkh(H)", allow_raw_pkh) was Ok(ms) with ms.to_string() == "expr_raw_pkh(H)", whose parse is Err("script has type K, which is not allowed for a
    top-level Miniscript"); "c:and_v(v:pk(K),expr_raw_pkh(H))" parsed and printed as "c:and_v(v:pk(K),expr_raw_pk_h(H))", which did not parse.  The reader's
    reading is the one the crate's tests pin, so the oracle (c19_ord FRAGS / frag / display_children, `denote` here) says: expr_raw_pkh(H) = bare RawPkH, no sugar.
    With the old printer: Terminal::fragment_name.is_notation_name_with_sugar and DisplayNode::as_node.children_are_the_notation_arguments_in_order fail.

NOT decided here (the rest of C10's text round trip for miniscripts): `expression::Tree::from_str` turns the printed punctuation back into the tree
(node name = letters + ':' + NAME, children = the arguments in order; assumed shape: wf_tree / wf_chain); Display <-> FromStr of keys, hashes, numbers
and lock times (`val_of` / `spec_from_str` / `spec_parse_num` are uninterpreted); core::fmt; that a re-parse is ACCEPTED (type check / context check
in from_ast are arbitrary verdicts here); descriptors, policies, keys.
"""
import re

from vlib.verus import VerusFile, Contract, Clause, Undecided, sub, lit, rule, drop_vis, split_fn
from vlib.extract import match_close, strip_docs, split_arms, Region
from units import _tree
from units import c19_eq as E
from units import c19_ord as O
from units import c11_policy_parse as C

NAME = "c10_notation"
ENGINE = "verus"
PROPS = ("C10", "C11")
P10 = ("C10",)
P11 = ("C11",)
P1011 = ("C10", "C11")

DISPLAY = "src/miniscript/display.rs"
MSMOD = "src/miniscript/mod.rs"
ITER = "src/iter/tree.rs"

DROPPED = [
    "conditional_fmt: the `for item in DisplayNode::Node(initial_type, self).verbose_pre_order_iter()` loop and the choice of `initial_type` are dropped; the loop body is cut verbatim "
    "into conditional_fmt_step(item, display_types, f) (R16, ends with `Ok(())`; a break / continue / return in the body -> UNDECIDED).  Composition: spec `vfrom` = the token image of the "
    "`verbose` oracle of units/c00_tree.py (which PROVES that VerbosePreOrderIter drains to it, with n_children_yielded / is_complete / parent as the step's precondition states); "
    "lemma printed_is_notation: vfrom(t) == ntn(t).  That DisplayNode's TreeLike::children are achildren(dabs(..)) is the as_node clause of this unit",
    "core::fmt (R7): `fmt::Formatter` -> struct with a ghost token log; `f.write_str(s)` appends Tok::Str(s); `fmt::Display::fmt(x, f)` / `fmt::Debug::fmt(x, f)` -> associated functions of "
    "marker types appending Tok::Disp(val_of(x)) / Tok::Dbg(val_of(x)) (val_of uninterpreted); only DisplayTypes::None (= Display, what is parsed back) is claimed, the Debug modes are "
    "verified for panic-freedom only",
    "R3-ref: `DisplayNode::Key(ref pk)` etc. (payload is itself a reference) -> `DisplayNode::Key(pk)`: std `impl Display for &T` forwards to T",
    "is_wrapper: `self.fragment_name().len()` -> str_len_(self.fragment_name()) (R7-std: byte length = character count for ASCII; optional: a body that decides by a `match` on the variant is verified as it stands, against the same clause)",
    "impl TreeLike for DisplayNode: as_node / nary_len / nary_index are verified as inherent methods; `Self::NaryChildren` -> `NaryChildren<'a, Pk, Ctx>` (R7), as in c19_ord",
    "Miniscript::from_tree: the TAIL (from `let ret = stack.pop().unwrap()`) is units/c12_from_tree.py's; here the HEAD: signature `fn from_tree_head(root) -> Result<Vec<Arc<Miniscript>>, Error>` "
    "= head text + the tail's first statement `assert_eq!(stack.len(), 1);` (-> assert!(a == b)) + `Ok(stack)`",
    "from_tree: `for (n, node) in root.pre_order_iter().enumerate().rev() { BODY }` -> index loop from root.rightmost_descendant_idx() down to root.index with `n = i - root.index` (R8, technique of "
    "c11_policy_parse; texts of pre_order_iter / next_back checked), BODY verbatim in from_tree_step(n, node, &mut stack) (R16; `continue;` -> `return Ok(());`, `&mut stack` -> `stack`)",
    "from_tree: `match frag_name { \"lit\" => A, .., x => D }` -> `(if frag_name == \"lit\" { A } else .. else { let x = frag_name; D })` in arm order, `matches!(s, \"a\" | \"b\")` -> `(s == \"a\" || s == \"b\")` "
    "(R17: Verus knows for a literal PATTERN only that a taken arm implies equality, not the converse; for `==` both).  The list of literal patterns alone is also emitted as "
    "from_tree_name_known (arm bodies replaced by true / false, R9)",
    "from_tree: nested `fn binary(.., termfn: fn(..) -> Terminal)` -> one instance binary__<arm> per call site with `termfn(A, B)` replaced by the call site's fourth argument applied to (A, B) "
    "(R6; a closure `|x, y| BODY` is beta-reduced to `{ let x = A; let y = B; BODY }`: arguments are evaluated left to right either way); its generics are those of the enclosing impl",
    "from_tree: `for ch in frag_wrap.bytes().rev() { BODY }` -> from_tree_wrap_loop (index loop over as_bytes(), last to first) calling from_tree_wrap_step(ch, new) = BODY verbatim (R8 + R16)",
    "from_tree: `E.map_err(From::from).map_err(Error::Parse)` -> map_err_tree_(E) (verified definition); `node.verify_X(..).map(Self::f).map_err(Error::Parse)` -> `match .. { Ok(x_) => Ok(Self::f(x_)), "
    "Err(e_) => Err(Error::Parse(e_)) }`; `node.verify_threshold(CLOSURE).map(Terminal::V).and_then(Self::from_ast)` -> `match node.verify_threshold__<shape>(..) { Ok(x_) => Self::from_ast(Terminal::V(x_)), "
    "Err(e_) => Err(e_) }` (R14: definitions of Result::map / map_err / and_then); `Self::TRUE / FALSE` -> `Self::TRUE() / FALSE()` (R12); `x.to_owned()` / `x.into()` -> stubs; `crate::` / `expression::` dropped (R7)",
    "verify_threshold: two call-site instances with the closure body inlined (R16, machinery of c11_policy_parse: ThresholdTail turns `.and_then(|t| t.translate_by_index(|_| BODY))` into an index loop): "
    "verify_threshold__pop (`|_| Ok(stack.pop().unwrap())`, stack as &mut parameter) and verify_threshold__keys (`|sub| sub.verify_terminal(\"public_key\").map_err(Error::Parse)`, generic in T); any other closure -> UNDECIDED",
    "from_tree_step is verified once per name of the notation (cases=; 27 names + `other`) under the precondition `the node's name after ':' is NAME`; the frame calls an external_body twin carrying the shared clauses",
    "Pk: FromStrKey -> Pk: MiniscriptKey (the FromStr bounds are not needed: verify_terminal::<T> is a stub returning spec_from_str::<T>(name))",
    "ASSUMED about the tree handed in: wf_tree (c11_policy_parse MODEL) + wf_chain (sibling chain of a node = the nodes naming it as parent) + node names are ASCII; ASSUMED traversal contract for the VALUE "
    "clauses: when a node is visited the results of its sub-expressions are the top entries of the stack, first child on top (children are processed right to left, each pushes one: the frame clauses "
    "entries_below_the_popped_ones_untouched + the length invariant are proved, the positional statement is not)",
]

# the Miniscript specification's wrapper letters (a s c t d v j n l u), mapped to ghost names through c19_ord's table
SPEC_WRAPPER_LETTERS = "asctdvjnlu"
FRAGS = O.FRAGS
WRAPPERS = [(n, s) for n, s in FRAGS if len(s) == 1 and s in SPEC_WRAPPER_LETTERS]


def frag_oracle_text():
    text, reveals = O.frag_oracle()
    marker = "// label of a display node"
    if marker not in text or len(WRAPPERS) != len(SPEC_WRAPPER_LETTERS):
        raise Undecided("c19_ord.frag_oracle changed shape (marker / wrapper names)")
    return text.split(marker)[0], reveals


def notation_oracle():
    is_wrap = " || ".join("f is %s" % n for n, _ in WRAPPERS)
    wbyte = "\n".join("        Frag::%s => %du8," % (n, ord(s)) for n, s in WRAPPERS)
    wfrag = "\n".join("        %du8 => Some(Frag::%s)," % (ord(s), n) for n, s in WRAPPERS)
    return r"""
// ================================================================================================================
// ORACLE: the Miniscript text notation (specification, column "Miniscript fragment" + the syntactic sugar list)
//    NAME(ARG,...,ARG)                 a fragment; `0` and `1` have no argument list
//    W1..Wn:X                          a run of wrappers a s c t d v j n l u applied to X, outermost first
//    pk(K) = c:pk_k(K)    pkh(K) = c:pk_h(K)    and_n(X,Y) = andor(X,Y,0)
//    t:X = and_v(X,1)     l:X = or_i(0,X)       u:X = or_i(X,0)
// ================================================================================================================
spec fn is_wrap_frag(f: Frag) -> bool { %(is_wrap)s }
// the wrapper letter as the parser reads it (ASCII code)
spec fn wrapper_byte(f: Frag) -> u8 {
    match f {
%(wbyte)s
        _ => 0u8,
    }
}
spec fn wfrag(b: u8) -> Option<Frag> {
    match b {
%(wfrag)s
        _ => None,
    }
}
// ---- output tokens -----------------------------------------------------------------------------------------------
// the Display form of a leaf value (key, hash, number, lock time) is left uninterpreted
uninterp spec fn val_of<T>(x: T) -> int;
ghost enum Tok { Str(Seq<char>), Disp(int), Dbg(int), Type }
spec fn t_name(f: Frag) -> Tok { Tok::Str(frag_str(f)@) }      // Name(str) / WrapChar(c)
spec fn t_colon() -> Tok { Tok::Str(":"@) }
spec fn t_open() -> Tok { Tok::Str("("@) }
spec fn t_close() -> Tok { Tok::Str(")"@) }
spec fn t_comma() -> Tok { Tok::Str(","@) }
""" % dict(is_wrap=is_wrap, wbyte=wbyte, wfrag=wfrag)


def lemma_frag_facts(reveals):
    lens = "\n".join('        frag_str(Frag::%s)@.len() == %d && frag_str(Frag::%s).is_ascii(),' % (n, len(s), n) for n, s in FRAGS)
    return r"""
// lengths of the notation's names (string-literal facts)
proof fn lemma_frag_lens()
    ensures
%s
{
    %s
}
""" % (lens, reveals)


def emit_printer(vf):
    vf.item(ITER, "enum:Tree")
    vf.item(DISPLAY, "enum:DisplayNode", rewrites=[lit("R7", "crate::AbsLockTime", "AbsLockTime"), lit("R7", "crate::RelLockTime", "RelLockTime")])
    vf.item(DISPLAY, "enum:NaryChildren")
    vf.raw(O.DISPLAY_ABS)
    vf.raw("""
// std: str::len is the length in bytes; for an ASCII string that is the number of characters
#[verifier::external_body]
fn str_len_(s: &str) -> (r: usize) ensures s.is_ascii() ==> r == s@.len() { s.len() }
""")
    vf.trust("str_len_ (external_body) for `fragment_name().len()`", "std: str::len counts bytes; one byte per character for ASCII strings")
    with vf.block("impl<Pk: MiniscriptKey, Ctx: ScriptContext> Miniscript<Pk, Ctx>"):
        vf.fn(MSMOD, "impl:Miniscript<Pk, Ctx>/fn:as_inner", qual="Miniscript", props=P11,
              contract=Contract(ensures=[Clause("as_inner", (), "*r == self.node")]))
    with vf.block("impl<Pk: MiniscriptKey, Ctx: ScriptContext> Terminal<Pk, Ctx>"):
        vf.fn(DISPLAY, "impl:Terminal<Pk, Ctx>/fn:fragment_name", qual="Terminal", props=PROPS,
              contract=Contract(ensures=[Clause("is_notation_name_with_sugar", P10, "r == frag_str(frag(*self))")]))
        vf.fn(DISPLAY, "impl:Terminal<Pk, Ctx>/fn:is_wrapper", qual="Terminal", props=PROPS,
              rewrites=[sub("R7-std", r"\b(\w+)\.fragment_name\(\)\.len\(\)", r"str_len_(\1.fragment_name())", required=False),   # absent when is_wrapper is a `match` on the variant
                        C.ghost_at_body_start("proof { lemma_frag_lens(); }")],
              contract=Contract(ensures=[Clause("exactly_the_wrapper_letters", P10, "r == is_wrap_frag(frag(*self))")]))
    nary = lit("R7", "Self::NaryChildren", "NaryChildren<'a, Pk, Ctx>")
    with vf.block("impl<'a, Pk: MiniscriptKey, Ctx: ScriptContext> DisplayNode<'a, Pk, Ctx>"):
        vf.fn(DISPLAY, "impl:TreeLike for DisplayNode<'a, Pk, Ctx>/fn:nary_len", qual="DisplayNode", props=PROPS, rewrites=[nary],
              contract=Contract(requires=["nary_view(*tc).len() <= usize::MAX"],
                                ensures=[Clause("k_plus_arguments", P10, "r == nary_view(*tc).len()")]))
        vf.fn(DISPLAY, "impl:TreeLike for DisplayNode<'a, Pk, Ctx>/fn:nary_index", qual="DisplayNode", props=PROPS, rewrites=[nary],
              contract=Contract(requires=["idx < nary_view(tc).len()"],
                                ensures=[Clause("k_first_then_arguments_in_order", P10, "dabs(r) == nary_view(tc)[idx as int]")]))
        vf.fn(DISPLAY, "impl:TreeLike for DisplayNode<'a, Pk, Ctx>/fn:as_node", qual="DisplayNode", props=PROPS, rewrites=[nary],
              contract=Contract(ensures=[
                  Clause("children_are_the_notation_arguments_in_order", P10, "tree_view(r) =~= achildren(dabs(*self))")]))


FMT_STUBS = r"""
// ---- core::fmt reduced to a token log (R7): `f.write_str(s)` appends Str(s), `fmt::Display::fmt(x, f)` appends the Display form of x ----
mod fmt {
    use super::*;
    pub(crate) struct Error { pub(crate) opaque: u8 }
    pub(crate) type Result = core::result::Result<(), Error>;
    pub(crate) struct Formatter { pub(crate) log: Ghost<Seq<Tok>> }
    impl Formatter {
        #[verifier::external_body]
        pub(crate) fn write_str(&mut self, s: &str) -> (r: Result)
            ensures r is Ok ==> final(self).log@ == old(self).log@.push(Tok::Str(s@)),
        { unimplemented!() }
    }
    // `fmt::Display::fmt(x, f)` / `fmt::Debug::fmt(x, f)`: the trait's method as an associated function of a marker type
    pub(crate) struct Display { opaque: u8 }
    pub(crate) struct Debug { opaque: u8 }
    impl Display {
        #[verifier::external_body]
        pub(crate) fn fmt<T>(x: &T, f: &mut Formatter) -> (r: Result)
            ensures r is Ok ==> final(f).log@ == old(f).log@.push(Tok::Disp(val_of::<T>(*x))),
        { unimplemented!() }
    }
    impl Debug {
        #[verifier::external_body]
        pub(crate) fn fmt<T>(x: &T, f: &mut Formatter) -> (r: Result)
            ensures r is Ok ==> final(f).log@ == old(f).log@.push(Tok::Dbg(val_of::<T>(*x))),
        { unimplemented!() }
    }
}
"""

STEP_TOKS = r"""
// ---- what one visit of the verbose pre-order traversal (node, k = number of children already printed) contributes ----
spec fn parent_wraps<'a, Pk: MiniscriptKey, Ctx: ScriptContext>(p: Option<DisplayNode<'a, Pk, Ctx>>) -> bool {
    p matches Some(DisplayNode::Node(_, t)) && is_wrap_frag(frag(*t))
}
spec fn leaf_tok<Pk: MiniscriptKey, Ctx: ScriptContext>(a: ADisp<Pk, Ctx>) -> Tok {
    match a {
        ADisp::K(k) => Tok::Disp(val_of(k)), ADisp::Key(k) => Tok::Disp(val_of(k)), ADisp::RawKeyHash(h) => Tok::Disp(val_of(h)),
        ADisp::After(x) => Tok::Disp(val_of(x)), ADisp::Older(x) => Tok::Disp(val_of(x)),
        ADisp::Sha256(h) => Tok::Disp(val_of(h)), ADisp::Hash256(h) => Tok::Disp(val_of(h)),
        ADisp::Ripemd160(h) => Tok::Disp(val_of(h)), ADisp::Hash160(h) => Tok::Disp(val_of(h)),
        ADisp::Node(_) => arbitrary(),
    }
}
spec fn step_toks<Pk: MiniscriptKey, Ctx: ScriptContext>(a: ADisp<Pk, Ctx>, pw: bool, k: int) -> Seq<Tok> {
    match a {
        ADisp::Node(t) => {
            let f = frag(t);
            let n = display_children(t).len();
            if is_wrap_frag(f) { if k == 0 { seq![t_name(f)] } else { Seq::empty() } }
            else if k == 0 { (if pw { seq![t_colon()] } else { Seq::empty() }) + seq![t_name(f)] + (if n > 0 { seq![t_open()] } else { Seq::empty() }) }
            else if k == n { seq![t_close()] }
            else { seq![t_comma()] }
        },
        _ => if k == 0 { seq![leaf_tok(a)] } else { Seq::empty() },
    }
}
"""


def emit_fmt_step(vf):
    vf.raw(FMT_STUBS, keep_vis=True)
    vf.trust("mod fmt { Formatter { log }, write_str, Display::fmt, Debug::fmt } (external_body)",
             "core::fmt is outside Verus: the formatter is modelled as the log of what was written; `write_str(s)` writes s, `Display::fmt(x, f)` writes the Display form of x "
             "(an uninterpreted value val_of(x)); `impl Display for &T` forwards to T")
    vf.item(DISPLAY, "enum:DisplayTypes")
    vf.item(ITER, "struct:PreOrderIterItem", rewrites=[C.STRIP_DERIVE])
    vf.raw(STEP_TOKS)
    reg = vf.repo.at(DISPLAY, "impl:Terminal<Pk, Ctx>/fn:conditional_fmt/block:for item in")
    body = drop_vis(strip_docs(reg.text))
    if re.search(r"\b(break|continue|return)\b", body):
        raise Undecided("conditional_fmt: loop body with break / continue / return cannot be lambda-lifted")
    text = ("fn conditional_fmt_step<'a, Pk: MiniscriptKey, Ctx: ScriptContext>(item: PreOrderIterItem<DisplayNode<'a, Pk, Ctx>>, display_types: DisplayTypes, "
            "f: &mut fmt::Formatter) -> fmt::Result {\n    proof { lemma_frag_lens(); }%s\n    Ok(())\n}" % body)
    # R3-ref: `Variant(ref x)` on a payload that is itself a reference -> `Variant(x)` (std: Display / Debug for &T forward to T)
    r3 = sub("R3-ref", r"DisplayNode::(Key|RawKeyHash|After|Older|Sha256|Hash256|Ripemd160|Hash160)\(ref (\w+)\)", r"DisplayNode::\1(\2)")
    text = vf._apply(text, [r3], "conditional_fmt/loop body")
    vf.rewrites_used.append("R16-loop-body @ impl:Terminal<Pk, Ctx>/fn:conditional_fmt")
    KIDS = "achildren(dabs(item.node)).len()"
    vf.fn_text("Terminal::conditional_fmt_step", text, Contract(
        requires=["item.n_children_yielded <= %s" % KIDS, "item.is_complete == (item.n_children_yielded == %s)" % KIDS],
        ensures=[Clause("display_writes_this_visits_share_of_the_notation", P10,
                        "r is Ok && display_types is None ==> final(f).log@ =~= old(f).log@ + step_toks(dabs(item.node), parent_wraps(item.parent), item.n_children_yielded as int)")],
        canary=False), PROPS, file=DISPLAY, lines=reg.lines(), anchor="impl:Terminal<Pk, Ctx>/fn:conditional_fmt/loop body")


# =====================================================================================================================
# PARSER SIDE
# =====================================================================================================================
EXPR = C.EXPR
EXPR_ERR = C.EXPR_ERR
THRESH = _tree.THRESH

P_ERRORS = r"""
// ---- error types: payloads are only moved around (reduced to the variants the extracted text constructs) -----------------------
struct ParseNumError { opaque: u8 }
struct AbsLockTimeError { opaque: u8 }
struct RelLockTimeError { opaque: u8 }
struct FromStrError { opaque: u8 }
enum ParseTreeError { UnknownName { name: String }, Other }
enum ParseError { AbsoluteLockTime(AbsLockTimeError), RelativeLockTime(RelLockTimeError), FromStr(FromStrError), Num(ParseNumError), Tree(ParseTreeError) }
enum Error { Parse(ParseError), Threshold(ThresholdError), ParseThreshold(ParseThresholdError), UnknownWrapper(char), Other }
impl From<ParseThresholdError> for Error { fn from(e: ParseThresholdError) -> Self { Self::ParseThreshold(e) } }
impl vstd::std_specs::convert::FromSpecImpl<ParseThresholdError> for Error {
    open spec fn obeys_from_spec() -> bool { true }
    closed spec fn from_spec(e: ParseThresholdError) -> Self { Error::ParseThreshold(e) }
}
#[verifier::external_body] fn str_to_owned_(s: &str) -> String { unimplemented!() }
#[verifier::external_body] fn u8_into_char_(x: u8) -> char { unimplemented!() }
// R14: `X.map_err(From::from).map_err(Error::Parse)` on a Result<T, ParseTreeError> (definition of map_err + From<ParseTreeError> for ParseError; verified)
fn map_err_tree_<T>(x: Result<T, ParseTreeError>) -> (r: Result<T, Error>)
    ensures x is Ok <==> r is Ok, x is Ok ==> r->Ok_0 == x->Ok_0,
        x matches Err(e) ==> r == Err::<T, Error>(Error::Parse(ParseError::Tree(e))),
{ match x { Ok(v) => Ok(v), Err(e) => Err(Error::Parse(ParseError::Tree(e))) } }
// the value a string denotes for a FromStr type (keys, hashes): uninterpreted
uninterp spec fn spec_from_str<T>(s: Seq<char>) -> Option<T>;
uninterp spec fn spec_abs_from_consensus(n: u32) -> Option<AbsLockTime>;
uninterp spec fn spec_rel_from_consensus(n: u32) -> Option<RelLockTime>;
impl AbsLockTime {
    #[verifier::external_body] fn from_consensus(n: u32) -> (r: Result<AbsLockTime, AbsLockTimeError>)
        ensures r matches Ok(v) ==> spec_abs_from_consensus(n) == Some(v) { unimplemented!() }
}
impl RelLockTime {
    #[verifier::external_body] fn from_consensus(n: u32) -> (r: Result<RelLockTime, RelLockTimeError>)
        ensures r matches Ok(v) ==> spec_rel_from_consensus(n) == Some(v) { unimplemented!() }
}
"""

P_THRESH = r"""
impl<T, const MAX: usize> Threshold<T, MAX> {
    // the threshold invariant (doc comment of struct Threshold): 1 <= k <= n, and n <= MAX when MAX > 0
    spec fn inv(&self) -> bool { 1 <= self.k <= self.inner@.len() && (MAX > 0 ==> self.inner@.len() <= MAX) }
}
"""

SEP_SPEC = r"""
// name_separated(sep): (what precedes the first separator, what follows it); the whole name if there is none
spec fn sepname(s: Seq<char>, sep: char) -> Seq<char> {
    if !s.contains(sep) { s } else { s.subrange(s.index_of(sep) + 1, s.len() as int) }
}
spec fn seppref(s: Seq<char>, sep: char) -> Seq<char> {
    if !s.contains(sep) { Seq::empty() } else { s.subrange(0, s.index_of(sep)) }
}
// ASCII: one byte per character
spec fn ascii_bytes(s: Seq<char>) -> Seq<u8> { Seq::new(s.len(), |i: int| s[i] as u8) }
"""


def other_contract(other, fq):
    """the contract another unit PROVES for `fq` (same Clause objects)"""
    f = other.functions.get(fq)
    if f is None:
        raise Undecided("%s no longer contracts %s" % (other.unit, fq))
    items = [kc for _, kc in sorted(f["clauses"].items())]
    return Contract(requires=[c for k, c in items if k == "requires"], ensures=[c for k, c in items if k == "ensures"], canary=False)


def emit_tree(vf, repo):
    c11 = C.build(repo)
    vf.item(THRESH, "struct:ThresholdError", rewrites=[C.STRIP_DERIVE])
    vf.item(EXPR_ERR, "enum:ParseThresholdError", rewrites=[C.STRIP_DERIVE])
    vf.raw(P_ERRORS)
    vf.trust("struct ParseNumError / AbsLockTimeError / RelLockTimeError / FromStrError (opaque), enums ParseTreeError / ParseError / Error reduced to the variants constructed, "
             "From<ParseThresholdError> for Error + FromSpecImpl glue, str_to_owned_ / u8_into_char_ (external_body, arbitrary result)", "error payloads are only moved around")
    vf.trust("uninterp spec_from_str::<T> / spec_abs_from_consensus / spec_rel_from_consensus; AbsLockTime / RelLockTime::from_consensus (external_body: Ok(v) ==> v is that value)",
             "what a key / hash string denotes (T::from_str) and which numbers are lock times is left uninterpreted (k_locktime decides the lock-time constructors)")
    vf.raw(P_THRESH)
    with vf.block("impl<T, const MAX: usize> Threshold<T, MAX>"):
        vf.fn(THRESH, "impl:Threshold<T, MAX>/fn:new", qual="Threshold", assumed=True, contract=other_contract(c11, "Threshold::new"))
    vf.trust("Threshold::new (external_body): contract proved in units/c11_policy_parse.py (same Clause objects)", "proved on the real text there")
    vf.item(EXPR, "enum:Parens", rewrites=[C.COPY_DERIVE])
    vf.item(EXPR, "struct:TreeNode", rewrites=[C.STRIP_DERIVE])
    vf.item(EXPR, "struct:TreeIterItem", rewrites=[C.COPY_DERIVE])
    vf.item(EXPR, "struct:DirectChildIterator")
    vf.raw(C.MODEL)
    vf.trust("wf_tree (spec): ASSUMED shape of the TreeNode array behind every TreeIterItem (precondition `valid()`), text of units/c11_policy_parse.py MODEL",
             "what Tree::from_str builds (pre-order array, parent_idx / n_children / sibling chains consistent); not verified")
    for l in C.MODEL_LEMMAS:
        C._register(vf, l)
    vf.raw(C.TREE_SPEC)
    for l in C.TREE_LEMMAS:
        C._register(vf, l)
    vf.trust("trait ChildMapper (text of units/c11_policy_parse.py TREE_SPEC; not used here)", "closure conversion of verify_threshold's FnMut argument")
    vf.trust("uninterp spec_parse_num_nonzero", "the number a string denotes is left uninterpreted")
    vf.raw(SEP_SPEC)
    NS, I = "self.nodes@", "self.index as int"
    with vf.block("impl<'s> DirectChildIterator<'s>"):
        vf.fn(EXPR, "impl:Iterator for DirectChildIterator<'s>/fn:next", qual="DirectChildIterator", assumed=True,
              rewrites=[sub("R7-assoc", r"Option<Self::Item>", "Option<TreeIterItem<'s>>")],
              contract=other_contract(c11, "DirectChildIterator::next"))
    with vf.block("impl<'s> TreeIterItem<'s>"):
        for f in ("name", "n_children", "parent", "is_first_child", "first_child", "children", "rightmost_descendant_idx"):
            vf.fn(EXPR, "impl:TreeIterItem<'s>/fn:%s" % f, qual="TreeIterItem", assumed=True, contract=other_contract(c11, "TreeIterItem::%s" % f))
        vf.raw("""
    // R8-range stub of verify_n_children (RangeInclusive): Ok exactly when the number of children is in the range
    #[verifier::external_body] fn verify_n_children_(self, description: &'static str, lo: usize, hi: usize) -> (r: Result<(), ParseTreeError>)
        requires self.valid(), ensures r is Ok <==> lo <= nch(self.nodes@, self.index as int) <= hi { unimplemented!() }
""")
        vf.fn(EXPR, "impl:TreeIterItem<'s>/fn:name_separated", qual="TreeIterItem", assumed=True, contract=Contract(requires=["self.valid()"], ensures=[
            Clause("def", (), "r matches Ok(p) ==> p.1@ == sepname(%s[%s].name@, separator) && (p.0 is Some <==> %s[%s].name@.contains(separator)) "
                              "&& (p.0 matches Some(w) ==> w@ == seppref(%s[%s].name@, separator) && w.is_ascii())" % (NS, I, NS, I, NS, I))], canary=False))
        vf.fn(EXPR, "impl:TreeIterItem<'s>/fn:verify_terminal", qual="TreeIterItem", assumed=True, rewrites=[C.DROP_FROMSTR_BOUND], contract=Contract(requires=["self.valid()"], ensures=[
            Clause("def", (), "r matches Ok(v) ==> nch(%s, %s) == 0 && spec_from_str::<T>(%s[%s].name@) == Some(v)" % (NS, I, NS, I))], canary=False))
        vf.fn(EXPR, "impl:TreeIterItem<'s>/fn:verify_no_curly_braces", qual="TreeIterItem", assumed=True, contract=Contract(requires=["self.valid()"], canary=False))
    vf.trust("DirectChildIterator::next, TreeIterItem::{name, n_children, parent, is_first_child, first_child, children, rightmost_descendant_idx}, parse_num (external_body): "
             "contracts proved in units/c11_policy_parse.py (same Clause objects, taken from that unit's build)", "proved on the real text there")
    vf.trust("TreeIterItem::verify_n_children_ (external_body)", "verify_n_children's text: Ok iff `n_children.contains(&self.n_children())`; std: (A..=B).contains(x) <=> A <= x <= B")
    vf.trust("TreeIterItem::name_separated (external_body): Ok((prefix, name)) ==> name follows the first separator (whole name when there is none), prefix precedes it and exists iff the separator occurs; the prefix is ASCII",
             "its text: splitn(3, separator): one piece without separator, (prefix, rest) for one occurrence, Err for more; Tree::from_str rejects non-ASCII input")
    vf.trust("TreeIterItem::verify_terminal::<T> (external_body): Ok(v) ==> no children and v is what T::from_str gives for the name (spec_from_str, uninterpreted)",
             "its text: verify_n_children(description, 0..=0)?; T::from_str(self.name())")
    vf.trust("TreeIterItem::verify_no_curly_braces (external_body, arbitrary result)", "loop over the nodes reading `parens`; nothing assumed")
    vf.fn(EXPR, "fn:parse_num", assumed=True, contract=other_contract(c11, "parse_num"))
    # real text, with the VALUE the arms hand to the constructors
    LEAF = "nch(%s, %s) == 1 && nch(%s, %s + 1) == 0" % (NS, I, NS, I)
    CHILD = "%s[%s + 1].name@" % (NS, I)
    COMMON = [C.RANGE_INCL, C.ETA, C.DROP_FROMSTR_BOUND]
    with vf.block("impl<'s> TreeIterItem<'s>"):
        vf.fn(EXPR, "impl:TreeIterItem<'s>/fn:verify_terminal_parent", qual="TreeIterItem", props=PROPS, rewrites=COMMON, contract=Contract(requires=["self.valid()"], ensures=[
            Clause("one_child_which_is_a_leaf", P11, "r is Ok ==> %s" % LEAF),
            Clause("value_is_parsed_from_the_childs_name", P10, "r matches Ok(v) ==> spec_from_str::<T>(%s) == Some(v)" % CHILD)]))
        vf.fn(EXPR, "impl:TreeIterItem<'s>/fn:verify_after", qual="TreeIterItem", props=PROPS, rewrites=COMMON + [C.AND_THEN_TAIL], contract=Contract(requires=["self.valid()"], ensures=[
            Clause("one_child_which_is_a_leaf", P11, "r is Ok ==> %s" % LEAF),
            Clause("value_is_the_number_in_the_child", P10, "r matches Ok(v) ==> spec_parse_num(%s) matches Ok(n) && spec_abs_from_consensus(n) == Some(v)" % CHILD)]))
        vf.fn(EXPR, "impl:TreeIterItem<'s>/fn:verify_older", qual="TreeIterItem", props=PROPS, rewrites=COMMON + [C.AND_THEN_TAIL], contract=Contract(requires=["self.valid()"], ensures=[
            Clause("one_child_which_is_a_leaf", P11, "r is Ok ==> %s" % LEAF),
            Clause("value_is_the_number_in_the_child", P10, "r matches Ok(v) ==> spec_parse_num(%s) matches Ok(n) && spec_rel_from_consensus(n) == Some(v)" % CHILD)]))
    return c11


# =====================================================================================================================
# PARSER ORACLE + ROUND TRIP
# =====================================================================================================================
UNARY_W = ["Alt", "Swap", "Check", "DupIf", "Verify", "NonZero", "ZeroNotEqual"]
BIN = ["AndV", "AndB", "OrB", "OrD", "OrC", "OrI"]
HASHES = ["Sha256", "Hash256", "Ripemd160", "Hash160"]
MULTIS = ["Multi", "SortedMulti", "MultiA", "SortedMultiA"]
NAME2FRAG = {s: n for n, s in FRAGS}
NONWRAP = [(n, s) for n, s in FRAGS if (n, s) not in WRAPPERS]


def denote_oracle():
    V = {v: i for i, v in enumerate(E.VARIANTS)}
    rows = []
    def row(f, val, comment=None):
        if comment:
            rows.append("        // " + comment)
        rows.append("        Frag::%s => %s," % (f, val))
    leaf = lambda v, p="Payload::Plain": "aleaf(%d, %s)" % (V[v], p)
    X = lambda i: "av[%d]->Node_0" % i
    row("True", leaf("True"), "0  1")
    row("False", leaf("False"))
    row("PkK", leaf("PkK", "Payload::Key(av[0]->Key_0)"), "pk_k(KEY) pk_h(KEY) older(NUM) after(NUM) sha256(HASH) hash256(HASH) ripemd160(HASH) hash160(HASH)")
    row("PkH", leaf("PkH", "Payload::Key(av[0]->Key_0)"))
    row("After", leaf("After", "Payload::After(av[0]->After_0)"))
    row("Older", leaf("Older", "Payload::Older(av[0]->Older_0)"))
    for v in HASHES:
        row(v, leaf(v, "Payload::%s(av[0]->%s_0)" % (v, v)))
    row("RawPkH", leaf("RawPkH", "Payload::RawHash(av[0]->RawKeyHash_0)"),
        "not in the specification: the library's notation for a key given by its hash only: expr_raw_pkh(HASH) is the BARE fragment (type K, like pk_h); it has no sugar, "
        "c: over it is written as an ordinary wrapper (reading pinned by the crate's own tests: `c:expr_raw_pkh(H)` is Check(RawPkH))")
    for i, v in enumerate(UNARY_W):
        row(v, "anode1(%d, %s)" % (V[v], X(0)), "wrappers  a:X s:X c:X d:X v:X j:X n:X" if i == 0 else None)
    row("Pk", "anode1(%d, %s)" % (V["Check"], leaf("PkK", "Payload::Key(av[0]->Key_0)")), "pk(KEY) = c:pk_k(KEY)   pkh(KEY) = c:pk_h(KEY)")
    row("Pkh", "anode1(%d, %s)" % (V["Check"], leaf("PkH", "Payload::Key(av[0]->Key_0)")))
    row("T", "anode2(%d, %s, %s)" % (V["AndV"], X(0), leaf("True")), "t:X = and_v(X,1)   l:X = or_i(0,X)   u:X = or_i(X,0)   and_n(X,Y) = andor(X,Y,0)")
    row("L", "anode2(%d, %s, %s)" % (V["OrI"], leaf("False"), X(0)))
    row("U", "anode2(%d, %s, %s)" % (V["OrI"], X(0), leaf("False")))
    row("AndN", "anode3(%d, %s, %s, %s)" % (V["AndOr"], X(0), X(1), leaf("False")))
    for i, v in enumerate(BIN):
        row(v, "anode2(%d, %s, %s)" % (V[v], X(0), X(1)), "and_v(X,Y) and_b(X,Y) or_b(X,Z) or_d(X,Z) or_c(X,Z) or_i(X,Z) andor(X,Y,Z)" if i == 0 else None)
    row("AndOr", "anode3(%d, %s, %s, %s)" % (V["AndOr"], X(0), X(1), X(2)))
    row("Thresh", "ATree { v: %d, payload: Payload::KN(av[0]->K_0, (av.len() - 1) as nat), kids: Seq::new((av.len() - 1) as nat, |i: int| av[i + 1]->Node_0) }" % V["Thresh"],
        "thresh(k,X1,...,Xn)   multi(k,KEY1,...,KEYn) sortedmulti(..) multi_a(..) sortedmulti_a(..): the threshold first, then the arguments in order")
    for v in MULTIS:
        row(v, "aleaf(%d, Payload::Keys(av[0]->K_0, Seq::new((av.len() - 1) as nat, |i: int| av[i + 1]->Key_0)))" % V[v])
    if sorted(x.split("::")[1].split(" ")[0] for x in rows if "=>" in x) != sorted(n for n, _ in FRAGS):
        raise Undecided("denote oracle does not cover c19_ord.FRAGS")
    return r"""
// ---- "equal value": same fragments, thresholds, keys, hashes, lock times, sub-expressions in the same positions (what
//      PartialEq of Terminal / Miniscript decides; the cached type annotations are not part of it) -----------------------
// v = the fragment kind (index of the Terminal variant, c19_eq's vidx), payload = c19_eq's node-local payload
ghost struct ATree<Pk: MiniscriptKey> { v: int, payload: Payload<Pk>, kids: Seq<ATree<Pk>> }
spec fn atree<Pk: MiniscriptKey, Ctx: ScriptContext>(t: Terminal<Pk, Ctx>) -> ATree<Pk>
    decreases t
{
    let kids = match t {
        Terminal::Alt(x) | Terminal::Swap(x) | Terminal::Check(x) | Terminal::DupIf(x) | Terminal::Verify(x)
        | Terminal::NonZero(x) | Terminal::ZeroNotEqual(x) => seq![atree(x.node)],
        Terminal::AndV(x, y) | Terminal::AndB(x, y) | Terminal::OrB(x, y) | Terminal::OrD(x, y) | Terminal::OrC(x, y)
        | Terminal::OrI(x, y) => seq![atree(x.node), atree(y.node)],
        Terminal::AndOr(x, y, z) => seq![atree(x.node), atree(y.node), atree(z.node)],
        Terminal::Thresh(th) => Seq::new(th.inner@.len(), |i: int| if 0 <= i < th.inner@.len() { atree(th.inner@[i].node) } else { arbitrary() }),
        _ => Seq::empty(),
    };
    ATree { v: vidx(t), payload: payload(t), kids: kids }
}
spec fn same_value<Pk: MiniscriptKey, Ctx: ScriptContext>(a: Terminal<Pk, Ctx>, b: Terminal<Pk, Ctx>) -> bool { atree(a) == atree(b) }
// a written argument: a sub-expression (by value), the threshold, a key, a hash, a lock time
ghost enum AArg<Pk: MiniscriptKey> {
    Node(ATree<Pk>), K(usize), Key(Pk), RawKeyHash(hash160::Hash), After(AbsLockTime), Older(RelLockTime),
    Sha256(Pk::Sha256), Hash256(Pk::Hash256), Ripemd160(Pk::Ripemd160), Hash160(Pk::Hash160),
}
spec fn aarg<Pk: MiniscriptKey, Ctx: ScriptContext>(a: ADisp<Pk, Ctx>) -> AArg<Pk> {
    match a {
        ADisp::Node(t) => AArg::Node(atree(t)), ADisp::K(k) => AArg::K(k), ADisp::Key(k) => AArg::Key(k), ADisp::RawKeyHash(h) => AArg::RawKeyHash(h),
        ADisp::After(x) => AArg::After(x), ADisp::Older(x) => AArg::Older(x), ADisp::Sha256(h) => AArg::Sha256(h), ADisp::Hash256(h) => AArg::Hash256(h),
        ADisp::Ripemd160(h) => AArg::Ripemd160(h), ADisp::Hash160(h) => AArg::Hash160(h),
    }
}
spec fn aview<Pk: MiniscriptKey, Ctx: ScriptContext>(s: Seq<ADisp<Pk, Ctx>>) -> Seq<AArg<Pk>> { Seq::new(s.len(), |i: int| aarg(s[i])) }
spec fn aleaf<Pk: MiniscriptKey>(v: int, p: Payload<Pk>) -> ATree<Pk> { ATree { v: v, payload: p, kids: Seq::empty() } }
spec fn anode1<Pk: MiniscriptKey>(v: int, x: ATree<Pk>) -> ATree<Pk> { ATree { v: v, payload: Payload::Plain, kids: seq![x] } }
spec fn anode2<Pk: MiniscriptKey>(v: int, x: ATree<Pk>, y: ATree<Pk>) -> ATree<Pk> { ATree { v: v, payload: Payload::Plain, kids: seq![x, y] } }
spec fn anode3<Pk: MiniscriptKey>(v: int, x: ATree<Pk>, y: ATree<Pk>, z: ATree<Pk>) -> ATree<Pk> { ATree { v: v, payload: Payload::Plain, kids: seq![x, y, z] } }

// ================================================================================================================
// ORACLE (reader's side): the value  NAME(ARG,...,ARG)  denotes -- Miniscript specification, fragment table and the
// list of syntactic sugar.  `av`: the arguments as written, left to right.  (numbers = E.VARIANTS positions: %(vars)s)
// ================================================================================================================
spec fn denote<Pk: MiniscriptKey>(f: Frag, av: Seq<AArg<Pk>>) -> ATree<Pk> {
    match f {
%(rows)s
    }
}
// W1..Wn:X -- a run of wrapper letters, outermost first, applied to X
spec fn wrap_tree<Pk: MiniscriptKey>(ws: Seq<u8>, x: ATree<Pk>) -> ATree<Pk> decreases ws.len() {
    if ws.len() == 0 { x } else { denote(wfrag(ws[0])->Some_0, seq![AArg::Node(wrap_tree(ws.drop_first(), x))]) }
}
spec fn wrappers_known(ws: Seq<u8>) -> bool { forall|j: int| 0 <= j < ws.len() ==> wfrag(#[trigger] ws[j]) is Some }
""" % dict(rows="\n".join(rows), vars=" ".join("%d=%s" % (i, v) for v, i in sorted(V.items(), key=lambda x: x[1])))


def roundtrip_lemmas():
    MS = "Arc<Miniscript<Pk, Ctx>>"
    N = lambda e: "ADisp::<Pk, Ctx>::Node(%s.node)" % e
    # (frag the printer chooses, params, condition, constructor, the argument list the printer shows, extra hints)
    cases = [("True", "", "true", "Terminal::<Pk, Ctx>::True", [], ""), ("False", "", "true", "Terminal::<Pk, Ctx>::False", [], "")]
    for v, ty, a in (("PkK", "Pk", "Key"), ("PkH", "Pk", "Key"), ("RawPkH", "hash160::Hash", "RawKeyHash"), ("After", "AbsLockTime", "After"), ("Older", "RelLockTime", "Older"),
                     ("Sha256", "Pk::Sha256", "Sha256"), ("Hash256", "Pk::Hash256", "Hash256"), ("Ripemd160", "Pk::Ripemd160", "Ripemd160"), ("Hash160", "Pk::Hash160", "Hash160")):
        cases.append((v, "p: %s" % ty, "true", "Terminal::<Pk, Ctx>::%s(p)" % v, ["ADisp::<Pk, Ctx>::%s(p)" % a], ""))
    for v in UNARY_W:
        if v != "Check":
            cases.append((v, "x: " + MS, "true", "Terminal::%s(x)" % v, [N("x")], ""))
    D2 = "reveal_with_fuel(atree, 2); "
    cases.append(("Pk", "x: " + MS, "x.node is PkK", "Terminal::Check(x)", ["ADisp::<Pk, Ctx>::Key(x.node->PkK_0)"], D2 + "assert(atree(x.node).kids =~= Seq::empty());"))
    cases.append(("Pkh", "x: " + MS, "x.node is PkH", "Terminal::Check(x)", ["ADisp::<Pk, Ctx>::Key(x.node->PkH_0)"], D2 + "assert(atree(x.node).kids =~= Seq::empty());"))
    cases.append(("Check", "x: " + MS, "!(x.node is PkK) && !(x.node is PkH)", "Terminal::Check(x)", [N("x")], ""))
    XY = "x: %s, y: %s" % (MS, MS)
    cases.append(("T", XY, "y.node is True", "Terminal::AndV(x, y)", [N("x")], D2 + "assert(atree(y.node).kids =~= Seq::empty());"))
    cases.append(("AndV", XY, "!(y.node is True)", "Terminal::AndV(x, y)", [N("x"), N("y")], ""))
    for v in ("AndB", "OrB", "OrD", "OrC"):
        cases.append((v, XY, "true", "Terminal::%s(x, y)" % v, [N("x"), N("y")], ""))
    cases.append(("U", XY, "y.node is False", "Terminal::OrI(x, y)", [N("x")], D2 + "assert(atree(y.node).kids =~= Seq::empty());"))
    cases.append(("L", XY, "!(y.node is False) && x.node is False", "Terminal::OrI(x, y)", [N("y")], D2 + "assert(atree(x.node).kids =~= Seq::empty());"))
    cases.append(("OrI", XY, "!(y.node is False) && !(x.node is False)", "Terminal::OrI(x, y)", [N("x"), N("y")], ""))
    XYZ = XY + ", z: " + MS
    cases.append(("AndN", XYZ, "z.node is False", "Terminal::AndOr(x, y, z)", [N("x"), N("y")], D2 + "assert(atree(z.node).kids =~= Seq::empty());"))
    cases.append(("AndOr", XYZ, "!(z.node is False)", "Terminal::AndOr(x, y, z)", [N("x"), N("y"), N("z")], ""))
    out = r"""
proof fn lemma_aview<Pk: MiniscriptKey, Ctx: ScriptContext>(s: Seq<ADisp<Pk, Ctx>>, i: int)
    requires 0 <= i < s.len(),
    ensures aview(s).len() == s.len(), aview(s)[i] == aarg(s[i]),
{}
"""
    GOAL = "denote(frag(t), aview(display_children(t))) == atree(t)"
    for f, params, cond, ctor, dc, extra in cases:
        out += ("#[verifier::spinoff_prover]\nproof fn printed_%s<Pk: MiniscriptKey, Ctx: ScriptContext>(%s)\n    requires %s,\n    ensures ({ let t = %s; frag(t) == Frag::%s && %s }),\n{\n"
                "    %s\n    let t = %s; let dc = display_children(t);\n    assert(dc =~= %s);\n    %s\n    assert(denote(frag(t), aview(dc)).kids =~= atree(t).kids);\n}\n"
                % (f, params, cond, ctor, f, GOAL, extra, ctor, ("seq![%s]" % ", ".join(dc)) if dc else "Seq::<ADisp<Pk, Ctx>>::empty()",
                   " ".join("lemma_aview(dc, %d);" % i for i in range(len(dc)))))
    nary = [("Thresh", "Threshold<%s, 0>" % MS, "Node(th.inner@[i].node)", "AArg::Node(atree(th.inner@[i].node))", "assert(denote(frag(t), aview(dc)).kids =~= atree(t).kids);")]
    for v in MULTIS:
        nary.append((v, "Threshold<Pk, %s>" % ("MAX_PUBKEYS_PER_MULTISIG" if "A" not in v else "MAX_PUBKEYS_IN_CHECKSIGADD"), "Key(th.inner@[i])", "AArg::<Pk>::Key(th.inner@[i])",
                     "assert(denote(frag(t), aview(dc)).payload->Keys_1 =~= th.inner@); assert(denote(frag(t), aview(dc)).kids =~= atree(t).kids);"))
    for f, ty, disp, arg, fin in nary:
        out += ("#[verifier::spinoff_prover]\nproof fn printed_%s<Pk: MiniscriptKey, Ctx: ScriptContext>(th: %s)\n    ensures ({ let t = Terminal::<Pk, Ctx>::%s(th); frag(t) == Frag::%s && %s }),\n{\n"
                "    let t = Terminal::<Pk, Ctx>::%s(th); let dc = display_children(t);\n"
                "    assert(dc =~= seq![ADisp::<Pk, Ctx>::K(th.k)] + Seq::new(th.inner@.len(), |i: int| ADisp::<Pk, Ctx>::%s));\n    lemma_aview(dc, 0);\n"
                "    assert forall|i: int| 0 <= i < th.inner@.len() implies aview(dc)[i + 1] == %s by { lemma_aview(dc, i + 1); }\n    %s\n}\n"
                % (f, ty, f, f, GOAL, f, disp, arg, fin))
    if sorted(c[0] for c in cases) + sorted(n[0] for n in nary) != sorted(sorted(n for n, _ in FRAGS if n not in [x[0] for x in nary])) + sorted(n[0] for n in nary):
        raise Undecided("round-trip case list does not cover c19_ord.FRAGS")
    l0 = out
    l1 = r"""
// ROUND TRIP (node level): what the printer writes for a node -- fragment_name() incl. its sugar, the arguments in the order of
// as_node() -- is read back as the same value, provided the sub-expressions are (aview: sub-expressions by value).
// One lemma per name the printer can choose (printed_<Frag>), this one dispatches.
proof fn printed_form_denotes_the_node<Pk: MiniscriptKey, Ctx: ScriptContext>(t: Terminal<Pk, Ctx>)
    ensures denote(frag(t), aview(display_children(t))) == atree(t),
{
    match t {
        Terminal::True => printed_True::<Pk, Ctx>(), Terminal::False => printed_False::<Pk, Ctx>(),
        Terminal::PkK(p) => printed_PkK::<Pk, Ctx>(p), Terminal::PkH(p) => printed_PkH::<Pk, Ctx>(p), Terminal::RawPkH(p) => printed_RawPkH::<Pk, Ctx>(p),
        Terminal::After(p) => printed_After::<Pk, Ctx>(p), Terminal::Older(p) => printed_Older::<Pk, Ctx>(p),
        Terminal::Sha256(p) => printed_Sha256::<Pk, Ctx>(p), Terminal::Hash256(p) => printed_Hash256::<Pk, Ctx>(p),
        Terminal::Ripemd160(p) => printed_Ripemd160::<Pk, Ctx>(p), Terminal::Hash160(p) => printed_Hash160::<Pk, Ctx>(p),
        Terminal::Alt(x) => printed_Alt(x), Terminal::Swap(x) => printed_Swap(x), Terminal::DupIf(x) => printed_DupIf(x), Terminal::Verify(x) => printed_Verify(x),
        Terminal::NonZero(x) => printed_NonZero(x), Terminal::ZeroNotEqual(x) => printed_ZeroNotEqual(x),
        Terminal::Check(x) => { if frag(t) is Pk { printed_Pk(x) } else if frag(t) is Pkh { printed_Pkh(x) } else { printed_Check(x) } },
        Terminal::AndV(x, y) => { if frag(t) is T { printed_T(x, y) } else { printed_AndV(x, y) } },
        Terminal::AndB(x, y) => printed_AndB(x, y), Terminal::OrB(x, y) => printed_OrB(x, y), Terminal::OrD(x, y) => printed_OrD(x, y), Terminal::OrC(x, y) => printed_OrC(x, y),
        Terminal::OrI(x, y) => { if frag(t) is U { printed_U(x, y) } else if frag(t) is L { printed_L(x, y) } else { printed_OrI(x, y) } },
        Terminal::AndOr(x, y, z) => { if frag(t) is AndN { printed_AndN(x, y, z) } else { printed_AndOr(x, y, z) } },
        Terminal::Thresh(th) => printed_Thresh::<Pk, Ctx>(th), Terminal::Multi(th) => printed_Multi::<Pk, Ctx>(th), Terminal::SortedMulti(th) => printed_SortedMulti::<Pk, Ctx>(th),
        Terminal::MultiA(th) => printed_MultiA::<Pk, Ctx>(th), Terminal::SortedMultiA(th) => printed_SortedMultiA::<Pk, Ctx>(th),
    }
}
"""
    l2 = r"""
// ... hence: the arm selected by the printed name, applied to sub-expressions that already round-tripped (same value child by
// child, same k / keys / hashes / lock times), rebuilds the value that was printed
proof fn roundtrip_node<Pk: MiniscriptKey, Ctx: ScriptContext>(t: Terminal<Pk, Ctx>, parsed: Terminal<Pk, Ctx>, parsed_args: Seq<AArg<Pk>>)
    requires atree(parsed) == denote(frag(t), parsed_args), parsed_args == aview(display_children(t)),
    ensures same_value(parsed, t),
{
    printed_form_denotes_the_node(t);
}
"""
    l3 = r"""
// the printed name selects that arm only: the notation's names are pairwise different strings (frag_names_distinct)
proof fn printed_name_selects_one_arm<Pk: MiniscriptKey, Ctx: ScriptContext>(t: Terminal<Pk, Ctx>, f: Frag)
    requires frag_str(f)@ == frag_str(frag(t))@,
    ensures f == frag(t),
{
    frag_names_distinct();
}
"""
    l4 = r"""
// a wrapper letter is read as the fragment it is printed for: the one-character name IS the letter
proof fn wrapper_letters_agree(f: Frag)
    requires is_wrap_frag(f),
    ensures frag_str(f)@ =~= seq![wrapper_byte(f) as char], wfrag(wrapper_byte(f)) == Some(f),
{
    lemma_frag_lens();
    %s
}
""" % " ".join('reveal_strlit("%s");' % s for _, s in WRAPPERS)
    return [("printed_per_name", l0), ("printed_form_denotes_the_node", l1), ("roundtrip_node", l2), ("printed_name_selects_one_arm", l3), ("wrapper_letters_agree", l4)]


# =====================================================================================================================
# PARSER: the head of `impl FromTree for Miniscript { fn from_tree }`
# =====================================================================================================================
from units import c05_ctors as K05
from units import c12_from_tree as F12

FT = "impl:FromTree for Miniscript<Pk, Ctx>/fn:from_tree"
SPIN = "#[verifier::spinoff_prover]"
CONST_HINT = C.ghost_at_body_start("proof { lemma_const_trees::<Pk, Ctx>(); }")
MS_IMPL = "impl<Pk: MiniscriptKey, Ctx: ScriptContext> Miniscript<Pk, Ctx>"
MSARC = "Arc<Miniscript<Pk, Ctx>>"

MS_SPEC = r"""
// ================================================================================================================
// The stack discipline of Miniscript::from_tree (proof-internal; derived from the code).  lo = index of the root
// of the traversal (never skipped: the code's `n > 0`).
// ================================================================================================================
// ASSUMED (with wf_tree): the sibling chain of a node lists exactly the nodes that name it as parent
spec fn wf_chain(ns: Seq<TreeNode>) -> bool {
    forall|i: int, c: int| 0 <= i < ns.len() && 0 <= c < ns.len() ==> (par(ns, c) == Some(i as usize) <==> #[trigger] child_seq(ns, i).contains(c))
}
spec fn fname(ns: Seq<TreeNode>, p: int) -> Seq<char> { sepname(ns[p].name@, ':') }
spec fn is_multi_name(s: Seq<char>) -> bool { s == "multi"@ || s == "sortedmulti"@ || s == "multi_a"@ || s == "sortedmulti_a"@ }
// SKIP RULE: a leaf that is the inner value of a terminal, a key of multi*, or the k of thresh pushes nothing
spec fn mskip(ns: Seq<TreeNode>, lo: int, c: int) -> bool {
    c > lo && nch(ns, c) == 0 && (par(ns, c) matches Some(p) && (nch(ns, p as int) == 1 || is_multi_name(fname(ns, p as int)) || (fname(ns, p as int) == "thresh"@ && p + 1 == c)))
}
spec fn mvalue_child_of(ns: Seq<TreeNode>, lo: int, i: int) -> spec_fn(int) -> bool { |c: int| par(ns, c) == Some(i as usize) && !mskip(ns, lo, c) }
// number of children of i that push a value = what node i must pop
spec fn mnsc(ns: Seq<TreeNode>, lo: int, i: int) -> int { count(mvalue_child_of(ns, lo, i), i + 1, ns.len() as int) as int }
// the entry of c is on the stack once the nodes >= i have been processed (skipped nodes are leaves: nobody's entry is orphaned)
spec fn mlive(ns: Seq<TreeNode>, lo: int, i: int) -> spec_fn(int) -> bool { |c: int| !mskip(ns, lo, c) && (par(ns, c) matches Some(p) ==> p < i) }
// INVARIANT: stack.len() == mpending(i) after the nodes i..=hi have been processed
spec fn mpending(ns: Seq<TreeNode>, lo: int, i: int, hi: int) -> int { count(mlive(ns, lo, i), i, hi + 1) as int }
spec fn all_children_leaves(ns: Seq<TreeNode>, i: int) -> bool { forall|j: int| 0 <= j < child_seq(ns, i).len() ==> nch(ns, #[trigger] child_seq(ns, i)[j]) == 0 }

proof fn lemma_ms_names()
    ensures !is_multi_name("thresh"@),
{
    reveal_strlit("thresh"); reveal_strlit("multi"); reveal_strlit("sortedmulti"); reveal_strlit("multi_a"); reveal_strlit("sortedmulti_a");
    assert("thresh"@.len() == 6 && "multi"@.len() == 5 && "sortedmulti"@.len() == 11 && "multi_a"@.len() == 7 && "sortedmulti_a"@.len() == 13);
}
proof fn lemma_mnsc(ns: Seq<TreeNode>, lo: int, i: int)
    requires wf_tree(ns), wf_chain(ns), 0 <= lo <= i < ns.len(),
    ensures
        0 <= mnsc(ns, lo, i) <= nch(ns, i),
        nch(ns, i) == 1 && nch(ns, i + 1) == 0 ==> mnsc(ns, lo, i) == 0,
        is_multi_name(fname(ns, i)) && all_children_leaves(ns, i) ==> mnsc(ns, lo, i) == 0,
        nch(ns, i) != 1 && !is_multi_name(fname(ns, i)) && fname(ns, i) != "thresh"@ ==> mnsc(ns, lo, i) == nch(ns, i),
        nch(ns, i) >= 2 && fname(ns, i) == "thresh"@ ==> mnsc(ns, lo, i) >= nch(ns, i) - 1,
        nch(ns, i) >= 2 && fname(ns, i) == "thresh"@ && nch(ns, i + 1) == 0 ==> mnsc(ns, lo, i) == nch(ns, i) - 1,
{
    let n = ns.len() as int;
    assert(wf_node(ns, i));
    lemma_ms_names();
    let all = is_child_of(ns, i);
    let val = mvalue_child_of(ns, lo, i);
    lemma_count_le(val, all, i + 1, n);
    if nch(ns, i) == 1 && nch(ns, i + 1) == 0 {
        assert forall|c: int| i + 1 <= c < n implies !#[trigger] val(c) by { if par(ns, c) == Some(i as usize) { lemma_only_child(ns, i, c); } }
        lemma_count_zero(val, i + 1, n);
    }
    if is_multi_name(fname(ns, i)) && all_children_leaves(ns, i) {
        assert forall|c: int| i + 1 <= c < n implies !#[trigger] val(c) by {
            if par(ns, c) == Some(i as usize) {
                assert(child_seq(ns, i).contains(c));
                let j = choose|j: int| 0 <= j < child_seq(ns, i).len() && child_seq(ns, i)[j] == c;
                assert(nch(ns, child_seq(ns, i)[j]) == 0);
            }
        }
        lemma_count_zero(val, i + 1, n);
    }
    if nch(ns, i) != 1 && !is_multi_name(fname(ns, i)) && fname(ns, i) != "thresh"@ {
        lemma_count_le(all, val, i + 1, n);
    }
    if nch(ns, i) >= 2 && fname(ns, i) == "thresh"@ {
        let rest = |c: int| par(ns, c) == Some(i as usize) && c != i + 1;
        let first = |c: int| c == i + 1;
        assert forall|c: int| i + 1 <= c < n implies (#[trigger] all(c) <==> (rest(c) || first(c))) && !(rest(c) && first(c)) by {}
        lemma_count_union(all, rest, first, i + 1, n);
        lemma_count_first(first, i + 1, n);
        lemma_count_zero(first, i + 2, n);
        lemma_count_le(rest, val, i + 1, n);
        if nch(ns, i + 1) == 0 {
            lemma_count_le(val, rest, i + 1, n);
        }
    }
}
// children of a node of the block [lo, rmd(lo)] lie in the block
proof fn lemma_mnsc_in_block(ns: Seq<TreeNode>, lo: int, i: int)
    requires wf_tree(ns), 0 <= lo <= i <= rmd(ns, lo), lo < ns.len(),
    ensures mnsc(ns, lo, i) == count(mvalue_child_of(ns, lo, i), i + 1, rmd(ns, lo) + 1),
{
    assert(wf_node(ns, lo));
    lemma_count_split(mvalue_child_of(ns, lo, i), i + 1, rmd(ns, lo) + 1, ns.len() as int);
    lemma_count_zero(mvalue_child_of(ns, lo, i), rmd(ns, lo) + 1, ns.len() as int);
}
// A: the entries node i pops are on the stack
proof fn lemma_mpending_covers_pops(ns: Seq<TreeNode>, lo: int, i: int)
    requires wf_tree(ns), 0 <= lo <= i <= rmd(ns, lo), lo < ns.len(),
    ensures mpending(ns, lo, i + 1, rmd(ns, lo)) >= mnsc(ns, lo, i),
{
    lemma_mnsc_in_block(ns, lo, i);
    lemma_count_le(mvalue_child_of(ns, lo, i), mlive(ns, lo, i + 1), i + 1, rmd(ns, lo) + 1);
}
// B: processing node i changes the stack by 0 (skipped) / 1 - mnsc(i)
proof fn lemma_mpending_step(ns: Seq<TreeNode>, lo: int, i: int)
    requires wf_tree(ns), 0 <= lo <= i <= rmd(ns, lo), lo < ns.len(),
    ensures mpending(ns, lo, i, rmd(ns, lo)) == mpending(ns, lo, i + 1, rmd(ns, lo)) + (if mskip(ns, lo, i) { 0 } else { 1 - mnsc(ns, lo, i) }),
{
    let hi = rmd(ns, lo);
    assert(wf_node(ns, lo));
    assert(wf_node(ns, i));
    lemma_mnsc_in_block(ns, lo, i);
    lemma_count_first(mlive(ns, lo, i), i, hi + 1);
    let popped = mvalue_child_of(ns, lo, i);
    assert forall|c: int| i + 1 <= c < hi + 1 implies (#[trigger] mlive(ns, lo, i + 1)(c) <==> (mlive(ns, lo, i)(c) || popped(c))) && !(mlive(ns, lo, i)(c) && popped(c)) by {
        assert(wf_node(ns, c));
    }
    lemma_count_union(mlive(ns, lo, i + 1), mlive(ns, lo, i), popped, i + 1, hi + 1);
    if mskip(ns, lo, i) {
        // a skipped node is a leaf: nothing to pop
        assert forall|c: int| i + 1 <= c < hi + 1 implies !#[trigger] popped(c) by { if par(ns, c) == Some(i as usize) { lemma_has_child(ns, i, c); } }
        lemma_count_zero(popped, i + 1, hi + 1);
    }
}
// C: when the whole block has been processed only the root's entry is left
proof fn lemma_mpending_final(ns: Seq<TreeNode>, lo: int)
    requires wf_tree(ns), 0 <= lo < ns.len(),
    ensures mpending(ns, lo, lo, rmd(ns, lo)) == 1,
{
    let hi = rmd(ns, lo);
    assert(wf_node(ns, lo));
    lemma_count_first(mlive(ns, lo, lo), lo, hi + 1);
    assert forall|c: int| lo + 1 <= c < hi + 1 implies !#[trigger] mlive(ns, lo, lo)(c) by {
        assert(par(ns, c) is Some && lo <= par(ns, c)->Some_0);
    }
    lemma_count_zero(mlive(ns, lo, lo), lo + 1, hi + 1);
}
"""
MS_LEMMAS = ["lemma_ms_names", "lemma_mnsc", "lemma_mnsc_in_block", "lemma_mpending_covers_pops", "lemma_mpending_step", "lemma_mpending_final"]


ARGS_SPEC = r"""
// ---- the arguments of node i as the reader meets them, left to right: the results of the sub-expressions are the top entries
//      of the result stack, FIRST child on top (the traversal is reversed pre-order: children are processed right to left);
//      keys / hashes / numbers are what FromStr / parse_num give for the child's name (uninterpreted) ----------------------------
spec fn stack_trees<Pk: MiniscriptKey, Ctx: ScriptContext>(st: Seq<Arc<Miniscript<Pk, Ctx>>>) -> Seq<ATree<Pk>> { Seq::new(st.len(), |j: int| atree(st[j].node)) }
spec fn leaf_str(ns: Seq<TreeNode>, i: int) -> Seq<char> { ns[i + 1].name@ }
spec fn tree_k(ns: Seq<TreeNode>, i: int) -> usize { spec_parse_num(ns[i + 1].name@)->Ok_0 as usize }
spec fn tree_aargs<Pk: MiniscriptKey>(ns: Seq<TreeNode>, i: int, st: Seq<ATree<Pk>>, f: Frag) -> Seq<AArg<Pk>> {
    let top = st.len() - 1;
    match f {
        Frag::PkK | Frag::PkH | Frag::Pk | Frag::Pkh => seq![AArg::Key(spec_from_str::<Pk>(leaf_str(ns, i))->Some_0)],
        Frag::RawPkH => seq![AArg::<Pk>::RawKeyHash(spec_from_str::<hash160::Hash>(leaf_str(ns, i))->Some_0)],
        Frag::After => seq![AArg::<Pk>::After(spec_abs_from_consensus(spec_parse_num(leaf_str(ns, i))->Ok_0)->Some_0)],
        Frag::Older => seq![AArg::<Pk>::Older(spec_rel_from_consensus(spec_parse_num(leaf_str(ns, i))->Ok_0)->Some_0)],
        Frag::Sha256 => seq![AArg::<Pk>::Sha256(spec_from_str::<Pk::Sha256>(leaf_str(ns, i))->Some_0)],
        Frag::Hash256 => seq![AArg::<Pk>::Hash256(spec_from_str::<Pk::Hash256>(leaf_str(ns, i))->Some_0)],
        Frag::Ripemd160 => seq![AArg::<Pk>::Ripemd160(spec_from_str::<Pk::Ripemd160>(leaf_str(ns, i))->Some_0)],
        Frag::Hash160 => seq![AArg::<Pk>::Hash160(spec_from_str::<Pk::Hash160>(leaf_str(ns, i))->Some_0)],
        Frag::AndV | Frag::AndB | Frag::AndN | Frag::OrB | Frag::OrD | Frag::OrC | Frag::OrI => seq![AArg::Node(st[top]), AArg::Node(st[top - 1])],
        Frag::AndOr => seq![AArg::Node(st[top]), AArg::Node(st[top - 1]), AArg::Node(st[top - 2])],
        Frag::Thresh => seq![AArg::<Pk>::K(tree_k(ns, i))] + Seq::new((nch(ns, i) - 1) as nat, |j: int| AArg::Node(st[top - j])),
        Frag::Multi | Frag::SortedMulti | Frag::MultiA | Frag::SortedMultiA =>
            seq![AArg::<Pk>::K(tree_k(ns, i))] + Seq::new((nch(ns, i) - 1) as nat, |j: int| AArg::Key(spec_from_str::<Pk>(ns[child_seq(ns, i)[j + 1]].name@)->Some_0)),
        _ => Seq::empty(),
    }
}
%(shapes)s
// the wrapper letters in front of the ':' of node i's name, as bytes
spec fn wbytes(ns: Seq<TreeNode>, i: int) -> Seq<u8> { ascii_bytes(seppref(ns[i].name@, ':')) }
"""


def shapes_lemma():
    V = {v: i for i, v in enumerate(E.VARIANTS)}
    MS = "Arc<Miniscript<Pk, Ctx>>"
    ens, prf, subs = [], [], []
    def add(name, q, lhs, rhs):
        args = ", ".join(re.findall(r"\b(\w+): ", q))
        subs.append("#[verifier::spinoff_prover]\nproof fn shape_%s<Pk: MiniscriptKey, Ctx: ScriptContext>(%s)\n    ensures atree(%s) == %s,\n{ assert(atree(%s).kids =~= %s.kids); }\n"
                    % (name, q, lhs, rhs, lhs, rhs))
        if q:
            ens.append("        forall|%s| #[trigger] atree(%s) == %s," % (q, lhs, rhs))
            prf.append("    assert forall|%s| #[trigger] atree(%s) == %s by { shape_%s::<Pk, Ctx>(%s); }" % (q, lhs, rhs, name, args))
        else:
            ens.append("        atree(%s) == %s," % (lhs, rhs))
            prf.append("    shape_%s::<Pk, Ctx>();" % name)
    for v in UNARY_W:
        add(v, "x: %s" % MS, "Terminal::%s(x)" % v, "anode1::<Pk>(%d, atree(x.node))" % V[v])
    for v in BIN:
        add(v, "x: %s, y: %s" % (MS, MS), "Terminal::%s(x, y)" % v, "anode2::<Pk>(%d, atree(x.node), atree(y.node))" % V[v])
    add("AndOr", "x: %s, y: %s, z: %s" % (MS, MS, MS), "Terminal::AndOr(x, y, z)", "anode3::<Pk>(%d, atree(x.node), atree(y.node), atree(z.node))" % V["AndOr"])
    for c in ("True", "False"):
        add(c, "", "Terminal::<Pk, Ctx>::%s" % c, "aleaf::<Pk>(%d, Payload::Plain)" % V[c])
    for v, ty, pl in (("PkK", "Pk", "Key"), ("PkH", "Pk", "Key"), ("RawPkH", "hash160::Hash", "RawHash"), ("After", "AbsLockTime", "After"), ("Older", "RelLockTime", "Older"),
                      ("Sha256", "Pk::Sha256", "Sha256"), ("Hash256", "Pk::Hash256", "Hash256"), ("Ripemd160", "Pk::Ripemd160", "Ripemd160"), ("Hash160", "Pk::Hash160", "Hash160")):
        add(v, "p: %s" % ty, "Terminal::<Pk, Ctx>::%s(p)" % v, "aleaf::<Pk>(%d, Payload::%s(p))" % (V[v], pl))
    return ("".join(subs) + "// the value of a fragment in terms of the values of its sub-expressions (one unfolding of atree, variant by variant)\n"
            "proof fn lemma_const_trees<Pk: MiniscriptKey, Ctx: ScriptContext>()\n    ensures\n%s\n{\n%s\n}\n" % ("\n".join(ens), "\n".join(prf)))


def frag_literals_lemma():
    facts = "\n".join('        frag_str(Frag::%s)@ == "%s"@,' % (n, s) for n, s in FRAGS)
    return r"""
// the names of the notation as the literals the parser compares with
proof fn lemma_frag_lits()
    ensures
%s
{}
""" % facts


def node_clause(other, fq):
    f = other.functions.get(fq)
    if f is None:
        raise Undecided("c05_ctors no longer contracts %s" % fq)
    for _, (k, c) in sorted(f["clauses"].items()):
        if k == "ensures" and c.tag == "node":
            return Clause("node", (), c.text)
    raise Undecided("c05_ctors: clause %s.node not found" % fq)


R12_CONSTS = sub("R12", r"\bSelf::(TRUE|FALSE)\b(?!\s*\()", r"Self::\1()", required=False)
INTO_CHAR = sub("R7-std", r"\b(\w+)\.into\(\)", r"u8_into_char_(\1)", required=False)
TO_OWNED2 = sub("R7-std", r"\b(\w+(?:\.\w+\(\))*)\.to_owned\(\)", r"str_to_owned_(\1)", required=False)
R14_TREE = sub("R14-map_err", r"(\b\w+(?:\s*\.\s*\w+\((?:[^()]*)\))+)\s*\.map_err\(From::from\)\s*\.map_err\(Error::Parse\)", r"map_err_tree_(\1)", required=False)
R14_LEAF = sub("R14-map", r"(\bnode\s*\.\s*verify_\w+\([^()]*\))\s*\.map\(Self::(\w+)\)\s*\.map_err\(Error::Parse\)",
               r"(match \1 { Ok(x_) => Ok(Self::\2(x_)), Err(e_) => Err(Error::Parse(e_)) })", required=False)


def split_top_commas(text):
    out, depth, cur = [], 0, ""
    i = 0
    while i < len(text):
        ch = text[i]
        if ch in "([{":
            c = match_close(text, i)
            cur += text[i:c + 1]
            i = c + 1
            continue
        if ch == "|" and not cur.strip():
            c = text.index("|", i + 1)
            cur += text[i:c + 1]
            i = c + 1
            continue
        if ch == "," and depth == 0:
            out.append(cur.strip())
            cur = ""
        else:
            cur += ch
        i += 1
    if cur.strip():
        out.append(cur.strip())
    return out


class Head:
    """the pieces of Miniscript::from_tree's head, cut mechanically"""

    def __init__(self, repo):
        reg = repo.at(MSMOD, FT)
        self.reg = reg
        text = drop_vis(strip_docs(reg.text)).strip("\n")
        sig, head, tail = F12.split_from_tree(text)
        if re.search(r"\breturn\b(?!\s+Err\()", head):
            raise Undecided("Miniscript::from_tree: the head has a `return` that is not `return Err(..)`")
        m = re.match(r"\s*assert_eq!\(stack\.len\(\),\s*1\);", tail)
        if not m:
            raise Undecided("Miniscript::from_tree: the tail does not start with `assert_eq!(stack.len(), 1);`")
        self.final_assert = m.group(0).strip()
        # the nested helper `fn binary`
        i = head.find("fn binary")
        if i < 0:
            raise Undecided("Miniscript::from_tree: nested `fn binary` not found")
        h2, ret, where, body = split_fn(head[i:])
        bopen = i + len(head[i:]) - len(body)
        bclose = match_close(head, bopen)
        self.binary = head[i:bclose + 1]
        head = re.sub(r"#\[allow\([^\]]*\)\]\s*$", "", head[:i].rstrip()) + "\n" + head[bclose + 1:]
        m = re.search(r"\bfor\s+\((\w+),\s*(\w+)\)\s+in\s+(\w+)\s*\.pre_order_iter\(\)\s*\.enumerate\(\)\s*\.rev\(\)\s*\{", head)
        if not m:
            raise Undecided("Miniscript::from_tree: loop `for (n, node) in ROOT.pre_order_iter().enumerate().rev()` not found")
        close = match_close(head, m.end() - 1)
        self.nvar, self.var, self.root = m.group(1), m.group(2), m.group(3)
        self.before, self.body, self.after = head[:m.start()], head[m.end():close], head[close + 1:]
        if self.after.strip().strip("}").strip():
            raise Undecided("Miniscript::from_tree: statements between the fragment loop and the final assert")
        # the wrapper loop inside the body
        w = re.search(r"\bfor\s+(\w+)\s+in\s+(\w+)\s*\.bytes\(\)\s*\.rev\(\)\s*\{", self.body)
        if not w:
            raise Undecided("Miniscript::from_tree: wrapper loop `for ch in X.bytes().rev()` not found")
        wclose = match_close(self.body, w.end() - 1)
        self.wvar, self.wstr = w.group(1), w.group(2)
        self.wbody = self.body[w.end():wclose]
        if re.search(r"\b(break|continue)\b", self.wbody) or not re.search(r"\bnew\s*=", self.wbody):
            raise Undecided("Miniscript::from_tree: wrapper loop body has break / continue or does not assign `new`")
        self.body = self.body[:w.start()] + "new = Self::from_tree_wrap_loop(%s, new)?;" % self.wstr + self.body[wclose + 1:]
        if re.search(r"\b(break|for|while|loop)\b", self.body):
            raise Undecided("Miniscript::from_tree: loop body with break / another nested loop cannot be lambda-lifted")
        self.body = re.sub(r"\bcontinue\s*;", "return Ok(());", self.body)
        # the arm table
        r = Region("<step>", self.body, 0, len(self.body))
        try:
            mm = r._find_match("frag_name")
        except Exception:
            raise Undecided("Miniscript::from_tree: `match frag_name` not found")
        self.match_span = (mm.match_start, mm.match_end)
        self.arms = split_arms(self.body, mm.start, mm.end)
        for a in self.arms:
            if a["guard"]:
                raise Undecided("Miniscript::from_tree: guarded arm in `match frag_name`")

    def arm_kind(self, a):
        p = a["pat"].strip()
        m = re.match(r'^"([^"]*)"$', p)
        if m:
            return "lit", m.group(1)
        if re.match(r"^\w+$", p):
            return "bind", p
        raise Undecided("Miniscript::from_tree: arm pattern `%s` is neither a string literal nor a binding" % p)


def emit_ctors(vf, repo):
    c05 = K05.build(repo)
    with vf.block(MS_IMPL):
        for name in ("pk", "pkh", "pk_k", "pk_h", "expr_raw_pkh", "after", "older", "sha256", "hash256", "ripemd160", "hash160"):
            vf.fn(MSMOD, K05.MSIMPL + "/fn:" + name, qual="Miniscript", assumed=True, rewrites=K05.R7_TYPES,
                  contract=Contract(ensures=[node_clause(c05, "Miniscript::" + name)], canary=False))
        for c in ("TRUE", "FALSE"):
            repo.at(MSMOD, K05.MSIMPL + "/const:" + c)
            vf.raw("    // R12: `const %s: Self`\n    #[verifier::external_body] fn %s() -> (r: Self) ensures %s { unimplemented!() }\n" % (c, c, node_clause(c05, "Miniscript::" + c).text))
        vf.fn(MSMOD, K05.MSIMPL + "/fn:from_ast", qual="Miniscript", assumed=True, rewrites=K05.R7_TYPES,
              contract=Contract(ensures=[node_clause(c05, "Miniscript::from_ast")], canary=False))
    vf.trust("Miniscript::{pk, pkh, pk_k, pk_h, expr_raw_pkh, after, older, sha256, hash256, ripemd160, hash160, TRUE, FALSE, from_ast} (external_body): the `node` clause units/c05_ctors.py "
             "PROVES for each (Clause text taken from that unit's build); from_ast's is proved there under its precondition that the height figure fits u32 (the node is assigned unconditionally)",
             "proved on the real text in c05_ctors; the type / context verdict of from_ast is left arbitrary here")


def emit_binary_instances(vf, H):
    """R6: one instance of the nested helper `binary` per call site (Verus has no fn pointers); `termfn(A, B)` is replaced by the call
    site's fourth argument applied to (A, B) -- a path `Terminal::X` directly, a closure `|x, y| BODY` beta-reduced to `{ let x = A; let y = B; BODY }`"""
    names = []
    for a in H.arms:
        kind, name = H.arm_kind(a)
        m = re.search(r"\bbinary\(", a["body"])
        if not m:
            continue
        if kind != "lit":
            raise Undecided("from_tree: `binary` called from a non-literal arm")
        c = match_close(a["body"], m.end() - 1)
        args = split_top_commas(a["body"][m.end():c])
        if len(args) != 4 or args[0] != "node" or args[1] != "&mut stack":
            raise Undecided("from_tree arm %s: unexpected `binary` call shape" % name)
        termfn = args[3]
        text = H.binary
        text, n1 = re.subn(r"fn\s+binary\s*<[^>]*>\s*\(", "fn binary__%s(" % name, text, count=1)
        text, n2 = re.subn(r"\btermfn\s*:\s*fn\([^)]*\)\s*->\s*Terminal<Pk,\s*Ctx>,?", "", text, count=1)
        t = re.search(r"\btermfn\(", text)
        if not (n1 and n2 and t):
            raise Undecided("from_tree: nested `fn binary` changed shape")
        tc = match_close(text, t.end() - 1)
        targs = split_top_commas(text[t.end():tc])
        if len(targs) != 2:
            raise Undecided("from_tree: `termfn` is not applied to two arguments")
        cm = re.match(r"^\|\s*(\w+)\s*,\s*(\w+)\s*\|\s*(.*)$", termfn, flags=re.S)
        if cm:
            repl = "{ let %s = %s; let %s = %s; %s }" % (cm.group(1), targs[0], cm.group(2), targs[1], cm.group(3))
        elif re.match(r"^[\w:]+$", termfn):
            repl = "%s(%s, %s)" % (termfn, targs[0], targs[1])
        else:
            raise Undecided("from_tree arm %s: fourth argument of `binary` is neither a path nor a two-parameter closure" % name)
        text = text[:t.start()] + repl + text[tc + 1:]
        text = vf._apply(text, [C.R7_PATHS, C.RANGE_INCL, R14_TREE, R12_CONSTS, CONST_HINT], FT + "/fn:binary")
        vf.rewrites_used.append("R6-instance binary__%s [%s] @ %s" % (name, termfn[:40], FT))
        f = NAME2FRAG.get(name)
        L = "old(stack)@.len()"
        ens = [Clause("needs_two_children", P11, "r is Ok ==> nch(node.nodes@, node.index as int) == 2"),
               Clause("pops_two_entries", P1011, "r is Ok ==> final(stack)@ =~= old(stack)@.take(%s - 2)" % L)]
        if f is not None:
            ens.append(Clause("builds_%s_of_the_two_children_in_order" % f, P10,
                              "r is Ok ==> atree(r->Ok_0.node) == denote(Frag::%s, seq![AArg::<Pk>::Node(atree(old(stack)@[%s - 1].node)), AArg::Node(atree(old(stack)@[%s - 2].node))])" % (f, L, L)))
        else:
            ens.append(Clause("arm_name_is_not_in_the_notation", P10, "false"))
        vf.fn_text("Miniscript::from_tree::binary__%s" % name, text, Contract(
            requires=["node.valid()", "nch(node.nodes@, node.index as int) == 2 ==> old(stack)@.len() >= 2"], ensures=ens, canary=False),
            PROPS, file=MSMOD, lines=H.reg.lines(), anchor=FT + "/fn:binary@" + name, attrs=SPIN)
        names.append(name)
    return names


def emit_wrappers(vf, H):
    step = ("fn from_tree_wrap_step(%s: u8, new_in_: %s) -> Result<%s, Error> {\n        let mut new = new_in_;%s\n        Ok(new)\n    }" % (H.wvar, MSARC, MSARC, H.wbody))
    step = vf._apply(step, [C.R7_PATHS, R12_CONSTS, INTO_CHAR, CONST_HINT], FT + "/wrapper loop body")
    vf.rewrites_used.append("R16-loop-body (wrapper loop) @ %s" % FT)
    ens = [Clause("letter_%s_builds_%s" % (s, n), P10, "%s == %du8 ==> (r matches Ok(v) ==> atree(v.node) == denote(Frag::%s, seq![AArg::<Pk>::Node(atree(new_in_.node))]))" % (H.wvar, ord(s), n))
           for n, s in WRAPPERS]
    ens.append(Clause("other_letters_are_rejected", P1011, "wfrag(%s) is None ==> r is Err" % H.wvar))
    vf.fn_text("Miniscript::from_tree_wrap_step", step, Contract(ensures=ens), PROPS, file=MSMOD, lines=H.reg.lines(), anchor=FT + "/wrapper loop body", attrs=SPIN)
    loop = r"""fn from_tree_wrap_loop(frag_wrap: &str, new_in_: %(A)s) -> Result<%(A)s, Error> {
        let mut new = new_in_;
        let bytes_ = frag_wrap.as_bytes();
        let ghost ws_ = ascii_bytes(frag_wrap@);
        proof { assert(bytes_@ =~= ws_); }
        let mut j_: usize = bytes_.len();
        proof { assert(ws_.subrange(j_ as int, ws_.len() as int) =~= Seq::<u8>::empty()); }
        while j_ > 0
            invariant j_ <= bytes_@.len(), bytes_@ == ws_,
                wrappers_known(ws_.subrange(j_ as int, ws_.len() as int)),
                atree(new.node) == wrap_tree(ws_.subrange(j_ as int, ws_.len() as int), atree(new_in_.node)),
            decreases j_,
        {
            j_ -= 1;
            let %(ch)s = bytes_[j_];
            let ghost prev_ = new;
            new = Self::from_tree_wrap_step(%(ch)s, new)?;
            proof {
                let cur = ws_.subrange(j_ as int, ws_.len() as int);
                assert(cur.drop_first() =~= ws_.subrange(j_ + 1, ws_.len() as int));
                assert(cur[0] == %(ch)s);
                assert(wfrag(%(ch)s) is Some);
                assert forall|q: int| 0 <= q < cur.len() implies wfrag(#[trigger] cur[q]) is Some by {
                    if q > 0 { assert(cur[q] == ws_.subrange(j_ + 1, ws_.len() as int)[q - 1]); }
                }
            }
        }
        proof { assert(ws_.subrange(0, ws_.len() as int) =~= ws_); }
        Ok(new)
    }""" % dict(A=MSARC, ch=H.wvar)
    vf.rewrites_used.append("R8-bytes-rev-loop `for %s in %s.bytes().rev()` -> index loop over as_bytes(), last to first @ %s" % (H.wvar, H.wstr, FT))
    vf.fn_text("Miniscript::from_tree_wrap_loop", loop, Contract(requires=["frag_wrap.is_ascii()"], ensures=[
        Clause("every_letter_is_a_wrapper", P10, "r is Ok ==> wrappers_known(ascii_bytes(frag_wrap@))"),
        Clause("letters_applied_innermost_last", P10, "r matches Ok(v) ==> atree(v.node) == wrap_tree(ascii_bytes(frag_wrap@), atree(new_in_.node))")]),
        PROPS, file=MSMOD, lines=H.reg.lines(), anchor=FT + "/wrapper loop", attrs=SPIN)


# ---- verify_threshold: one instance per closure shape of the call sites (R16, technique of c11_policy_parse) -----------------------------
VT = "impl:TreeIterItem<'s>/fn:verify_threshold"


def vt_instance_signature(fn_name, generics, param, ret_elem):
    @rule("R16-instance-signature")
    def rw(text):
        new, n = re.subn(r"<\s*const MAX: usize,\s*F: FnMut\(Self\) -> Result<T, E>,\s*T,\s*E: From<ParseThresholdError>,?\s*>", generics, text, count=1)
        if not n:
            return None
        new, n = re.subn(r"\bmut map_child: F,", param, new, count=1)
        if not n:
            return None
        new, n = re.subn(r"->\s*Result<Threshold<T, MAX>, E>", "-> Result<Threshold<%s, MAX>, Error>" % ret_elem, new, count=1)
        if not n:
            return None
        new, n = re.subn(r"\bfn\s+verify_threshold\b", "fn " + fn_name, new, count=1)
        return C.subst_type_param_path(new, "E", "Error") if n else None
    return rw


def vt_inline(param, body):
    @rule("R16-closure-inlined")
    def rw(text):
        n = 0
        while True:
            m = re.search(r"\bmap_child\(", text)
            if not m:
                return text if n else None
            c = match_close(text, m.end() - 1)
            text = text[:m.start()] + "{ let %s = %s; %s }" % (param, text[m.end():c], body) + text[c + 1:]
            n += 1
    return rw


def threshold_call_sites(H):
    """[(arm name, closure param, closure body, Terminal variant)] + the rewritten arm bodies"""
    out = []
    for a in H.arms:
        m = re.search(r"\bnode\s*\.verify_threshold\(", a["body"])
        if not m:
            continue
        kind, name = H.arm_kind(a)
        if kind != "lit":
            raise Undecided("from_tree: verify_threshold called from a non-literal arm")
        c = match_close(a["body"], m.end() - 1)
        clo = a["body"][m.end():c].strip()
        cm = re.match(r"^\|\s*(\w+)\s*\|\s*(.*)$", clo, flags=re.S)
        tail = re.match(r"^\s*\.map\(Terminal::(\w+)\)\s*\.and_then\(Self::from_ast\)\s*,?\s*$", a["body"][c + 1:])
        if not cm or not tail or a["body"][:m.start()].strip():
            raise Undecided("from_tree arm %s: unexpected verify_threshold call shape" % name)
        out.append((name, cm.group(1), re.sub(r"\s+", " ", cm.group(2).strip()), tail.group(1)))
    return out


POP_BODY = "Ok(stack.pop().unwrap())"
KEYS_BODY = 'sub.verify_terminal("public_key").map_err(Error::Parse)'


def emit_threshold_instances(vf, H):
    sites = threshold_call_sites(H)
    kinds = {}
    for name, param, body, variant in sites:
        if param == "_" and body == POP_BODY:
            kinds[name] = ("pop", variant)
        elif param == "sub" and body == KEYS_BODY:
            kinds[name] = ("keys", variant)
        else:
            raise Undecided("from_tree arm %s: verify_threshold closure `|%s| %s` is not one of the two modelled shapes" % (name, param, body))
    NS, I = "self.nodes@", "self.index as int"
    K_TERMINAL = "r is Ok ==> nch(%s, %s) >= 1 && nch(%s, %s + 1) == 0" % (NS, I, NS, I)
    K_NUM = "r is Ok ==> spec_parse_num(%s[%s + 1].name@) is Ok && r->Ok_0.k == tree_k(%s, %s)" % (NS, I, NS, I)
    with vf.block("impl<'s> TreeIterItem<'s>"):
        if "pop" in [k for k, _ in kinds.values()]:
            tail = C.ThresholdTail(
                ghost0="let ghost rem0_ = child_iter.remaining(); let ghost st0_ = stack@;",
                inv=C.ITER_INV + " n_ <= st0_.len(), stack@ =~= st0_.take(st0_.len() - i_), forall|j_: int| 0 <= j_ < i_ ==> inner_@[j_] == st0_[st0_.len() - 1 - j_],",
                post="")
            vf.fn(EXPR, VT, qual="TreeIterItem", rename="verify_threshold__pop", props=PROPS, attrs=SPIN,
                  rewrites=[vt_instance_signature("verify_threshold", "<const MAX: usize, Pk: MiniscriptKey, Ctx: ScriptContext>", "stack: &mut Vec<%s>," % MSARC, MSARC),
                            vt_inline("_", POP_BODY), C.ETA, tail, C.VALID_HINT],
                  contract=Contract(requires=["self.valid()", "nch(%s, %s) >= 1 ==> old(stack)@.len() >= nch(%s, %s) - 1" % (NS, I, NS, I)], ensures=[
                      Clause("k_child_is_a_terminal", P11, K_TERMINAL),
                      Clause("pops_one_entry_per_value_child", P1011, "r is Ok ==> final(stack)@ =~= old(stack)@.take(old(stack)@.len() - (nch(%s, %s) - 1))" % (NS, I)),
                      Clause("sub_expressions_are_the_popped_entries_first_child_on_top", P10,
                             "r is Ok ==> r->Ok_0.inner@.len() == nch(%s, %s) - 1 && forall|j: int| 0 <= j < r->Ok_0.inner@.len() ==> #[trigger] r->Ok_0.inner@[j] == old(stack)@[old(stack)@.len() - 1 - j]" % (NS, I)),
                      Clause("k_is_the_number_in_the_first_child", P10, K_NUM),
                      Clause("threshold_invariant", P10, "r is Ok ==> r->Ok_0.inv()")], canary=False))
            vf.rewrites_used.append("R16-closure-inlined [%s] @ %s" % (POP_BODY, VT))
        if "keys" in [k for k, _ in kinds.values()]:
            tail = C.ThresholdTail(
                ghost0="let ghost rem0_ = child_iter.remaining();",
                inv=C.ITER_INV + " forall|j_: int| 0 <= j_ < i_ ==> nch(self.nodes@, rem0_[j_]) == 0 && spec_from_str::<T>(self.nodes@[rem0_[j_]].name@) == Some(inner_@[j_]),",
                post="proof { let cs_ = child_seq(self.nodes@, self.index as int); assert(rem0_ =~= cs_.skip(1)); "
                     "assert forall|j_: int| 0 <= j_ < cs_.len() implies nch(self.nodes@, #[trigger] cs_[j_]) == 0 by { if j_ > 0 { assert(cs_[j_] == rem0_[j_ - 1]); } } "
                     "assert forall|j_: int| 0 <= j_ < inner_@.len() implies spec_from_str::<T>(self.nodes@[cs_[j_ + 1]].name@) == Some(#[trigger] inner_@[j_]) by { assert(cs_[j_ + 1] == rem0_[j_]); } }")
            vf.fn(EXPR, VT, qual="TreeIterItem", rename="verify_threshold__keys", props=PROPS, attrs=SPIN,
                  rewrites=[vt_instance_signature("verify_threshold", "<const MAX: usize, T>", "", "T"),
                            vt_inline("sub", KEYS_BODY), C.ETA, tail, C.VALID_HINT],
                  contract=Contract(requires=["self.valid()"], ensures=[
                      Clause("k_child_is_a_terminal", P11, K_TERMINAL),
                      Clause("all_children_are_leaves", P11, "r is Ok ==> all_children_leaves(%s, %s)" % (NS, I)),
                      Clause("keys_are_parsed_from_the_children_in_order", P10,
                             "r is Ok ==> r->Ok_0.inner@.len() == nch(%s, %s) - 1 && forall|j: int| 0 <= j < r->Ok_0.inner@.len() ==> "
                             "spec_from_str::<T>(%s[child_seq(%s, %s)[j + 1]].name@) == Some(#[trigger] r->Ok_0.inner@[j])" % (NS, I, NS, NS, I)),
                      Clause("k_is_the_number_in_the_first_child", P10, K_NUM),
                      Clause("threshold_invariant", P10, "r is Ok ==> r->Ok_0.inv()")], canary=False))
            vf.rewrites_used.append("R16-closure-inlined [|sub| %s] @ %s" % (KEYS_BODY, VT))
    return kinds


NARY_LEMMAS = r"""
// the value of thresh / multi* nodes from their components (one unfolding of atree + denote)
#[verifier::spinoff_prover]
proof fn lemma_thresh_value<Pk: MiniscriptKey, Ctx: ScriptContext>(th: Threshold<Arc<Miniscript<Pk, Ctx>>, 0>, av: Seq<AArg<Pk>>)
    requires av.len() == 1 + th.inner@.len(), av[0] == AArg::<Pk>::K(th.k),
        forall|j: int| 0 <= j < th.inner@.len() ==> #[trigger] av[j + 1] == AArg::Node(atree(th.inner@[j].node)),
    ensures atree(Terminal::<Pk, Ctx>::Thresh(th)) == denote(Frag::Thresh, av),
{
    let t = Terminal::<Pk, Ctx>::Thresh(th);
    assert(atree(t).kids =~= denote(Frag::Thresh, av).kids);
}
"""


def nary_lemmas():
    out = NARY_LEMMAS
    for v in MULTIS:
        out += r"""
#[verifier::spinoff_prover]
proof fn lemma_%(v)s_value<Pk: MiniscriptKey, Ctx: ScriptContext>(th: Threshold<Pk, %(max)s>, av: Seq<AArg<Pk>>)
    requires av.len() == 1 + th.inner@.len(), av[0] == AArg::<Pk>::K(th.k),
        forall|j: int| 0 <= j < th.inner@.len() ==> #[trigger] av[j + 1] == AArg::<Pk>::Key(th.inner@[j]),
    ensures atree(Terminal::<Pk, Ctx>::%(v)s(th)) == denote(Frag::%(v)s, av),
{
    let t = Terminal::<Pk, Ctx>::%(v)s(th);
    assert(atree(t).kids =~= Seq::empty());
    assert(denote(Frag::%(v)s, av).payload->Keys_1 =~= th.inner@);
}
""" % dict(v=v, max="MAX_PUBKEYS_PER_MULTISIG" if "A" not in v else "MAX_PUBKEYS_IN_CHECKSIGADD")
    return out


def build_step_text(vf, H, kinds, bins):
    """the loop body as a step function: arm table rewritten to an if-chain (R17), call sites to the instances"""
    NS, I = "%s.nodes@" % H.var, "%s.index as int" % H.var
    LO = "(%s.index - %s) as int" % (H.var, H.nvar)
    chain, pats = [], []
    for a in H.arms:
        kind, name = H.arm_kind(a)
        body = a["body"].strip().rstrip(",")
        if kind == "lit":
            pats.append(name)
            if name in bins:
                m = re.search(r"\bbinary\(", body)
                c = match_close(body, m.end() - 1)
                args = split_top_commas(body[m.end():c])
                body = body[:m.start()] + "Self::binary__%s(%s, %s, %s)" % (name, args[0], args[1], args[2]) + body[c + 1:]
            if name in kinds:
                k, variant = kinds[name]
                f = NAME2FRAG.get(name)
                if k == "pop":
                    hint = ("proof { let ghost st0_ = stack0_; let ghost av_ = tree_aargs::<Pk>(%s, %s, stack_trees(st0_), Frag::%s); "
                            "assert forall|j: int| 0 <= j < th_.inner@.len() implies #[trigger] av_[j + 1] == AArg::Node(atree(th_.inner@[j].node)) by { assert(th_.inner@[j] == st0_[st0_.len() - 1 - j]); } "
                            "lemma_thresh_value::<Pk, Ctx>(th_, av_); }" % (NS, I, f)) if f == "Thresh" else ""
                    body = ("(match %s.verify_threshold__pop(&mut stack) { Ok(x_) => { let ghost th_ = x_; %s Self::from_ast(Terminal::%s(x_)) }, Err(e_) => Err(e_) })" % (H.var, hint, variant))
                else:
                    hint = ("proof { let ghost av_ = tree_aargs::<Pk>(%s, %s, stack_trees(stack0_), Frag::%s); "
                            "assert forall|j: int| 0 <= j < th_.inner@.len() implies #[trigger] av_[j + 1] == AArg::<Pk>::Key(th_.inner@[j]) by { } "
                            "lemma_%s_value::<Pk, Ctx>(th_, av_); }" % (NS, I, f, f)) if f in MULTIS else ""
                    body = ("(match %s.verify_threshold__keys() { Ok(x_) => { let ghost th_ = x_; %s Self::from_ast(Terminal::%s(x_)) }, Err(e_) => Err(e_) })" % (H.var, hint, variant))
            chain.append(('frag_name == "%s"' % name, body))
        else:
            chain.append((None, "let %s = frag_name; %s" % (name, body)))
    if chain[-1][0] is not None or any(c is None for c, _ in chain[:-1]):
        raise Undecided("Miniscript::from_tree: the catch-all arm of `match frag_name` is not the last one")
    ifs = "(" + " else ".join(("if %s { %s }" % (c, b)) if c else "{ %s }" % b for c, b in chain) + ")"
    s, e = H.match_span
    body = H.body[:s] + ifs + H.body[e:]
    vf.rewrites_used.append("R17-strmatch `match frag_name { \"lit\" => .. }` -> chain of `frag_name == \"lit\"` tests in arm order @ %s" % FT)
    # matches!(x, "a" | "b") on strings
    def matches_rw(m):
        alts = [x.strip() for x in m.group(2).split("|")]
        return "(" + " || ".join("%s == %s" % (m.group(1), x) for x in alts) + ")"
    body = re.sub(r"matches!\(\s*(\w+)\s*,\s*((?:\"[^\"]*\"\s*\|?\s*)+)\)", matches_rw, body)
    ghost = ("let ghost stack0_ = stack@;\n        proof { lemma_frag_lits(); frag_names_distinct(); lemma_ms_names(); lemma_const_trees::<Pk, Ctx>(); "
             "assert(wf_node(%s, %s)); assert(wf_node(%s, %s)); lemma_mnsc(%s, %s, %s); }" % (NS, I, NS, LO, NS, LO, I))
    text = ("fn from_tree_step<'s>(%s: usize, %s: TreeIterItem<'s>, stack: &mut Vec<%s>) -> Result<(), Error> {\n        %s%s\n        Ok(())\n    }"
            % (H.nvar, H.var, MSARC, ghost, body))
    text = vf._apply(text, [sub("R16-captured-local", r"&mut stack\b", "stack", required=False), C.R7_PATHS, C.RANGE_INCL, R14_TREE, R14_LEAF, R12_CONSTS, TO_OWNED2,
                            sub("R10", r"(let parent = \w+\.parent\(\)\.unwrap\(\);)", r"\1\n                proof { assert(wf_node(parent.nodes@, parent.index as int)); }", required=False)],
                     FT + "/loop body")
    return text, pats


def emit_parser(vf, repo):
    H = Head(repo)
    with vf.block(MS_IMPL):
        bins = emit_binary_instances(vf, H)
        emit_wrappers(vf, H)
    kinds = emit_threshold_instances(vf, H)
    vf.spec_obligation("lemma::nary_values", nary_lemmas(), P10)
    text, pats = build_step_text(vf, H, kinds, bins)
    NS, I = "%s.nodes@" % H.var, "%s.index as int" % H.var
    LO = "(%s.index - %s) as int" % (H.var, H.nvar)
    # ---- the arm-pattern table: the names the reader knows --------------------------------------------------------------------------
    table = ("fn from_tree_name_known(frag_name: &str) -> bool {\n        proof { lemma_frag_lits(); frag_names_distinct(); }\n        "
             + " else ".join('if frag_name == "%s" { true }' % p for p in pats) + " else { false }\n    }")
    vf.rewrites_used.append("R9-arm-bodies `match frag_name`: patterns verbatim, bodies replaced by true (catch-all: false) @ %s" % FT)
    with vf.block(MS_IMPL):
        vf.fn_text("Miniscript::from_tree_name_known", table, Contract(ensures=
            [Clause("reads_the_printed_name.%s" % n, P10, "frag_name@ == frag_str(Frag::%s)@ ==> r" % n) for n, _ in NONWRAP] +
            [Clause("reads_only_names_of_the_notation", P10, "r ==> exists|f: Frag| !is_wrap_frag(f) && frag_name@ == #[trigger] frag_str(f)@")]),
            PROPS, file=MSMOD, lines=H.reg.lines(), anchor=FT + "/match:frag_name/patterns")
        # ---- the step ----------------------------------------------------------------------------------------------------------------
        L = "old(stack)@.len()"
        shared = Contract(
            requires=["%s.valid()" % H.var, "wf_chain(%s)" % NS, "%s <= %s.index" % (H.nvar, H.var), "%s <= rmd(%s, %s)" % (I, NS, LO), "%s >= mnsc(%s, %s, %s)" % (L, NS, LO, I)],
            ensures=[
                Clause("stack_effect_is_one_push_minus_one_pop_per_value_child", P11,
                       "r is Ok ==> final(stack)@.len() == %s + (if mskip(%s, %s, %s) { 0 } else { 1 - mnsc(%s, %s, %s) })" % (L, NS, LO, I, NS, LO, I)),
                Clause("entries_below_the_popped_ones_untouched", P1011,
                       "r is Ok ==> final(stack)@.take(%s - mnsc(%s, %s, %s)) =~= old(stack)@.take(%s - mnsc(%s, %s, %s))" % (L, NS, LO, I, L, NS, LO, I)),
            ], canary=False)
        cases = []
        for n, s in NONWRAP:
            cases.append((n, "fname(%s, %s) == frag_str(Frag::%s)@" % (NS, I, n), [
                Clause("builds_what_the_name_denotes", P10,
                       "r is Ok && !mskip(%s, %s, %s) ==> wrappers_known(wbytes(%s, %s)) && atree(final(stack)@.last().node) == "
                       "wrap_tree(wbytes(%s, %s), denote(Frag::%s, tree_aargs::<Pk>(%s, %s, stack_trees(old(stack)@), Frag::%s)))" % (NS, LO, I, NS, I, NS, I, n, NS, I, n))]))
        cases.append(("other", " && ".join("fname(%s, %s) != frag_str(Frag::%s)@" % (NS, I, n) for n, _ in NONWRAP), [
            Clause("names_outside_the_notation_are_rejected", P1011, "r is Ok ==> mskip(%s, %s, %s)" % (NS, LO, I))]))
        vf.fn_cases("Miniscript::from_tree_step", text, shared, PROPS, cases, file=MSMOD, lines=H.reg.lines(), anchor=FT + "/loop body", attrs=SPIN)
        # reachability canaries of the step's precondition (the framework cannot express one for `&mut` parameters): shared + two of the cases
        for cn, cond, _ in [c for c in cases if c[0] in ("AndV", "Thresh", "other")]:
            cname = "canary_Miniscript_from_tree_step__%s" % cn
            pre = ", ".join("(%s)" % c.text.replace("old(stack)@", "stack") for c in shared.requires) + ", (%s)" % cond
            start = vf._emit("proof fn %s<'s>(%s: usize, %s: TreeIterItem<'s>, stack: Seq<%s>)\n    requires %s,\n    ensures false,\n{}\n" % (cname, H.nvar, H.var, MSARC, pre),
                             dict(origin="verif", fn=cname, canary_for="Miniscript::from_tree_step__%s" % cn))
            vf.canaries.append((cname, "Miniscript::from_tree_step__%s" % cn, start, vf._lines))
        # the step as the frame sees it: the shared clauses (proved case by case above; the cases are exhaustive)
        h_, r_, w_, b_ = split_fn(text)
        twin = text[:len(text) - len(b_)] + "{ unimplemented!() }"
        vf.fn_text("Miniscript::from_tree_step", twin, Contract(requires=[c for c in shared.requires], ensures=list(shared.ensures), canary=False), (),
                   file=MSMOD, lines=H.reg.lines(), anchor=FT + "/loop body", attrs="#[verifier::external_body]", origin="assumed")
        del vf.functions["Miniscript::from_tree_step"]
        # ---- the frame: the loop with the stack invariant, the final assert ---------------------------------------------------------
        C.expect_text(repo, EXPR, "impl:TreeIterItem<'s>/fn:pre_order_iter", C.EXPECTED_PRE_ORDER_ITER, "R8 (rev pre-order loop)")
        C.expect_text(repo, EXPR, "impl:DoubleEndedIterator for PreOrderIter<'_>/fn:next_back", C.EXPECTED_NEXT_BACK, "R8 (rev pre-order loop)")
        R = H.root
        loop = ("""let it_hi_ = %(R)s.rightmost_descendant_idx();
        proof { assert(wf_node(%(R)s.ns(), %(R)s.i())); }
        let mut it_i_: usize = it_hi_ + 1;
        while it_i_ > %(R)s.index
            invariant
                %(R)s.valid(), wf_chain(%(R)s.ns()), it_hi_ == rmd(%(R)s.ns(), %(R)s.i()),
                %(R)s.index <= it_i_ <= it_hi_ + 1, it_hi_ < %(R)s.ns().len(),
                stack@.len() == mpending(%(R)s.ns(), %(R)s.i(), it_i_ as int, it_hi_ as int),
            decreases it_i_,
        {
            it_i_ -= 1;
            let %(n)s = it_i_ - %(R)s.index;
            let %(v)s = TreeIterItem { nodes: %(R)s.nodes, index: it_i_ };
            proof { lemma_mpending_covers_pops(%(R)s.ns(), %(R)s.i(), it_i_ as int); }
            Self::from_tree_step(%(n)s, %(v)s, &mut stack)?;
            proof { lemma_mpending_step(%(R)s.ns(), %(R)s.i(), it_i_ as int); }
        }
        proof { lemma_mpending_final(%(R)s.ns(), %(R)s.i()); }""" % dict(R=R, n=H.nvar, v=H.var))
        head = ("fn from_tree_head(%s: TreeIterItem) -> Result<Vec<%s>, Error> {%s%s\n        %s\n        Ok(stack)\n    }"
                % (R, MSARC, H.before, loop, H.final_assert))
        head = vf._apply(head, [C.R7_PATHS, R14_TREE, C.ASSERT_EQ], FT + "/head")
        vf.rewrites_used.append("R8/R16-rev-enumerate-preorder-loop @ %s" % FT)
        vf.fn_text("Miniscript::from_tree_head", head, Contract(requires=["%s.valid()" % R, "wf_chain(%s.nodes@)" % R], ensures=[
            Clause("exactly_one_result_is_left", P11, "r is Ok ==> r->Ok_0@.len() == 1")], canary=True),
            PROPS, file=MSMOD, lines=H.reg.lines(), anchor=FT + "/head")
    vf.trust("Miniscript::from_tree_step (external_body twin called by the frame): the shared clauses of the step", "proved on the real text case by case (from_tree_step__<name>) + from_tree_step__cases_exhaustive")
    vf.trust("loop rewrite R8: `for (n, node) in root.pre_order_iter().enumerate().rev()` visits (n - root.index, TreeIterItem { nodes: root.nodes, index: n }) for n = root.rightmost_descendant_idx() down to root.index",
             "texts of pre_order_iter / PreOrderIter::next_back (checked against c11_policy_parse's EXPECTED_*); std: Enumerate over an ExactSizeIterator counts from 0, Rev<I>::next = I::next_back")
    vf.trust("loop rewrite R8: `for ch in frag_wrap.bytes().rev()` visits the bytes of `frag_wrap.as_bytes()` from the last to the first", "std: str::bytes() iterates as_bytes(); Rev reverses")
    return H


# =====================================================================================================================
# PRINTER: the notation as a token sequence, and the composition of the per-visit steps
# =====================================================================================================================
def notation_tokens():
    unary = " | ".join("Terminal::%s(x)" % v for v in UNARY_W)
    binary = " | ".join("Terminal::%s(x, y)" % v for v in BIN)
    return r"""
// ---- height of a fragment (the AST is finite) -----------------------------------------------------------------------
spec fn max2_(a: nat, b: nat) -> nat { if a >= b { a } else { b } }
spec fn th<Pk: MiniscriptKey, Ctx: ScriptContext>(t: Terminal<Pk, Ctx>) -> nat
    decreases t,
{
    match t {
        %(unary)s => 1 + th(x.node),
        %(binary)s => 1 + max2_(th(x.node), th(y.node)),
        Terminal::AndOr(x, y, z) => 1 + max2_(th(x.node), max2_(th(y.node), th(z.node))),
        Terminal::Thresh(thr) => 1 + th_max(thr.inner@, thr.inner@.len()),
        _ => 0,
    }
}
spec fn th_max<Pk: MiniscriptKey, Ctx: ScriptContext>(s: Seq<Arc<Miniscript<Pk, Ctx>>>, n: nat) -> nat
    decreases s, n,
{
    if n == 0 || n > s.len() { 0 } else { max2_(th(s[n - 1].node), th_max(s, (n - 1) as nat)) }
}
// ================================================================================================================
// ORACLE: the text of a fragment as a token sequence (Miniscript specification: NAME(ARG,...,ARG); 0 and 1 bare;
// a run of wrapper letters followed by ':' and the wrapped fragment).  after_wrapper: the fragment directly follows
// a wrapper letter (then a non-wrapper starts with ':').
// ================================================================================================================
spec fn arg_ntn<Pk: MiniscriptKey, Ctx: ScriptContext>(t: Terminal<Pk, Ctx>, a: ADisp<Pk, Ctx>) -> Seq<Tok>
    decreases th(t), 0int,
{
    match a {
        ADisp::Node(c) => if th(c) < th(t) { ntn(c, false) } else { Seq::empty() },
        _ => seq![leaf_tok(a)],
    }
}
// ARG_j , ... , ARG_n
spec fn args_ntn<Pk: MiniscriptKey, Ctx: ScriptContext>(t: Terminal<Pk, Ctx>, j: int) -> Seq<Tok>
    decreases th(t), 1 + display_children(t).len() - j,
{
    let dc = display_children(t);
    if j < 0 || j >= dc.len() { Seq::empty() }
    else { arg_ntn(t, dc[j]) + (if j + 1 < dc.len() { seq![t_comma()] + args_ntn(t, j + 1) } else { Seq::empty() }) }
}
spec fn ntn<Pk: MiniscriptKey, Ctx: ScriptContext>(t: Terminal<Pk, Ctx>, after_wrapper: bool) -> Seq<Tok>
    decreases th(t), 2 + display_children(t).len(),
{
    let f = frag(t);
    let dc = display_children(t);
    if is_wrap_frag(f) {
        seq![t_name(f)] + (if dc.len() == 1 && dc[0] is Node && th(dc[0]->Node_0) < th(t) { ntn(dc[0]->Node_0, true) } else { Seq::empty() })
    } else {
        (if after_wrapper { seq![t_colon()] } else { Seq::empty() }) + seq![t_name(f)]
            + (if dc.len() == 0 { Seq::empty() } else { seq![t_open()] + args_ntn(t, 0) + seq![t_close()] })
    }
}
spec fn notation<Pk: MiniscriptKey, Ctx: ScriptContext>(t: Terminal<Pk, Ctx>) -> Seq<Tok> { ntn(t, false) }

// ---- what the verbose pre-order traversal writes (doc of VerbosePreOrderIter, oracle `verbose` of units/c00_tree.py): the node with
//      k children done, then child k's whole sequence, then the node again with k + 1 children done -- each visit writes step_toks ----
spec fn varg<Pk: MiniscriptKey, Ctx: ScriptContext>(t: Terminal<Pk, Ctx>, a: ADisp<Pk, Ctx>) -> Seq<Tok>
    decreases th(t), 0int,
{
    match a {
        ADisp::Node(c) => if th(c) < th(t) { vfrom(c, is_wrap_frag(frag(t)), 0) } else { Seq::empty() },
        _ => step_toks(a, is_wrap_frag(frag(t)), 0),
    }
}
spec fn vfrom<Pk: MiniscriptKey, Ctx: ScriptContext>(t: Terminal<Pk, Ctx>, pw: bool, k: int) -> Seq<Tok>
    decreases th(t), 2 + display_children(t).len() - k,
{
    let dc = display_children(t);
    if k < 0 || k > dc.len() { Seq::empty() }
    else { step_toks(ADisp::Node(t), pw, k) + (if k < dc.len() { varg(t, dc[k]) + vfrom(t, pw, k + 1) } else { Seq::empty() }) }
}
""" % dict(unary=unary, binary=binary)


COMPOSITION = r"""
proof fn lemma_th_max<Pk: MiniscriptKey, Ctx: ScriptContext>(s: Seq<Arc<Miniscript<Pk, Ctx>>>, n: nat, i: int)
    requires 0 <= i < n <= s.len(),
    ensures th(s[i].node) <= th_max(s, n),
    decreases n,
{
    if i < n - 1 { lemma_th_max(s, (n - 1) as nat, i); }
}
// the sub-expressions shown as arguments are smaller
proof fn lemma_dc_smaller<Pk: MiniscriptKey, Ctx: ScriptContext>(t: Terminal<Pk, Ctx>, j: int)
    requires 0 <= j < display_children(t).len(), display_children(t)[j] is Node,
    ensures th(display_children(t)[j]->Node_0) < th(t),
{
    if t is Thresh { lemma_th_max(t->Thresh_0.inner@, t->Thresh_0.inner@.len(), j - 1); }
}
// a fragment printed as a wrapper letter has exactly one argument, a sub-expression
proof fn lemma_wrapper_arity<Pk: MiniscriptKey, Ctx: ScriptContext>(t: Terminal<Pk, Ctx>)
    requires is_wrap_frag(frag(t)),
    ensures display_children(t).len() == 1, display_children(t)[0] is Node,
{
}
// ARG_j .. ARG_n and the closing parenthesis, as the traversal writes them
proof fn lemma_args_compose<Pk: MiniscriptKey, Ctx: ScriptContext>(t: Terminal<Pk, Ctx>, pw: bool, j: int)
    requires !is_wrap_frag(frag(t)), 0 <= j < display_children(t).len(),
    ensures varg(t, display_children(t)[j]) + vfrom(t, pw, j + 1) =~= args_ntn(t, j) + seq![t_close()],
    decreases th(t), display_children(t).len() - j,
{
    let dc = display_children(t);
    let n = dc.len() as int;
    // the argument itself
    if dc[j] is Node { lemma_dc_smaller(t, j); printed_is_notation(dc[j]->Node_0, false); }
    assert(varg(t, dc[j]) =~= arg_ntn(t, dc[j]));
    if j + 1 < n {
        lemma_args_compose(t, pw, j + 1);
        assert(step_toks(ADisp::Node(t), pw, j + 1) =~= seq![t_comma()]);
        assert(vfrom(t, pw, j + 1) =~= seq![t_comma()] + (varg(t, dc[j + 1]) + vfrom(t, pw, j + 2)));
        assert(args_ntn(t, j) =~= arg_ntn(t, dc[j]) + (seq![t_comma()] + args_ntn(t, j + 1)));
    } else {
        assert(step_toks(ADisp::Node(t), pw, n) =~= seq![t_close()]);
        assert(vfrom(t, pw, n + 1) =~= Seq::<Tok>::empty());
        assert(vfrom(t, pw, n) =~= seq![t_close()]);
        assert(args_ntn(t, j) =~= arg_ntn(t, dc[j]));
    }
}
// COMPOSITION: the per-visit shares, in the order of the verbose pre-order traversal, add up to the notation of the fragment
proof fn printed_is_notation<Pk: MiniscriptKey, Ctx: ScriptContext>(t: Terminal<Pk, Ctx>, pw: bool)
    ensures vfrom(t, pw, 0) =~= ntn(t, pw),
    decreases th(t), display_children(t).len() + 1,
{
    let f = frag(t);
    let dc = display_children(t);
    if is_wrap_frag(f) {
        lemma_wrapper_arity(t);
        lemma_dc_smaller(t, 0);
        printed_is_notation(dc[0]->Node_0, true);
        assert(vfrom(t, pw, 2) =~= Seq::<Tok>::empty());
        assert(vfrom(t, pw, 1) =~= Seq::<Tok>::empty());
        assert(vfrom(t, pw, 0) =~= seq![t_name(f)] + (varg(t, dc[0]) + vfrom(t, pw, 1)));
    } else if dc.len() == 0 {
        assert(vfrom(t, pw, 1) =~= Seq::<Tok>::empty());
    } else {
        lemma_args_compose(t, pw, 0);
        assert(vfrom(t, pw, 0) =~= step_toks(ADisp::Node(t), pw, 0) + (varg(t, dc[0]) + vfrom(t, pw, 1)));
    }
}
"""
COMPOSITION_LEMMAS = ["lemma_th_max", "lemma_dc_smaller", "lemma_wrapper_arity", "lemma_args_compose", "printed_is_notation"]


def build(repo):
    vf = VerusFile(NAME, repo)
    E.emit_prelude(vf, hashing=False)
    text, reveals = frag_oracle_text()
    vf.raw(text)
    vf.spec_obligation("lemma::frag_names_distinct", O.frag_lemmas(reveals), P10)
    vf.raw(notation_oracle())
    vf.spec_obligation("lemma::frag_lens", lemma_frag_facts(reveals), P10)
    emit_printer(vf)
    emit_fmt_step(vf)
    vf.raw(notation_tokens())
    vf.raw(COMPOSITION)
    for l in COMPOSITION_LEMMAS:
        C._register(vf, l)
        vf.functions[l]["props"] = P10
    c11 = emit_tree(vf, repo)
    vf.raw(denote_oracle())
    for name, text in roundtrip_lemmas():
        vf.spec_obligation("roundtrip::%s" % name, text, P10)
    vf.raw(MS_SPEC)
    vf.trust("wf_chain (spec): ASSUMED, with wf_tree: the sibling chain of a node lists exactly the nodes naming it as parent", "what Tree::from_str builds; not verified")
    for l in MS_LEMMAS:
        C._register(vf, l)
    vf.raw(ARGS_SPEC % dict(shapes=''))
    vf.spec_obligation('lemma::const_trees', shapes_lemma(), P10)
    vf.spec_obligation("lemma::frag_lits", frag_literals_lemma(), P10)
    emit_ctors(vf, repo)
    emit_parser(vf, repo)
    return vf








