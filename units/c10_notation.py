"""C10 unit (Verus): printer and parser of miniscripts use the SAME notation, node by node.

(stage 1: prelude, oracle, printer side)
"""
import re

from vlib.verus import VerusFile, Contract, Clause, Undecided, sub, lit, rule, drop_vis, split_fn
from vlib.extract import match_close, strip_docs, split_arms, Region
from units import _tree
from units import c19_eq as E
from units import c19_ord as O
from units import c11_policy_parse as C

NAME = "c10_notation"
ENGINE = "verus"
PROPS = ("C10", "C11")
P10 = ("C10",)
P11 = ("C11",)
P1011 = ("C10", "C11")

DISPLAY = "src/miniscript/display.rs"
MSMOD = "src/miniscript/mod.rs"
ITER = "src/iter/tree.rs"

DROPPED = []

# the Miniscript specification's wrapper letters (a s c t d v j n l u), mapped to ghost names through c19_ord's table
SPEC_WRAPPER_LETTERS = "asctdvjnlu"
FRAGS = O.FRAGS
WRAPPERS = [(n, s) for n, s in FRAGS if len(s) == 1 and s in SPEC_WRAPPER_LETTERS]


def frag_oracle_text():
    text, reveals = O.frag_oracle()
    marker = "// label of a display node"
    if marker not in text or len(WRAPPERS) != len(SPEC_WRAPPER_LETTERS):
        raise Undecided("c19_ord.frag_oracle changed shape (marker / wrapper names)")
    return text.split(marker)[0], reveals


def notation_oracle():
    is_wrap = " || ".join("f is %s" % n for n, _ in WRAPPERS)
    wbyte = "\n".join("        Frag::%s => %du8," % (n, ord(s)) for n, s in WRAPPERS)
    wfrag = "\n".join("        %du8 => Some(Frag::%s)," % (ord(s), n) for n, s in WRAPPERS)
    return r"""
// ================================================================================================================
// ORACLE: the Miniscript text notation (specification, column "Miniscript fragment" + the syntactic sugar list)
//    NAME(ARG,...,ARG)                 a fragment; `0` and `1` have no argument list
//    W1..Wn:X                          a run of wrappers a s c t d v j n l u applied to X, outermost first
//    pk(K) = c:pk_k(K)    pkh(K) = c:pk_h(K)    and_n(X,Y) = andor(X,Y,0)
//    t:X = and_v(X,1)     l:X = or_i(0,X)       u:X = or_i(X,0)
// ================================================================================================================
spec fn is_wrap_frag(f: Frag) -> bool { %(is_wrap)s }
// the wrapper letter as the parser reads it (ASCII code)
spec fn wrapper_byte(f: Frag) -> u8 {
    match f {
%(wbyte)s
        _ => 0u8,
    }
}
spec fn wfrag(b: u8) -> Option<Frag> {
    match b {
%(wfrag)s
        _ => None,
    }
}
// ---- output tokens -----------------------------------------------------------------------------------------------
// the Display form of a leaf value (key, hash, number, lock time) is left uninterpreted
uninterp spec fn val_of<T>(x: T) -> int;
ghost enum Tok { Str(Seq<char>), Disp(int), Dbg(int), Type }
spec fn t_name(f: Frag) -> Tok { Tok::Str(frag_str(f)@) }      // Name(str) / WrapChar(c)
spec fn t_colon() -> Tok { Tok::Str(":"@) }
spec fn t_open() -> Tok { Tok::Str("("@) }
spec fn t_close() -> Tok { Tok::Str(")"@) }
spec fn t_comma() -> Tok { Tok::Str(","@) }
""" % dict(is_wrap=is_wrap, wbyte=wbyte, wfrag=wfrag)


def lemma_frag_facts(reveals):
    lens = "\n".join('        frag_str(Frag::%s)@.len() == %d && frag_str(Frag::%s).is_ascii(),' % (n, len(s), n) for n, s in FRAGS)
    return r"""
// lengths of the notation's names (string-literal facts)
proof fn lemma_frag_lens()
    ensures
%s
{
    %s
}
""" % (lens, reveals)


def emit_printer(vf):
    vf.item(ITER, "enum:Tree")
    vf.item(DISPLAY, "enum:DisplayNode", rewrites=[lit("R7", "crate::AbsLockTime", "AbsLockTime"), lit("R7", "crate::RelLockTime", "RelLockTime")])
    vf.item(DISPLAY, "enum:NaryChildren")
    vf.raw(O.DISPLAY_ABS)
    vf.raw("""
// std: str::len is the length in bytes; for an ASCII string that is the number of characters
#[verifier::external_body]
fn str_len_(s: &str) -> (r: usize) ensures s.is_ascii() ==> r == s@.len() { s.len() }
""")
    vf.trust("str_len_ (external_body) for `fragment_name().len()`", "std: str::len counts bytes; one byte per character for ASCII strings")
    with vf.block("impl<Pk: MiniscriptKey, Ctx: ScriptContext> Miniscript<Pk, Ctx>"):
        vf.fn(MSMOD, "impl:Miniscript<Pk, Ctx>/fn:as_inner", qual="Miniscript", props=P11,
              contract=Contract(ensures=[Clause("as_inner", (), "*r == self.node")]))
    with vf.block("impl<Pk: MiniscriptKey, Ctx: ScriptContext> Terminal<Pk, Ctx>"):
        vf.fn(DISPLAY, "impl:Terminal<Pk, Ctx>/fn:fragment_name", qual="Terminal", props=PROPS,
              contract=Contract(ensures=[Clause("is_notation_name_with_sugar", P10, "r == frag_str(frag(*self))")]))
        vf.fn(DISPLAY, "impl:Terminal<Pk, Ctx>/fn:is_wrapper", qual="Terminal", props=PROPS,
              rewrites=[sub("R7-std", r"self\.fragment_name\(\)\.len\(\)", "str_len_(self.fragment_name())"),
                        C.ghost_at_body_start("proof { lemma_frag_lens(); }")],
              contract=Contract(ensures=[Clause("exactly_the_wrapper_letters", P10, "r == is_wrap_frag(frag(*self))")]))
    nary = lit("R7", "Self::NaryChildren", "NaryChildren<'a, Pk, Ctx>")
    with vf.block("impl<'a, Pk: MiniscriptKey, Ctx: ScriptContext> DisplayNode<'a, Pk, Ctx>"):
        vf.fn(DISPLAY, "impl:TreeLike for DisplayNode<'a, Pk, Ctx>/fn:nary_len", qual="DisplayNode", props=PROPS, rewrites=[nary],
              contract=Contract(requires=["nary_view(*tc).len() <= usize::MAX"],
                                ensures=[Clause("k_plus_arguments", P10, "r == nary_view(*tc).len()")]))
        vf.fn(DISPLAY, "impl:TreeLike for DisplayNode<'a, Pk, Ctx>/fn:nary_index", qual="DisplayNode", props=PROPS, rewrites=[nary],
              contract=Contract(requires=["idx < nary_view(tc).len()"],
                                ensures=[Clause("k_first_then_arguments_in_order", P10, "dabs(r) == nary_view(tc)[idx as int]")]))
        vf.fn(DISPLAY, "impl:TreeLike for DisplayNode<'a, Pk, Ctx>/fn:as_node", qual="DisplayNode", props=PROPS, rewrites=[nary],
              contract=Contract(ensures=[
                  Clause("children_are_the_notation_arguments_in_order", P10, "tree_view(r) =~= achildren(dabs(*self))")]))


FMT_STUBS = r"""
// ---- core::fmt reduced to a token log (R7): `f.write_str(s)` appends Str(s), `fmt::Display::fmt(x, f)` appends the Display form of x ----
mod fmt {
    use super::*;
    pub(crate) struct Error { pub(crate) opaque: u8 }
    pub(crate) type Result = core::result::Result<(), Error>;
    pub(crate) struct Formatter { pub(crate) log: Ghost<Seq<Tok>> }
    impl Formatter {
        #[verifier::external_body]
        pub(crate) fn write_str(&mut self, s: &str) -> (r: Result)
            ensures r is Ok ==> final(self).log@ == old(self).log@.push(Tok::Str(s@)),
        { unimplemented!() }
    }
    // `fmt::Display::fmt(x, f)` / `fmt::Debug::fmt(x, f)`: the trait's method as an associated function of a marker type
    pub(crate) struct Display { opaque: u8 }
    pub(crate) struct Debug { opaque: u8 }
    impl Display {
        #[verifier::external_body]
        pub(crate) fn fmt<T>(x: &T, f: &mut Formatter) -> (r: Result)
            ensures r is Ok ==> final(f).log@ == old(f).log@.push(Tok::Disp(val_of::<T>(*x))),
        { unimplemented!() }
    }
    impl Debug {
        #[verifier::external_body]
        pub(crate) fn fmt<T>(x: &T, f: &mut Formatter) -> (r: Result)
            ensures r is Ok ==> final(f).log@ == old(f).log@.push(Tok::Dbg(val_of::<T>(*x))),
        { unimplemented!() }
    }
}
"""

STEP_TOKS = r"""
// ---- what one visit of the verbose pre-order traversal (node, k = number of children already printed) contributes ----
spec fn parent_wraps<'a, Pk: MiniscriptKey, Ctx: ScriptContext>(p: Option<DisplayNode<'a, Pk, Ctx>>) -> bool {
    p matches Some(DisplayNode::Node(_, t)) && is_wrap_frag(frag(*t))
}
spec fn leaf_tok<Pk: MiniscriptKey, Ctx: ScriptContext>(a: ADisp<Pk, Ctx>) -> Tok {
    match a {
        ADisp::K(k) => Tok::Disp(val_of(k)), ADisp::Key(k) => Tok::Disp(val_of(k)), ADisp::RawKeyHash(h) => Tok::Disp(val_of(h)),
        ADisp::After(x) => Tok::Disp(val_of(x)), ADisp::Older(x) => Tok::Disp(val_of(x)),
        ADisp::Sha256(h) => Tok::Disp(val_of(h)), ADisp::Hash256(h) => Tok::Disp(val_of(h)),
        ADisp::Ripemd160(h) => Tok::Disp(val_of(h)), ADisp::Hash160(h) => Tok::Disp(val_of(h)),
        ADisp::Node(_) => arbitrary(),
    }
}
spec fn step_toks<Pk: MiniscriptKey, Ctx: ScriptContext>(a: ADisp<Pk, Ctx>, pw: bool, k: int) -> Seq<Tok> {
    match a {
        ADisp::Node(t) => {
            let f = frag(t);
            let n = display_children(t).len();
            if is_wrap_frag(f) { if k == 0 { seq![t_name(f)] } else { Seq::empty() } }
            else if k == 0 { (if pw { seq![t_colon()] } else { Seq::empty() }) + seq![t_name(f)] + (if n > 0 { seq![t_open()] } else { Seq::empty() }) }
            else if k == n { seq![t_close()] }
            else { seq![t_comma()] }
        },
        _ => if k == 0 { seq![leaf_tok(a)] } else { Seq::empty() },
    }
}
"""


def emit_fmt_step(vf):
    vf.raw(FMT_STUBS, keep_vis=True)
    vf.trust("mod fmt { Formatter { log }, write_str, Display::fmt, Debug::fmt } (external_body)",
             "core::fmt is outside Verus: the formatter is modelled as the log of what was written; `write_str(s)` writes s, `Display::fmt(x, f)` writes the Display form of x "
             "(an uninterpreted value val_of(x)); `impl Display for &T` forwards to T")
    vf.item(DISPLAY, "enum:DisplayTypes")
    vf.item(ITER, "struct:PreOrderIterItem", rewrites=[C.STRIP_DERIVE])
    vf.raw(STEP_TOKS)
    reg = vf.repo.at(DISPLAY, "impl:Terminal<Pk, Ctx>/fn:conditional_fmt/block:for item in")
    body = drop_vis(strip_docs(reg.text))
    if re.search(r"\b(break|continue|return)\b", body):
        raise Undecided("conditional_fmt: loop body with break / continue / return cannot be lambda-lifted")
    text = ("fn conditional_fmt_step<'a, Pk: MiniscriptKey, Ctx: ScriptContext>(item: PreOrderIterItem<DisplayNode<'a, Pk, Ctx>>, display_types: DisplayTypes, "
            "f: &mut fmt::Formatter) -> fmt::Result {\n    proof { lemma_frag_lens(); }%s\n    Ok(())\n}" % body)
    # R3-ref: `Variant(ref x)` on a payload that is itself a reference -> `Variant(x)` (std: Display / Debug for &T forward to T)
    r3 = sub("R3-ref", r"DisplayNode::(Key|RawKeyHash|After|Older|Sha256|Hash256|Ripemd160|Hash160)\(ref (\w+)\)", r"DisplayNode::\1(\2)")
    text = vf._apply(text, [r3], "conditional_fmt/loop body")
    vf.rewrites_used.append("R16-loop-body @ impl:Terminal<Pk, Ctx>/fn:conditional_fmt")
    KIDS = "achildren(dabs(item.node)).len()"
    vf.fn_text("Terminal::conditional_fmt_step", text, Contract(
        requires=["item.n_children_yielded <= %s" % KIDS, "item.is_complete == (item.n_children_yielded == %s)" % KIDS],
        ensures=[Clause("display_writes_this_visits_share_of_the_notation", P10,
                        "r is Ok && display_types is None ==> final(f).log@ =~= old(f).log@ + step_toks(dabs(item.node), parent_wraps(item.parent), item.n_children_yielded as int)")],
        canary=False), PROPS, file=DISPLAY, lines=reg.lines(), anchor="impl:Terminal<Pk, Ctx>/fn:conditional_fmt/loop body")


# =====================================================================================================================
# PARSER SIDE
# =====================================================================================================================
EXPR = C.EXPR
EXPR_ERR = C.EXPR_ERR
THRESH = _tree.THRESH

P_ERRORS = r"""
// ---- error types: payloads are only moved around (reduced to the variants the extracted text constructs) -----------------------
struct ParseNumError { opaque: u8 }
struct AbsLockTimeError { opaque: u8 }
struct RelLockTimeError { opaque: u8 }
struct FromStrError { opaque: u8 }
enum ParseTreeError { UnknownName { name: String }, Other }
enum ParseError { AbsoluteLockTime(AbsLockTimeError), RelativeLockTime(RelLockTimeError), FromStr(FromStrError), Num(ParseNumError), Tree(ParseTreeError) }
enum Error { Parse(ParseError), Threshold(ThresholdError), ParseThreshold(ParseThresholdError), UnknownWrapper(char), Other }
impl From<ParseThresholdError> for Error { fn from(e: ParseThresholdError) -> Self { Self::ParseThreshold(e) } }
impl vstd::std_specs::convert::FromSpecImpl<ParseThresholdError> for Error {
    open spec fn obeys_from_spec() -> bool { true }
    closed spec fn from_spec(e: ParseThresholdError) -> Self { Error::ParseThreshold(e) }
}
#[verifier::external_body] fn str_to_owned_(s: &str) -> String { unimplemented!() }
#[verifier::external_body] fn u8_into_char_(x: u8) -> char { unimplemented!() }
// R14: `X.map_err(From::from).map_err(Error::Parse)` on a Result<T, ParseTreeError> (definition of map_err + From<ParseTreeError> for ParseError; verified)
fn map_err_tree_<T>(x: Result<T, ParseTreeError>) -> (r: Result<T, Error>)
    ensures x is Ok <==> r is Ok, x is Ok ==> r->Ok_0 == x->Ok_0,
        x matches Err(e) ==> r == Err::<T, Error>(Error::Parse(ParseError::Tree(e))),
{ match x { Ok(v) => Ok(v), Err(e) => Err(Error::Parse(ParseError::Tree(e))) } }
// the value a string denotes for a FromStr type (keys, hashes): uninterpreted
uninterp spec fn spec_from_str<T>(s: Seq<char>) -> Option<T>;
uninterp spec fn spec_abs_from_consensus(n: u32) -> Option<AbsLockTime>;
uninterp spec fn spec_rel_from_consensus(n: u32) -> Option<RelLockTime>;
impl AbsLockTime {
    #[verifier::external_body] fn from_consensus(n: u32) -> (r: Result<AbsLockTime, AbsLockTimeError>)
        ensures r matches Ok(v) ==> spec_abs_from_consensus(n) == Some(v) { unimplemented!() }
}
impl RelLockTime {
    #[verifier::external_body] fn from_consensus(n: u32) -> (r: Result<RelLockTime, RelLockTimeError>)
        ensures r matches Ok(v) ==> spec_rel_from_consensus(n) == Some(v) { unimplemented!() }
}
"""

P_THRESH = r"""
impl<T, const MAX: usize> Threshold<T, MAX> {
    // the threshold invariant (doc comment of struct Threshold): 1 <= k <= n, and n <= MAX when MAX > 0
    spec fn inv(&self) -> bool { 1 <= self.k <= self.inner@.len() && (MAX > 0 ==> self.inner@.len() <= MAX) }
}
"""

SEP_SPEC = r"""
// name_separated(sep): (what precedes the first separator, what follows it); the whole name if there is none
spec fn sepname(s: Seq<char>, sep: char) -> Seq<char> {
    if !s.contains(sep) { s } else { s.subrange(s.index_of(sep) + 1, s.len() as int) }
}
spec fn seppref(s: Seq<char>, sep: char) -> Seq<char> {
    if !s.contains(sep) { Seq::empty() } else { s.subrange(0, s.index_of(sep)) }
}
// ASCII: one byte per character
spec fn ascii_bytes(s: Seq<char>) -> Seq<u8> { Seq::new(s.len(), |i: int| s[i] as u8) }
"""


def other_contract(other, fq):
    """the contract another unit PROVES for `fq` (same Clause objects)"""
    f = other.functions.get(fq)
    if f is None:
        raise Undecided("%s no longer contracts %s" % (other.unit, fq))
    items = [kc for _, kc in sorted(f["clauses"].items())]
    return Contract(requires=[c for k, c in items if k == "requires"], ensures=[c for k, c in items if k == "ensures"], canary=False)


def emit_tree(vf, repo):
    c11 = C.build(repo)
    vf.item(THRESH, "struct:ThresholdError", rewrites=[C.STRIP_DERIVE])
    vf.item(EXPR_ERR, "enum:ParseThresholdError", rewrites=[C.STRIP_DERIVE])
    vf.raw(P_ERRORS)
    vf.trust("struct ParseNumError / AbsLockTimeError / RelLockTimeError / FromStrError (opaque), enums ParseTreeError / ParseError / Error reduced to the variants constructed, "
             "From<ParseThresholdError> for Error + FromSpecImpl glue, str_to_owned_ / u8_into_char_ (external_body, arbitrary result)", "error payloads are only moved around")
    vf.trust("uninterp spec_from_str::<T> / spec_abs_from_consensus / spec_rel_from_consensus; AbsLockTime / RelLockTime::from_consensus (external_body: Ok(v) ==> v is that value)",
             "what a key / hash string denotes (T::from_str) and which numbers are lock times is left uninterpreted (k_locktime decides the lock-time constructors)")
    vf.raw(P_THRESH)
    with vf.block("impl<T, const MAX: usize> Threshold<T, MAX>"):
        vf.fn(THRESH, "impl:Threshold<T, MAX>/fn:new", qual="Threshold", assumed=True, contract=other_contract(c11, "Threshold::new"))
    vf.trust("Threshold::new (external_body): contract proved in units/c11_policy_parse.py (same Clause objects)", "proved on the real text there")
    vf.item(EXPR, "enum:Parens", rewrites=[C.COPY_DERIVE])
    vf.item(EXPR, "struct:TreeNode", rewrites=[C.STRIP_DERIVE])
    vf.item(EXPR, "struct:TreeIterItem", rewrites=[C.COPY_DERIVE])
    vf.item(EXPR, "struct:DirectChildIterator")
    vf.raw(C.MODEL)
    vf.trust("wf_tree (spec): ASSUMED shape of the TreeNode array behind every TreeIterItem (precondition `valid()`), text of units/c11_policy_parse.py MODEL",
             "what Tree::from_str builds (pre-order array, parent_idx / n_children / sibling chains consistent); not verified")
    for l in C.MODEL_LEMMAS:
        C._register(vf, l)
    vf.raw(C.TREE_SPEC)
    for l in C.TREE_LEMMAS:
        C._register(vf, l)
    vf.trust("trait ChildMapper (text of units/c11_policy_parse.py TREE_SPEC; not used here)", "closure conversion of verify_threshold's FnMut argument")
    vf.trust("uninterp spec_parse_num_nonzero", "the number a string denotes is left uninterpreted")
    vf.raw(SEP_SPEC)
    NS, I = "self.nodes@", "self.index as int"
    with vf.block("impl<'s> DirectChildIterator<'s>"):
        vf.fn(EXPR, "impl:Iterator for DirectChildIterator<'s>/fn:next", qual="DirectChildIterator", assumed=True,
              rewrites=[sub("R7-assoc", r"Option<Self::Item>", "Option<TreeIterItem<'s>>")],
              contract=other_contract(c11, "DirectChildIterator::next"))
    with vf.block("impl<'s> TreeIterItem<'s>"):
        for f in ("name", "n_children", "parent", "is_first_child", "first_child", "children", "rightmost_descendant_idx"):
            vf.fn(EXPR, "impl:TreeIterItem<'s>/fn:%s" % f, qual="TreeIterItem", assumed=True, contract=other_contract(c11, "TreeIterItem::%s" % f))
        vf.raw("""
    // R8-range stub of verify_n_children (RangeInclusive): Ok exactly when the number of children is in the range
    #[verifier::external_body] fn verify_n_children_(self, description: &'static str, lo: usize, hi: usize) -> (r: Result<(), ParseTreeError>)
        requires self.valid(), ensures r is Ok <==> lo <= nch(self.nodes@, self.index as int) <= hi { unimplemented!() }
""")
        vf.fn(EXPR, "impl:TreeIterItem<'s>/fn:name_separated", qual="TreeIterItem", assumed=True, contract=Contract(requires=["self.valid()"], ensures=[
            Clause("def", (), "r matches Ok(p) ==> p.1@ == sepname(%s[%s].name@, separator) && (p.0 is Some <==> %s[%s].name@.contains(separator)) "
                              "&& (p.0 matches Some(w) ==> w@ == seppref(%s[%s].name@, separator) && w.is_ascii())" % (NS, I, NS, I, NS, I))], canary=False))
        vf.fn(EXPR, "impl:TreeIterItem<'s>/fn:verify_terminal", qual="TreeIterItem", assumed=True, rewrites=[C.DROP_FROMSTR_BOUND], contract=Contract(requires=["self.valid()"], ensures=[
            Clause("def", (), "r matches Ok(v) ==> nch(%s, %s) == 0 && spec_from_str::<T>(%s[%s].name@) == Some(v)" % (NS, I, NS, I))], canary=False))
        vf.fn(EXPR, "impl:TreeIterItem<'s>/fn:verify_no_curly_braces", qual="TreeIterItem", assumed=True, contract=Contract(requires=["self.valid()"], canary=False))
    vf.trust("DirectChildIterator::next, TreeIterItem::{name, n_children, parent, is_first_child, first_child, children, rightmost_descendant_idx}, parse_num (external_body): "
             "contracts proved in units/c11_policy_parse.py (same Clause objects, taken from that unit's build)", "proved on the real text there")
    vf.trust("TreeIterItem::verify_n_children_ (external_body)", "verify_n_children's text: Ok iff `n_children.contains(&self.n_children())`; std: (A..=B).contains(x) <=> A <= x <= B")
    vf.trust("TreeIterItem::name_separated (external_body): Ok((prefix, name)) ==> name follows the first separator (whole name when there is none), prefix precedes it and exists iff the separator occurs; the prefix is ASCII",
             "its text: splitn(3, separator): one piece without separator, (prefix, rest) for one occurrence, Err for more; Tree::from_str rejects non-ASCII input")
    vf.trust("TreeIterItem::verify_terminal::<T> (external_body): Ok(v) ==> no children and v is what T::from_str gives for the name (spec_from_str, uninterpreted)",
             "its text: verify_n_children(description, 0..=0)?; T::from_str(self.name())")
    vf.trust("TreeIterItem::verify_no_curly_braces (external_body, arbitrary result)", "loop over the nodes reading `parens`; nothing assumed")
    vf.fn(EXPR, "fn:parse_num", assumed=True, contract=other_contract(c11, "parse_num"))
    # real text, with the VALUE the arms hand to the constructors
    LEAF = "nch(%s, %s) == 1 && nch(%s, %s + 1) == 0" % (NS, I, NS, I)
    CHILD = "%s[%s + 1].name@" % (NS, I)
    COMMON = [C.RANGE_INCL, C.ETA, C.DROP_FROMSTR_BOUND]
    with vf.block("impl<'s> TreeIterItem<'s>"):
        vf.fn(EXPR, "impl:TreeIterItem<'s>/fn:verify_terminal_parent", qual="TreeIterItem", props=PROPS, rewrites=COMMON, contract=Contract(requires=["self.valid()"], ensures=[
            Clause("one_child_which_is_a_leaf", P11, "r is Ok ==> %s" % LEAF),
            Clause("value_is_parsed_from_the_childs_name", P10, "r matches Ok(v) ==> spec_from_str::<T>(%s) == Some(v)" % CHILD)]))
        vf.fn(EXPR, "impl:TreeIterItem<'s>/fn:verify_after", qual="TreeIterItem", props=PROPS, rewrites=COMMON + [C.AND_THEN_TAIL], contract=Contract(requires=["self.valid()"], ensures=[
            Clause("one_child_which_is_a_leaf", P11, "r is Ok ==> %s" % LEAF),
            Clause("value_is_the_number_in_the_child", P10, "r matches Ok(v) ==> spec_parse_num(%s) matches Ok(n) && spec_abs_from_consensus(n) == Some(v)" % CHILD)]))
        vf.fn(EXPR, "impl:TreeIterItem<'s>/fn:verify_older", qual="TreeIterItem", props=PROPS, rewrites=COMMON + [C.AND_THEN_TAIL], contract=Contract(requires=["self.valid()"], ensures=[
            Clause("one_child_which_is_a_leaf", P11, "r is Ok ==> %s" % LEAF),
            Clause("value_is_the_number_in_the_child", P10, "r matches Ok(v) ==> spec_parse_num(%s) matches Ok(n) && spec_rel_from_consensus(n) == Some(v)" % CHILD)]))
    return c11


# =====================================================================================================================
# PARSER ORACLE + ROUND TRIP
# =====================================================================================================================
UNARY_W = ["Alt", "Swap", "Check", "DupIf", "Verify", "NonZero", "ZeroNotEqual"]
BIN = ["AndV", "AndB", "OrB", "OrD", "OrC", "OrI"]
HASHES = ["Sha256", "Hash256", "Ripemd160", "Hash160"]
MULTIS = ["Multi", "SortedMulti", "MultiA", "SortedMultiA"]
NAME2FRAG = {s: n for n, s in FRAGS}
NONWRAP = [(n, s) for n, s in FRAGS if (n, s) not in WRAPPERS]


def denote_oracle():
    V = {v: i for i, v in enumerate(E.VARIANTS)}
    rows = []
    def row(f, val, comment=None):
        if comment:
            rows.append("        // " + comment)
        rows.append("        Frag::%s => %s," % (f, val))
    leaf = lambda v, p="Payload::Plain": "aleaf(%d, %s)" % (V[v], p)
    X = lambda i: "av[%d]->Node_0" % i
    row("True", leaf("True"), "0  1")
    row("False", leaf("False"))
    row("PkK", leaf("PkK", "Payload::Key(av[0]->Key_0)"), "pk_k(KEY) pk_h(KEY) older(NUM) after(NUM) sha256(HASH) hash256(HASH) ripemd160(HASH) hash160(HASH)")
    row("PkH", leaf("PkH", "Payload::Key(av[0]->Key_0)"))
    row("After", leaf("After", "Payload::After(av[0]->After_0)"))
    row("Older", leaf("Older", "Payload::Older(av[0]->Older_0)"))
    for v in HASHES:
        row(v, leaf(v, "Payload::%s(av[0]->%s_0)" % (v, v)))
    row("RawPkH", leaf("RawPkH", "Payload::RawHash(av[0]->RawKeyHash_0)"),
        "not in the specification: the library's notation for a key given by its hash only, read after the pattern pk_h / pkh: expr_raw_pk_h(HASH), expr_raw_pkh(HASH) = c:expr_raw_pk_h(HASH)")
    row("ExprRawPkh", "anode1(%d, %s)" % (V["Check"], leaf("RawPkH", "Payload::RawHash(av[0]->RawKeyHash_0)")))
    for i, v in enumerate(UNARY_W):
        row(v, "anode1(%d, %s)" % (V[v], X(0)), "wrappers  a:X s:X c:X d:X v:X j:X n:X" if i == 0 else None)
    row("Pk", "anode1(%d, %s)" % (V["Check"], leaf("PkK", "Payload::Key(av[0]->Key_0)")), "pk(KEY) = c:pk_k(KEY)   pkh(KEY) = c:pk_h(KEY)")
    row("Pkh", "anode1(%d, %s)" % (V["Check"], leaf("PkH", "Payload::Key(av[0]->Key_0)")))
    row("T", "anode2(%d, %s, %s)" % (V["AndV"], X(0), leaf("True")), "t:X = and_v(X,1)   l:X = or_i(0,X)   u:X = or_i(X,0)   and_n(X,Y) = andor(X,Y,0)")
    row("L", "anode2(%d, %s, %s)" % (V["OrI"], leaf("False"), X(0)))
    row("U", "anode2(%d, %s, %s)" % (V["OrI"], X(0), leaf("False")))
    row("AndN", "anode3(%d, %s, %s, %s)" % (V["AndOr"], X(0), X(1), leaf("False")))
    for i, v in enumerate(BIN):
        row(v, "anode2(%d, %s, %s)" % (V[v], X(0), X(1)), "and_v(X,Y) and_b(X,Y) or_b(X,Z) or_d(X,Z) or_c(X,Z) or_i(X,Z) andor(X,Y,Z)" if i == 0 else None)
    row("AndOr", "anode3(%d, %s, %s, %s)" % (V["AndOr"], X(0), X(1), X(2)))
    row("Thresh", "ATree { v: %d, payload: Payload::KN(av[0]->K_0, (av.len() - 1) as nat), kids: Seq::new((av.len() - 1) as nat, |i: int| av[i + 1]->Node_0) }" % V["Thresh"],
        "thresh(k,X1,...,Xn)   multi(k,KEY1,...,KEYn) sortedmulti(..) multi_a(..) sortedmulti_a(..): the threshold first, then the arguments in order")
    for v in MULTIS:
        row(v, "aleaf(%d, Payload::Keys(av[0]->K_0, Seq::new((av.len() - 1) as nat, |i: int| av[i + 1]->Key_0)))" % V[v])
    if sorted(x.split("::")[1].split(" ")[0] for x in rows if "=>" in x) != sorted(n for n, _ in FRAGS):
        raise Undecided("denote oracle does not cover c19_ord.FRAGS")
    return r"""
// ---- "equal value": same fragments, thresholds, keys, hashes, lock times, sub-expressions in the same positions (what
//      PartialEq of Terminal / Miniscript decides; the cached type annotations are not part of it) -----------------------
// v = the fragment kind (index of the Terminal variant, c19_eq's vidx), payload = c19_eq's node-local payload
ghost struct ATree<Pk: MiniscriptKey> { v: int, payload: Payload<Pk>, kids: Seq<ATree<Pk>> }
spec fn atree<Pk: MiniscriptKey, Ctx: ScriptContext>(t: Terminal<Pk, Ctx>) -> ATree<Pk>
    decreases t
{
    let kids = match t {
        Terminal::Alt(x) | Terminal::Swap(x) | Terminal::Check(x) | Terminal::DupIf(x) | Terminal::Verify(x)
        | Terminal::NonZero(x) | Terminal::ZeroNotEqual(x) => seq![atree(x.node)],
        Terminal::AndV(x, y) | Terminal::AndB(x, y) | Terminal::OrB(x, y) | Terminal::OrD(x, y) | Terminal::OrC(x, y)
        | Terminal::OrI(x, y) => seq![atree(x.node), atree(y.node)],
        Terminal::AndOr(x, y, z) => seq![atree(x.node), atree(y.node), atree(z.node)],
        Terminal::Thresh(th) => Seq::new(th.inner@.len(), |i: int| if 0 <= i < th.inner@.len() { atree(th.inner@[i].node) } else { arbitrary() }),
        _ => Seq::empty(),
    };
    ATree { v: vidx(t), payload: payload(t), kids: kids }
}
spec fn same_value<Pk: MiniscriptKey, Ctx: ScriptContext>(a: Terminal<Pk, Ctx>, b: Terminal<Pk, Ctx>) -> bool { atree(a) == atree(b) }
// a written argument: a sub-expression (by value), the threshold, a key, a hash, a lock time
ghost enum AArg<Pk: MiniscriptKey> {
    Node(ATree<Pk>), K(usize), Key(Pk), RawKeyHash(hash160::Hash), After(AbsLockTime), Older(RelLockTime),
    Sha256(Pk::Sha256), Hash256(Pk::Hash256), Ripemd160(Pk::Ripemd160), Hash160(Pk::Hash160),
}
spec fn aarg<Pk: MiniscriptKey, Ctx: ScriptContext>(a: ADisp<Pk, Ctx>) -> AArg<Pk> {
    match a {
        ADisp::Node(t) => AArg::Node(atree(t)), ADisp::K(k) => AArg::K(k), ADisp::Key(k) => AArg::Key(k), ADisp::RawKeyHash(h) => AArg::RawKeyHash(h),
        ADisp::After(x) => AArg::After(x), ADisp::Older(x) => AArg::Older(x), ADisp::Sha256(h) => AArg::Sha256(h), ADisp::Hash256(h) => AArg::Hash256(h),
        ADisp::Ripemd160(h) => AArg::Ripemd160(h), ADisp::Hash160(h) => AArg::Hash160(h),
    }
}
spec fn aview<Pk: MiniscriptKey, Ctx: ScriptContext>(s: Seq<ADisp<Pk, Ctx>>) -> Seq<AArg<Pk>> { Seq::new(s.len(), |i: int| aarg(s[i])) }
spec fn aleaf<Pk: MiniscriptKey>(v: int, p: Payload<Pk>) -> ATree<Pk> { ATree { v: v, payload: p, kids: Seq::empty() } }
spec fn anode1<Pk: MiniscriptKey>(v: int, x: ATree<Pk>) -> ATree<Pk> { ATree { v: v, payload: Payload::Plain, kids: seq![x] } }
spec fn anode2<Pk: MiniscriptKey>(v: int, x: ATree<Pk>, y: ATree<Pk>) -> ATree<Pk> { ATree { v: v, payload: Payload::Plain, kids: seq![x, y] } }
spec fn anode3<Pk: MiniscriptKey>(v: int, x: ATree<Pk>, y: ATree<Pk>, z: ATree<Pk>) -> ATree<Pk> { ATree { v: v, payload: Payload::Plain, kids: seq![x, y, z] } }

// ================================================================================================================
// ORACLE (reader's side): the value  NAME(ARG,...,ARG)  denotes -- Miniscript specification, fragment table and the
// list of syntactic sugar.  `av`: the arguments as written, left to right.  (numbers = E.VARIANTS positions: %(vars)s)
// ================================================================================================================
spec fn denote<Pk: MiniscriptKey>(f: Frag, av: Seq<AArg<Pk>>) -> ATree<Pk> {
    match f {
%(rows)s
    }
}
// W1..Wn:X -- a run of wrapper letters, outermost first, applied to X
spec fn wrap_tree<Pk: MiniscriptKey>(ws: Seq<u8>, x: ATree<Pk>) -> ATree<Pk> decreases ws.len() {
    if ws.len() == 0 { x } else { denote(wfrag(ws[0])->Some_0, seq![AArg::Node(wrap_tree(ws.drop_first(), x))]) }
}
spec fn wrappers_known(ws: Seq<u8>) -> bool { forall|j: int| 0 <= j < ws.len() ==> wfrag(#[trigger] ws[j]) is Some }
""" % dict(rows="\n".join(rows), vars=" ".join("%d=%s" % (i, v) for v, i in sorted(V.items(), key=lambda x: x[1])))


def roundtrip_lemmas():
    def hint(n):
        if n == "Thresh":
            return ("{ let th = t->Thresh_0; let dc = display_children(t); assert(dc.len() == 1 + th.inner@.len()); lemma_aview(dc, 0);\n"
                    "              assert forall|i: int| 0 <= i < th.inner@.len() implies aview(dc)[i + 1] == AArg::Node(atree(th.inner@[i].node)) by { lemma_aview(dc, i + 1); }\n"
                    "              assert(denote(frag(t), aview(dc)).kids =~= atree(t).kids); }")
        if n in MULTIS:
            return ("{ let th = t->%s_0; let dc = display_children(t); assert(dc.len() == 1 + th.inner@.len()); lemma_aview(dc, 0);\n"
                    "              assert forall|i: int| 0 <= i < th.inner@.len() implies aview(dc)[i + 1] == AArg::<Pk>::Key(th.inner@[i]) by { lemma_aview(dc, i + 1); }\n"
                    "              assert(denote(frag(t), aview(dc)).payload->Keys_1 =~= th.inner@); }" % n)
        return ("{ let dc = display_children(t); if dc.len() > 0 { lemma_aview(dc, 0); } if dc.len() > 1 { lemma_aview(dc, 1); } if dc.len() > 2 { lemma_aview(dc, 2); }\n"
                "              assert(denote(frag(t), aview(dc)).kids =~= atree(t).kids); }")
    cases = "\n".join("        Frag::%s => %s" % (n, hint(n)) for n, _ in FRAGS)
    l0 = r"""
proof fn lemma_aview<Pk: MiniscriptKey, Ctx: ScriptContext>(s: Seq<ADisp<Pk, Ctx>>, i: int)
    requires 0 <= i < s.len(),
    ensures aview(s).len() == s.len(), aview(s)[i] == aarg(s[i]),
{}
"""
    l1 = r"""
// ROUND TRIP (node level): what the printer writes for a node -- fragment_name() incl. its sugar, the arguments in the order of
// as_node() -- is read back as the same value, provided the sub-expressions are (aview: sub-expressions by value)
proof fn printed_form_denotes_the_node<Pk: MiniscriptKey, Ctx: ScriptContext>(t: Terminal<Pk, Ctx>)
    ensures denote(frag(t), aview(display_children(t))) == atree(t),
{
    match frag(t) {
%s
    }
}
""" % cases
    l2 = r"""
// ... hence: the arm selected by the printed name, applied to sub-expressions that already round-tripped (same value child by
// child, same k / keys / hashes / lock times), rebuilds the value that was printed
proof fn roundtrip_node<Pk: MiniscriptKey, Ctx: ScriptContext>(t: Terminal<Pk, Ctx>, parsed: Terminal<Pk, Ctx>, parsed_args: Seq<AArg<Pk>>)
    requires atree(parsed) == denote(frag(t), parsed_args), parsed_args == aview(display_children(t)),
    ensures same_value(parsed, t),
{
    printed_form_denotes_the_node(t);
}
"""
    l3 = r"""
// the printed name selects that arm only: the notation's names are pairwise different strings (frag_names_distinct)
proof fn printed_name_selects_one_arm<Pk: MiniscriptKey, Ctx: ScriptContext>(t: Terminal<Pk, Ctx>, f: Frag)
    requires frag_str(f)@ == frag_str(frag(t))@,
    ensures f == frag(t),
{
    frag_names_distinct();
}
"""
    l4 = r"""
// a wrapper letter is read as the fragment it is printed for: the one-character name IS the letter
proof fn wrapper_letters_agree(f: Frag)
    requires is_wrap_frag(f),
    ensures frag_str(f)@ =~= seq![wrapper_byte(f) as char], wfrag(wrapper_byte(f)) == Some(f),
{
    lemma_frag_lens();
    %s
}
""" % " ".join('reveal_strlit("%s");' % s for _, s in WRAPPERS)
    return [("lemma_aview", l0), ("printed_form_denotes_the_node", l1), ("roundtrip_node", l2), ("printed_name_selects_one_arm", l3), ("wrapper_letters_agree", l4)]


def build(repo):
    vf = VerusFile(NAME, repo)
    E.emit_prelude(vf, hashing=False)
    text, reveals = frag_oracle_text()
    vf.raw(text)
    vf.spec_obligation("lemma::frag_names_distinct", O.frag_lemmas(reveals), P10)
    vf.raw(notation_oracle())
    vf.spec_obligation("lemma::frag_lens", lemma_frag_facts(reveals), P10)
    emit_printer(vf)
    emit_fmt_step(vf)
    c11 = emit_tree(vf, repo)
    vf.raw(denote_oracle())
    for name, text in roundtrip_lemmas():
        vf.spec_obligation("roundtrip::%s" % name, text, P10)
    return vf


