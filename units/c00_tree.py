"""C00 unit: the traversal contract of src/iter/tree.rs (shared assumption of C01 C02 C03 C04 C07 C09 C17 C19 C20).

Every per-node step proof of the other units ASSUMES that the generic iterators visit the tree in the
textbook order.  This unit puts the iterators themselves under contract.

Oracle (mathematics, not the code), over the tree given by the spec function `children`:
    preorder(t)   = [t] ++ preorder(c0) ++ .. ++ preorder(c(n-1))
    postorder(t)  = postorder(c0) ++ .. ++ postorder(c(n-1)) ++ [t]
    rtl variant   = postorder of the mirrored tree (children visited c(n-1) .. c0, then t)
    `index` of the k-th yielded item is k; `child_indices[i]` of the item of t is the index of the item of c_i.

Shape of the proofs: a representation invariant relates the iterator's stack to the REMAINING yield
sequence (`pre_stack`, `rem`, `vrem`); every `next` returns the head of that sequence and leaves its tail;
for the freshly constructed iterator the remaining sequence is the oracle sequence of the root.
"""
import re

from vlib.verus import VerusFile, Contract, Clause, sub, lit, rule, DERIVE_TRIM

NAME = "c00_tree"
ENGINE = "verus"
TRAVERSAL = ("C01", "C02", "C03", "C04", "C07", "C09", "C17", "C19", "C20")
FN_PROPS = TRAVERSAL + ("C11",)
PROPS = FN_PROPS
TREE = "src/iter/tree.rs"

DROPPED = [
    "iter/tree.rs `impl Iterator for X { fn next }` are verified as inherent methods of X (`Self::Item` -> the concrete item type, R7): Verus does not allow `requires` on implementations of "
    "std's Iterator::next, and the representation invariant is a precondition.  Adaptors of std::iter::Iterator (`.rev()`, `.zip()`, `.enumerate()` applied to the iterators by callers) are outside the unit",
    "the provided trait methods pre_order_iter / verbose_pre_order_iter / post_order_iter / rtl_post_order_iter are lifted to free generic functions (R13: `self` -> `root`, `Self` -> `T`): "
    "a contract inside the trait declaration cannot mention spec functions that are generic over the trait (cyclic definition in Verus); n_children / nth_child stay provided methods of the trait, verbatim",
    "RtlPostOrderIter::next: `E.map(|mut item| BODY)` -> `match E { None => None, Some(mut item) => Some(BODY) }` (R14, BODY verbatim)",
    "`for i in (0..n).rev() {` -> `for i in it: (0..n).rev() invariant .. {` (R10: ghost label + invariant only; Verus' native `for` over Rev<Range<usize>>, no index-loop rewrite)",
    "#[derive(Clone, Debug)] on the iterator structs is dropped / trimmed (R1); `#[derive(Clone)]` of PreOrderIterItem is replaced by an external_body stand-in `clone` (field-wise clone, trusted)",
    "trees are assumed to have at most usize::MAX nodes (precondition `count(root) <= usize::MAX` of the constructors; `self.index += 1` is then proved not to overflow). "
    "A DAG shared through Arc is traversed as the tree it unfolds to (the doc comment's \"each node is only yielded once\" is not what the code does, nor what any caller relies on)",
    "call-stack depth of the recursive PostOrderIter::next (= length of the leftmost spine below the expanded node) is not modelled",
]

# ------------------------------------------------------------------------------------------------
# the stub trait: what an implementor of TreeLike promises (contracts of the three required methods)
# ------------------------------------------------------------------------------------------------
TRAIT_REQUIRED = r"""
    type NaryChildren: Clone;

    // ---- the abstract tree: the oracle's only view of a node ------------------------------------
    spec fn children(&self) -> Seq<Self>;                          // sub-expressions, source order
    spec fn nary_view(tc: &Self::NaryChildren) -> Seq<Self>;       // the children an n-ary handle stands for
    spec fn height(&self) -> nat;                                  // trees are finite (well-founded)
    proof fn children_smaller(&self, i: int)
        requires 0 <= i < self.children().len(),
        ensures self.children()[i].height() < self.height();

    // ---- contracts of the three required methods ("very mechanical" per the trait's doc) ----------
    fn nary_len(tc: &Self::NaryChildren) -> (r: usize)
        ensures r == Self::nary_view(tc).len();
    fn nary_index(tc: Self::NaryChildren, idx: usize) -> (r: Self)
        requires idx < Self::nary_view(&tc).len(),          // doc: "May panic if asked for an element outside of the range"
        ensures r == Self::nary_view(&tc)[idx as int];
    fn as_node(&self) -> (r: Tree<Self, Self::NaryChildren>)
        ensures self.children() == (match r {
            Tree::Nullary => Seq::empty(),
            Tree::Unary(a) => seq![a],
            Tree::Binary(a, b) => seq![a, b],
            Tree::Ternary(a, b, c) => seq![a, b, c],
            Tree::Nary(d) => Self::nary_view(&d),
        });
"""

ORACLE_PRE = r"""
use vstd::std_specs::iter::IteratorSpec;
// ================================================================================================
// ORACLE: textbook traversal orders over the tree given by `children`
// (the guards `height() <` only make the definitions terminate; `children_smaller` discharges them)
// ================================================================================================
spec fn tree_children<T: TreeLike>(n: Tree<T, T::NaryChildren>) -> Seq<T> {
    match n {
        Tree::Nullary => Seq::empty(),
        Tree::Unary(a) => seq![a],
        Tree::Binary(a, b) => seq![a, b],
        Tree::Ternary(a, b, c) => seq![a, b, c],
        Tree::Nary(d) => T::nary_view(&d),
    }
}

// preorder(t) = [t] ++ preorder(c0) ++ .. ++ preorder(c(n-1));   pre_from(t, j) = preorder(cj) ++ .. ++ preorder(c(n-1))
spec fn preorder<T: TreeLike>(t: T) -> Seq<T>
    decreases t.height(), t.children().len() + 1,
{
    seq![t] + pre_from(t, 0)
}
spec fn pre_from<T: TreeLike>(t: T, j: int) -> Seq<T>
    decreases t.height(), t.children().len() - j,
{
    if 0 <= j < t.children().len() {
        (if t.children()[j].height() < t.height() { preorder(t.children()[j]) } else { Seq::empty() }) + pre_from(t, j + 1)
    } else {
        Seq::empty()
    }
}
// the same thing in forest form (used to state the oracle without the termination guard)
spec fn pre_forest<T: TreeLike>(f: Seq<T>) -> Seq<T>
    decreases f.len(),
{
    if f.len() == 0 { Seq::empty() } else { preorder(f[0]) + pre_forest(f.drop_first()) }
}

// clone laws of the handle types (assumption: in the crate T is a shared reference / Copy handle)
spec fn clone_is_id<T: TreeLike>() -> bool {
    &&& forall|a: T, b: T| #[trigger] call_ensures(T::clone, (&a,), b) ==> a == b
    &&& forall|a: T::NaryChildren, b: T::NaryChildren| #[trigger] call_ensures(T::NaryChildren::clone, (&a,), b) ==> T::nary_view(&a) == T::nary_view(&b)
}

// children cj .. c(n-1) as they lie on a stack after being pushed right-to-left (cj on top = last)
spec fn rev_skip<A>(kids: Seq<A>, j: int) -> Seq<A> {
    Seq::new((kids.len() - j) as nat, |m: int| kids[kids.len() - 1 - m])
}
"""

LEMMA_PRE_TEXTBOOK = r"""
proof fn lemma_pre_from_forest<T: TreeLike>(t: T, j: int)
    requires 0 <= j <= t.children().len(),
    ensures pre_from(t, j) == pre_forest(t.children().skip(j)),
    decreases t.children().len() - j,
{
    let f = t.children().skip(j);
    if j < t.children().len() {
        t.children_smaller(j);
        lemma_pre_from_forest(t, j + 1);
        assert(f[0] == t.children()[j]);
        assert(f.drop_first() =~= t.children().skip(j + 1));
    } else {
        assert(f.len() == 0);
    }
}
// the oracle IS the textbook definition: preorder(t) = [t] ++ concat(preorder(c) for c in children(t))
proof fn lemma_preorder_textbook<T: TreeLike>(t: T)
    ensures preorder(t) == seq![t] + pre_forest(t.children()),
{
    lemma_pre_from_forest(t, 0);
    assert(t.children().skip(0) =~= t.children());
}
"""

PRE_INV = r"""
// ---- representation invariant of PreOrderIter: what the stack will still yield -------------------
// remaining(stack) = concat(preorder(s) for s in reverse(stack))   (top of the stack = last element)
spec fn pre_stack<T: TreeLike>(s: Seq<T>) -> Seq<T>
    decreases s.len(),
{
    if s.len() == 0 { Seq::empty() } else { preorder(s.last()) + pre_stack(s.drop_last()) }
}
proof fn lemma_pre_push_kids<T: TreeLike>(rest: Seq<T>, t: T, j: int)
    requires 0 <= j <= t.children().len(),
    ensures pre_stack(rest + rev_skip(t.children(), j)) == pre_from(t, j) + pre_stack(rest),
    decreases t.children().len() - j,
{
    let kids = t.children();
    let s = rest + rev_skip(kids, j);
    if j < kids.len() {
        t.children_smaller(j);
        lemma_pre_push_kids(rest, t, j + 1);
        assert(s.last() == kids[j]);
        assert(s.drop_last() =~= rest + rev_skip(kids, j + 1));
    } else {
        assert(s =~= rest);
    }
}
proof fn lemma_pre_stack_single<T: TreeLike>(t: T)
    ensures forall|s: Seq<T>| s.len() == 1 && s[0] == t ==> #[trigger] pre_stack(s) == preorder(t),
{
    assert forall|s: Seq<T>| s.len() == 1 && s[0] == t implies #[trigger] pre_stack(s) == preorder(t) by {
        assert(pre_stack(s.drop_last()) =~= Seq::<T>::empty());
        assert(pre_stack(s) =~= preorder(t));
    }
}
proof fn lemma_pre_stack_empty<T: TreeLike>(s: Seq<T>)
    ensures pre_stack(s).len() == 0 <==> s.len() == 0,
{
    if s.len() > 0 { assert(preorder(s.last()).len() >= 1); }
}
"""

# ghost insertions (R10) for PreOrderIter::next
PRE_FOR_OLD = r"for i in ([^{]*?) \{"
PRE_FOR_NEW = r"""for i in it: \1
                    invariant
                        clone_is_id::<T>(),
                        T::nary_view(&children) == top.children(),
                        it.snapshot@.remaining().len() == top.children().len(),
                        self.stack@ =~= rest + rev_skip(top.children(), top.children().len() - it.index@),
                {"""
PRE_TAIL = """proof {
            lemma_pre_stack_empty(old(self).stack@);
            assert(old(self).stack@.drop_last() =~= rest);
            assert(pre_stack(old(self).stack@) == preorder(top) + pre_stack(rest));
            // (an `if`, not an `assert`: if the children were pushed in another order the named clause rest_is_tail fails)
            if self.stack@ =~= rest + rev_skip(top.children(), 0) {
                lemma_pre_push_kids(rest, top, 0);
                assert(pre_stack(self.stack@) =~= pre_stack(old(self).stack@).skip(1));
            }
        }
        Some(top)"""


# ================================================================================================
# (1b) Rtl: the mirrored tree
# ================================================================================================
RTL_SPEC = r"""
    // the mirrored tree: same nodes, children in reverse order
    spec fn children(&self) -> Seq<Self> { rtl_wrap(self.0.children().reverse()) }
    spec fn nary_view(tc: &Self::NaryChildren) -> Seq<Self> { rtl_wrap(T::nary_view(tc).reverse()) }
    spec fn height(&self) -> nat { self.0.height() }
    proof fn children_smaller(&self, i: int) {
        self.0.children_smaller(self.0.children().len() - 1 - i);
    }
"""
RTL_PRE = r"""
spec fn rtl_wrap<T>(s: Seq<T>) -> Seq<Rtl<T>> { s.map_values(|x: T| Rtl(x)) }
// the children a node of the adaptor announces, unwrapped, in the order it announces them
spec fn rtl_node_children<T: TreeLike>(n: Tree<Rtl<T>, T::NaryChildren>) -> Seq<T> {
    match n {
        Tree::Nullary => Seq::empty(),
        Tree::Unary(a) => seq![a.0],
        Tree::Binary(a, b) => seq![a.0, b.0],
        Tree::Ternary(a, b, c) => seq![a.0, b.0, c.0],
        Tree::Nary(d) => Seq::new(T::nary_view(&d).len(), |i: int| T::nary_view(&d)[T::nary_view(&d).len() - 1 - i]),   // through Rtl::nary_index (clause mirrored_index)
    }
}
"""

# ================================================================================================
# (3) PostOrderIter
# ================================================================================================
ORACLE_POST = r"""
// ================================================================================================
// ORACLE: post-order with yield indices.
//   postorder(t) = postorder(c0) ++ .. ++ postorder(c(n-1)) ++ [t]
//   the k-th yielded item has index k; child_indices[i] of the item of t = index of the item of ci
// PItem = what a PostOrderIterItem says: (node, index, child_indices)
// ================================================================================================
ghost struct PItem<T> { node: T, index: int, child_indices: Seq<int> }

// number of nodes of the subtree of t  (= number of items its post-order yields)
spec fn count<T: TreeLike>(t: T) -> nat
    decreases t.height(), t.children().len() + 1,
{
    1 + count_kids(t, t.children().len() as int)
}
// number of nodes in the subtrees of the first j children of t
spec fn count_kids<T: TreeLike>(t: T, j: int) -> nat
    decreases t.height(), j,
{
    if 0 < j <= t.children().len() {
        count_kids(t, j - 1) + (if t.children()[j - 1].height() < t.height() { count(t.children()[j - 1]) } else { 0 })
    } else {
        0
    }
}
// when the subtree of t starts yielding at index `base`: the block of child i starts at base + count_kids(t, i),
// the item of child i is the LAST of its block
spec fn child_positions<T: TreeLike>(t: T, base: int) -> Seq<int> {
    Seq::new(t.children().len(), |i: int| base + count_kids(t, i + 1) - 1)
}
spec fn post_items<T: TreeLike>(t: T, base: int) -> Seq<PItem<T>>
    decreases t.height(), t.children().len() + 1,
{
    post_from(t, base, 0)
}
// items of children j.., then the item of t itself
spec fn post_from<T: TreeLike>(t: T, base: int, j: int) -> Seq<PItem<T>>
    decreases t.height(), t.children().len() - j,
{
    if 0 <= j < t.children().len() {
        (if t.children()[j].height() < t.height() { post_items(t.children()[j], base + count_kids(t, j)) } else { Seq::empty() })
            + post_from(t, base, j + 1)
    } else {
        seq![PItem { node: t, index: base + count_kids(t, t.children().len() as int), child_indices: child_positions(t, base) }]
    }
}
"""

POST_INV = r"""
// ---- representation invariant of PostOrderIter ------------------------------------------------------
// abstraction of a stack item / a yielded item
ghost struct GItem<T> { elem: T, processed: bool, ci: Seq<int>, par: Option<usize> }
spec fn as_ints(s: Seq<usize>) -> Seq<int> { s.map_values(|x: usize| x as int) }
spec fn abs_item<T>(it: IterStackItem<T>) -> GItem<T> {
    GItem { elem: it.elem, processed: it.processed, ci: as_ints(it.child_indices@), par: it.parent_stack_idx }
}
spec fn abs_stack<T>(s: Seq<IterStackItem<T>>) -> Seq<GItem<T>> { Seq::new(s.len(), |k: int| abs_item(s[k])) }
spec fn abs_out<T>(it: PostOrderIterItem<T>) -> PItem<T> {
    PItem { node: it.node, index: it.index as int, child_indices: as_ints(it.child_indices@) }
}
// record yield index v in the child_indices of the parent
spec fn bump<T>(s: Seq<GItem<T>>, par: Option<usize>, v: int) -> Seq<GItem<T>> {
    match par {
        Some(p) => if p < s.len() { s.update(p as int, GItem { ci: s[p as int].ci.push(v), ..s[p as int] }) } else { s },
        None => s,
    }
}
// an unprocessed item stands for "the whole post-order of this subtree", a processed one for "yield this node now"
spec fn step_len<T: TreeLike>(g: GItem<T>) -> int { if g.processed { 1 } else { count(g.elem) as int } }
// what the stack will still yield when the next yield has index i
spec fn rem<T: TreeLike>(s: Seq<GItem<T>>, i: int) -> Seq<PItem<T>>
    decreases s.len(),
{
    if s.len() == 0 { Seq::empty() } else {
        let top = s.last();
        let n = step_len(top);
        (if top.processed { seq![PItem { node: top.elem, index: i, child_indices: top.ci }] } else { post_items(top.elem, i) })
            + rem(bump(s.drop_last(), top.par, i + n - 1), i + n)
    }
}
spec fn inv<T: TreeLike>(s: Seq<GItem<T>>, i: int) -> bool
    decreases s.len(),
{
    s.len() == 0 || {
        let top = s.last();
        let n = step_len(top);
        &&& (top.par is Some ==> top.par->0 < s.len() - 1)
        &&& (!top.processed ==> top.ci.len() == 0)
        &&& inv(bump(s.drop_last(), top.par, i + n - 1), i + n)
    }
}
spec fn post_rem<T: TreeLike>(it: PostOrderIter<T>) -> Seq<PItem<T>> { rem(abs_stack(it.stack@), it.index as int) }
spec fn post_inv<T: TreeLike>(it: PostOrderIter<T>) -> bool {
    inv(abs_stack(it.stack@), it.index as int) && it.index + post_rem(it).len() <= usize::MAX
}
// termination measure of `next`: only an unprocessed top makes it recurse, into a strictly lower subtree
spec fn post_measure<T: TreeLike>(it: PostOrderIter<T>) -> nat {
    if it.stack@.len() > 0 && !it.stack@.last().processed { it.stack@.last().elem.height() + 1 } else { 0 }
}

spec fn unproc<T>(c: T, par: Option<usize>) -> GItem<T> { GItem { elem: c, processed: false, ci: Seq::empty(), par } }
// a fresh stack item: not processed, no child index recorded yet
spec fn is_unproc<T>(it: IterStackItem<T>, elem: T, par: Option<usize>) -> bool {
    it.elem == elem && !it.processed && it.child_indices@.len() == 0 && it.parent_stack_idx == par
}
proof fn lemma_abs_unproc<T>(it: IterStackItem<T>, elem: T, par: Option<usize>)
    requires is_unproc(it, elem, par),
    ensures abs_item(it) == unproc(elem, par),
{
    assert(as_ints(it.child_indices@) =~= Seq::<int>::empty());
}
// the stack after `x` (parent link `par`) was expanded at yield index `base` and its first j children are done
spec fn expanded<T: TreeLike>(rest: Seq<GItem<T>>, x: T, par: Option<usize>, base: int, j: int) -> Seq<GItem<T>> {
    rest.push(GItem { elem: x, processed: true, ci: child_positions(x, base).take(j), par })
        + rev_skip(x.children(), j).map_values(|c: T| unproc(c, Some(rest.len() as usize)))
}
"""

LEMMA_EXPAND = r"""
proof fn lemma_count_kids_step<T: TreeLike>(x: T, j: int)
    requires 0 <= j < x.children().len(),
    ensures count_kids(x, j + 1) == count_kids(x, j) + count(x.children()[j]),
        post_from(x, 0, j).len() >= 0,
{
    x.children_smaller(j);
}
// expanding an unprocessed node into (processed node, children right-to-left) does not change what the stack yields
proof fn lemma_expand<T: TreeLike>(rest: Seq<GItem<T>>, x: T, par: Option<usize>, base: int, j: int)
    requires
        0 <= j <= x.children().len(),
        rest.len() <= usize::MAX,
        par is Some ==> par->0 < rest.len(),
    ensures
        rem(expanded(rest, x, par, base, j), base + count_kids(x, j))
            == post_from(x, base, j) + rem(bump(rest, par, base + count(x) - 1), base + count(x)),
        inv(bump(rest, par, base + count(x) - 1), base + count(x)) ==> inv(expanded(rest, x, par, base, j), base + count_kids(x, j)),
    decreases x.children().len() - j,
{
    let kids = x.children();
    let n = kids.len() as int;
    let s = expanded(rest, x, par, base, j);
    let b = base + count_kids(x, j);
    let me = GItem { elem: x, processed: true, ci: child_positions(x, base).take(j), par };
    let tail = rem(bump(rest, par, base + count(x) - 1), base + count(x));
    if j < n {
        x.children_smaller(j);
        let c = kids[j];
        let up = Some(rest.len() as usize);
        assert(s.last() == unproc(c, up));
        let s2 = bump(s.drop_last(), up, b + count(c) - 1);
        assert(count_kids(x, j + 1) == count_kids(x, j) + count(c));
        assert(child_positions(x, base).take(j).push(b + count(c) - 1) =~= child_positions(x, base).take(j + 1));
        assert(s.drop_last() =~= rest.push(me) + rev_skip(kids, j + 1).map_values(|c: T| unproc(c, up)));
        assert(s2 =~= expanded(rest, x, par, base, j + 1));
        lemma_expand(rest, x, par, base, j + 1);
        assert(rem(s, b) == post_items(c, b) + rem(s2, b + count(c)));
        assert(post_from(x, base, j) == post_items(c, b) + post_from(x, base, j + 1));
        assert(rem(s, b) =~= post_from(x, base, j) + tail);
    } else {
        assert(s =~= rest.push(me));
        assert(s.drop_last() =~= rest);
        assert(child_positions(x, base).take(n) =~= child_positions(x, base));
        assert(count(x) == 1 + count_kids(x, n));
        assert(rem(s, b) =~= post_from(x, base, j) + tail);
    }
}
"""

LEMMA_POST_BASIC = r"""
proof fn lemma_post_len<T: TreeLike>(t: T, base: int)
    ensures post_items(t, base).len() == count(t),
    decreases t.height(), t.children().len() + 1,
{
    lemma_post_from_len(t, base, 0);
}
proof fn lemma_post_from_len<T: TreeLike>(t: T, base: int, j: int)
    requires 0 <= j <= t.children().len(),
    ensures post_from(t, base, j).len() == count(t) - count_kids(t, j),
    decreases t.height(), t.children().len() - j,
{
    if j < t.children().len() {
        t.children_smaller(j);
        lemma_post_len(t.children()[j], base + count_kids(t, j));
        lemma_post_from_len(t, base, j + 1);
    }
}
proof fn lemma_rem_nonempty<T: TreeLike>(s: Seq<GItem<T>>, i: int)
    ensures rem(s, i).len() == 0 <==> s.len() == 0,
{
    if s.len() > 0 { lemma_post_len(s.last().elem, i); }
}
proof fn lemma_rem_single<T: TreeLike>(root: T)
    ensures forall|s: Seq<GItem<T>>| s.len() == 1 && s[0] == unproc(root, None) ==> #[trigger] rem(s, 0) == post_items(root, 0) && inv(s, 0),
{
    assert forall|s: Seq<GItem<T>>| s.len() == 1 && s[0] == unproc(root, None) implies #[trigger] rem(s, 0) == post_items(root, 0) && inv(s, 0) by {
        let r2 = bump(s.drop_last(), None, 0int + count(root) - 1);
        assert(s.last() == unproc(root, None));
        assert(step_len(s.last()) == count(root));
        assert(r2.len() == 0);
        assert(rem(r2, 0int + count(root)) =~= Seq::<PItem<T>>::empty());
        assert(rem(s, 0) == post_items(root, 0) + rem(r2, 0int + count(root)));
        assert(rem(s, 0) =~= post_items(root, 0));
        assert(inv(r2, 0int + count(root)));
    }
}
"""

POST_FOR_OLD = r"for idx in ([^{]*?) \{"
POST_FOR_NEW = r"""for idx in it: \1
                invariant
                    n_children == x.children().len(),
                    it.snapshot@.remaining().len() == n_children,
                    current_stack_idx == rest.len(),
                    self.index == i0,
                    self.stack@.len() == current_stack_idx + 1 + it.index@,
                    self.stack@[current_stack_idx as int].elem == x,
                    abs_stack(self.stack@) =~= rest.push(GItem { elem: x, processed: true, ci: Seq::empty(), par })
                        + rev_skip(x.children(), n_children - it.index@).map_values(|c: T| unproc(c, Some(current_stack_idx))),
            {
                let ghost before = self.stack@;"""
POST_BEFORE_LOOP = """self.stack.push(current);
            proof {
                assert(s0.last().ci.len() == 0);
                assert(as_ints(current.child_indices@) =~= Seq::<int>::empty());
                assert(abs_item(current) == GItem { elem: x, processed: true, ci: Seq::<int>::empty(), par });
                assert(rev_skip(x.children(), n_children as int).map_values(|c: T| unproc(c, Some(current_stack_idx))) =~= Seq::<GItem<T>>::empty());
            }"""
POST_LOOP_END_OLD = """                ));
"""
POST_LOOP_END_NEW = POST_LOOP_END_OLD + """                proof {
                    let k = it.index@;
                    let c = x.children()[n_children - 1 - k];
                    lemma_abs_unproc(self.stack@.last(), c, Some(current_stack_idx));
                    assert(abs_stack(self.stack@) =~= abs_stack(before).push(unproc(c, Some(current_stack_idx))));
                    let f = |c: T| unproc(c, Some(current_stack_idx));
                    let a = rev_skip(x.children(), n_children - k).map_values(f);
                    let b = rev_skip(x.children(), n_children - (k + 1)).map_values(f);
                    assert(b =~= a.push(f(c)));
                }
"""
POST_AFTER_POP = """let mut current = self.stack.pop()?;
        let ghost s0 = abs_stack(old(self).stack@);
        let ghost rest = abs_stack(self.stack@);
        let ghost i0 = self.index as int;
        let ghost x = current.elem;
        let ghost par = current.parent_stack_idx;
        proof {
            assert(rest =~= s0.drop_last());
            assert(abs_item(current) == s0.last());
            lemma_rem_nonempty(s0, i0);
        }"""
POST_BEFORE_REC = """proof {
                assert(child_positions(x, i0).take(0) =~= Seq::<int>::empty());
                assert(rev_skip(x.children(), 0).map_values(|c: T| unproc(c, Some(current_stack_idx)))
                    =~= rev_skip(x.children(), 0).map_values(|c: T| unproc(c, Some(rest.len() as usize))));
                assert(abs_stack(self.stack@) =~= expanded(rest, x, par, i0, 0));
                lemma_expand(rest, x, par, i0, 0);
                assert(rem(expanded(rest, x, par, i0, 0), i0) == rem(s0, i0));
                if n_children > 0 { x.children_smaller(0); }
            }
            self.next()"""
POST_P_CASE = """proof {
                let st1 = old(self).stack@.drop_last();
                if let Some(idx) = par {
                    assert(self.stack@.len() == st1.len());
                    assert(forall|k: int| 0 <= k < st1.len() && k != idx ==> #[trigger] self.stack@[k] == st1[k]);
                    assert(self.stack@[idx as int].child_indices@ == st1[idx as int].child_indices@.push(self.index));
                    assert(self.stack@[idx as int].elem == st1[idx as int].elem);
                    assert(self.stack@[idx as int].processed == st1[idx as int].processed);
                    assert(self.stack@[idx as int].parent_stack_idx == st1[idx as int].parent_stack_idx);
                    assert(as_ints(st1[idx as int].child_indices@.push(self.index)) =~= as_ints(st1[idx as int].child_indices@).push(i0));
                }
                assert(abs_stack(self.stack@) =~= bump(rest, par, i0));
                let me = PItem { node: x, index: i0, child_indices: as_ints(current.child_indices@) };
                assert(rem(s0, i0) =~= seq![me] + rem(bump(rest, par, i0), i0 + 1));
                assert(rem(s0, i0).skip(1) =~= rem(bump(rest, par, i0), i0 + 1));
            }
            self.index += 1;"""

# ================================================================================================
# (4) RtlPostOrderIter
# ================================================================================================
ORACLE_RTL = r"""
// ================================================================================================
// ORACLE: right-to-left post-order = post-order of the mirrored tree:
//   rpostorder(t) = rpostorder(c(n-1)) ++ .. ++ rpostorder(c0) ++ [t]
// child_indices stay in SOURCE order: child_indices[i] = index of the item of ci
// (so a stack machine pushing one result per yielded item finds child 0's result on top).
// Written directly over `children` of T -- it does not mention the adaptor Rtl.
// ================================================================================================
// number of nodes in the subtrees of children j .. n-1 (those visited before child j-1)
spec fn rcount_after<T: TreeLike>(t: T, j: int) -> nat
    decreases t.children().len() - j,
{
    if 0 <= j < t.children().len() { count(t.children()[j]) + rcount_after(t, j + 1) } else { 0 }
}
spec fn rchild_positions<T: TreeLike>(t: T, base: int) -> Seq<int> {
    Seq::new(t.children().len(), |i: int| base + rcount_after(t, i) - 1)
}
spec fn rpost_items<T: TreeLike>(t: T, base: int) -> Seq<PItem<T>>
    decreases t.height(), t.children().len() + 1,
{
    rpost_from(t, base, t.children().len() as int)
}
// items of children c(j-1), c(j-2), .., c0, then the item of t itself
spec fn rpost_from<T: TreeLike>(t: T, base: int, j: int) -> Seq<PItem<T>>
    decreases t.height(), j,
{
    if 0 < j <= t.children().len() {
        (if t.children()[j - 1].height() < t.height() { rpost_items(t.children()[j - 1], base + rcount_after(t, j)) } else { Seq::empty() })
            + rpost_from(t, base, j - 1)
    } else {
        seq![PItem { node: t, index: base + rcount_after(t, 0), child_indices: rchild_positions(t, base) }]
    }
}

// ---- the adaptor view: what RtlPostOrderIter::next makes of an item of the inner iterator ------------
spec fn unrtl<T>(p: PItem<Rtl<T>>) -> PItem<T> { PItem { node: p.node.0, index: p.index, child_indices: p.child_indices.reverse() } }
spec fn unrtl_all<T>(s: Seq<PItem<Rtl<T>>>) -> Seq<PItem<T>> { s.map_values(|p: PItem<Rtl<T>>| unrtl(p)) }
spec fn rtl_rem<T: TreeLike>(it: RtlPostOrderIter<T>) -> Seq<PItem<T>> { unrtl_all(post_rem(it.inner)) }
spec fn rtl_inv<T: TreeLike>(it: RtlPostOrderIter<T>) -> bool { post_inv(it.inner) }
"""

LEMMA_MIRROR = r"""
proof fn lemma_count_split<T: TreeLike>(t: T, j: int)
    requires 0 <= j <= t.children().len(),
    ensures count_kids(t, j) + rcount_after(t, j) == count_kids(t, t.children().len() as int),
    decreases t.children().len() - j,
{
    if j < t.children().len() { t.children_smaller(j); lemma_count_split(t, j + 1); }
}
proof fn lemma_mirror_count<T: TreeLike>(t: T)
    ensures count(Rtl(t)) == count(t),
    decreases t.height(), t.children().len() + 1,
{
    lemma_mirror_count_kids(t, t.children().len() as int);
    lemma_count_split(t, 0);
}
// the first j children of the mirrored node are the last j children of the node
proof fn lemma_mirror_count_kids<T: TreeLike>(t: T, j: int)
    requires 0 <= j <= t.children().len(),
    ensures count_kids(Rtl(t), j) == rcount_after(t, t.children().len() - j),
    decreases t.height(), j,
{
    let n = t.children().len() as int;
    if j > 0 {
        Rtl(t).children_smaller(j - 1);
        t.children_smaller(n - j);
        assert(Rtl(t).children()[j - 1] == Rtl(t.children()[n - j]));
        lemma_mirror_count(t.children()[n - j]);
        lemma_mirror_count_kids(t, j - 1);
    }
}
proof fn lemma_mirror_items<T: TreeLike>(t: T, base: int)
    ensures unrtl_all(post_items(Rtl(t), base)) == rpost_items(t, base),
    decreases t.height(), t.children().len() + 1,
{
    lemma_mirror_from(t, base, 0);
}
proof fn lemma_mirror_from<T: TreeLike>(t: T, base: int, j: int)
    requires 0 <= j <= t.children().len(),
    ensures unrtl_all(post_from(Rtl(t), base, j)) == rpost_from(t, base, t.children().len() - j),
    decreases t.height(), t.children().len() - j,
{
    let n = t.children().len() as int;
    assert(Rtl(t).children().len() == n);
    if j < n {
        let c = t.children()[n - 1 - j];
        Rtl(t).children_smaller(j);
        t.children_smaller(n - 1 - j);
        assert(Rtl(t).children()[j] == Rtl(c));
        lemma_mirror_count_kids(t, j);
        lemma_mirror_items(c, base + count_kids(Rtl(t), j));
        lemma_mirror_from(t, base, j + 1);
        let a = post_items(Rtl(c), base + count_kids(Rtl(t), j));
        let b = post_from(Rtl(t), base, j + 1);
        assert(post_from(Rtl(t), base, j) == a + b);
        assert(unrtl_all(a + b) =~= unrtl_all(a) + unrtl_all(b));
        assert(rpost_from(t, base, n - j) == rpost_items(c, base + rcount_after(t, n - j)) + rpost_from(t, base, n - j - 1));
    } else {
        lemma_mirror_count_kids(t, n);
        assert forall|i: int| 0 <= i < n implies child_positions(Rtl(t), base).reverse()[i] == #[trigger] rchild_positions(t, base)[i] by {
            lemma_mirror_count_kids(t, n - i);
        }
        assert(child_positions(Rtl(t), base).reverse() =~= rchild_positions(t, base));
        assert(unrtl_all(post_from(Rtl(t), base, j)) =~= rpost_from(t, base, n - j));
    }
}
"""

RTL_STD = r"""
// std: <[T]>::reverse (reached through Vec's DerefMut)
pub assume_specification<T>[ <[T]>::reverse ](s: &mut [T])
    ensures final(s)@ == old(s)@.reverse();
"""


@rule("R14-option-map")
def option_map_to_match(text):
    """R14: `E.map(|mut item| { BODY })` -> `match E { None => None, Some(mut item) => Some({ BODY }) }`
    (the definition of Option::map; BODY verbatim).  A failing obligation inside a closure is reported by Verus as
    "unable to prove post-condition of closure", which the driver does not classify as an obligation failure."""
    m = re.search(r"([\w.()]+)\.map\(\|mut item\| \{", text)
    if not m:
        return None
    end = text.rindex("})")
    return text[:m.start()] + "match " + m.group(1) + " { None => None, Some(mut item) => Some({" + text[m.end():end] + "}) }" + text[end + 2:]


# ================================================================================================
# (5) VerbosePreOrderIter
# ================================================================================================
ORACLE_VERBOSE = r"""
// ================================================================================================
// ORACLE: verbose pre-order (doc of VerbosePreOrderIter): a node is yielded, then each child's whole
// verbose sequence followed by the node AGAIN; n+1 yields per node; n_children_yielded = 0 on the first
// yield, is_complete on the last; `index` = position of the node in plain pre-order ("when first yielded");
// `parent` = None for the root, Some(parent node) otherwise.
// ================================================================================================
ghost struct VItem<T> { node: T, parent: Option<T>, index: int, n_children_yielded: int, is_complete: bool }

spec fn verbose<T: TreeLike>(t: T, par: Option<T>, i: int) -> Seq<VItem<T>>
    decreases t.height(), t.children().len() + 1,
{
    vfrom(t, par, i, 0, i + 1)
}
// yield of t with k children done, then children k.. each followed by the next re-yield of t;
// `fresh` = the pre-order index the next not-yet-seen node gets
spec fn vfrom<T: TreeLike>(t: T, par: Option<T>, idx: int, k: int, fresh: int) -> Seq<VItem<T>>
    decreases t.height(), t.children().len() - k,
{
    if 0 <= k <= t.children().len() {
        seq![VItem { node: t, parent: par, index: idx, n_children_yielded: k, is_complete: k == t.children().len() }]
            + (if k < t.children().len() {
                   (if t.children()[k].height() < t.height() { verbose(t.children()[k], Some(t), fresh) } else { Seq::empty() })
                       + vfrom(t, par, idx, k + 1, fresh + count(t.children()[k]))
               } else { Seq::empty() })
    } else {
        Seq::empty()
    }
}

// ---- representation invariant of VerbosePreOrderIter -------------------------------------------------
spec fn abs_vout<T>(e: PreOrderIterItem<T>) -> VItem<T> {
    VItem { node: e.node, parent: e.parent, index: e.index as int, n_children_yielded: e.n_children_yielded as int, is_complete: e.is_complete }
}
// a stack entry with n_children_yielded == 0 stands for the whole verbose sequence of a not-yet-seen node,
// one with k >= 1 for the rest of the sequence of a node whose first k children are done
spec fn ventry_items<T: TreeLike>(e: PreOrderIterItem<T>, i: int) -> Seq<VItem<T>> {
    if e.n_children_yielded == 0 { verbose(e.node, e.parent, i) } else { vfrom(e.node, e.parent, e.index as int, e.n_children_yielded as int, i) }
}
// number of not-yet-seen nodes the entry stands for
spec fn ventry_fresh<T: TreeLike>(e: PreOrderIterItem<T>) -> int {
    if e.n_children_yielded == 0 { count(e.node) as int } else { rcount_after(e.node, e.n_children_yielded as int) as int }
}
spec fn ventry_ok<T: TreeLike>(e: PreOrderIterItem<T>) -> bool {
    e.n_children_yielded <= e.node.children().len() && e.is_complete == (e.n_children_yielded == e.node.children().len())
}
spec fn vrem<T: TreeLike>(s: Seq<PreOrderIterItem<T>>, i: int) -> Seq<VItem<T>>
    decreases s.len(),
{
    if s.len() == 0 { Seq::empty() } else { ventry_items(s.last(), i) + vrem(s.drop_last(), i + ventry_fresh(s.last())) }
}
spec fn vfresh<T: TreeLike>(s: Seq<PreOrderIterItem<T>>) -> int
    decreases s.len(),
{
    if s.len() == 0 { 0 } else { ventry_fresh(s.last()) + vfresh(s.drop_last()) }
}
spec fn verbose_rem<T: TreeLike>(it: VerbosePreOrderIter<T>) -> Seq<VItem<T>> { vrem(it.stack@, it.index as int) }
spec fn verbose_inv<T: TreeLike>(it: VerbosePreOrderIter<T>) -> bool {
    &&& forall|k: int| 0 <= k < it.stack@.len() ==> ventry_ok(#[trigger] it.stack@[k])
    &&& it.index + vfresh(it.stack@) <= usize::MAX
}

// derived Clone of PreOrderIterItem (field-wise clone); inherent stand-in for the derived trait method:
// `top.clone()` resolves to it
impl<T: TreeLike> PreOrderIterItem<T> {
    #[verifier::external_body]
    fn clone(&self) -> (r: Self)
        ensures clone_is_id::<T>() ==> r == *self,
    { unimplemented!() }
}
"""

LEMMA_VERBOSE = r"""
proof fn lemma_count_ge1<T: TreeLike>(t: T)
    ensures count(t) >= 1, count(t) == 1 + rcount_after(t, 0),
{
    lemma_count_split(t, 0);
}
proof fn lemma_vfresh_nonneg<T: TreeLike>(s: Seq<PreOrderIterItem<T>>)
    ensures vfresh(s) >= 0,
    decreases s.len(),
{
    if s.len() > 0 { lemma_vfresh_nonneg(s.drop_last()); }
}
proof fn lemma_vrem_push<T: TreeLike>(s: Seq<PreOrderIterItem<T>>, e: PreOrderIterItem<T>, i: int)
    ensures vrem(s.push(e), i) == ventry_items(e, i) + vrem(s, i + ventry_fresh(e)),
        vfresh(s.push(e)) == ventry_fresh(e) + vfresh(s),
{
    assert(s.push(e).drop_last() =~= s);
}
proof fn lemma_verbose_single<T: TreeLike>(root: T)
    ensures forall|s: Seq<PreOrderIterItem<T>>| #![trigger vrem(s, 0)] #![trigger vfresh(s)] s.len() == 1 && s[0].n_children_yielded == 0 && s[0].node == root && s[0].parent == None::<T>
        ==> vrem(s, 0) == verbose(root, None, 0) && vfresh(s) == count(root),
{
    assert forall|s: Seq<PreOrderIterItem<T>>| #![trigger vrem(s, 0)] #![trigger vfresh(s)] s.len() == 1 && s[0].n_children_yielded == 0 && s[0].node == root && s[0].parent == None::<T>
        implies vrem(s, 0) == verbose(root, None, 0) && vfresh(s) == count(root) by {
        assert(s.last() == s[0]);
        assert(s.drop_last().len() == 0);
        assert(ventry_items(s.last(), 0) == verbose(root, None, 0));
        assert(vrem(s.drop_last(), 0int + ventry_fresh(s.last())) =~= Seq::<VItem<T>>::empty());
        assert(vfresh(s.drop_last()) == 0);
        assert(vrem(s, 0) =~= verbose(root, None, 0));
        assert(vfresh(s) == count(root));
    }
}
"""

VERBOSE_AFTER_POP = """let mut top = self.stack.pop()?;
        let ghost e0 = top;
        let ghost rest = self.stack@;
        let ghost i0 = self.index as int;
        proof {
            assert(old(self).stack@.drop_last() =~= rest);
            assert(ventry_ok(old(self).stack@[old(self).stack@.len() - 1]));
            lemma_count_ge1(top.node);
            lemma_vfresh_nonneg(rest);
            assert(vfresh(old(self).stack@) == ventry_fresh(e0) + vfresh(rest));
            if top.n_children_yielded < top.node.children().len() {
                top.node.children_smaller(top.n_children_yielded as int);
                lemma_count_ge1(top.node.children()[top.n_children_yielded as int]);
            }
        }"""
VERBOSE_TAIL = """proof {
            let t = e0.node;
            let k = e0.n_children_yielded as int;
            let n = t.children().len() as int;
            if k < n {
                let c = t.children()[k];
                let e1 = self.stack@[rest.len() as int];
                let f = self.stack@[rest.len() as int + 1];
                assert(self.stack@ =~= rest.push(e1).push(f));
                lemma_vrem_push(rest.push(e1), f, self.index as int);
                lemma_vrem_push(rest, e1, self.index + count(c));
                assert(verbose_rem(*self) =~= verbose_rem(*old(self)).skip(1));
            } else {
                assert(self.stack@ =~= rest);
                assert(verbose_rem(*self) =~= verbose_rem(*old(self)).skip(1));
            }
        }
        Some(top)"""

# ================================================================================================
# composition: running an iterator to exhaustion yields exactly the oracle sequence
# (machine-checked consumers of the step contracts; /verif-authored code, not /repo text)
# ================================================================================================
COMPOSE = r"""
fn drain_pre_order<T: TreeLike>(root: T) -> (out: Vec<T>)
    requires clone_is_id::<T>(),
    ensures out@ == preorder(root),
{
    let mut it = pre_order_iter(root);
    let mut out: Vec<T> = Vec::new();
    loop
        invariant_except_break clone_is_id::<T>(), out@ + pre_stack(it.stack@) =~= preorder(root),
        ensures out@ == preorder(root),
        decreases pre_stack(it.stack@).len(),
    {
        let ghost before = pre_stack(it.stack@);
        match it.next() {
            None => { assert(before =~= Seq::<T>::empty()); break; }
            Some(x) => {
                out.push(x);
                assert(before =~= seq![x] + before.skip(1));
            }
        }
    }
    out
}
spec fn outs<T>(v: Seq<PostOrderIterItem<T>>) -> Seq<PItem<T>> { Seq::new(v.len(), |k: int| abs_out(v[k])) }
fn drain_post_order<T: TreeLike>(root: T) -> (out: Vec<PostOrderIterItem<T>>)
    requires count(root) <= usize::MAX,
    ensures outs(out@) == post_items(root, 0),
{
    let mut it = post_order_iter(root);
    let mut out: Vec<PostOrderIterItem<T>> = Vec::new();
    loop
        invariant_except_break post_inv(it), outs(out@) + post_rem(it) =~= post_items(root, 0),
        ensures outs(out@) == post_items(root, 0),
        decreases post_rem(it).len(),
    {
        let ghost before = post_rem(it);
        let ghost outs0 = outs(out@);
        match it.next() {
            None => { assert(before =~= Seq::<PItem<T>>::empty()); assert(outs(out@) =~= post_items(root, 0)); break; }
            Some(x) => {
                out.push(x);
                assert(outs(out@) =~= outs0.push(before[0]));
                assert(before =~= seq![before[0]] + before.skip(1));
            }
        }
    }
    out
}
fn drain_rtl_post_order<T: TreeLike>(root: T) -> (out: Vec<PostOrderIterItem<T>>)
    requires count(root) <= usize::MAX,
    ensures outs(out@) == rpost_items(root, 0),
{
    let mut it = rtl_post_order_iter(root);
    let mut out: Vec<PostOrderIterItem<T>> = Vec::new();
    loop
        invariant_except_break rtl_inv(it), outs(out@) + rtl_rem(it) =~= rpost_items(root, 0),
        ensures outs(out@) == rpost_items(root, 0),
        decreases rtl_rem(it).len(),
    {
        let ghost before = rtl_rem(it);
        let ghost outs0 = outs(out@);
        match it.next() {
            None => { assert(before =~= Seq::<PItem<T>>::empty()); assert(outs(out@) =~= rpost_items(root, 0)); break; }
            Some(x) => {
                out.push(x);
                assert(outs(out@) =~= outs0.push(before[0]));
                assert(before =~= seq![before[0]] + before.skip(1));
            }
        }
    }
    out
}
spec fn vouts<T>(v: Seq<PreOrderIterItem<T>>) -> Seq<VItem<T>> { Seq::new(v.len(), |k: int| abs_vout(v[k])) }
fn drain_verbose_pre_order<T: TreeLike>(root: T) -> (out: Vec<PreOrderIterItem<T>>)
    requires clone_is_id::<T>(), count(root) <= usize::MAX,
    ensures vouts(out@) == verbose(root, None, 0),
{
    let mut it = verbose_pre_order_iter(root);
    let mut out: Vec<PreOrderIterItem<T>> = Vec::new();
    loop
        invariant_except_break clone_is_id::<T>(), verbose_inv(it), vouts(out@) + verbose_rem(it) =~= verbose(root, None, 0),
        ensures vouts(out@) == verbose(root, None, 0),
        decreases verbose_rem(it).len(),
    {
        let ghost before = verbose_rem(it);
        let ghost outs0 = vouts(out@);
        match it.next() {
            None => { assert(before =~= Seq::<VItem<T>>::empty()); assert(vouts(out@) =~= verbose(root, None, 0)); break; }
            Some(x) => {
                out.push(x);
                assert(vouts(out@) =~= outs0.push(before[0]));
                assert(before =~= seq![before[0]] + before.skip(1));
            }
        }
    }
    out
}
"""

# ================================================================================================
# the oracle says what the traversal contract says (sanity lemmas about post_items)
# ================================================================================================
LEMMA_ORACLE_POST = r"""
proof fn lemma_count_kids_mono<T: TreeLike>(t: T, i: int, j: int)
    requires 0 <= i <= j <= t.children().len(),
    ensures count_kids(t, i) + (j - i) <= count_kids(t, j),     // every subtree has at least one node
    decreases j - i,
{
    if i < j {
        t.children_smaller(j - 1);
        lemma_count_ge1(t.children()[j - 1]);
        lemma_count_kids_mono(t, i, j - 1);
    }
}
// `index` counts yields: the k-th item of the post-order that starts at index `base` has index base + k
proof fn lemma_post_index<T: TreeLike>(t: T, base: int, k: int)
    requires 0 <= k < count(t),
    ensures post_items(t, base).len() == count(t), post_items(t, base)[k].index == base + k,
    decreases t.height(), t.children().len() + 1,
{
    lemma_post_len(t, base);
    lemma_post_from_index(t, base, 0, k);
}
proof fn lemma_post_from_index<T: TreeLike>(t: T, base: int, j: int, k: int)
    requires 0 <= j <= t.children().len(), 0 <= k < count(t) - count_kids(t, j),
    ensures post_from(t, base, j)[k].index == base + count_kids(t, j) + k,
    decreases t.height(), t.children().len() - j,
{
    if j < t.children().len() {
        let c = t.children()[j];
        t.children_smaller(j);
        let a = post_items(c, base + count_kids(t, j));
        let b = post_from(t, base, j + 1);
        lemma_post_len(c, base + count_kids(t, j));
        lemma_post_from_len(t, base, j + 1);
        assert(post_from(t, base, j) == a + b);
        if k < count(c) {
            lemma_post_index(c, base + count_kids(t, j), k);
            assert((a + b)[k] == a[k]);
        } else {
            lemma_post_from_index(t, base, j + 1, k - count(c));
            assert((a + b)[k] == b[k - count(c)]);
        }
    }
}
// a node comes after its whole subtree: the LAST item of post_items(t) is the item of t, with the child positions
proof fn lemma_post_last<T: TreeLike>(t: T, base: int)
    ensures post_items(t, base).len() == count(t),
        post_items(t, base)[count(t) - 1] == (PItem { node: t, index: base + count(t) - 1, child_indices: child_positions(t, base) }),
{
    lemma_post_len(t, base);
    lemma_post_from_last(t, base, 0);
}
proof fn lemma_post_from_last<T: TreeLike>(t: T, base: int, j: int)
    requires 0 <= j <= t.children().len(),
    ensures post_from(t, base, j).len() == count(t) - count_kids(t, j),
        post_from(t, base, j)[count(t) - count_kids(t, j) - 1] == (PItem { node: t, index: base + count(t) - 1, child_indices: child_positions(t, base) }),
    decreases t.children().len() - j,
{
    lemma_post_from_len(t, base, j);
    if j < t.children().len() {
        let c = t.children()[j];
        t.children_smaller(j);
        let a = post_items(c, base + count_kids(t, j));
        let b = post_from(t, base, j + 1);
        lemma_post_len(c, base + count_kids(t, j));
        lemma_post_from_last(t, base, j + 1);
        lemma_count_kids_mono(t, j + 1, t.children().len() as int);
        assert(count_kids(t, j + 1) == count_kids(t, j) + count(c));
        assert(post_from(t, base, j) == a + b);
        assert((a + b)[count(t) - count_kids(t, j) - 1] == b[count(t) - count_kids(t, j + 1) - 1]);
    }
}
// child_indices[i] of the item of t is the yield index of the item of child i, which comes BEFORE the item of t,
// and the children's items come in source order
proof fn lemma_post_child_item<T: TreeLike>(t: T, base: int, i: int)
    requires 0 <= i < t.children().len(),
    ensures
        base <= child_positions(t, base)[i] < base + count(t) - 1,
        post_items(t, base)[child_positions(t, base)[i] - base].node == t.children()[i],
        post_items(t, base)[child_positions(t, base)[i] - base].index == child_positions(t, base)[i],
        i > 0 ==> child_positions(t, base)[i - 1] < child_positions(t, base)[i],
{
    lemma_count_kids_mono(t, 0, i + 1);
    lemma_count_kids_mono(t, i + 1, t.children().len() as int);
    lemma_count_kids_mono(t, i, i + 1);
    lemma_post_child_from(t, base, 0, i);
    lemma_post_index(t, base, child_positions(t, base)[i] - base);
}
proof fn lemma_post_child_from<T: TreeLike>(t: T, base: int, j: int, i: int)
    requires 0 <= j <= i < t.children().len(),
    ensures
        0 <= count_kids(t, i + 1) - 1 - count_kids(t, j) < post_from(t, base, j).len(),
        post_from(t, base, j)[count_kids(t, i + 1) - 1 - count_kids(t, j)].node == t.children()[i],
    decreases i - j,
{
    let c = t.children()[j];
    t.children_smaller(j);
    let a = post_items(c, base + count_kids(t, j));
    let b = post_from(t, base, j + 1);
    lemma_post_last(c, base + count_kids(t, j));
    lemma_post_from_len(t, base, j);
    lemma_post_from_len(t, base, j + 1);
    lemma_count_kids_mono(t, j + 1, i + 1);
    lemma_count_kids_mono(t, i + 1, t.children().len() as int);
    assert(post_from(t, base, j) == a + b);
    let p = count_kids(t, i + 1) - 1 - count_kids(t, j);
    if j == i {
        assert(p == count(c) - 1);
        assert((a + b)[p] == a[p]);
    } else {
        lemma_post_child_from(t, base, j + 1, i);
        assert((a + b)[p] == b[p - count(c)]);
    }
}
"""

# ================================================================================================
# what the per-node step units consume: the stack discipline
# ================================================================================================
STACK_MACHINE = r"""
// ================================================================================================
// THE TRAVERSAL CONTRACT AS CONSUMED BY THE PER-NODE STEP UNITS (DESIGN 3.2).
// A bottom-up computation is a node function f(node, results of its children in SOURCE order); `eval` is its
// value on a subtree.  The drivers in the crate run a stack machine over the yielded items: pop one result per
// child, push the node's result.  Theorem (both orders): when an item is visited the results of its children are
// the top entries of the stack -- rtl order: child 0 on TOP;  ltr order: last child on top -- and after the whole
// sequence exactly eval(root) has been pushed.
// ================================================================================================
spec fn eval_kids<T: TreeLike, R>(f: spec_fn(T, Seq<R>) -> R, t: T, j: int) -> Seq<R>
    decreases t.height(), j,
{
    if 0 < j <= t.children().len() {
        eval_kids(f, t, j - 1).push(if t.children()[j - 1].height() < t.height() { eval(f, t.children()[j - 1]) } else { arbitrary() })
    } else {
        Seq::empty()
    }
}
spec fn eval<T: TreeLike, R>(f: spec_fn(T, Seq<R>) -> R, t: T) -> R
    decreases t.height(), t.children().len() + 1,
{
    f(t, eval_kids(f, t, t.children().len() as int))
}
// one step of the driver loop: `child0_on_top` = how the popped entries map to the children
spec fn machine_args<R>(child0_on_top: bool, st: Seq<R>, n: int) -> Seq<R> {
    Seq::new(n as nat, |i: int| if child0_on_top { st[st.len() - 1 - i] } else { st[st.len() - n + i] })
}
spec fn machine_step<T, R>(f: spec_fn(T, Seq<R>) -> R, child0_on_top: bool, st: Seq<R>, it: PItem<T>) -> Seq<R> {
    let n = it.child_indices.len() as int;
    st.take(st.len() - n).push(f(it.node, machine_args(child0_on_top, st, n)))
}
spec fn machine_run<T, R>(f: spec_fn(T, Seq<R>) -> R, child0_on_top: bool, st: Seq<R>, items: Seq<PItem<T>>) -> Seq<R>
    decreases items.len(),
{
    if items.len() == 0 { st } else { machine_run(f, child0_on_top, machine_step(f, child0_on_top, st, items[0]), items.drop_first()) }
}
"""
LEMMA_MACHINE = r"""
proof fn lemma_run_concat<T, R>(f: spec_fn(T, Seq<R>) -> R, top0: bool, st: Seq<R>, a: Seq<PItem<T>>, b: Seq<PItem<T>>)
    ensures machine_run(f, top0, st, a + b) == machine_run(f, top0, machine_run(f, top0, st, a), b),
    decreases a.len(),
{
    if a.len() == 0 {
        assert(a + b =~= b);
    } else {
        assert((a + b)[0] == a[0]);
        assert((a + b).drop_first() =~= a.drop_first() + b);
        lemma_run_concat(f, top0, machine_step(f, top0, st, a[0]), a.drop_first(), b);
    }
}
proof fn lemma_eval_kids_len<T: TreeLike, R>(f: spec_fn(T, Seq<R>) -> R, t: T, j: int)
    requires 0 <= j <= t.children().len(),
    ensures eval_kids(f, t, j).len() == j,
        forall|i: int| 0 <= i < j ==> #[trigger] eval_kids(f, t, j)[i] == eval(f, t.children()[i]),
        j < t.children().len() ==> eval_kids(f, t, j + 1) == eval_kids(f, t, j).push(eval(f, t.children()[j])),
    decreases j,
{
    if j > 0 { lemma_eval_kids_len(f, t, j - 1); t.children_smaller(j - 1); }
    if j < t.children().len() { t.children_smaller(j); }
}
// right-to-left post-order, child 0's result on top
proof fn lemma_rtl_stack_discipline<T: TreeLike, R>(f: spec_fn(T, Seq<R>) -> R, st: Seq<R>, t: T, base: int)
    ensures machine_run(f, true, st, rpost_items(t, base)) == st.push(eval(f, t)),
    decreases t.height(), t.children().len() + 1,
{
    let n = t.children().len() as int;
    lemma_eval_kids_len(f, t, n);
    assert(st + rev_skip(eval_kids(f, t, n), n) =~= st);
    lemma_rtl_stack_from(f, st, t, base, n);
}
// children n-1 .. j are done: their results lie on the stack, child j's on top
proof fn lemma_rtl_stack_from<T: TreeLike, R>(f: spec_fn(T, Seq<R>) -> R, st: Seq<R>, t: T, base: int, j: int)
    requires 0 <= j <= t.children().len(),
    ensures machine_run(f, true, st + rev_skip(eval_kids(f, t, t.children().len() as int), j), rpost_from(t, base, j)) == st.push(eval(f, t)),
    decreases t.height(), j,
{
    let n = t.children().len() as int;
    let kids = eval_kids(f, t, n);
    lemma_eval_kids_len(f, t, n);
    let stj = st + rev_skip(kids, j);
    if j > 0 {
        let c = t.children()[j - 1];
        t.children_smaller(j - 1);
        let a = rpost_items(c, base + rcount_after(t, j));
        let b = rpost_from(t, base, j - 1);
        assert(rpost_from(t, base, j) == a + b);
        lemma_run_concat(f, true, stj, a, b);
        lemma_rtl_stack_discipline(f, stj, c, base + rcount_after(t, j));
        assert(stj.push(eval(f, c)) =~= st + rev_skip(kids, j - 1));
        lemma_rtl_stack_from(f, st, t, base, j - 1);
    } else {
        let it = PItem { node: t, index: base + rcount_after(t, 0), child_indices: rchild_positions(t, base) };
        let items = seq![it];
        assert(rpost_from(t, base, 0) == items);
        assert(items.drop_first() =~= Seq::<PItem<T>>::empty());
        assert(it.child_indices.len() == n);
        let args = machine_args(true, stj, n);
        assert(args =~= kids);
        assert(stj.take(stj.len() - n) =~= st);
        assert(machine_step(f, true, stj, it) == st.push(f(t, args)));
        assert(machine_run(f, true, stj, items) == machine_run(f, true, machine_step(f, true, stj, items[0]), items.drop_first()));
    }
}
// left-to-right post-order, LAST child's result on top
proof fn lemma_ltr_stack_discipline<T: TreeLike, R>(f: spec_fn(T, Seq<R>) -> R, st: Seq<R>, t: T, base: int)
    ensures machine_run(f, false, st, post_items(t, base)) == st.push(eval(f, t)),
    decreases t.height(), t.children().len() + 1,
{
    assert(st + eval_kids(f, t, 0) =~= st);
    lemma_ltr_stack_from(f, st, t, base, 0);
}
// children 0 .. j-1 are done: their results lie on the stack in source order
proof fn lemma_ltr_stack_from<T: TreeLike, R>(f: spec_fn(T, Seq<R>) -> R, st: Seq<R>, t: T, base: int, j: int)
    requires 0 <= j <= t.children().len(),
    ensures machine_run(f, false, st + eval_kids(f, t, j), post_from(t, base, j)) == st.push(eval(f, t)),
    decreases t.height(), t.children().len() - j,
{
    let n = t.children().len() as int;
    lemma_eval_kids_len(f, t, j);
    let stj = st + eval_kids(f, t, j);
    if j < n {
        let c = t.children()[j];
        t.children_smaller(j);
        let a = post_items(c, base + count_kids(t, j));
        let b = post_from(t, base, j + 1);
        assert(post_from(t, base, j) == a + b);
        lemma_run_concat(f, false, stj, a, b);
        lemma_ltr_stack_discipline(f, stj, c, base + count_kids(t, j));
        assert(stj.push(eval(f, c)) =~= st + eval_kids(f, t, j + 1));
        lemma_ltr_stack_from(f, st, t, base, j + 1);
    } else {
        let kids = eval_kids(f, t, n);
        let it = PItem { node: t, index: base + count_kids(t, n), child_indices: child_positions(t, base) };
        let items = seq![it];
        assert(post_from(t, base, n) == items);
        assert(items.drop_first() =~= Seq::<PItem<T>>::empty());
        assert(it.child_indices.len() == n);
        let args = machine_args(false, stj, n);
        assert(args =~= kids);
        assert(stj.take(stj.len() - n) =~= st);
        assert(machine_step(f, false, stj, it) == st.push(f(t, args)));
        assert(machine_run(f, false, stj, items) == machine_run(f, false, machine_step(f, false, stj, items[0]), items.drop_first()));
    }
}
"""


def lift_self(name):
    """R13: a provided trait method `fn f(self) -> X<Self> { .. }` lifted to a free generic function
    `fn f<T: TreeLike>(root: T) -> X<T>` (the contract mentions spec functions generic over TreeLike, which
    Verus does not allow inside the trait declaration: cyclic definition)."""
    return [sub("R13-lift", r"\bfn %s\(self\)" % name, "fn %s<T: TreeLike>(root: T)" % name),
            sub("R13-lift", r"\bself\b", "root", required=False),
            sub("R13-lift", r"\bSelf\b", "T", required=False)]


def build(repo):
    vf = VerusFile(NAME, repo)
    vf.item(TREE, "enum:Tree")

    # ---- (1) the trait: contracts of the required methods, provided methods n_children / nth_child verbatim ----
    with vf.block("trait TreeLike: Clone + Sized"):
        vf.raw(TRAIT_REQUIRED)
        vf.fn(TREE, "trait:TreeLike/fn:n_children", qual="TreeLike", props=FN_PROPS,
              contract=Contract(ensures=[Clause("counts_children", TRAVERSAL, "r == self.children().len()")]))
        vf.fn(TREE, "trait:TreeLike/fn:nth_child", qual="TreeLike", props=FN_PROPS,
              contract=Contract(ensures=[
                  Clause("some_iff_in_range", TRAVERSAL + ("C11",), "r is Some <==> n < self.children().len()"),
                  Clause("is_nth", TRAVERSAL, "r is Some ==> r->0 == self.children()[n as int]")]))
    vf.trust("trait TreeLike: spec fns children / nary_view / height, proof fn children_smaller, and the contracts of the required methods nary_len / nary_index / as_node",
             "the hypothesis of the traversal theorem: an implementor's as_node / nary_len / nary_index describe one finite tree (`children`); "
             "the implementations for Miniscript / Policy / TapTree nodes are one `match` each")

    vf.raw(ORACLE_PRE)
    vf.trust("clone_is_id::<T>() (precondition of PreOrderIter::next / VerbosePreOrderIter::next)",
             "Clone on a tree handle / n-ary children handle returns an equal handle (every TreeLike in the crate is implemented on `&'a X` with NaryChildren `&'a [..]`, i.e. Copy)")
    vf.spec_obligation("lemma::preorder_textbook", LEMMA_PRE_TEXTBOOK, TRAVERSAL)

    # ---- (2) PreOrderIter ---------------------------------------------------------------------------
    vf.item(TREE, "struct:PreOrderIter", rewrites=[DERIVE_TRIM])
    vf.raw(PRE_INV)
    vf.fn(TREE, "trait:TreeLike/fn:pre_order_iter", props=FN_PROPS, rewrites=lift_self("pre_order_iter") + [lit("R10", "{ PreOrderIter {", "{ proof { lemma_pre_stack_single(root); } PreOrderIter {")],
          contract=Contract(ensures=[Clause("starts_with_whole_preorder", TRAVERSAL, "pre_stack(r.stack@) == preorder(root)")]))
    with vf.block("impl<T: TreeLike> PreOrderIter<T>"):
        vf.fn(TREE, "impl:Iterator for PreOrderIter<T>/fn:next", qual="PreOrderIter", props=FN_PROPS,
              rewrites=[lit("R7-assoc-type", "Option<Self::Item>", "Option<T>"),
                        lit("R10", "let top = self.stack.pop()?;", "let top = self.stack.pop()?;\n        let ghost rest = self.stack@;"),
                        sub("R10-for-invariant", PRE_FOR_OLD, PRE_FOR_NEW, count=1),
                        lit("R10", "self.stack.push(T::nary_index(children.clone(), i));", "self.stack.push(T::nary_index(children.clone(), i));\n                    assert(self.stack@.last() == top.children()[top.children().len() - 1 - it.index@]);"),
                        lit("R10", "Some(top)", PRE_TAIL)],
              contract=Contract(
                  requires=["clone_is_id::<T>()"],
                  ensures=[
                      Clause("none_iff_exhausted", TRAVERSAL, "r is None <==> pre_stack(old(self).stack@).len() == 0"),
                      Clause("yields_next_in_preorder", TRAVERSAL, "r is Some ==> r->0 == pre_stack(old(self).stack@)[0]"),
                      Clause("rest_is_tail", TRAVERSAL, "r is Some ==> pre_stack(final(self).stack@) == pre_stack(old(self).stack@).skip(1)"),
                  ]))

    # ---- (1b) Rtl: the mirrored tree -------------------------------------------------------------------
    vf.item(TREE, "struct:Rtl", rewrites=[DERIVE_TRIM])
    vf.raw(RTL_PRE)
    mirror = "rtl_node_children(r) =~= self.0.children().reverse()"
    with vf.block("impl<T: TreeLike> TreeLike for Rtl<T>"):
        vf.item(TREE, "impl:TreeLike for Rtl<T>/type:NaryChildren")
        vf.raw(RTL_SPEC)
        vf.fn(TREE, "impl:TreeLike for Rtl<T>/fn:nary_len", qual="Rtl", props=FN_PROPS,
              contract=Contract(ensures=[Clause("same_len", TRAVERSAL, "r == T::nary_view(tc).len()")]))
        vf.fn(TREE, "impl:TreeLike for Rtl<T>/fn:nary_index", qual="Rtl", props=FN_PROPS,
              contract=Contract(ensures=[Clause("mirrored_index", TRAVERSAL, "r.0 == T::nary_view(&tc)[T::nary_view(&tc).len() - 1 - idx]")]))
        vf.fn(TREE, "impl:TreeLike for Rtl<T>/fn:as_node", qual="Rtl", props=FN_PROPS,
              contract=Contract(ensures=[
                  Clause("mirrors_children", TRAVERSAL, mirror),
              ]))

    # ---- (3) PostOrderIter --------------------------------------------------------------------------------
    vf.item(TREE, "struct:IterStackItem", rewrites=[DERIVE_TRIM])
    vf.item(TREE, "struct:PostOrderIter", rewrites=[DERIVE_TRIM])
    vf.item(TREE, "struct:PostOrderIterItem")
    vf.raw(ORACLE_POST)
    vf.raw(POST_INV)
    vf.spec_obligation("lemma::post_len", LEMMA_POST_BASIC, TRAVERSAL)
    vf.spec_obligation("lemma::expand", LEMMA_EXPAND, TRAVERSAL)
    with vf.block("impl<T: TreeLike> IterStackItem<T>"):
        vf.fn(TREE, "impl:IterStackItem<T>/fn:unprocessed", qual="IterStackItem", props=FN_PROPS,
              contract=Contract(ensures=[Clause("fresh_unprocessed", TRAVERSAL, "is_unproc(r, elem, parent_stack_idx)")]))
    vf.fn(TREE, "trait:TreeLike/fn:post_order_iter", props=FN_PROPS,
          rewrites=lift_self("post_order_iter") + [lit("R10", "{\n        PostOrderIter {", "{\n        proof {\n            lemma_rem_single(root); lemma_post_len(root, 0);\n            assert forall|st: Seq<IterStackItem<T>>| #![trigger abs_stack(st)] st.len() == 1 && is_unproc(st[0], root, None) implies rem(abs_stack(st), 0) == post_items(root, 0) && inv(abs_stack(st), 0) by { lemma_abs_unproc(st[0], root, None); }\n        }\n        PostOrderIter {")],
          contract=Contract(requires=["count(root) <= usize::MAX"],
                            ensures=[Clause("invariant_established", FN_PROPS, "post_inv(r)"),
                                     Clause("starts_with_whole_postorder", TRAVERSAL, "post_rem(r) == post_items(root, 0)")]))
    with vf.block("impl<T: TreeLike> PostOrderIter<T>"):
        vf.fn(TREE, "impl:Iterator for PostOrderIter<T>/fn:next", qual="PostOrderIter", props=FN_PROPS,
              rewrites=[lit("R7-assoc-type", "Option<Self::Item>", "Option<PostOrderIterItem<T>>"),
                        lit("R10", "let mut current = self.stack.pop()?;", POST_AFTER_POP),
                        lit("R10", "self.stack.push(current);", POST_BEFORE_LOOP),
                        sub("R10-for-invariant", POST_FOR_OLD, POST_FOR_NEW, count=1),
                        lit("R10", POST_LOOP_END_OLD, POST_LOOP_END_NEW),
                        lit("R10", "self.next()", POST_BEFORE_REC),
                        lit("R10", "self.index += 1;", POST_P_CASE)],
              contract=Contract(
                  requires=["post_inv(*old(self))"],
                  ensures=[
                      Clause("invariant_preserved", FN_PROPS, "post_inv(*final(self))"),
                      Clause("none_iff_exhausted", TRAVERSAL, "r is None <==> post_rem(*old(self)).len() == 0"),
                      Clause("yields_next_in_postorder", TRAVERSAL, "r is Some ==> abs_out(r->0) == post_rem(*old(self))[0]"),
                      Clause("rest_is_tail", TRAVERSAL, "r is Some ==> post_rem(*final(self)) == post_rem(*old(self)).skip(1)"),
                      Clause("index_counts_yields", TRAVERSAL, "r is Some ==> r->0.index == old(self).index && final(self).index == old(self).index + 1"),
                  ],
                  decreases="post_measure(*old(self))"))

    # ---- (4) RtlPostOrderIter ---------------------------------------------------------------------------------
    vf.item(TREE, "struct:RtlPostOrderIter", rewrites=[DERIVE_TRIM])
    vf.raw(ORACLE_RTL)
    vf.raw(RTL_STD, keep_vis=True)
    vf.trust("assume_specification <[T]>::reverse", "std: reverses the slice in place")
    vf.spec_obligation("lemma::mirror", LEMMA_MIRROR, TRAVERSAL)
    vf.fn(TREE, "trait:TreeLike/fn:rtl_post_order_iter", props=FN_PROPS,
          rewrites=lift_self("rtl_post_order_iter") + [
              lit("R13-lift", "Rtl(root).post_order_iter()", "post_order_iter(Rtl(root))"),
              lit("R10", "RtlPostOrderIter {", "proof { lemma_mirror_count(root); lemma_mirror_items(root, 0); }\n        RtlPostOrderIter {")],
          contract=Contract(requires=["count(root) <= usize::MAX"],
                            ensures=[Clause("invariant_established", FN_PROPS, "rtl_inv(r)"),
                                     Clause("starts_with_whole_rtl_postorder", TRAVERSAL, "rtl_rem(r) == rpost_items(root, 0)")]))
    with vf.block("impl<T: TreeLike> RtlPostOrderIter<T>"):
        vf.fn(TREE, "impl:Iterator for RtlPostOrderIter<T>/fn:next", qual="RtlPostOrderIter", props=FN_PROPS,
              rewrites=[lit("R7-assoc-type", "Option<Self::Item>", "Option<PostOrderIterItem<T>>"),
                        option_map_to_match,
                        lit("R10", "PostOrderIterItem {", "proof {\n                if as_ints(item.child_indices@) =~= as_ints(item0.child_indices@).reverse() { }   // (an `if`, not an `assert`: the named clauses fail if the reversal is missing)\n                assert(post_rem(self.inner) =~= post_rem(old(self).inner).skip(1));\n                assert(rtl_rem(*self) =~= rtl_rem(*old(self)).skip(1));\n            }\n            PostOrderIterItem {"),
                        lit("R10", "Some(mut item) => Some({", "Some(mut item) => Some({\n            let ghost item0 = item;")],
              contract=Contract(
                  requires=["rtl_inv(*old(self))"],
                  ensures=[
                      Clause("invariant_preserved", FN_PROPS, "rtl_inv(*final(self))"),
                      Clause("none_iff_exhausted", TRAVERSAL, "r is None <==> rtl_rem(*old(self)).len() == 0"),
                      Clause("yields_next_in_rtl_postorder", TRAVERSAL, "r is Some ==> abs_out(r->0) == rtl_rem(*old(self))[0]"),
                      Clause("child_indices_in_source_order", TRAVERSAL, "r is Some ==> as_ints(r->0.child_indices@) == post_rem(old(self).inner)[0].child_indices.reverse()"),
                      Clause("rest_is_tail", TRAVERSAL, "r is Some ==> rtl_rem(*final(self)) == rtl_rem(*old(self)).skip(1)"),
                      Clause("index_counts_yields", TRAVERSAL, "r is Some ==> r->0.index == old(self).inner.index && final(self).inner.index == old(self).inner.index + 1"),
                  ]))

    # ---- (5) VerbosePreOrderIter ------------------------------------------------------------------------------
    drop_derive = sub("R1-derive", r"#\[derive\([^)]*\)\]\n", "")
    vf.item(TREE, "struct:VerbosePreOrderIter", rewrites=[drop_derive])
    vf.item(TREE, "struct:PreOrderIterItem", rewrites=[drop_derive])
    vf.raw(ORACLE_VERBOSE)
    vf.trust("PreOrderIterItem::clone (external_body inherent stand-in; replaces #[derive(Clone)])", "the derive clones field by field; with clone_is_id::<T>() the copy equals the original")
    vf.spec_obligation("lemma::verbose", LEMMA_VERBOSE, TRAVERSAL)
    with vf.block("impl<T: TreeLike + Clone> PreOrderIterItem<T>"):
        vf.fn(TREE, "impl:PreOrderIterItem<T>/fn:initial", qual="PreOrderIterItem", props=FN_PROPS,
              contract=Contract(ensures=[
                  Clause("first_yield", TRAVERSAL, "r.node == node && r.parent == parent && r.n_children_yielded == 0 && r.index == 0"),
                  Clause("complete_iff_leaf", TRAVERSAL, "r.is_complete == (node.children().len() == 0)")]))
        vf.fn(TREE, "impl:PreOrderIterItem<T>/fn:increment", qual="PreOrderIterItem", props=FN_PROPS,
              contract=Contract(requires=["self.n_children_yielded < n_children"], ensures=[
                  Clause("next_yield", TRAVERSAL, "r.node == self.node && r.parent == self.parent && r.index == self.index && r.n_children_yielded == self.n_children_yielded + 1"),
                  Clause("complete_iff_last", TRAVERSAL, "r.is_complete == (self.n_children_yielded + 1 == n_children)")]))
    vf.fn(TREE, "trait:TreeLike/fn:verbose_pre_order_iter", props=FN_PROPS,
          rewrites=lift_self("verbose_pre_order_iter") + [
              lit("R10", "VerbosePreOrderIter {", "proof { lemma_verbose_single(root); }\n        VerbosePreOrderIter {")],
          contract=Contract(requires=["count(root) <= usize::MAX"],
                            ensures=[Clause("invariant_established", FN_PROPS, "verbose_inv(r)"),
                                     Clause("starts_with_whole_verbose_preorder", TRAVERSAL, "verbose_rem(r) == verbose(root, None, 0)")]))
    with vf.block("impl<T: TreeLike + Clone> VerbosePreOrderIter<T>"):
        vf.fn(TREE, "impl:Iterator for VerbosePreOrderIter<T>/fn:next", qual="VerbosePreOrderIter", props=FN_PROPS,
              rewrites=[lit("R7-assoc-type", "Option<Self::Item>", "Option<PreOrderIterItem<T>>"),
                        lit("R10", "let mut top = self.stack.pop()?;", VERBOSE_AFTER_POP),
                        lit("R10", "Some(top)", VERBOSE_TAIL)],
              contract=Contract(
                  requires=["clone_is_id::<T>()", "verbose_inv(*old(self))"],
                  ensures=[
                      Clause("invariant_preserved", FN_PROPS, "verbose_inv(*final(self))"),
                      Clause("none_iff_exhausted", TRAVERSAL, "r is None <==> verbose_rem(*old(self)).len() == 0"),
                      Clause("yields_next_in_verbose_preorder", TRAVERSAL, "r is Some ==> abs_vout(r->0) == verbose_rem(*old(self))[0]"),
                      Clause("rest_is_tail", TRAVERSAL, "r is Some ==> verbose_rem(*final(self)) == verbose_rem(*old(self)).skip(1)"),
                  ]))

    vf.spec_obligation("lemma::oracle_post_says_contract", LEMMA_ORACLE_POST, TRAVERSAL)

    vf.raw(STACK_MACHINE)
    vf.spec_obligation("lemma::stack_discipline", LEMMA_MACHINE, TRAVERSAL)

    # ---- composition --------------------------------------------------------------------------------------------
    vf.spec_obligation("compose::drain", COMPOSE, TRAVERSAL)
    return vf
