"""C15 (Taproot commitment) -- Kani contracts on the real tree code of src/descriptor/tr/.

* BitStack128::{push,pop}                 complete (loop-free, u128 / height / bit / probe index symbolic)
* TapTreeBuilder::{new,push_inner_node,push_leaf,finalize}
                                          complete (carry loop <= 127 iterations, unwind 130, unwinding assertions on)
* TapTreeBuilder end-to-end               bounded: every pre-order listing with <= 4 leaves
* TapTree::{leaf,combine}                 bounded: 1+1 and 1+2 leaves, depths fully symbolic u8
* TrSpendInfo::nodes_from_tap_tree + TrSpendInfoIter::next (Merkle pass)
                                          bounded: SINGLE-LEAF tree only (hash combiner / leaf hash / Miniscript::encode
                                          stubbed).  Trees with >= 2 leaves are EXCLUDED: CBMC needs > 40 GB (see
                                          contracts/kani/k15_merkle.rs); the contract for all shapes <= 4 leaves is written
                                          there but not registered.
Oracle: BIP341 (tree depth <= 128, depth-first listing, merkle root recursion, control-block fold with
lexicographically sorted pair hashing).
"""
NAME = "k15_taptree"
ENGINE = "kani"
PROPS = ("C10", "C15", "C11")
INJECT = [("src/descriptor/tr/spend_info.rs", "contracts/kani/k15_bitstack.rs"),
          ("src/descriptor/tr/taptree.rs", "contracts/kani/k15_builder.rs"),
          ("src/descriptor/tr/spend_info.rs", "contracts/kani/k15_merkle.rs")]
TRUSTED = [
    "Kani/CBMC; rustc codegen of the real crate (cfg(kani) child modules only)",
    "k15_merkle: kani::stub of bitcoin::taproot::TapNodeHash::from_node_hashes and TapLeafHash::from_script by an "
    "injective, commutative free-magma byte encoding (SHA-256 / tagged hashes are not executed; BIP341's sorted-pair "
    "rule lives in rust-bitcoin's from_node_hashes and is re-stated in the stub)",
    "k15_merkle: internal/output x-only keys are dummy values built with secp256k1-sys from_array_unchecked (no FFI call); "
    "the output-key tweak internal_key.tap_tweak(merkle_root) (libsecp256k1, FFI) is NOT verified: assumed",
    "leaves are keyless fragments (1, 0, older(n)) over Pk = bitcoin::PublicKey; parametricity in Pk assumed",
]
DROPPED = [
    "Tr::from_tree / expression parser -> builder calls: string parsing (only the builder calls themselves are under contract)",
    "fmt_helper / Display / Debug of TapTree: core::fmt machinery, out of Kani's reach",
    "TapTree::translate_pk: per-leaf Miniscript::translate_pk is covered by the C20 units; the loop copies `depth` verbatim",
    "TrSpendInfo::from_tr output-key tweak (secp256k1 FFI) and Tr::script_pubkey/address",
    "Merkle pass (nodes_from_tap_tree, TrSpendInfoIter::next) on trees with >= 2 leaves: Vec-heavy, CBMC > 40 GB even for {A,B} "
    "(measured; also when split per function).  Only the single-leaf tree is decided; for larger trees the Merkle root / "
    "control-block claim of C15 is NOT decided by this unit (BitStack128, which the iterator relies on, is proved)",
    "Miniscript::encode is stubbed in the Merkle harness by the `<n> OP_CSV` template for the older(n) leaves used",
]
# one SAT call for all assertions instead of one reachability query per assertion; vacuity is guarded by kani::cover!
KANI_ARGS = ["--no-assertion-reach-checks"]

_BS = ["C15:bitstack_push.height_plus_one", "C15:bitstack_push.sets_top_bit", "C15:bitstack_push.lower_bits_unchanged",
       "C15:bitstack_push.frame_all_other_bits"]
_BP = ["C15:bitstack_pop.none_iff_empty", "C15:bitstack_pop.empty_unchanged", "C15:bitstack_pop.height_minus_one",
       "C15:bitstack_pop.returns_top_bit", "C15:bitstack_pop.lower_bits_unchanged"]
_BPP = ["C15:bitstack_lifo.lifo", "C15:bitstack_lifo.height_restored", "C15:bitstack_lifo.contents_restored"]

HARNESSES = [
    dict(name="bitstack_push", fn="BitStack128::push", props=("C15", "C11"), kind="complete", tags=_BS),
    dict(name="bitstack_pop", fn="BitStack128::pop", props=("C15", "C11"), kind="complete", tags=_BP),
    dict(name="bitstack_lifo", fn="BitStack128::push+pop", props=("C15", "C11"), kind="complete", tags=_BPP),
    dict(name="builder_new", fn="TapTreeBuilder::new", props=("C15", "C11"), kind="complete",
         tags=["C15:builder_new.invariant", "C15:builder_new.empty_at_root"]),
    dict(name="builder_push_inner_node", fn="TapTreeBuilder::push_inner_node", props=("C10", "C15", "C11"), kind="complete",
         tags=["C10,C15:push_inner_node.err_iff_depth_exceeds_128", "C10,C15:push_inner_node.descends_one_level",
               "C10,C15:push_inner_node.flags_unchanged", "C10,C15:push_inner_node.invariant",
               "C10,C15:push_inner_node.new_level_not_done", "C10,C15:push_inner_node.leaves_unchanged"]),
] + [
    dict(name="builder_push_leaf_h%s" % rng, fn="TapTreeBuilder::push_leaf", props=("C10", "C15", "C11"), kind="complete",
         tags=["C10,C15:push_leaf.records_one_leaf", "C10,C15:push_leaf.records_current_depth", "C10,C15:push_leaf.records_the_leaf",
               "C10,C15:push_leaf.cursor_never_descends", "C10,C15:push_leaf.stops_at_unfinished_left",
               "C10,C15:push_leaf.climbs_only_over_finished_left", "C10,C15:push_leaf.clears_climbed_levels",
               "C10,C15:push_leaf.marks_left_finished", "C10,C15:push_leaf.other_levels_unchanged", "C10,C15:push_leaf.invariant"])
    for rng in ("000_031", "032_055", "056_072", "073_086", "087_098", "099_109", "110_119", "120_128")
    # the eight ranges partition current_height 0..=128
] + [
    dict(name="builder_finalize", fn="TapTreeBuilder::finalize", props=("C15", "C11"), kind="complete",
         tags=["C15:builder_finalize.leaves_unchanged"]),
    dict(name="builder_preorder_depths", fn="TapTreeBuilder (pre-order listing -> depths)", props=("C10", "C15", "C11"),
         kind="bounded", bound="all pre-order listings with <= 4 leaves (<= 7 tokens)",
         tags=["C10,C15:builder_preorder.inner_node_accepted", "C10,C15:builder_preorder.invariant", "C10,C15:builder_preorder.ends_at_root",
               "C10,C15:builder_preorder.leaf_count", "C10,C15:builder_preorder.depths", "C10,C15:builder_preorder.order"]),
] + [
    dict(name="taptree_combine_%d_%d" % (a, b), fn="TapTree::combine", props=("C15", "C11"), kind="bounded",
         bound="%d + %d leaves, every u8 depth" % (a, b),
         tags=["C15:combine.err_iff_some_depth_exceeds_128", "C15:combine.leaf_count",
               "C15:combine.left_first_depth_plus_one", "C15:combine.right_after_left_depth_plus_one"])
    for a, b in ((1, 1), (1, 2))
] + [
    dict(name="taptree_leaf", fn="TapTree::leaf + leaves", props=("C15", "C11"), kind="bounded", bound="one leaf",
         tags=["C15:taptree_leaf.depth_zero", "C15:taptree_leaf.iter_yields", "C15:taptree_leaf.iter_depth_and_leaf",
               "C15:taptree_leaf.iter_ends"]),
] + [
    dict(name="merkle_shape01", fn="TrSpendInfo::nodes_from_tap_tree + TrSpendInfoIter::next", props=("C15", "C11"),
         kind="bounded", bound="single-leaf tree, leaf script older(n) with symbolic n in 1..=16, hashes stubbed (free magma)",
         tags=["C15:merkle.node_count", "C15:merkle.root_is_bip341_merkle_root", "C15:merkle.merkle_root_accessor",
               "C15:merkle.iter_yields_every_leaf", "C15:merkle.leaf_order", "C15:merkle.leaf_depth", "C15:merkle.leaf_hash",
               "C15:merkle.branch_len_is_depth", "C15:merkle.control_block_key_parity_version",
               "C15:merkle.control_block_proves_leaf", "C15:merkle.iter_ends"]),
]
