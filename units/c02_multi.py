"""n-ary satisfier helpers (C01 soundness, C02 completeness, C03 non-malleability, C17 locks):
`Satisfaction::multi`, `Satisfaction::multi_a` (satisfy/sat_dissat.rs) and `Satisfaction::thresh`,
`Satisfaction::thresh_mall` (satisfy/mod.rs) against the rows `multi`, `multi_a`, `thresh` of the Miniscript
specification's satisfaction table (contracts/oracle/sat_table.rs + the N-ary part below).

These are the functions unit c01_satisfier excludes (R9) from the per-node step.  They are brought into
Verus' subset by rule-based rewrites of the iterator plumbing only (R8 loops, R14 fold, R15 std stubs);
every loop body / closure body stays the text of /repo.
"""
import os
import re

from vlib.verus import Contract, Clause, VerusFile, sub, lit, rule, DERIVE_TRIM, Undecided, const_as_fn
from vlib.extract import Region, match_close
from units import _tree
from units import c01_satisfier as C1

NAME = "c02_multi"
ENGINE = "verus"
PROPS = ("C01", "C02", "C03", "C17", "C11")
SAT = C1.SAT
SD = C1.SD
SATIMPL = C1.SATIMPL

DROPPED = [
    "R15 `vec![x; n]` -> vec_repeat(x, n) / vec_repeat_vec(x, n) (trusted std semantics: n clones of x)",
    "R8 `for pk in thresh.data()`, `for (i, pk) in thresh.iter().rev().enumerate()`, `for sat in &ret_stack` -> index loops over the same slice carrying invariants (reverse: element n-1-i; `break` kept); `for _ in 0..e` / `for i in 0..k` keep their range and get an invariant; loop bodies verbatim",
    "R15 `sigs.iter().enumerate().max_by_key(|&(_, v)| v.len()).unwrap().0` -> index_of_longest(&sigs) (trusted: an index of a longest element; panics on empty = precondition)",
    "R14 `xs.into_iter().fold(INIT, F)` -> `let mut acc = INIT; for each element x of xs in order { acc = F(acc, x) }` as an index loop with invariant; the closure body / the path F is verbatim (trusted: std fold is this loop; vec_take models moving the i-th element out of the consumed vector)",
    "R15 `(0..n).collect::<Vec<_>>()` -> range_vec(n); `v.sort_by_key(|&i| KEY)` -> the closure is lifted verbatim into the function `<fn>_sort_key(i, sats, ret_stack)` (verified against the specification's ordering of candidates) and the sort itself becomes the stub sort_indices_nonmall / sort_indices_mall (trusted std semantics: a permutation, ascending in the lexicographic tuple order false < true)",
    "R15 `mem::swap(&mut a[i], &mut b[i])` -> swap_at(&mut a, &mut b, i)",
    "witness_size differences in the sort key are i64 arithmetic on usize casts: overflow freedom needs the (unchecked, listed) precondition that witness sizes are below 2^62",
    "Callees Witness::{empty, push_0, combine, signature}, Satisfaction::{empty, push_0, concatenate_rev, TRIVIAL, IMPOSSIBLE} are consumed through the contracts proved in unit c01_satisfier (same contract text, emitted by calling that unit's functions through an `assumed` proxy)",
    "multi / multi_a are verified for an arbitrary key order; the SortedMulti / SortedMultiA arms (which key order is passed in) are clauses of unit c01_satisfier's step",
    "rewrites of constructs whose absence leaves nothing un-rewritten (vec![x; n], max_by_key, (0..n).collect(), mem::swap, the `for sat in &ret_stack { assert!(..) }` loop) are optional: a tree without them is verified as it stands",
]


# ---------------------------------------------------------------------------------------------------
# rewrite helpers (unit-local; candidates for vlib)
# ---------------------------------------------------------------------------------------------------
def vec_repeat_rw(required=True):
    """R15: `vec![X; N]` -> `vec_repeat(X, N)` (`vec_repeat_vec` when X is itself a `vec![..]`)."""
    def one(text):
        out, pos, n = [], 0, 0
        while True:
            i = text.find("vec![", pos)
            if i < 0:
                out.append(text[pos:])
                break
            close = match_close(text, i + 4)
            inner = text[i + 5:close]
            # top-level `;`
            depth, semi = 0, -1
            for j, ch in enumerate(inner):
                if ch in "([{":
                    depth += 1
                elif ch in ")]}":
                    depth -= 1
                elif ch == ";" and depth == 0:
                    semi = j
                    break
            if semi < 0:
                out.append(text[pos:close + 1])
            else:
                x, cnt = inner[:semi].strip(), inner[semi + 1:].strip()
                fn = "vec_repeat_vec" if x.startswith("vec![") else "vec_repeat"
                out.append(text[pos:i] + "%s(%s, %s)" % (fn, x, cnt))
                n += 1
            pos = close + 1
        return "".join(out), n

    @rule("R15-vec-repeat")
    def rw(text):
        new, n = one(text)
        if n == 0:
            return None if required else text
        return new
    return rw


def for_slice_loop(for_prefix, slice_expr, src, elem, index, invariant, decreases=None, reverse=False,
                   except_break=None, ensures=None, body_pre="", body_post="", after="", before="", required=True):
    """R8: `for PAT in ITER { BODY }` over a slice ->
        let SRC = <slice_expr>; let mut INDEX: usize = 0;
        while INDEX < SRC.len() invariant .. { let ELEM = &SRC[INDEX | SRC.len()-1-INDEX]; <ghost pre> BODY <ghost post> INDEX += 1; }
    BODY is verbatim (`break` keeps its meaning: the while loop is the for loop)."""
    @rule("R8")
    def rw(text):
        reg = Region("<text>", text, 0, len(text))
        try:
            b = reg._find_block(for_prefix)
        except Exception:
            return None if required else text      # no such loop: nothing to rewrite (and no obligation from it)
        header = text[b.stmt_start:b.start - 1]
        rev = (".rev()" in header) if reverse == "auto" else reverse
        idx_expr = "%s.len() - 1 - %s" % (src, index) if rev else index
        head = before + "let %s = %s;\n        let mut %s: usize = 0;\n        while %s < %s.len()\n" % (src, slice_expr, index, index, src)
        if except_break:
            head += "            invariant_except_break\n%s\n" % except_break
        head += "            invariant\n%s\n" % invariant
        if ensures:
            head += "            ensures\n%s\n" % ensures
        head += "            decreases %s\n        {\n            let %s = &%s[%s];\n%s" % (
            decreases or "%s.len() - %s" % (src, index), elem, src, idx_expr, body_pre)
        body = text[b.start:b.end]
        body = re.sub(r"\bcontinue\s*;", "{ %s += 1; continue; }" % index, body)
        return text[:b.stmt_start] + head + body + "\n%s            %s += 1;\n        }\n%s" % (body_post, index, after) + text[b.stmt_end:]
    return rw


def range_for_invariant(for_prefix, index, invariant, body_pre="", body_post="", after="", before="", required=True):
    """R8: `for PAT in LO..HI { BODY }` keeps its range; the loop variable gets a name and the loop an invariant
    (Verus supports range `for` natively)."""
    @rule("R8-range")
    def rw(text):
        reg = Region("<text>", text, 0, len(text))
        try:
            b = reg._find_block(for_prefix)
        except Exception:
            return None if required else text
        header = text[b.stmt_start:b.start - 1]
        m = re.match(r"for\s+(\w+)\s+in\s+(.*?)\s*$", header, flags=re.S)
        if not m:
            return None
        lo, hi = m.group(2).split("..", 1)
        head = before + "for %s in %s..%s\n            invariant\n%s\n        {\n%s" % (index, lo.strip(), hi.strip(), invariant, body_pre)
        return text[:b.stmt_start] + head + text[b.start:b.end] + "\n%s        }\n%s" % (body_post, after) + text[b.stmt_end:]
    return rw


def fold_to_loop(shapes, name="R14-fold"):
    """R14: `XS.into_iter().fold(INIT, F)` -> a block expression running std's definition of fold:
        ({ let fold_src = XS; let mut ACC = INIT; let ghost fold_init = ACC; let mut fold_i: usize = 0;
           while fold_i < fold_src.len() invariant .. { let X = vec_take(&fold_src, fold_i); ACC = F(ACC, X); fold_i += 1; }
           ACC })
    Also `XS.iter().cloned().fold(..)` (fold_src = &XS, X = fold_src[fold_i].clone()), `XS.iter().fold(..)`
    (X = &fold_src[fold_i]) and their `.rev()` forms (element len-1-fold_i).  F is either a closure `|ACC, X| BODY` (BODY verbatim) or a path (called as `PATH(acc, x)`).
    Rewrites the FIRST fold of the text.  `shapes` maps a regex on INIT (the accumulator's type is read off INIT) to
    dict(invariant, before, pre, post, after): the proof scaffolding for that accumulator shape; an INIT matching no
    shape is an anchor loss (UNDECIDED, never guessed)."""
    @rule(name)
    def rw(text):
        m = re.search(r"([\w.]+)\s*\.(into_iter\(\)(?:\s*\.rev\(\))?|iter\(\)(?:\s*\.rev\(\))?\s*\.cloned\(\)|iter\(\)\s*\.cloned\(\)\s*\.rev\(\)|iter\(\)(?:\s*\.rev\(\))?)\s*\.fold\(", text)
        if not m:
            return None
        how = re.sub(r"\s+", "", m.group(2))
        open_p = m.end() - 1
        close_p = match_close(text, open_p)
        args = text[open_p + 1:close_p]
        depth, comma = 0, -1
        for j, ch in enumerate(args):
            if ch in "([{":
                depth += 1
            elif ch in ")]}":
                depth -= 1
            elif ch == "," and depth == 0:
                comma = j
                break
        if comma < 0:
            return None
        init, f = args[:comma].strip(), args[comma + 1:].strip().rstrip(",").strip()
        cm = re.match(r"\|\s*(\w+)\s*,\s*(\w+)\s*\|\s*(.*)$", f, flags=re.S)
        if cm:
            acc, x, step = cm.group(1), cm.group(2), cm.group(3)
        else:
            if not re.match(r"^[\w:]+$", f):
                return None
            acc, x, step = "acc", "fold_x", "%s(acc, fold_x)" % f
        shape = None
        for pat, sh in shapes:
            if re.match(pat, init):
                shape = sh
                break
        if shape is None:
            raise Undecided("fold_to_loop: accumulator shape of `%s` unknown (anchor lost)" % init)
        idx = "fold_src.len() - 1 - fold_i" if ".rev()" in how else "fold_i"       # a reversed iterator yields the last element first
        how = how.replace(".rev()", "")
        src, elem = {"into_iter()": (m.group(1), "vec_take(&fold_src, %s)" % idx),
                     "iter().cloned()": ("&" + m.group(1), "fold_src[%s].clone()" % idx),
                     "iter()": ("&" + m.group(1), "&fold_src[%s]" % idx)}[how]
        fmt = dict(acc=acc, x=x)
        block = ("({\n            let fold_src = %s;\n            let mut %s = %s;\n            let ghost fold_init = %s;\n%s"
                 "            let mut fold_i: usize = 0;\n            while fold_i < fold_src.len()\n                invariant\n%s\n"
                 "                decreases fold_src.len() - fold_i\n            {\n%s"
                 "                let %s = %s;\n                %s = %s;\n%s                fold_i += 1;\n            }\n%s            %s\n        })") % (
            src, acc, init, acc, shape.get("before", "") % fmt, shape["invariant"] % fmt, shape.get("pre", "") % fmt,
            x, elem, acc, step, shape.get("post", "") % fmt, shape.get("after", "") % fmt, acc)
        return text[:m.start()] + block + text[close_p + 1:]
    return rw



def lift_sort_key(holder, stub):
    """R15: `V.sort_by_key(|&i| BODY);` -> `<stub>(&mut V, &sats, &ret_stack);`  The closure body is stashed in
    `holder` and emitted verbatim as a function of (i, sats, ret_stack) -- its captured variables -- by the caller."""
    @rule("R15-sort-by-key")
    def rw(text):
        m = re.search(r"(\w+)\.sort_by_key\(\|&(\w+)\|\s*", text)
        if not m:
            return None
        open_p = text.index("(", m.start())
        close_p = match_close(text, open_p)
        body = text[m.end():close_p].strip()
        if not body.startswith("{"):
            body = "{ %s }" % body
        end = close_p + 1
        if text[end:end + 1] != ";":
            return None
        holder["body"], holder["param"] = body, m.group(2)
        v = m.group(1)
        return text[:m.start()] + ("let ghost sort_before = %s@;\n        %s(&mut %s, &sats, &ret_stack);\n"
                                   "        proof { lemma_perm_of_range(sort_before, %s@, n as int); }") % (v, stub, v, v) + text[end + 1:]
    return rw


def swap_rw(required=False):
    """R15: `mem::swap(&mut A[I], &mut B[I])` -> `swap_at(&mut A, &mut B, I)` (same index expression on both sides)."""
    @rule("R15-swap")
    def rw(text):
        m = re.search(r"mem::swap\(&mut (\w+)\[(.+?)\], &mut (\w+)\[(.+?)\]\)", text)
        if not m:
            return None if required else text
        if m.group(2) != m.group(4):
            return None
        return text[:m.start()] + "swap_at(&mut %s, &mut %s, %s)" % (m.group(1), m.group(3), m.group(2)) + text[m.end():]
    return rw


def register_named_invariants(vf, fq):
    """Loop invariants that are obligations of the specification in their own right carry a trailing
    `//@inv tag [props]` marker; they are registered as named clauses so that `invariant not satisfied` on that
    line is reported as <unit>.<fn>.<tag> instead of <fn>.body."""
    info = vf.functions.get(fq)
    if info is None:      # emitted as an assumed callee contract: nothing to register
        return
    for text, meta in vf.chunks:
        if meta.get("fn") == fq and meta.get("start") == info["start"]:
            for k, line in enumerate(text.split("\n")):
                m = re.search(r"//@inv (\w+) \[([\w,]*)\]", line)
                if m:
                    info["clauses"][info["start"] + k] = ("ensures", Clause(m.group(1), tuple(m.group(2).split(",")), line.split("//@inv")[0].strip().rstrip(",")))


class AssumedProxy:
    """Forwards to a VerusFile, but every extracted function named in `keep` is emitted as signature + contract only
    (`assumed=True`) and every other function, step, raw text (except `raw_ok`) and trust entry is dropped: callee
    contracts proved in another unit, same contract text by construction (the other unit's own code emits them).
    No module state of the other unit is touched (units are built concurrently)."""

    def __init__(self, vf, keep, raw_ok=()):
        self._vf, self._keep, self._raw_ok = vf, keep, raw_ok

    def __getattr__(self, n):
        return getattr(self._vf, n)

    def fn(self, rel, anchor, **kw):
        name = anchor.split("fn:")[-1]
        if name in self._keep:
            kw["assumed"] = True
            kw.pop("cases", None)
            return self._vf.fn(rel, anchor, **kw)
        return None

    def raw(self, text, keep_vis=False):
        if any(text is t for t in self._raw_ok):
            return self._vf.raw(text, keep_vis=keep_vis)
        return None

    def trust(self, what, why):
        return None

    def step(self, *a, **kw):
        return None

    def fn_text(self, *a, **kw):
        return None


def nary_oracle_text():
    with open(os.path.join(os.path.dirname(os.path.abspath(__file__)), "..", "contracts", "oracle", "sat_nary.rs")) as f:
        return f.read()


# ---------------------------------------------------------------------------------------------------
# std stubs (trusted)
# ---------------------------------------------------------------------------------------------------
STD_STUBS = r"""
// ---- std semantics consumed by the rewrites R14 / R15 (trusted, listed) ---------------------------
#[verifier::external_body]
fn vec_repeat<T>(x: T, n: usize) -> (r: Vec<T>)
    ensures r@.len() == n, forall|j: int| 0 <= j < n ==> r@[j] == x,
{ unimplemented!() }
#[verifier::external_body]
fn vec_repeat_vec<T>(x: Vec<T>, n: usize) -> (r: Vec<Vec<T>>)
    ensures r@.len() == n, forall|j: int| 0 <= j < n ==> (#[trigger] r@[j])@ == x@,
{ unimplemented!() }
// `v.iter().enumerate().max_by_key(|&(_, e)| e.len()).unwrap().0`: an index of a longest element (std returns the
// last one; not needed).  `unwrap` panics on an empty vector: precondition.
#[verifier::external_body]
fn index_of_longest<T>(v: &Vec<Vec<T>>) -> (r: usize)
    requires v@.len() > 0,
    ensures r < v@.len(), forall|j: int| 0 <= j < v@.len() ==> (#[trigger] v@[j])@.len() <= v@[r as int]@.len(),
{ unimplemented!() }
#[verifier::external_body]
fn range_vec(n: usize) -> (r: Vec<usize>)
    ensures r@.len() == n, forall|j: int| 0 <= j < n ==> r@[j] == j,
{ unimplemented!() }
#[verifier::external_body]
fn swap_at<T>(a: &mut Vec<T>, b: &mut Vec<T>, i: usize)
    requires i < old(a)@.len(), i < old(b)@.len(),
    ensures final(a)@ == old(a)@.update(i as int, old(b)@[i as int]), final(b)@ == old(b)@.update(i as int, old(a)@[i as int]),
{ unimplemented!() }
// the element `into_iter()` yields at position i (moved out of the consumed vector)
#[verifier::external_body]
fn vec_take<T>(v: &Vec<T>, i: usize) -> (r: T)
    requires i < v@.len(),
    ensures r == v@[i as int],
{ unimplemented!() }
"""

NARY_PROOF = r"""
// ---- proof vocabulary (not oracle): the vector of per-key stacks the code builds ------------------------
// concatenation of the first m stacks
spec fn flat<T>(s: Seq<Vec<T>>, m: int) -> Seq<T> decreases m { if m <= 0 { Seq::empty() } else { flat(s, m - 1) + s[m - 1]@ } }
// s[0..m) holds, for every key among keys[0..i) with an available signature, in key order, either that signature or nothing
spec fn coll<Pk: MiniscriptKey, S: AssetProvider<Pk>>(stfr: &S, s: Seq<Vec<Placeholder<Pk>>>, m: int, keys: Seq<Pk>, i: int, lh: Option<TapLeafHash>) -> bool
    decreases i
{
    if i <= 0 { m == 0 }
    else if sig_available(stfr, &keys[i - 1], lh) {
        m > 0 && (s[m - 1]@.len() == 0 || (s[m - 1]@.len() == 1 && is_sig_elem(s[m - 1]@[0], stfr, &keys[i - 1], lh)))
        && coll(stfr, s, m - 1, keys, i - 1, lh)
    } else { coll(stfr, s, m, keys, i - 1, lh) }
}
proof fn lemma_coll_weaken<Pk: MiniscriptKey, S: AssetProvider<Pk>>(stfr: &S, s1: Seq<Vec<Placeholder<Pk>>>, s2: Seq<Vec<Placeholder<Pk>>>, m: int, keys: Seq<Pk>, i: int, lh: Option<TapLeafHash>)
    requires coll(stfr, s1, m, keys, i, lh), 0 <= m <= s1.len(), m <= s2.len(),
             forall|j: int| 0 <= j < m ==> (#[trigger] s2[j])@ == s1[j]@ || s2[j]@.len() == 0,
    ensures coll(stfr, s2, m, keys, i, lh),
    decreases i,
{
    if i > 0 {
        if sig_available(stfr, &keys[i - 1], lh) { lemma_coll_weaken(stfr, s1, s2, m - 1, keys, i - 1, lh); }
        else { lemma_coll_weaken(stfr, s1, s2, m, keys, i - 1, lh); }
    }
}
proof fn lemma_coll_flat<Pk: MiniscriptKey, S: AssetProvider<Pk>>(stfr: &S, s: Seq<Vec<Placeholder<Pk>>>, m: int, keys: Seq<Pk>, i: int, lh: Option<TapLeafHash>)
    requires coll(stfr, s, m, keys, i, lh), 0 <= m <= s.len(),
    ensures sigs_in_key_order(flat(s, m), stfr, keys, i, lh),
    decreases i,
{
    if i > 0 {
        if sig_available(stfr, &keys[i - 1], lh) {
            lemma_coll_flat(stfr, s, m - 1, keys, i - 1, lh);
            if s[m - 1]@.len() == 0 { assert(flat(s, m) =~= flat(s, m - 1)); }
            else { assert(flat(s, m).drop_last() =~= flat(s, m - 1)); assert(flat(s, m).last() == s[m - 1]@[0]); }
        } else { lemma_coll_flat(stfr, s, m, keys, i - 1, lh); }
    }
}
proof fn lemma_flat_same<T>(s1: Seq<Vec<T>>, s2: Seq<Vec<T>>, m: int)
    requires 0 <= m <= s1.len(), m <= s2.len(), forall|j: int| 0 <= j < m ==> (#[trigger] s2[j])@ == s1[j]@,
    ensures flat(s1, m) == flat(s2, m),
    decreases m,
{ if m > 0 { lemma_flat_same(s1, s2, m - 1); } }
proof fn lemma_flat_len_singletons<T>(s: Seq<Vec<T>>, m: int)
    requires 0 <= m <= s.len(), forall|j: int| 0 <= j < m ==> (#[trigger] s[j])@.len() == 1,
    ensures flat(s, m).len() == m, forall|j: int| #![trigger s[j]] #![trigger flat(s, m)[j]] 0 <= j < m ==> flat(s, m)[j] == s[j]@[0],
    decreases m,
{ if m > 0 { lemma_flat_len_singletons(s, m - 1); } }
// blanking one stack shortens the concatenation by that stack's length
proof fn lemma_flat_blank<T>(s1: Seq<Vec<T>>, s2: Seq<Vec<T>>, m: int, p: int)
    requires 0 <= p < m <= s1.len(), s2.len() == s1.len(), s2[p]@.len() == 0,
             forall|j: int| 0 <= j < m && j != p ==> (#[trigger] s2[j])@ == s1[j]@,
    ensures flat(s2, m).len() == flat(s1, m).len() - s1[p]@.len(),
    decreases m,
{
    if m - 1 == p { lemma_flat_same(s1, s2, m - 1); } else { lemma_flat_blank(s1, s2, m - 1, p); }
}
// number of the first m one-element stacks that hold something else than the empty push
spec fn count_sig_stacks<Pk: MiniscriptKey>(s: Seq<Vec<Placeholder<Pk>>>, m: int) -> int decreases m {
    if m <= 0 { 0 } else { count_sig_stacks(s, m - 1) + (if s[m - 1]@[0] != Placeholder::<Pk>::PushZero { 1int } else { 0int }) }
}
proof fn lemma_count_sig_stacks_same<Pk: MiniscriptKey>(s1: Seq<Vec<Placeholder<Pk>>>, s2: Seq<Vec<Placeholder<Pk>>>, m: int)
    requires 0 <= m <= s1.len(), m <= s2.len(), forall|j: int| 0 <= j < m ==> (#[trigger] s2[j])@ == s1[j]@,
    ensures count_sig_stacks(s1, m) == count_sig_stacks(s2, m),
    decreases m,
{ if m > 0 { lemma_count_sig_stacks_same(s1, s2, m - 1); } }
proof fn lemma_count_sig_stacks_zero_tail<Pk: MiniscriptKey>(s: Seq<Vec<Placeholder<Pk>>>, i: int, m: int)
    requires 0 <= i <= m <= s.len(), forall|j: int| i <= j < m ==> (#[trigger] s[j])@[0] == Placeholder::<Pk>::PushZero,
    ensures count_sig_stacks(s, m) == count_sig_stacks(s, i),
    decreases m,
{ if m > i { lemma_count_sig_stacks_zero_tail(s, i, m - 1); } }
proof fn lemma_count_nonzero_flat<Pk: MiniscriptKey>(s: Seq<Vec<Placeholder<Pk>>>, m: int)
    requires 0 <= m <= s.len(), forall|j: int| 0 <= j < m ==> (#[trigger] s[j])@.len() == 1,
    ensures count_nonzero(flat(s, m)) == count_sig_stacks(s, m),
    decreases m,
{
    if m > 0 {
        lemma_count_nonzero_flat(s, m - 1);
        assert(flat(s, m).drop_last() =~= flat(s, m - 1));
        assert(flat(s, m).last() == s[m - 1]@[0]);
    }
}
proof fn lemma_count_avail_lo<Pk: MiniscriptKey, S: AssetProvider<Pk>>(stfr: &S, keys: Seq<Pk>, lo: int, hi: int, lh: Option<TapLeafHash>)
    requires lo < hi,
    ensures count_avail(stfr, keys, lo, hi, lh) == count_avail(stfr, keys, lo + 1, hi, lh) + (if sig_available(stfr, &keys[lo], lh) { 1int } else { 0int }),
    decreases hi - lo,
{ if hi - 1 > lo { lemma_count_avail_lo(stfr, keys, lo, hi - 1, lh); } else { assert(count_avail(stfr, keys, lo, lo, lh) == 0); } }
proof fn lemma_count_avail_mono<Pk: MiniscriptKey, S: AssetProvider<Pk>>(stfr: &S, keys: Seq<Pk>, lo: int, hi: int, lh: Option<TapLeafHash>)
    requires 0 <= lo <= hi,
    ensures 0 <= count_avail(stfr, keys, lo, hi, lh) <= count_avail(stfr, keys, 0, hi, lh),
    decreases lo,
{
    if lo > 0 { lemma_count_avail_mono(stfr, keys, lo - 1, hi, lh); lemma_count_avail_lo(stfr, keys, lo - 1, hi, lh); lemma_count_avail_nonneg(stfr, keys, lo, hi, lh); }
    else { lemma_count_avail_nonneg(stfr, keys, lo, hi, lh); }
}
proof fn lemma_count_avail_nonneg<Pk: MiniscriptKey, S: AssetProvider<Pk>>(stfr: &S, keys: Seq<Pk>, lo: int, hi: int, lh: Option<TapLeafHash>)
    ensures 0 <= count_avail(stfr, keys, lo, hi, lh),
    decreases hi - lo,
{ if hi > lo { lemma_count_avail_nonneg(stfr, keys, lo, hi - 1, lh); } }
proof fn lemma_flat_nonempty<T>(s: Seq<Vec<T>>, m: int) -> (j: int)
    requires 0 <= m <= s.len(), flat(s, m).len() > 0,
    ensures 0 <= j < m, s[j]@.len() > 0,
    decreases m,
{
    if s[m - 1]@.len() > 0 { m - 1 } else { assert(flat(s, m) =~= flat(s, m - 1)); lemma_flat_nonempty(s, m - 1) }
}
"""


THRESH_PROOF = r"""
// ---- trusted sort stubs + proof vocabulary for thresh -----------------------------------------------------
spec fn size_ok<Pk: MiniscriptKey>(s: Satisfaction<Placeholder<Pk>>) -> bool { spec_witness_size(wseq(s.stack)) < 0x4000_0000_0000_0000 }
spec fn sizes_ok<Pk: MiniscriptKey>(s: Seq<Satisfaction<Placeholder<Pk>>>) -> bool { forall|j: int| 0 <= j < s.len() ==> size_ok(#[trigger] s[j]) }
spec fn is_permuted(old: Seq<usize>, new: Seq<usize>) -> bool {
    &&& new.len() == old.len()
    &&& (forall|x: usize| old.contains(x) <==> new.contains(x))
    &&& (old.no_duplicates() ==> new.no_duplicates())
}
spec fn sorted_nonmall<Pk: MiniscriptKey>(si: Seq<usize>, sats: Seq<Satisfaction<Placeholder<Pk>>>) -> bool {
    forall|a: int, b: int| 0 <= a <= b < si.len() ==> key_le(nm_key(sats[#[trigger] si[a] as int]), nm_key(sats[#[trigger] si[b] as int]))
}
spec fn sorted_by_cost<Pk: MiniscriptKey>(si: Seq<usize>, sats: Seq<Satisfaction<Placeholder<Pk>>>, dis: Seq<Satisfaction<Placeholder<Pk>>>) -> bool {
    forall|a: int, b: int| 0 <= a <= b < si.len() ==> cost_rank(sats[#[trigger] si[a] as int].stack, dis[si[a] as int].stack) <= cost_rank(sats[#[trigger] si[b] as int].stack, dis[si[b] as int].stack)
}
// std's sort_by_key with the (verified) key functions below: a permutation, ascending in the key (tuples compare
// lexicographically, false < true); the closure indexes sats / ret_stack with every element: in-bounds precondition
#[verifier::external_body]
fn sort_indices_nonmall<Pk: MiniscriptKey>(v: &mut Vec<usize>, sats: &Vec<Satisfaction<Placeholder<Pk>>>, ret_stack: &Vec<Satisfaction<Placeholder<Pk>>>)
    requires forall|j: int| 0 <= j < old(v)@.len() ==> old(v)@[j] < sats@.len() && old(v)@[j] < ret_stack@.len(), sizes_ok(sats@), sizes_ok(ret_stack@),
    ensures is_permuted(old(v)@, final(v)@), sorted_nonmall(final(v)@, sats@), 
{ unimplemented!() }
#[verifier::external_body]
fn sort_indices_mall<Pk: MiniscriptKey>(v: &mut Vec<usize>, sats: &Vec<Satisfaction<Placeholder<Pk>>>, ret_stack: &Vec<Satisfaction<Placeholder<Pk>>>)
    requires forall|j: int| 0 <= j < old(v)@.len() ==> old(v)@[j] < sats@.len() && old(v)@[j] < ret_stack@.len(), sizes_ok(sats@), sizes_ok(ret_stack@),
    ensures is_permuted(old(v)@, final(v)@), sorted_by_cost(final(v)@, sats@, ret_stack@),
{ unimplemented!() }

// ---- proof vocabulary ---------------------------------------------------------------------------------------
spec fn abs_all<Pk: MiniscriptKey>(s: Seq<Satisfaction<Placeholder<Pk>>>) -> Seq<ASat<Pk>> { Seq::new(s.len(), |j: int| abs_sat(s[j])) }
proof fn lemma_count_true_set(sel: Seq<bool>, m: int, p: int)
    requires 0 <= m <= sel.len(), 0 <= p < sel.len(), !sel[p],
    ensures count_true(sel.update(p, true), m) == count_true(sel, m) + (if p < m { 1int } else { 0int }),
    decreases m,
{ if m > 0 { lemma_count_true_set(sel, m - 1, p); } }
proof fn lemma_count_true_none(sel: Seq<bool>, m: int)
    requires 0 <= m <= sel.len(), forall|j: int| 0 <= j < m ==> !sel[j],
    ensures count_true(sel, m) == 0,
    decreases m,
{ if m > 0 { lemma_count_true_none(sel, m - 1); } }
proof fn lemma_t_concat_none<Pk: MiniscriptKey>(e: Seq<ASat<Pk>>, m: int, j: int)
    requires 0 <= j < m <= e.len(), e[j].kind == 2,
    ensures t_concat(e, m) == t_none::<Pk>(),
    decreases m,
{ if j < m - 1 { lemma_t_concat_none(e, m - 1, j); } }
proof fn lemma_perm_of_range(r: Seq<usize>, s: Seq<usize>, n: int)
    requires r.len() == n, forall|j: int| 0 <= j < n ==> r[j] == j, is_permuted(r, s),
    ensures s.len() == n, s.no_duplicates(), forall|a: int| 0 <= a < n ==> (#[trigger] s[a]) < n, forall|x: usize| x < n ==> #[trigger] s.contains(x),
{
    assert forall|a: int| 0 <= a < n implies (#[trigger] s[a]) < n by {
        assert(s.contains(s[a]));
        let b = choose|b: int| 0 <= b < r.len() && r[b] == s[a];
    }
    assert forall|x: usize| x < n implies #[trigger] s.contains(x) by { assert(r[x as int] == x); assert(r.contains(x)); }
}
// pigeonhole: if every marked child sits at one of the first a positions of the order, at most a children are marked
spec fn in_prefix(si: Seq<usize>, a: int, j: int) -> bool { exists|b: int| 0 <= b < a && b < si.len() && (#[trigger] si[b]) == j }
proof fn lemma_count_true_bounded(sel: Seq<bool>, si: Seq<usize>, a: int, n: int)
    requires sel.len() == n, 0 <= a <= si.len(), forall|j: int| 0 <= j < n && #[trigger] sel[j] ==> in_prefix(si, a, j),
             forall|b: int| 0 <= b < si.len() ==> (#[trigger] si[b]) < n,
    ensures count_true(sel, n) <= a,
    decreases a,
{
    if a == 0 {
        assert forall|j: int| 0 <= j < n implies !sel[j] by { if sel[j] { assert(in_prefix(si, a, j)); } }
        lemma_count_true_none(sel, n);
    } else {
        let p = si[a - 1] as int;
        let sel2 = sel.update(p, false);
        assert forall|j: int| 0 <= j < n && #[trigger] sel2[j] implies in_prefix(si, a - 1, j) by {
            assert(sel[j] && j != p);
            assert(in_prefix(si, a, j));
            let b = choose|b: int| 0 <= b < a && b < si.len() && (#[trigger] si[b]) == j;
            assert(b < a - 1);
        }
        lemma_count_true_bounded(sel2, si, a - 1, n);
        if sel[p] { lemma_count_true_set(sel2, n, p); assert(sel2.update(p, true) =~= sel); } else { assert(sel2 =~= sel); }
    }
}
proof fn lemma_all_concrete_not_unavailable<Pk: MiniscriptKey>(e: Seq<ASat<Pk>>, m: int)
    requires 0 <= m <= e.len(), all_concrete(e),
    ensures t_concat(e, m).kind != 1,
    decreases m,
{ if m > 0 { lemma_all_concrete_not_unavailable(e, m - 1); } }
// the cheapest-first order never picks an unavailable satisfaction while k available ones exist
proof fn lemma_mall_complete<Pk: MiniscriptKey>(si: Seq<usize>, sel: Seq<bool>, star: Seq<bool>, sats: Seq<Satisfaction<Placeholder<Pk>>>, dis: Seq<Satisfaction<Placeholder<Pk>>>, k: int, n: int)
    requires si.len() == n, sel.len() == n, sats.len() == n, dis.len() == n, 1 <= k < n <= usize::MAX,
             forall|a: int| 0 <= a < n ==> (#[trigger] si[a]) < n,
             forall|x: usize| x < n ==> #[trigger] si.contains(x),
             forall|a: int| 0 <= a < n ==> (sel[(#[trigger] si[a]) as int] <==> a < k),
             sorted_by_cost(si, sats, dis), sizes_ok(sats), sizes_ok(dis),
             forall|j: int| 0 <= j < n ==> wkind((#[trigger] dis[j]).stack) == 0,
             k_available(star, sats, k, n),
    ensures forall|j: int| 0 <= j < n && sel[j] ==> wkind((#[trigger] sats[j]).stack) == 0,
{
    assert forall|j: int| 0 <= j < n && sel[j] implies wkind((#[trigger] sats[j]).stack) == 0 by {
        if wkind(sats[j].stack) != 0 {
            assert(si.contains(j as usize));
            let a0 = choose|a: int| 0 <= a < si.len() && si[a] == j as usize;
            assert(a0 < k);
            assert forall|i: int| 0 <= i < n && #[trigger] star[i] implies in_prefix(si, a0, i) by {
                assert(si.contains(i as usize));
                let b = choose|b: int| 0 <= b < si.len() && si[b] == i as usize;
                assert(size_ok(sats[i]) && size_ok(dis[i]));
                if b >= a0 { assert(cost_rank(sats[si[a0] as int].stack, dis[si[a0] as int].stack) <= cost_rank(sats[si[b] as int].stack, dis[si[b] as int].stack)); }
            }
            lemma_count_true_bounded(star, si, a0, n);
        }
    }
}
proof fn lemma_locks_inherited_step<Pk: MiniscriptKey>(old_acc: Satisfaction<Placeholder<Pk>>, x: Satisfaction<Placeholder<Pk>>, new_acc: Satisfaction<Placeholder<Pk>>,
                                                       a: Seq<Satisfaction<Placeholder<Pk>>>, b: Seq<Satisfaction<Placeholder<Pk>>>, i: int)
    requires locks_inherited(old_acc, a, b), 0 <= i < a.len(), i < b.len(), x == a[i] || x == b[i],
             wkind(new_acc.stack) != 2 ==> wkind(old_acc.stack) != 2 && wkind(x.stack) != 2
                 && (new_acc.absolute_timelock == old_acc.absolute_timelock || new_acc.absolute_timelock == x.absolute_timelock)
                 && (new_acc.relative_timelock == old_acc.relative_timelock || new_acc.relative_timelock == x.relative_timelock),
    ensures locks_inherited(new_acc, a, b),
{
    if wkind(new_acc.stack) != 2 {
        if new_acc.absolute_timelock is Some && new_acc.absolute_timelock == x.absolute_timelock { assert(carries_abs(a[i], new_acc.absolute_timelock) || carries_abs(b[i], new_acc.absolute_timelock)); }
        if new_acc.relative_timelock is Some && new_acc.relative_timelock == x.relative_timelock { assert(carries_rel(a[i], new_acc.relative_timelock) || carries_rel(b[i], new_acc.relative_timelock)); }
    }
}
// where the sorted order puts the children, seen from the k-th position (0-based) of the order
proof fn lemma_nm_positions<Pk: MiniscriptKey>(si: Seq<usize>, sel: Seq<bool>, sats: Seq<Satisfaction<Placeholder<Pk>>>, k: int, n: int)
    requires si.len() == n, sel.len() == n, sats.len() == n, 1 <= k < n <= usize::MAX,
             forall|a: int| 0 <= a < n ==> (#[trigger] si[a]) < n,
             forall|x: usize| x < n ==> #[trigger] si.contains(x),
             forall|a: int| 0 <= a < n ==> (sel[(#[trigger] si[a]) as int] <==> a < k),
             sorted_nonmall(si, sats),
    ensures possible_unsigned(sats[si[k] as int]) ==> nm_surplus(sel, sats),
            !possible_unsigned(sats[si[k] as int]) ==> nm_clean(sel, sats),
{
    let pk = si[k] as int;
    if possible_unsigned(sats[pk]) {
        assert forall|j: int| 0 <= j < n && sel[j] implies possible_unsigned(#[trigger] sats[j]) by {
            assert(si.contains(j as usize));
            let a = choose|a: int| 0 <= a < si.len() && si[a] == j as usize;
            assert(key_le(nm_key(sats[si[a] as int]), nm_key(sats[si[k] as int])));
        }
        assert(!sel[pk] && possible_unsigned(sats[pk]));
    } else {
        assert forall|j: int| 0 <= j < n && !sel[j] implies !possible_unsigned(#[trigger] sats[j]) by {
            assert(si.contains(j as usize));
            let a = choose|a: int| 0 <= a < si.len() && si[a] == j as usize;
            assert(key_le(nm_key(sats[si[k] as int]), nm_key(sats[si[a] as int])));
        }
    }
}
"""


def thresh_fold_shapes(after, extra_inv="", pre="", post=""):
    sat = dict(pre=pre, post=post,
        invariant="""                    fold_i <= fold_src@.len(),
                    abs_sat(%(acc)s) == t_concat(abs_all(fold_src@), fold_i as int), //@inv result_is_the_table_juxtaposition_while_folding [C01,C02,C03,C17]""" + extra_inv,
        after=after)
    return [(r"(Self|Satisfaction)::empty\(\)", sat)]


def thresh_clauses(mall, r="r", k="k as int", n="n as int", sats="sats@", dis="dissats@", guards=()):
    """The contract of Satisfaction::thresh_mall / thresh as clause list; also used by unit c01_satisfier for the
    Thresh arm of the step (r := r.sat, sats/dissats := the children's entries on the stack; `guards` are nested
    hypotheses g1 ==> (g2 ==> (clause)))."""
    def w(body):
        for gd in reversed(guards):
            body = "%s ==> (%s)" % (gd, body)
        return body
    sel = "exists|sel: Seq<bool>| #[trigger] is_selection(sel, %s, %s) && " % (k, n)
    imp = Clause("impossible_when_every_choice_of_k_includes_an_impossible_satisfaction", ("C02", "C03"),
                 w("(forall|sel: Seq<bool>| #[trigger] is_selection(sel, %s, %s) ==> exists|j: int| 0 <= j < %s && sel[j] && wkind((#[trigger] %s[j]).stack) == 2) ==> wkind(%s.stack) == 2" % (k, n, n, sats, r)))
    locks = Clause("locks_are_inherited", ("C17",), w("locks_inherited(%s, %s, %s)" % (r, sats, dis)))
    if mall:
        row = "abs_sat(%s) == t_concat(chosen(sel, %s, %s), %s)" % (r, sats, dis, n)
        hyp = "((forall|j: int| 0 <= j < %s ==> dissat_of_d_child(true, #[trigger] %s[j])) && (exists|s: Seq<bool>| #[trigger] k_available(s, %s, %s, %s)))" % (n, dis, sats, k, n)
        return [
            Clause("result_is_the_table_juxtaposition_with_exactly_k_sats", ("C01", "C02", "C17"), w(sel + row)),
            Clause("complete_all_entries_available_when_k_satisfactions_are", ("C02",), w("%s ==> %s%s && all_concrete(chosen(sel, %s, %s))" % (hyp, sel, row, sats, dis))),
            Clause("complete_never_withheld_when_k_satisfactions_are_available", ("C02",), w("%s ==> wkind(%s.stack) != 1" % (hyp, r))),
            imp, locks]
    return [Clause("result_is_the_nonmalleable_row", ("C01", "C03", "C17"), w(sel + "thresh_nonmall_row(%s, sel, %s, %s)" % (r, sats, dis))), imp, locks]


def threshes(vf):
    vf.raw(THRESH_PROOF)
    vf.trust("range_vec (external_body)", "R15: `(0..n).collect::<Vec<_>>()` is [0, 1, .., n-1]")
    vf.trust("swap_at (external_body)", "R15: `mem::swap(&mut a[i], &mut b[i])` exchanges the two elements (panics when i is out of bounds = precondition)")
    vf.trust("sort_indices_nonmall / sort_indices_mall (external_body)", "R15: slice::sort_by_key returns a permutation of its input, ascending in the key; the key closure is verified separately (thresh_sort_key / thresh_mall_sort_key) to be (is_impossible, has_sig, cost_rank) resp. cost_rank; tuples order lexicographically with false < true")
    vf.trust("size_ok (precondition of the sort keys only)", "serialized witness sizes are below 2^62, so `a as i64 - b as i64` neither wraps nor overflows")
    P = PROPS
    SATS, DIS = "sats@", "dissats@"
    ghost0 = "let ghost sats0 = sats@;\n        let ghost dissats0 = dissats@;\n"
    inv_swap = """                sel.len() == n,
                ret_stack@.len() == n,
                sats@.len() == n,
                sat_indices@.len() == n,
                k < n,
                sat_indices@.no_duplicates(),
                forall|a: int| 0 <= a < n ==> (#[trigger] sat_indices@[a]) < n,
                count_true(sel, n as int) == i, //@inv exactly_k_satisfactions_swapped_in [C01,C02]
                forall|a: int| 0 <= a < n ==> (sel[(#[trigger] sat_indices@[a]) as int] <==> a < i),
                forall|j: int| 0 <= j < n ==> (#[trigger] ret_stack@[j]) == (if sel[j] { sats0[j] } else { dissats0[j] }), //@inv each_entry_is_the_childs_sat_or_dsat [C01]
                forall|j: int| 0 <= j < n ==> (#[trigger] sats@[j]) == (if sel[j] { dissats0[j] } else { sats0[j] }),"""
    before_swap = """let ghost mut sel: Seq<bool> = Seq::new(n as nat, |j: int| false);
        proof { lemma_count_true_none(sel, n as int); }
        """
    pre_swap = """            let ghost p = sat_indices@[i as int] as int;
            proof { lemma_count_true_set(sel, n as int, p); }
"""
    post_swap = """            proof { sel = sel.update(p, true); }
"""
    HYP_MALL = "((forall|j: int| 0 <= j < n ==> dissat_of_d_child(true, #[trigger] %s[j])) && (exists|s: Seq<bool>| #[trigger] k_available(s, %s, k as int, n as int)))" % (DIS, SATS)
    row_mall = "abs_sat(r) == t_concat(chosen(sel, %s, %s), n as int)" % (SATS, DIS)
    after_fold = """            proof {
                assert(abs_all(fold_src@) =~= chosen(sel, sats0, dissats0));
                assert(is_selection(sel, k as int, n as int)); //@inv exactly_k_satisfactions_selected [C01,C02]
                if exists|j: int| 0 <= j < n && sel[j] && wkind((#[trigger] sats0[j]).stack) == 2 {
                    let j = choose|j: int| 0 <= j < n && sel[j] && wkind((#[trigger] sats0[j]).stack) == 2;
                    lemma_t_concat_none(chosen(sel, sats0, dissats0), n as int, j);
                }
            }
"""
    after_fold_mall = after_fold[:after_fold.rindex("            }\n")] + """                if (forall|j: int| 0 <= j < n ==> dissat_of_d_child(true, #[trigger] dissats0[j])) && (exists|s: Seq<bool>| #[trigger] k_available(s, sats0, k as int, n as int)) {
                    let star = choose|s: Seq<bool>| #[trigger] k_available(s, sats0, k as int, n as int);
                    lemma_mall_complete(sat_indices@, sel, star, sats0, dissats0, k as int, n as int);
                    assert(all_concrete(chosen(sel, sats0, dissats0)));
                    lemma_all_concrete_not_unavailable(chosen(sel, sats0, dissats0), n as int);
                }
            }
"""
    inv_locks = """
                    fold_src@.len() == n,
                    sats0.len() == n,
                    dissats0.len() == n,
                    forall|j: int| 0 <= j < n ==> (#[trigger] fold_src@[j]) == sats0[j] || fold_src@[j] == dissats0[j],
                    locks_inherited(%(acc)s, sats0, dissats0), //@inv locks_are_inherited [C17]"""
    pre_locks = "                let ghost acc_before = %(acc)s;\n"
    post_locks = "                proof { lemma_locks_inherited_step(acc_before, fold_src@[fold_i as int], %(acc)s, sats0, dissats0, fold_i as int); }\n"
    common = lambda holder, stub: [
        lit("R10", "let mut ret_stack = dissats;", ghost0 + "        let mut ret_stack = dissats;"),
        sub("R15-range-collect", r"\(0\.\.(\w+)\)\.collect::<Vec<_>>\(\)", r"range_vec(\1)", required=False),
        lift_sort_key(holder, stub),
        swap_rw(),
        range_for_invariant("for i in 0..k", "i", inv_swap, body_pre=pre_swap, body_post=post_swap, before=before_swap),
    ]
    pre = ["1 <= k < n", "dissats@.len() == n", "sats@.len() == n", "sizes_ok(sats@)", "sizes_ok(dissats@)"]
    hm, hn = {}, {}
    with vf.block("impl<Pk: MiniscriptKey + ToPublicKey> Satisfaction<Placeholder<Pk>>"):
        # ---- malleable mode --------------------------------------------------------------------------------
        vf.fn(SAT, SATIMPL + "/fn:thresh_mall", qual="Satisfaction", props=P,
              rewrites=common(hm, "sort_indices_mall") + [fold_to_loop(thresh_fold_shapes(after_fold_mall, inv_locks, pre_locks, post_locks))],
              contract=Contract(requires=pre, ensures=thresh_clauses(True)))
        register_named_invariants(vf, "Satisfaction::thresh_mall")
        # ---- non-malleable mode ----------------------------------------------------------------------------
        nm_pre = pre + ["forall|j: int| 0 <= j < n ==> dissat_of_d_child(false, #[trigger] dissats@[j])"]
        positions = """proof {
            lemma_nm_positions(sat_indices@, sel, sats0, k as int, n as int);
            assert(is_selection(sel, k as int, n as int)); //@inv exactly_k_satisfactions_selected_before_the_rule [C01,C02]
        }
        """
        vf.fn(SAT, SATIMPL + "/fn:thresh", qual="Satisfaction", props=P,
              rewrites=common(hn, "sort_indices_nonmall") + [
                  lit("R10", "if sats[sat_indices[k - 1]].stack == Witness::Impossible", positions + "if sats[sat_indices[k - 1]].stack == Witness::Impossible"),
                  for_slice_loop("for sat in &ret_stack", "&ret_stack", "rs", "sat", "rs_i",
                                 "                rs@ == ret_stack@,\n                forall|j: int| 0 <= j < rs@.len() ==> !(#[trigger] rs@[j]).has_sig, //@inv asserted_entries_carry_no_signature [C03,C11]",
                                 required=False),
                  fold_to_loop(thresh_fold_shapes(after_fold, inv_locks, pre_locks, post_locks)),
              ],
              contract=Contract(requires=nm_pre, ensures=thresh_clauses(False)))
        register_named_invariants(vf, "Satisfaction::thresh")
        # ---- the sort keys: the closure bodies, verbatim, as functions of their captured variables ------------
        key_pre = ["i < sats@.len()", "i < ret_stack@.len()", "size_ok(sats@[i as int])", "size_ok(ret_stack@[i as int])"]
        lifted = [C1.R3_WITNESS]
        sig = "fn %s(%s: usize, sats: &Vec<Self>, ret_stack: &Vec<Self>) -> %s %s"
        reg = vf.repo.at(SAT, SATIMPL + "/fn:thresh")
        vf.fn_text("Satisfaction::thresh_sort_key", vf._apply(sig % ("thresh_sort_key", hn["param"], "(bool, bool, i64)", hn["body"]), lifted, "thresh sort key"),
                   Contract(requires=key_pre, ensures=[
                       Clause("possible_before_impossible", ("C02", "C03"), "r.0 == (wkind(sats@[i as int].stack) == 2)"),
                       Clause("then_unsigned_before_signed", ("C03",), "r.1 == sats@[i as int].has_sig"),
                       Clause("then_by_cost", ("C01",), "r.2 == cost_rank(sats@[i as int].stack, ret_stack@[i as int].stack)"),
                   ]), P, file=SAT, lines=reg.lines(), anchor=SATIMPL + "/fn:thresh (sort_by_key closure)")
        reg = vf.repo.at(SAT, SATIMPL + "/fn:thresh_mall")
        vf.fn_text("Satisfaction::thresh_mall_sort_key", vf._apply(sig % ("thresh_mall_sort_key", hm["param"], "i64", hm["body"]), lifted, "thresh_mall sort key"),
                   Contract(requires=key_pre, ensures=[
                       Clause("by_cost", ("C01", "C02"), "r == cost_rank(sats@[i as int].stack, ret_stack@[i as int].stack)"),
                   ]), P, file=SAT, lines=reg.lines(), anchor=SATIMPL + "/fn:thresh_mall (sort_by_key closure)")


# ---------------------------------------------------------------------------------------------------
def prelude(vf):
    """The prelude of unit c01_satisfier (its module-level text), without its per-node step."""
    _tree.emit(vf, ext="opaque", types="defs", script_context="", terminal=False)
    vf.raw(C1.STUBS, keep_vis=True)
    vf.trust("AbsLockTime::max / RelLockTime::max (external_body)", "BIP65/BIP68 contracts proved on the real functions by Kani (unit k_locktime)")
    vf.trust("trait AssetProvider with one uninterpreted spec fn per lookup", "the provider is arbitrary; every lookup is a pure function of its arguments")
    vf.trust("witness_size (external_body, uninterpreted)", "serialized witness size; only orders candidates by cost")
    vf.trust("abs_into / rel_into, TapLeafHash, TapNodeHash, ScriptBuf, ControlBlock, BitcoinPublicKey, XOnlyPublicKey", "bitcoin crate types as opaque values")
    vf.item(C1.CTX, "enum:SigType", rewrites=[DERIVE_TRIM])
    vf.raw("""
trait ScriptContext: Sized {
    spec fn spec_sig_type() -> SigType;
    fn sig_type() -> (r: SigType) ensures r == Self::spec_sig_type();
    spec fn spec_pk_len<Pk: MiniscriptKey>(pk: &Pk) -> usize;
    fn pk_len<Pk: MiniscriptKey>(pk: &Pk) -> (r: usize) ensures r == Self::spec_pk_len(pk);
}
""")
    vf.item(SAT, "enum:SchnorrSigType", rewrites=[DERIVE_TRIM])
    vf.item(SAT, "enum:Placeholder", rewrites=[DERIVE_TRIM])
    vf.item(SAT, "enum:Witness", rewrites=[C1.DERIVE_NO_CLONE])
    vf.item(SAT, "struct:Satisfaction", rewrites=[C1.DERIVE_NO_CLONE])
    vf.item(SD, "struct:SatDissat")
    vf.raw(C1.GLUE)
    vf.trust("PartialEqSpecImpl for Witness<T>; impl Clone for Witness<T> / Satisfaction<T> (external_body)", "derived PartialEq is structural equality; derived Clone returns an equal value (unit c01_satisfier's GLUE)")
    vf.raw(C1.oracle_text())
    # callee contracts: emitted by unit c01_satisfier's own code, bodies dropped
    C1.leaf_algebra(AssumedProxy(vf, keep={"empty", "push_0", "combine", "signature", "concatenate_rev"}, raw_ok=(C1.LEAF_SPEC,)))
    vf.trust("Witness::{empty, push_0, combine, signature}, Satisfaction::{empty, push_0, concatenate_rev} (external_body, contract only)",
             "callee contracts proved on the real bodies in unit c01_satisfier; the contract text is that unit's (emitted through AssumedProxy)")


def build(repo):
    vf = VerusFile(NAME, repo)
    prelude(vf)
    vf.raw(STD_STUBS)
    vf.trust("vec_repeat / vec_repeat_vec (external_body)", "R15: `vec![x; n]` is n clones of x; a derived Clone returns an equal value")
    vf.trust("index_of_longest (external_body)", "R15: Iterator::max_by_key over enumerate() returns the index of a maximal element; unwrap() panics iff the vector is empty (precondition)")
    vf.trust("vec_take (external_body)", "R14: `xs.into_iter()` yields xs[0], xs[1], .. by value; `fold(init, f)` is `let mut acc = init; for x in it { acc = f(acc, x) } acc`")
    vf.raw(nary_oracle_text())
    vf.raw(NARY_PROOF)
    multis(vf)
    threshes(vf)
    return vf


# ---------------------------------------------------------------------------------------------------
# multi / multi_a
# ---------------------------------------------------------------------------------------------------
KEYS = "thresh.elems()"
N = "thresh.spec_n()"
K = "thresh.spec_k()"

# accumulator shapes of the final fold (read off the fold's INIT expression)
def multi_fold_shapes(tail):
    wit = dict(
        invariant="""                    fold_i <= fold_src@.len(),
                    wkind(fold_init) == 0,
                    wkind(%(acc)s) == 0,
                    wseq(%(acc)s) == wseq(fold_init) + flat(fold_src@, fold_i as int),""",
        post="""                proof { assert(wseq(%(acc)s) =~= wseq(fold_init) + flat(fold_src@, fold_i + 1)); }\n""",
        after=tail % dict(w="wseq(acc)", w0="wseq(fold_init)"))
    # a fold over whole Satisfactions (accumulator built from Self::..): the flag must follow the table's
    # juxtaposition -- signed as soon as one signature has been appended -- and no lock may appear.  These two
    # invariants are the loop-carried form of the clauses sat_is_signed / sat_has_no_locks and carry their tags.
    sat = dict(
        invariant="""                    fold_i <= fold_src@.len(),
                    wkind(fold_init.stack) == 0,
                    wkind(%(acc)s.stack) == 0,
                    wseq(%(acc)s.stack) == wseq(fold_init.stack) + flat(fold_src@, fold_i as int),
                    no_locks(%(acc)s), //@inv sat_has_no_locks [C17]
                    %(acc)s.has_sig == (fold_init.has_sig || flat(fold_src@, fold_i as int).len() > 0), //@inv sat_is_signed [C02,C03]""",
        post="""                proof { assert(wseq(%(acc)s.stack) =~= wseq(fold_init.stack) + flat(fold_src@, fold_i + 1)); }\n""",
        after=tail % dict(w="wseq(acc.stack)", w0="wseq(fold_init.stack)"))
    return [(r"Witness::", wit), (r"(Self|Satisfaction)::", sat)]


def multis(vf):
    P = PROPS
    # ---- multi ---------------------------------------------------------------------------------------
    inv_collect = """                i <= keys.len(),
                keys@ == %s,
                %s <= 20,
                sig_count == sigs@.len(),
                sig_count <= i,
                sig_count == count_avail(stfr, keys@, 0, i as int, None), //@inv sat_iff_k_signatures_available_collecting [C01,C02]
                coll(stfr, sigs@, sig_count as int, keys@, i as int, None), //@inv sat_is_zero_then_k_signatures_in_key_order_collecting [C01]
                forall|j: int| 0 <= j < sigs@.len() ==> (#[trigger] sigs@[j])@.len() == 1,""" % (KEYS, N)
    post_collect = """            proof {
                if sig_available(stfr, &keys@[i as int], None) && sigs@.len() == sigs_before.len() + 1 {
                    lemma_coll_weaken(stfr, sigs_before, sigs@, sigs_before.len() as int, keys@, i as int, None);
                }
            }
"""
    inv_blank = """                sigs@.len() == sig_count,
                keys@ == %s,
                sig_count <= keys@.len(),
                %s <= sig_count,
                coll(stfr, sigs@, sig_count as int, keys@, keys@.len() as int, None), //@inv sat_is_zero_then_k_signatures_in_key_order_blanking [C01]
                forall|j: int| 0 <= j < sigs@.len() ==> (#[trigger] sigs@[j])@.len() <= 1,
                flat(sigs@, sig_count as int).len() == sig_count - blank_i, //@inv sat_has_k_signatures_blanking [C01,C02]""" % (KEYS, K)
    pre_blank = """                let ghost sigs_before = sigs@;
                proof { let j = lemma_flat_nonempty(sigs@, sig_count as int); }
"""
    post_blank = """                proof {
                    if sigs@.len() == sigs_before.len() && sigs@[max_idx as int]@.len() == 0
                        && (forall|j: int| 0 <= j < sigs@.len() && j != max_idx ==> (#[trigger] sigs@[j])@ == sigs_before[j]@) {
                        lemma_flat_blank(sigs_before, sigs@, sig_count as int, max_idx as int);
                        lemma_coll_weaken(stfr, sigs_before, sigs@, sig_count as int, keys@, keys@.len() as int, None);
                    }
                }
"""
    tail_multi = """            proof {
                lemma_coll_flat(stfr, fold_src@, fold_src@.len() as int, keys@, keys@.len() as int, None);
                if %(w0)s.len() == 1 { assert(%(w)s.drop_first() =~= flat(fold_src@, fold_src@.len() as int)); }
            }
"""
    with vf.block("impl<Pk: MiniscriptKey + ToPublicKey> Satisfaction<Placeholder<Pk>>"):
        vf.fn(SD, SATIMPL + "/fn:multi", qual="Satisfaction", props=P, rewrites=[
            const_as_fn("TRIVIAL"),
            vec_repeat_rw(required=False),
            for_slice_loop("for pk in thresh.data()", "thresh.data()", "keys", "pk", "i", inv_collect,
                           body_pre="            let ghost sigs_before = sigs@;\n", body_post=post_collect,
                           after="        proof { lemma_flat_len_singletons(sigs@, sig_count as int); }\n"),
            sub("R15-max-by-key", r"(\w+)\s*\.iter\(\)\s*\.enumerate\(\)\s*\.max_by_key\(\|&\(_, v\)\| v\.len\(\)\)\s*\.unwrap\(\)\s*\.0", r"index_of_longest(&\1)", required=False),
            range_for_invariant("for _ in", "blank_i", inv_blank, body_pre=pre_blank, body_post=post_blank),
            fold_to_loop(multi_fold_shapes(tail_multi)),
        ], contract=Contract(
            requires=["thresh.wf()"],
            ensures=[
                Clause("dsat_is_k_plus_1_zeros", ("C01", "C02"), "wkind(r.dissat.stack) == 0 && wseq(r.dissat.stack) =~= zeros::<Pk>(%s + 1)" % K),
                Clause("dsat_is_unsigned_no_locks", ("C03", "C17"), "no_locks_no_sig(r.dissat)"),
                Clause("sat_iff_k_signatures_available", ("C01", "C02"), "wkind(r.sat.stack) == 0 <==> count_avail(stfr, %s, 0, %s as int, None) >= %s" % (KEYS, N, K)),
                Clause("missing_signatures_is_impossible", ("C03",), "wkind(r.sat.stack) != 0 ==> wkind(r.sat.stack) == 2"),
                Clause("sat_is_zero_then_k_signatures_in_key_order", ("C01",), "wkind(r.sat.stack) == 0 ==> wseq(r.sat.stack).len() == %s + 1 && wseq(r.sat.stack)[0] == Placeholder::<Pk>::PushZero && sigs_in_key_order(wseq(r.sat.stack).drop_first(), stfr, %s, %s as int, None)" % (K, KEYS, N)),
                Clause("sat_is_signed", ("C02", "C03"), "wkind(r.sat.stack) == 0 ==> r.sat.has_sig"),
                Clause("sat_has_no_locks", ("C17",), "no_locks(r.sat)"),
            ]))
        register_named_invariants(vf, "Satisfaction::multi")

    # ---- multi_a -------------------------------------------------------------------------------------
    LH = "Some(leaf_hash)"
    inv_a = """                i <= keys.len(),
                keys@ == %s,
                sigs@.len() == keys@.len(),
                1 <= %s <= keys@.len(),
                sig_count <= %s, //@inv sat_has_exactly_k_signatures_bound [C01,C02]
                forall|j: int| 0 <= j < sigs@.len() ==> (#[trigger] sigs@[j])@.len() == 1,
                forall|j: int| 0 <= j < sigs@.len() ==> multi_a_slot((#[trigger] sigs@[j])@[0], stfr, keys@, j, %s), //@inv sat_element_j_is_for_key_n_1_j_collecting [C01]""" % (KEYS, K, K, LH)
    inv_a_nb = """                sig_count < %s,
                sig_count == count_avail(stfr, keys@, keys@.len() - i, keys@.len() as int, %s), //@inv sat_iff_k_signatures_available_collecting [C01,C02]
                sig_count == count_sig_stacks(sigs@, i as int), //@inv sat_has_exactly_k_signatures_collecting [C01,C02]
                forall|j: int| i <= j < sigs@.len() ==> (#[trigger] sigs@[j])@[0] == Placeholder::<Pk>::PushZero,""" % (K, LH)
    ens_a = """                sig_count == count_sig_stacks(sigs@, sigs@.len() as int), //@inv sat_has_exactly_k_signatures_collected [C01,C02]
                sig_count < %s ==> sig_count == count_avail(stfr, keys@, 0, keys@.len() as int, %s), //@inv sat_iff_k_signatures_available_collected_lt [C01,C02]
                sig_count >= %s ==> count_avail(stfr, keys@, 0, keys@.len() as int, %s) >= %s, //@inv sat_iff_k_signatures_available_collected_ge [C01,C02]""" % (K, LH, K, LH, K)
    pre_a = """            let ghost sigs_before = sigs@;
            proof { lemma_count_avail_lo(stfr, keys@, keys@.len() - 1 - i, keys@.len() as int, %s); }
""" % LH
    step_a = """proof {
                        lemma_count_sig_stacks_same(sigs_before, sigs@, i as int);
                        lemma_count_sig_stacks_zero_tail(sigs@, i + 1, sigs@.len() as int);
                        lemma_count_avail_mono(stfr, keys@, keys@.len() - 1 - i, keys@.len() as int, %s);
                    }
""" % LH
    post_a = """            proof { lemma_count_sig_stacks_same(sigs_before, sigs@, i as int); }
"""
    tail_a = """            proof {
                lemma_flat_len_singletons(fold_src@, fold_src@.len() as int);
                lemma_count_nonzero_flat(fold_src@, fold_src@.len() as int);
                if %(w0)s.len() == 0 { assert(%(w)s =~= flat(fold_src@, fold_src@.len() as int)); }
            }
"""
    with vf.block("impl<Pk: MiniscriptKey + ToPublicKey> Satisfaction<Placeholder<Pk>>"):
        vf.fn(SD, SATIMPL + "/fn:multi_a", qual="Satisfaction", props=P, rewrites=[
            const_as_fn("TRIVIAL"),
            vec_repeat_rw(required=False),
            lit("R10", "break;", step_a + "                        break;"),
            for_slice_loop("for (i, pk) in thresh.iter()", "thresh.data()", "keys", "pk", "i", inv_a, reverse="auto",
                           except_break=inv_a_nb, ensures=ens_a, body_pre=pre_a, body_post=post_a),
            fold_to_loop(multi_fold_shapes(tail_a)),
        ], contract=Contract(
            requires=["thresh.wf()"],
            ensures=[
                Clause("dsat_is_n_zeros", ("C01", "C02"), "wkind(r.dissat.stack) == 0 && wseq(r.dissat.stack) =~= zeros::<Pk>(%s as int)" % N),
                Clause("dsat_is_unsigned_no_locks", ("C03", "C17"), "no_locks_no_sig(r.dissat)"),
                Clause("sat_iff_k_signatures_available", ("C01", "C02"), "wkind(r.sat.stack) == 0 <==> count_avail(stfr, %s, 0, %s as int, %s) >= %s" % (KEYS, N, LH, K)),
                Clause("missing_signatures_is_impossible", ("C03",), "wkind(r.sat.stack) != 0 ==> wkind(r.sat.stack) == 2"),
                Clause("sat_has_one_element_per_key", ("C01",), "wkind(r.sat.stack) == 0 ==> wseq(r.sat.stack).len() == %s" % N),
                Clause("sat_element_j_is_for_key_n_1_j", ("C01",), "wkind(r.sat.stack) == 0 ==> forall|j: int| 0 <= j < %s ==> multi_a_slot(#[trigger] wseq(r.sat.stack)[j], stfr, %s, j, %s)" % (N, KEYS, LH)),
                Clause("sat_has_exactly_k_signatures", ("C01", "C02"), "wkind(r.sat.stack) == 0 ==> count_nonzero(wseq(r.sat.stack)) == %s" % K),
                Clause("sat_is_signed", ("C02", "C03"), "wkind(r.sat.stack) == 0 ==> r.sat.has_sig"),
                Clause("sat_has_no_locks", ("C17",), "no_locks(r.sat)"),
            ]))
        register_named_invariants(vf, "Satisfaction::multi_a")
