"""Kani harnesses backing the trusted stubs of the Verus units c04_lex / c04_encode:
* `script_num_size(n)` equals the byte length the REAL `bitcoin::script::Builder::push_int` produces, and that length
  equals CScriptNum's (complete over u32 -- every number the crate ever sizes: lock times, k, n);
* rust-bitcoin's opcode constants have the consensus byte values the Verus stubs assign to them."""
NAME = "k04_pushint"
ENGINE = "kani"
PROPS = ("C04", "C09", "C11")
INJECT = [("src/lib.rs", "contracts/kani/k04_pushint.rs")]
TRUSTED = ["bitcoin::script::Builder / bitcoin::opcodes are executed as compiled (not stubbed)"]
HARNESSES = [
    dict(name="pushint_len", fn="script_num_size", props=("C04", "C09", "C11"), kind="complete", tier="quick",
         tags=["C04,C09:pushint_len.builder_push_int_len_equals_cscriptnum", "C04,C09:pushint_len.script_num_size_equals_builder_push_int"]),
    dict(name="opcode_values", fn="bitcoin::opcodes::all::*", props=("C04",), kind="complete", tier="quick",
         tags=["C04:opcode_values.consensus_bytes"]),
]
