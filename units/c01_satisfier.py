"""Satisfier unit (C01 soundness, C02 completeness, C03 non-malleability, C17 time locks):
the satisfier algebra of satisfy/mod.rs (Witness::combine, Satisfaction::{concatenate_rev, minimum,
minimum_mall}, the leaf constructors) and the per-node step of `sat_dissat` (satisfy/sat_dissat.rs)
against the Miniscript specification's satisfaction table (contracts/oracle/sat_table.rs)."""
import os
import re

from vlib.verus import VerusFile, Contract, Clause, sub, lit, rule, DERIVE_TRIM, const_as_fn
from units import _tree

NAME = "c01_satisfier"
ENGINE = "verus"
PROPS = ("C01", "C02", "C03", "C17", "C11")
HERE = os.path.dirname(os.path.abspath(__file__))
SAT = "src/miniscript/satisfy/mod.rs"
SD = "src/miniscript/satisfy/sat_dissat.rs"
CTX = "src/miniscript/context.rs"

DROPPED = [
    "sat_dissat: the `for item in node.post_order_iter()` loop, `stack.push(..)` and the final `assert_eq!(stack.len(), 1)` (traversal contract, DESIGN 3.2); the fn-pointer selection `min_fn` / `thresh_fn` is specialised into a malleable and a non-malleable instance (R6)",
    "sat_dissat: the Thresh arm is outlined verbatim into the function sat_dissat_thresh_arm_{mall,nonmall}(thresh, stack, stfr) (R17: `PAT => BODY` -> `PAT => f(captured variables)`; `fn f(..) BODY`) so that its loops are verified once, not once per case; in it `stack.drain(stack.len() - n..).map(|SatDissat { dissat, sat }| (dissat, sat)).unzip()` -> split_top(stack, n) (R15, trusted std semantics), the two folds become loops (R14, unit c02_multi's fold_to_loop; `.iter().cloned()` yields `x.clone()`), `thresh_fn` is specialised (R6)",
    "Satisfaction::{thresh, thresh_mall, multi, multi_a} are consumed through the contracts proved in unit c02_multi; Threshold::{clone, into_sorted_bip67, into_sorted_bip67_xonly} are the stubs of unit c04_encode (same text: the BIP67 orders are the uninterpreted functions bip67_sorted / bip67_sorted_xonly the encoder's templates use)",
    "`a < b` on Witness is replaced by the stub witness_lt whose contract is the verified contract of the hand-written `cmp`; witness_size is uninterpreted",
]

STUBS = r"""
// ---- external types (opaque) ---------------------------------------------------------------------
#[derive(Clone, Copy, PartialEq, Eq)] struct TapLeafHash(u8);
#[derive(Clone, Copy, PartialEq, Eq)] struct TapNodeHash(u8);
#[derive(Clone, PartialEq, Eq)] struct ScriptBuf(u8);
#[derive(Clone, PartialEq, Eq)] struct ControlBlock(u8);
#[derive(Clone, PartialEq, Eq)] struct BitcoinPublicKey(u8);
#[derive(Clone, PartialEq, Eq)] struct XOnlyPublicKey(u8);
uninterp spec fn bpk_uncompressed(k: BitcoinPublicKey) -> bool;
impl MiniscriptKey for BitcoinPublicKey {
    type Sha256 = u8; type Hash256 = u8; type Ripemd160 = u8; type Hash160 = u8;
    spec fn spec_is_uncompressed(&self) -> bool { bpk_uncompressed(*self) }
    #[verifier::external_body] fn is_uncompressed(&self) -> (r: bool) { unimplemented!() }
    spec fn spec_is_x_only_key(&self) -> bool { false }
    fn is_x_only_key(&self) -> (r: bool) { false }
}
impl MiniscriptKey for XOnlyPublicKey {
    type Sha256 = u8; type Hash256 = u8; type Ripemd160 = u8; type Hash160 = u8;
    spec fn spec_is_uncompressed(&self) -> bool { false }
    fn is_uncompressed(&self) -> (r: bool) { false }
    spec fn spec_is_x_only_key(&self) -> bool { true }
    fn is_x_only_key(&self) -> (r: bool) { true }
}
mod absolute { use vstd::prelude::*; verus!{ pub struct LockTime(pub u32); } }
mod relative { use vstd::prelude::*; verus!{ pub struct LockTime(pub u32); } }
#[verifier::external_body]
fn abs_into(t: AbsLockTime) -> (r: absolute::LockTime) ensures r.0 == t.consensus() { unimplemented!() }
#[verifier::external_body]
fn rel_into(t: RelLockTime) -> (r: relative::LockTime) ensures r.0 == t.consensus() { unimplemented!() }

// BIP65 / BIP68 lock combination.  Contracts proved on the real functions by Kani (unit k_locktime:
// abs_max.none_iff_units_differ / is_larger, rel_max.*); consumed here as callee contracts.
spec fn abs_same_unit(a: AbsLockTime, b: AbsLockTime) -> bool { (a.consensus() < 500_000_000) == (b.consensus() < 500_000_000) }
spec fn rel_same_unit(a: RelLockTime, b: RelLockTime) -> bool { (a.consensus() & 0x0040_0000) == (b.consensus() & 0x0040_0000) }
spec fn abs_larger(a: AbsLockTime, b: AbsLockTime) -> AbsLockTime { if a.consensus() >= b.consensus() { a } else { b } }
spec fn rel_masked(a: RelLockTime) -> u32 { a.consensus() & 0xFFFF }
// what BIP68 looks at: the type flag (bit 22, set = 512-second units) and the masked 16-bit value
struct ARel { time: bool, value: int }
spec fn arel(t: RelLockTime) -> ARel { ARel { time: (t.consensus() & 0x0040_0000) != 0, value: rel_masked(t) as int } }
spec fn arel_opt(t: Option<RelLockTime>) -> Option<ARel> { match t { Some(x) => Some(arel(x)), None => None } }
impl AbsLockTime {
    #[verifier::external_body]
    fn max(a: Self, b: Self) -> (r: Option<Self>)
        ensures r is Some <==> abs_same_unit(a, b), r is Some ==> r->Some_0 == abs_larger(a, b),
    { unimplemented!() }
}
impl RelLockTime {
    #[verifier::external_body]
    fn max(a: Self, b: Self) -> (r: Option<Self>)
        ensures r is Some <==> arel(a).time == arel(b).time,
                r is Some ==> (r->Some_0 == a || r->Some_0 == b) && rel_masked(r->Some_0) >= rel_masked(a) && rel_masked(r->Some_0) >= rel_masked(b),
    { unimplemented!() }
}

trait ToPublicKey: MiniscriptKey {}

trait AssetProvider<Pk: MiniscriptKey> {
    spec fn has_ecdsa_sig(&self, pk: &Pk) -> bool;
    fn provider_lookup_ecdsa_sig(&self, pk: &Pk) -> (r: bool) ensures r == self.has_ecdsa_sig(pk);
    spec fn tap_leaf_sig(&self, pk: &Pk, lh: &TapLeafHash) -> Option<usize>;
    fn provider_lookup_tap_leaf_script_sig(&self, pk: &Pk, lh: &TapLeafHash) -> (r: Option<usize>) ensures r == self.tap_leaf_sig(pk, lh);
    spec fn raw_pkh_pk(&self, h: &hash160::Hash) -> Option<BitcoinPublicKey>;
    fn provider_lookup_raw_pkh_pk(&self, h: &hash160::Hash) -> (r: Option<BitcoinPublicKey>) ensures r == self.raw_pkh_pk(h);
    spec fn raw_pkh_x_only_pk(&self, h: &hash160::Hash) -> Option<XOnlyPublicKey>;
    fn provider_lookup_raw_pkh_x_only_pk(&self, h: &hash160::Hash) -> (r: Option<XOnlyPublicKey>) ensures r == self.raw_pkh_x_only_pk(h);
    spec fn raw_pkh_ecdsa_sig(&self, h: &hash160::Hash) -> Option<BitcoinPublicKey>;
    fn provider_lookup_raw_pkh_ecdsa_sig(&self, h: &hash160::Hash) -> (r: Option<BitcoinPublicKey>) ensures r == self.raw_pkh_ecdsa_sig(h);
    spec fn raw_pkh_tap_leaf_sig(&self, h: &(hash160::Hash, TapLeafHash)) -> Option<(XOnlyPublicKey, usize)>;
    fn provider_lookup_raw_pkh_tap_leaf_script_sig(&self, h: &(hash160::Hash, TapLeafHash)) -> (r: Option<(XOnlyPublicKey, usize)>) ensures r == self.raw_pkh_tap_leaf_sig(h);
    spec fn knows_sha256(&self, h: &Pk::Sha256) -> bool;
    fn provider_lookup_sha256(&self, h: &Pk::Sha256) -> (r: bool) ensures r == self.knows_sha256(h);
    spec fn knows_hash256(&self, h: &Pk::Hash256) -> bool;
    fn provider_lookup_hash256(&self, h: &Pk::Hash256) -> (r: bool) ensures r == self.knows_hash256(h);
    spec fn knows_ripemd160(&self, h: &Pk::Ripemd160) -> bool;
    fn provider_lookup_ripemd160(&self, h: &Pk::Ripemd160) -> (r: bool) ensures r == self.knows_ripemd160(h);
    spec fn knows_hash160(&self, h: &Pk::Hash160) -> bool;
    fn provider_lookup_hash160(&self, h: &Pk::Hash160) -> (r: bool) ensures r == self.knows_hash160(h);
    spec fn older_ok(&self, t: u32) -> bool;
    fn check_older(&self, t: relative::LockTime) -> (r: bool) ensures r == self.older_ok(t.0);
    spec fn after_ok(&self, t: u32) -> bool;
    fn check_after(&self, t: absolute::LockTime) -> (r: bool) ensures r == self.after_ok(t.0);
}

#[verifier::external_body]
fn vec_extend<T>(a: &mut Vec<T>, b: Vec<T>) ensures final(a)@ == old(a)@ + b@ { a.extend(b) }

mod cmp { pub use core::cmp::Ordering; }
"""

GLUE = r"""
// derived PartialEq is structural equality (assumption, listed)
impl<T: PartialEq> vstd::std_specs::cmp::PartialEqSpecImpl for Witness<T> {
    open spec fn obeys_eq_spec() -> bool { true }
    open spec fn eq_spec(&self, other: &Witness<T>) -> bool { *self == *other }
}
// derived Clone returns an equal value (assumption, listed; R13: these impls stand for the `Clone` of the derives)
impl<T: Clone> Clone for Witness<T> { #[verifier::external_body] fn clone(&self) -> (r: Self) ensures r == *self { unimplemented!() } }
impl<T: Clone> Clone for Satisfaction<T> { #[verifier::external_body] fn clone(&self) -> (r: Self) ensures r == *self { unimplemented!() } }

// ---- abstraction: a library Satisfaction as the table sees it --------------------------------------
//  kind: 0 = a concrete witness (Stack), 1 = Unavailable (we cannot build it, a third party might),
//        2 = Impossible (nobody can)
spec fn wkind<T>(w: Witness<T>) -> int { match w { Witness::Stack(_) => 0, Witness::Unavailable => 1, Witness::Impossible => 2 } }
spec fn wseq<T>(w: Witness<T>) -> Seq<T> { match w { Witness::Stack(v) => v@, _ => Seq::empty() } }

// ---- the witness cost order ("available things are cheaper than unavailable ones") ------------------
uninterp spec fn spec_witness_size<Pk: MiniscriptKey>(v: Seq<Placeholder<Pk>>) -> usize;
#[verifier::external_body]
fn witness_size<Pk: MiniscriptKey>(v: &Vec<Placeholder<Pk>>) -> (r: usize) ensures r == spec_witness_size(v@) { unimplemented!() }
spec fn spec_wcmp<Pk: MiniscriptKey>(a: Witness<Placeholder<Pk>>, b: Witness<Placeholder<Pk>>) -> core::cmp::Ordering {
    if wkind(a) == 0 && wkind(b) == 0 {
        if spec_witness_size(wseq(a)) < spec_witness_size(wseq(b)) { core::cmp::Ordering::Less }
        else if spec_witness_size(wseq(a)) == spec_witness_size(wseq(b)) { core::cmp::Ordering::Equal } else { core::cmp::Ordering::Greater }
    } else if wkind(a) == 0 { core::cmp::Ordering::Less }
    else if wkind(b) == 0 { core::cmp::Ordering::Greater }
    else if wkind(a) == wkind(b) { core::cmp::Ordering::Equal }
    else if wkind(a) == 2 { core::cmp::Ordering::Less } else { core::cmp::Ordering::Greater }
}
// `a < b` is PartialOrd::lt, i.e. partial_cmp(a, b) == Some(Less), and partial_cmp is Some(cmp) (one-liner
// in satisfy/mod.rs); cmp is verified against spec_wcmp below
#[verifier::external_body]
fn witness_lt<Pk: MiniscriptKey>(a: &Witness<Placeholder<Pk>>, b: &Witness<Placeholder<Pk>>) -> (r: bool)
    ensures r == (spec_wcmp(*a, *b) == core::cmp::Ordering::Less)
{ unimplemented!() }

struct ASat<Pk: MiniscriptKey> {
    kind: int,
    stack: Seq<Placeholder<Pk>>,
    has_sig: bool,
    abs: Option<AbsLockTime>,
    rel: Option<ARel>,
}
// normal form: an impossible satisfaction is the table's "-" whatever its other fields say
spec fn abs_sat<Pk: MiniscriptKey>(s: Satisfaction<Placeholder<Pk>>) -> ASat<Pk> {
    if wkind(s.stack) == 2 { t_none() }
    else { ASat { kind: wkind(s.stack), stack: wseq(s.stack), has_sig: s.has_sig, abs: s.absolute_timelock, rel: arel_opt(s.relative_timelock) } }
}
spec fn same<Pk: MiniscriptKey>(s: Satisfaction<Placeholder<Pk>>, a: ASat<Pk>) -> bool { abs_sat(s) == a }
"""


def oracle_text():
    with open(os.path.join(HERE, "..", "contracts", "oracle", "sat_table.rs")) as f:
        return f.read()


def _derive_no_clone(m):
    keep = [x.strip() for x in m.group(1).split(",") if x.strip() in ("Copy", "PartialEq", "Eq")]
    return "#[derive(%s)]" % ", ".join(keep) if keep else ""


# R13: the derived `Clone` of Witness / Satisfaction is replaced by an explicit impl with the specification
# "returns an equal value" (GLUE): Verus gives derived Clone impls of non-Copy types no spec.  Type level, so that no
# `.clone()` call site has to be recognised by the name of a local variable.
DERIVE_NO_CLONE = sub("R13-derive-clone", r"#\[derive\(([^)]*)\)\]", _derive_no_clone, required=False)
# R3 is a syntax workaround only (Verus lacks `&Pat` reference patterns): where the text has no `&Witness::` pattern (the
# early return written as `if x.stack == Witness::Impossible`) there is nothing to rewrite and the text is verified as it is;
# a reference pattern of another shape is rejected by Verus (UNDECIDED), never mis-verified.  Hence optional.
R3_WITNESS = sub("R3", r"&Witness::", "Witness::", required=False)
R4_EXTEND = lit("R4", "a.extend(b);", "vec_extend(&mut a, b);")
R7_LT = sub("R7-witness-lt", r"\b(\w+)\.stack < (\w+)\.stack\b", r"witness_lt(&\1.stack, &\2.stack)")


def build(repo):
    vf = VerusFile(NAME, repo)
    _tree.emit(vf, ext="opaque", types="defs", script_context="", terminal=True)
    vf.raw(STUBS, keep_vis=True)
    vf.trust("AbsLockTime::max / RelLockTime::max (external_body)", "BIP65/BIP68 contracts proved on the real functions by Kani (unit k_locktime)")
    vf.trust("trait AssetProvider with one uninterpreted spec fn per lookup", "the provider is arbitrary; every lookup is a pure function of its arguments")
    vf.trust("vec_extend (external_body)", "std Vec::extend appends (R4)")
    vf.trust("witness_lt (external_body)", "`a < b` on Witness is the provided PartialOrd::lt over the hand-written cmp, which is verified against spec_wcmp in this unit")
    vf.trust("witness_size (external_body, uninterpreted)", "serialized witness size; iterator sum, not needed for C01-C03")
    vf.trust("abs_into / rel_into, TapLeafHash, TapNodeHash, ScriptBuf, ControlBlock, BitcoinPublicKey, XOnlyPublicKey", "bitcoin crate types as opaque values")
    vf.item(CTX, "enum:SigType", rewrites=[DERIVE_TRIM])
    vf.raw("""
trait ScriptContext: Sized {
    spec fn spec_sig_type() -> SigType;
    fn sig_type() -> (r: SigType) ensures r == Self::spec_sig_type();
    spec fn spec_pk_len<Pk: MiniscriptKey>(pk: &Pk) -> usize;
    fn pk_len<Pk: MiniscriptKey>(pk: &Pk) -> (r: usize) ensures r == Self::spec_pk_len(pk);
}
""")
    vf.item(SAT, "enum:SchnorrSigType", rewrites=[DERIVE_TRIM])
    vf.item(SAT, "enum:Placeholder", rewrites=[DERIVE_TRIM])
    vf.item(SAT, "enum:Witness", rewrites=[DERIVE_NO_CLONE])
    vf.item(SAT, "struct:Satisfaction", rewrites=[DERIVE_NO_CLONE])
    vf.item(SD, "struct:SatDissat")
    vf.raw(GLUE)
    vf.trust("PartialEqSpecImpl for Witness<T>; impl Clone for Witness<T> / Satisfaction<T> (external_body)", "derived PartialEq is structural equality; derived Clone returns an equal value (R13: the derive is replaced by an impl carrying that specification)")
    vf.raw(oracle_text())
    algebra(vf)
    return vf


def algebra(vf):
    leaf_algebra(vf)
    steps(vf)


def leaf_algebra(vf):
    """Everything below the per-node step (also emitted, contract only, by unit c02_multi)."""
    P = ("C01", "C11")
    with vf.block("impl<Pk: MiniscriptKey> Witness<Placeholder<Pk>>"):
        vf.fn(SAT, "impl:Ord for Witness<Placeholder<Pk>>/fn:cmp", qual="Witness", props=("C03", "C19", "C11"), contract=Contract(ensures=[
            Clause("available_is_cheaper", ("C03", "C19"), "r == spec_wcmp(*self, *other)")]))
    with vf.block("impl<Pk: MiniscriptKey> Witness<Placeholder<Pk>>"):
        vf.fn(SAT, "impl:Witness<Placeholder<Pk>>#1/fn:hash_dissatisfaction", qual="Witness", props=P, contract=Contract(ensures=[
            Clause("table", ("C01",), "wkind(r) == 0 && wseq(r) == seq![Placeholder::<Pk>::HashDissatisfaction]")]))
        vf.fn(SAT, "impl:Witness<Placeholder<Pk>>#1/fn:empty", qual="Witness", props=P, contract=Contract(ensures=[
            Clause("table", ("C01",), "wkind(r) == 0 && wseq(r) == Seq::<Placeholder<Pk>>::empty()")]))
        vf.fn(SAT, "impl:Witness<Placeholder<Pk>>#1/fn:push_1", qual="Witness", props=P, contract=Contract(ensures=[
            Clause("table", ("C01",), "wkind(r) == 0 && wseq(r) == seq![Placeholder::<Pk>::PushOne]")]))
        vf.fn(SAT, "impl:Witness<Placeholder<Pk>>#1/fn:push_0", qual="Witness", props=P, contract=Contract(ensures=[
            Clause("table", ("C01",), "wkind(r) == 0 && wseq(r) == seq![Placeholder::<Pk>::PushZero]")]))
        # combine(one, two): the table's juxtaposition "one two"
        vf.fn(SAT, "impl:Witness<Placeholder<Pk>>#1/fn:combine", qual="Witness", props=P, rewrites=[R4_EXTEND], contract=Contract(ensures=[
            Clause("impossible_dominates", ("C01", "C03"), "wkind(r) == 2 <==> wkind(one) == 2 || wkind(two) == 2"),
            Clause("stack_iff_both", ("C01", "C02"), "wkind(r) == 0 <==> wkind(one) == 0 && wkind(two) == 0"),
            Clause("order", ("C01",), "wkind(r) == 0 ==> wseq(r) == wseq(one) + wseq(two)"),
        ]))
    satisfaction_algebra(vf)
    leaves(vf)


SATIMPL = "impl:Satisfaction<Placeholder<Pk>>"


def satisfaction_algebra(vf):
    P = ("C01", "C02", "C03", "C17", "C11")
    with vf.block("impl<Pk: MiniscriptKey + ToPublicKey> Satisfaction<Placeholder<Pk>>"):
        vf.item(SAT, SATIMPL + "/const:IMPOSSIBLE")
        vf.const(SD, SATIMPL + "/const:TRIVIAL", "Satisfaction::TRIVIAL", props=P, ensures=[
            Clause("table", ("C01",), "same(r, t_elems(Seq::empty()))")])
        vf.fn(SAT, SATIMPL + "/fn:empty", qual="Satisfaction", props=P, contract=Contract(ensures=[
            Clause("table", ("C01",), "same(r, t_elems(Seq::empty()))")]))
        vf.fn(SD, SATIMPL + "/fn:push_0", qual="Satisfaction", props=P, rewrites=[const_as_fn("TRIVIAL")], contract=Contract(ensures=[
            Clause("table", ("C01",), "same(r, t_elems(seq![Placeholder::<Pk>::PushZero]))")]))
        # self.concatenate_rev(other): the table's juxtaposition  "other self"
        vf.fn(SAT, SATIMPL + "/fn:concatenate_rev", qual="Satisfaction", props=P, contract=Contract(ensures=[
            Clause("is_table_juxtaposition", ("C01", "C02", "C03", "C17"), "abs_sat(r) == t_seq(abs_sat(other), abs_sat(self))"),
            Clause("impossible_iff", ("C02", "C03"), "wkind(r.stack) == 2 <==> wkind(self.stack) == 2 || wkind(other.stack) == 2 || locks_conflict(self.absolute_timelock, other.absolute_timelock, arel_opt(self.relative_timelock), arel_opt(other.relative_timelock))"),
            Clause("element_order", ("C01",), "wkind(r.stack) == 0 ==> wseq(r.stack) == wseq(other.stack) + wseq(self.stack)"),
            Clause("has_sig_is_disjunction", ("C03",), "wkind(r.stack) != 2 ==> r.has_sig == (self.has_sig || other.has_sig)"),
            Clause("abs_lock_is_max", ("C17",), "wkind(r.stack) != 2 ==> merge_abs(self.absolute_timelock, other.absolute_timelock) == r.absolute_timelock"),
            Clause("rel_lock_is_max", ("C17",), "wkind(r.stack) != 2 ==> merge_rel(arel_opt(self.relative_timelock), arel_opt(other.relative_timelock)) == arel_opt(r.relative_timelock)"),
            Clause("lock_is_one_of_the_inputs", ("C17",), "wkind(r.stack) != 2 ==> (r.relative_timelock == self.relative_timelock || r.relative_timelock == other.relative_timelock) && (r.absolute_timelock == self.absolute_timelock || r.absolute_timelock == other.absolute_timelock)"),
        ]))
        vf.fn(SAT, SATIMPL + "/fn:minimum", qual="Satisfaction", props=P, rewrites=[R3_WITNESS, R7_LT], contract=Contract(ensures=[
            Clause("locks_travel_with_the_returned_stack", ("C17",), "(r.stack == sat1.stack && r.absolute_timelock == sat1.absolute_timelock && r.relative_timelock == sat1.relative_timelock) || (r.stack == sat2.stack && r.absolute_timelock == sat2.absolute_timelock && r.relative_timelock == sat2.relative_timelock) || (wkind(r.stack) == 1 && r.absolute_timelock is None && r.relative_timelock is None)"),
            Clause("nonmalleable_choice", ("C03",), "is_choice_nonmall(r, abs_sat(sat1), abs_sat(sat2))"),
            Clause("returns_one_of_them", ("C01", "C17"), "wkind(r.stack) == 0 ==> realises(r, abs_sat(sat1)) || realises(r, abs_sat(sat2))"),
            Clause("complete_when_signed", ("C02",), "(wkind(sat1.stack) == 0 && sat1.has_sig && (wkind(sat2.stack) == 2 || sat2.has_sig)) || (wkind(sat2.stack) == 0 && sat2.has_sig && (wkind(sat1.stack) == 2 || sat1.has_sig)) ==> wkind(r.stack) == 0 || (wkind(sat1.stack) == 1 && wkind(sat2.stack) == 1)"),
            Clause("impossible_only_if_both", ("C02", "C03"), "wkind(r.stack) == 2 <==> wkind(sat1.stack) == 2 && wkind(sat2.stack) == 2"),
        ]))
        vf.fn(SAT, SATIMPL + "/fn:minimum_mall", qual="Satisfaction", props=P, rewrites=[R3_WITNESS, R7_LT], contract=Contract(ensures=[
            Clause("locks_travel_with_the_returned_stack", ("C17",), "(r.stack == sat1.stack && r.absolute_timelock == sat1.absolute_timelock && r.relative_timelock == sat1.relative_timelock) || (r.stack == sat2.stack && r.absolute_timelock == sat2.absolute_timelock && r.relative_timelock == sat2.relative_timelock) || (wkind(r.stack) == 1 && r.absolute_timelock is None && r.relative_timelock is None)"),
            Clause("malleable_choice", ("C01", "C02", "C17"), "is_choice_mall(r, abs_sat(sat1), abs_sat(sat2))"),
            Clause("impossible_only_if_both", ("C02",), "wkind(r.stack) == 2 ==> wkind(sat1.stack) != 0 && wkind(sat2.stack) != 0"),
        ]))


LEAF_SPEC = r"""
// ---- table rows of the leaves -----------------------------------------------------------------------
//  pk_k: dsat 0, sat sig;  pk_h: dsat 0 key, sat sig key;  hashes: dsat <32 bytes != preimage>, sat preimage;
//  older/after: no dsat, sat empty (needs the lock);  0: dsat empty, no sat;  1: no dsat, sat empty.
//  Signatures cannot be forged (missing => impossible); preimages / unknown keys may be known to others
//  (missing => unavailable).
spec fn is_key_clone<Pk: MiniscriptKey>(pk: Pk, k: Pk) -> bool { cloned(pk, k) }
spec fn sig_available<Pk: MiniscriptKey, S: AssetProvider<Pk>>(stfr: &S, pk: &Pk, leaf_hash: Option<TapLeafHash>) -> bool {
    match leaf_hash { Some(lh) => stfr.tap_leaf_sig(pk, &lh) is Some, None => stfr.has_ecdsa_sig(pk) }
}
spec fn is_sig_elem<Pk: MiniscriptKey, S: AssetProvider<Pk>>(e: Placeholder<Pk>, stfr: &S, pk: &Pk, leaf_hash: Option<TapLeafHash>) -> bool {
    match leaf_hash {
        Some(lh) => e matches Placeholder::SchnorrSigPk(k, ty, size) && is_key_clone(*pk, k) && ty == (SchnorrSigType::ScriptSpend { leaf_hash: lh }) && Some(size) == stfr.tap_leaf_sig(pk, &lh),
        None => e matches Placeholder::EcdsaSigPk(k) && is_key_clone(*pk, k),
    }
}
spec fn is_pubkey_elem<Pk: MiniscriptKey>(e: Placeholder<Pk>, pk: Pk, len: usize) -> bool {
    e matches Placeholder::Pubkey(k, n) && is_key_clone(pk, k) && n == len
}
spec fn no_locks_no_sig<Pk: MiniscriptKey>(s: Satisfaction<Placeholder<Pk>>) -> bool { !s.has_sig && s.absolute_timelock is None && s.relative_timelock is None }
spec fn no_locks<Pk: MiniscriptKey>(s: Satisfaction<Placeholder<Pk>>) -> bool { s.absolute_timelock is None && s.relative_timelock is None }
"""


def leaves(vf):
    vf.raw(LEAF_SPEC)
    P = ("C01", "C02", "C03", "C17", "C11")
    W = "impl:Witness<Placeholder<Pk>>/fn:%s"
    with vf.block("impl<Pk: MiniscriptKey + ToPublicKey> Witness<Placeholder<Pk>>"):
        vf.fn(SAT, W % "signature", qual="Witness", props=P, contract=Contract(ensures=[
            Clause("stack_iff_sig_available", ("C01", "C02"), "wkind(r) == 0 <==> sig_available(sat, pk, leaf_hash)"),
            Clause("missing_sig_is_impossible", ("C03",), "wkind(r) != 0 ==> wkind(r) == 2"),
            Clause("is_the_signature_for_pk", ("C01",), "wkind(r) == 0 ==> wseq(r).len() == 1 && is_sig_elem(wseq(r)[0], sat, pk, leaf_hash)"),
        ]))
        for h, var in (("ripemd160", "Ripemd160"), ("hash160", "Hash160"), ("sha256", "Sha256"), ("hash256", "Hash256")):
            vf.fn(SAT, W % (h + "_preimage"), qual="Witness", props=P, contract=Contract(ensures=[
                Clause("stack_iff_known", ("C01", "C02"), "wkind(r) == 0 <==> sat.knows_%s(h)" % h),
                Clause("missing_preimage_is_unavailable", ("C03",), "wkind(r) != 0 ==> wkind(r) == 1"),
                Clause("is_the_preimage", ("C01",), "wkind(r) == 0 ==> wseq(r).len() == 1 && (wseq(r)[0] matches Placeholder::%sPreimage(x) && cloned(*h, x))" % var),
            ]))
        # raw pkh: the key behind the hash may be unknown to us (=> unavailable), signatures cannot be forged
        vf.fn(SAT, W % "pkh_public_key", qual="Witness", props=P, rewrites=[lit("R7", "bitcoin::PublicKey", "BitcoinPublicKey", required=False)], contract=Contract(ensures=[
            Clause("stack_iff_key_known", ("C01", "C02"), "wkind(r) == 0 <==> (if Ctx::spec_sig_type() is Ecdsa { sat.raw_pkh_pk(pkh) is Some } else { sat.raw_pkh_x_only_pk(pkh) is Some })"),
            Clause("unknown_key_is_unavailable", ("C03",), "wkind(r) != 0 ==> wkind(r) == 1"),
            Clause("is_the_key_push", ("C01",), "wkind(r) == 0 ==> wseq(r).len() == 1 && (wseq(r)[0] matches Placeholder::PubkeyHash(h, n) && h == *pkh)"),
        ]))
        vf.fn(SAT, W % "pkh_signature", qual="Witness", props=P, contract=Contract(ensures=[
            Clause("stack_iff_sig_available", ("C01", "C02"), "wkind(r) == 0 <==> (match leaf_hash { Some(lh) => sat.raw_pkh_tap_leaf_sig(&(*pkh, lh)) is Some, None => sat.raw_pkh_ecdsa_sig(pkh) is Some })"),
            Clause("missing_sig_is_impossible", ("C03",), "wkind(r) != 0 ==> wkind(r) == 2"),
            Clause("is_sig_then_key", ("C01",), "wkind(r) == 0 ==> wseq(r).len() == 2 && (wseq(r)[1] matches Placeholder::PubkeyHash(h, n) && h == *pkh) && (match leaf_hash { Some(lh) => (wseq(r)[0] matches Placeholder::SchnorrSigPkHash(h, l, sz) && h == *pkh && l == lh), None => (wseq(r)[0] matches Placeholder::EcdsaSigPkHash(h) && h == *pkh) })"),
        ]))
    S = SATIMPL + "/fn:%s"
    with vf.block("impl<Pk: MiniscriptKey + ToPublicKey> Satisfaction<Placeholder<Pk>>"):
        vf.fn(SD, S % "raw_pk_h", qual="Satisfaction", props=P, rewrites=[const_as_fn("TRIVIAL")], contract=Contract(ensures=[
            Clause("dsat_is_zero_key", ("C01", "C02"), "wkind(r.dissat.stack) == 0 ==> wseq(r.dissat.stack).len() == 2 && wseq(r.dissat.stack)[0] == Placeholder::<Pk>::PushZero && (wseq(r.dissat.stack)[1] matches Placeholder::PubkeyHash(h, n) && h == *pkh)"),
            Clause("dsat_unsigned_no_locks", ("C03", "C17"), "no_locks_no_sig(r.dissat) && wkind(r.dissat.stack) != 2"),
            Clause("sat_iff_sig", ("C01", "C02"), "wkind(r.sat.stack) == 0 <==> (match leaf_hash { Some(lh) => stfr.raw_pkh_tap_leaf_sig(&(*pkh, lh)) is Some, None => stfr.raw_pkh_ecdsa_sig(pkh) is Some })"),
            Clause("no_sig_is_impossible", ("C03",), "wkind(r.sat.stack) != 0 ==> wkind(r.sat.stack) == 2"),
            Clause("sat_is_signed_no_locks", ("C03", "C17"), "r.sat.has_sig && no_locks(r.sat)"),
        ]))
        vf.fn(SD, S % "pk_k", qual="Satisfaction", props=P, rewrites=[const_as_fn("TRIVIAL")], contract=Contract(ensures=[
            Clause("dsat_is_zero", ("C01", "C02"), "same(r.dissat, t_elems(seq![Placeholder::<Pk>::PushZero]))"),
            Clause("sat_iff_sig", ("C01", "C02"), "wkind(r.sat.stack) == 0 <==> sig_available(stfr, pk, leaf_hash)"),
            Clause("no_sig_is_impossible", ("C03",), "wkind(r.sat.stack) != 0 ==> wkind(r.sat.stack) == 2"),
            Clause("sat_is_sig", ("C01",), "wkind(r.sat.stack) == 0 ==> wseq(r.sat.stack).len() == 1 && is_sig_elem(wseq(r.sat.stack)[0], stfr, pk, leaf_hash)"),
            Clause("sat_is_signed_no_locks", ("C03", "C17"), "r.sat.has_sig && no_locks(r.sat)"),
        ]))
        vf.fn(SD, S % "pk_h", qual="Satisfaction", props=P, rewrites=[const_as_fn("TRIVIAL")], contract=Contract(ensures=[
            Clause("dsat_is_zero_key", ("C01", "C02"), "wkind(r.dissat.stack) == 0 && wseq(r.dissat.stack).len() == 2 && wseq(r.dissat.stack)[0] == Placeholder::<Pk>::PushZero && is_pubkey_elem(wseq(r.dissat.stack)[1], *pk, Ctx::spec_pk_len(pk)) && no_locks_no_sig(r.dissat)"),
            Clause("sat_iff_sig", ("C01", "C02"), "wkind(r.sat.stack) == 0 <==> sig_available(stfr, pk, leaf_hash)"),
            Clause("no_sig_is_impossible", ("C03",), "wkind(r.sat.stack) != 0 ==> wkind(r.sat.stack) == 2"),
            Clause("sat_is_sig_key", ("C01",), "wkind(r.sat.stack) == 0 ==> wseq(r.sat.stack).len() == 2 && is_sig_elem(wseq(r.sat.stack)[0], stfr, pk, leaf_hash) && is_pubkey_elem(wseq(r.sat.stack)[1], *pk, Ctx::spec_pk_len(pk))"),
            Clause("sat_is_signed_no_locks", ("C03", "C17"), "r.sat.has_sig && no_locks(r.sat)"),
        ]))
        vf.fn(SD, S % "after", qual="Satisfaction", props=P, rewrites=[lit("R7-into", "t.into()", "abs_into(t)")], contract=Contract(ensures=[
            Clause("no_dsat", ("C01", "C03"), "wkind(r.dissat.stack) == 2"),
            Clause("sat_iff_lock_confirmed", ("C01", "C02", "C17"), "wkind(r.sat.stack) == 0 <==> stfr.after_ok(t.consensus())"),
            Clause("sat_is_empty_with_own_lock", ("C01", "C17"), "wkind(r.sat.stack) == 0 ==> wseq(r.sat.stack).len() == 0 && r.sat.absolute_timelock == Some(t) && r.sat.relative_timelock is None && !r.sat.has_sig"),
            Clause("unmet_lock", ("C03", "C17"), "wkind(r.sat.stack) != 0 ==> wkind(r.sat.stack) == (if root_has_sig { 2int } else { 1int }) && no_locks_no_sig(r.sat)"),
        ]))
        vf.fn(SD, S % "older", qual="Satisfaction", props=P, rewrites=[lit("R7-into", "t.into()", "rel_into(t)")], contract=Contract(ensures=[
            Clause("no_dsat", ("C01", "C03"), "wkind(r.dissat.stack) == 2"),
            Clause("sat_iff_lock_confirmed", ("C01", "C02", "C17"), "wkind(r.sat.stack) == 0 <==> stfr.older_ok(t.consensus())"),
            Clause("sat_is_empty_with_own_lock", ("C01", "C17"), "wkind(r.sat.stack) == 0 ==> wseq(r.sat.stack).len() == 0 && r.sat.relative_timelock == Some(t) && r.sat.absolute_timelock is None && !r.sat.has_sig"),
            Clause("unmet_lock", ("C03", "C17"), "wkind(r.sat.stack) != 0 ==> wkind(r.sat.stack) == (if root_has_sig { 2int } else { 1int }) && no_locks_no_sig(r.sat)"),
        ]))
        for h, var in (("ripemd160", "Ripemd160"), ("hash160", "Hash160"), ("sha256", "Sha256"), ("hash256", "Hash256")):
            vf.fn(SD, S % h, qual="Satisfaction", props=P, rewrites=[const_as_fn("TRIVIAL")], contract=Contract(ensures=[
                Clause("dsat_is_wrong_preimage", ("C01", "C02"), "same(r.dissat, t_elems(seq![Placeholder::<Pk>::HashDissatisfaction]))"),
                Clause("sat_iff_known", ("C01", "C02"), "wkind(r.sat.stack) == 0 <==> stfr.knows_%s(h)" % h),
                Clause("unknown_is_unavailable", ("C03",), "wkind(r.sat.stack) != 0 ==> wkind(r.sat.stack) == 1"),
                Clause("sat_is_preimage", ("C01",), "wkind(r.sat.stack) == 0 ==> wseq(r.sat.stack).len() == 1 && (wseq(r.sat.stack)[0] matches Placeholder::%sPreimage(x) && cloned(*h, x))" % var),
                Clause("unsigned_no_locks", ("C03", "C17"), "no_locks_no_sig(r.sat)"),
            ]))


STEP_SPEC = r"""
// ---- per-node step of sat_dissat: children = the top `arity` entries of the stack (post-order: the
// last child is on top) -------------------------------------------------------------------------------
spec fn top<Pk: MiniscriptKey>(s: Seq<SatDissat<Pk>>, i: int) -> SatDissat<Pk> { s[s.len() - 1 - i] }
// the top n entries = the n children's entries, first child first
spec fn top_entries<Pk: MiniscriptKey>(s: Seq<SatDissat<Pk>>, n: int) -> Seq<SatDissat<Pk>> { Seq::new(n as nat, |j: int| s[s.len() - n + j]) }
spec fn top_sats<Pk: MiniscriptKey>(s: Seq<SatDissat<Pk>>, n: int) -> Seq<Satisfaction<Placeholder<Pk>>> { Seq::new(n as nat, |j: int| top_entries(s, n)[j].sat) }
spec fn top_dissats<Pk: MiniscriptKey>(s: Seq<SatDissat<Pk>>, n: int) -> Seq<Satisfaction<Placeholder<Pk>>> { Seq::new(n as nat, |j: int| top_entries(s, n)[j].dissat) }
spec fn arity<Pk: MiniscriptKey, Ctx: ScriptContext>(t: Terminal<Pk, Ctx>) -> nat {
    match t {
        Terminal::Alt(_) | Terminal::Swap(_) | Terminal::Check(_) | Terminal::DupIf(_) | Terminal::Verify(_)
        | Terminal::NonZero(_) | Terminal::ZeroNotEqual(_) => 1,
        Terminal::AndV(_, _) | Terminal::AndB(_, _) | Terminal::OrB(_, _) | Terminal::OrD(_, _) | Terminal::OrC(_, _) | Terminal::OrI(_, _) => 2,
        Terminal::AndOr(_, _, _) => 3,
        Terminal::Thresh(th) => th.spec_n(),
        _ => 0,
    }
}
spec fn ac<Pk: MiniscriptKey, Ctx: ScriptContext>(m: Arc<Miniscript<Pk, Ctx>>) -> ACorr { abs_corr(m.ty.corr) }
spec fn cd<Pk: MiniscriptKey, Ctx: ScriptContext>(m: Arc<Miniscript<Pk, Ctx>>) -> bool { m.ty.corr.dissatisfiable }

// the node is well typed (specification's "X is Bdu; Z is B" side conditions)
spec fn node_typed<Pk: MiniscriptKey, Ctx: ScriptContext>(t: Terminal<Pk, Ctx>) -> bool {
    &&& (t matches Terminal::AndOr(x, y, z) ==> spec_and_or_ok(ac(x), ac(y), ac(z)))
    &&& (t matches Terminal::OrB(x, z) ==> spec_or_b_ok(ac(x), ac(z)))
    &&& (t matches Terminal::OrC(x, z) ==> spec_or_c_ok(ac(x), ac(z)))
    &&& (t matches Terminal::OrD(x, z) ==> spec_or_d_ok(ac(x), ac(z)))
    // thresh: X1 is Bdu, the others are Wdu -- all children are dissatisfiable
    &&& (t matches Terminal::Thresh(th) ==> forall|j: int| 0 <= j < th.spec_n() ==> cd(#[trigger] th.elems()[j]))
}
// the specification's `d` for the node
spec fn node_d<Pk: MiniscriptKey, Ctx: ScriptContext>(t: Terminal<Pk, Ctx>) -> bool {
    match t {
        Terminal::True => spec_corr_true().d,
        Terminal::False => spec_corr_false().d,
        Terminal::PkK(_) => spec_corr_pk_k().d,
        Terminal::PkH(_) | Terminal::RawPkH(_) => spec_corr_pk_h().d,
        Terminal::Multi(_) | Terminal::SortedMulti(_) => spec_corr_multi().d,
        Terminal::MultiA(_) | Terminal::SortedMultiA(_) => spec_corr_multi_a().d,
        Terminal::After(_) | Terminal::Older(_) => spec_corr_time().d,
        Terminal::Sha256(_) | Terminal::Hash256(_) | Terminal::Ripemd160(_) | Terminal::Hash160(_) => spec_corr_hash().d,
        Terminal::Alt(x) => spec_alt(ac(x)).d,
        Terminal::Swap(x) => spec_swap(ac(x)).d,
        Terminal::Check(x) => spec_check(ac(x)).d,
        Terminal::DupIf(x) => spec_dupif(ac(x), false).d,
        Terminal::Verify(x) => spec_verify(ac(x)).d,
        Terminal::NonZero(x) => spec_nonzero(ac(x)).d,
        Terminal::ZeroNotEqual(x) => spec_zeronotequal(ac(x)).d,
        Terminal::AndV(x, y) => spec_and_v(ac(x), ac(y)).d,
        Terminal::AndB(x, y) => spec_and_b(ac(x), ac(y)).d,
        Terminal::AndOr(x, y, z) => spec_and_or(ac(x), ac(y), ac(z)).d,
        Terminal::OrB(x, z) => spec_or_b(ac(x), ac(z)).d,
        Terminal::OrD(x, z) => spec_or_d(ac(x), ac(z)).d,
        Terminal::OrC(x, z) => spec_or_c(ac(x), ac(z)).d,
        Terminal::OrI(x, z) => spec_or_i(ac(x), ac(z)).d,
        Terminal::Thresh(_) => true,
    }
}
// a provider answers for ONE transaction: all absolute locks it confirms have one unit, likewise relative
spec fn provider_consistent<Pk: MiniscriptKey, S: AssetProvider<Pk>>(stfr: &S) -> bool {
    &&& (forall|a: u32, b: u32| #[trigger] stfr.after_ok(a) && #[trigger] stfr.after_ok(b) ==> ((a < 500_000_000) == (b < 500_000_000)))
    &&& (forall|a: u32, b: u32| #[trigger] stfr.older_ok(a) && #[trigger] stfr.older_ok(b) ==> ((a & 0x0040_0000) == (b & 0x0040_0000)))
}
// every lock a (possible) satisfaction reports has been confirmed by the provider (sufficiency, C17)
spec fn locks_confirmed<Pk: MiniscriptKey, S: AssetProvider<Pk>>(stfr: &S, s: Satisfaction<Placeholder<Pk>>) -> bool {
    wkind(s.stack) != 2 ==> (s.absolute_timelock is Some ==> stfr.after_ok(s.absolute_timelock->Some_0.consensus()))
                         && (s.relative_timelock is Some ==> stfr.older_ok(s.relative_timelock->Some_0.consensus()))
}
// invariant of one stack entry, given the `d` of the node it belongs to.
//   malleable mode: a dissatisfiable node has a signature-free dissatisfaction (completeness, and the
//   assert!s of the or_* arms);  non-malleable mode: it may be withheld (unavailable) but is never signed
spec fn sd_inv<Pk: MiniscriptKey, S: AssetProvider<Pk>>(stfr: &S, malleable: bool, d: bool, sd: SatDissat<Pk>) -> bool {
    &&& locks_confirmed(stfr, sd.sat)
    &&& locks_confirmed(stfr, sd.dissat)
    &&& (d ==> !sd.dissat.has_sig && (if malleable { wkind(sd.dissat.stack) == 0 } else { wkind(sd.dissat.stack) != 2 }))
}
spec fn children_inv<Pk: MiniscriptKey, Ctx: ScriptContext, S: AssetProvider<Pk>>(stfr: &S, malleable: bool, t: Terminal<Pk, Ctx>, s: Seq<SatDissat<Pk>>) -> bool {
    &&& (t matches Terminal::Alt(x) ==> sd_inv(stfr, malleable, cd(x), top(s, 0)))
    &&& (t matches Terminal::Swap(x) ==> sd_inv(stfr, malleable, cd(x), top(s, 0)))
    &&& (t matches Terminal::Check(x) ==> sd_inv(stfr, malleable, cd(x), top(s, 0)))
    &&& (t matches Terminal::DupIf(x) ==> sd_inv(stfr, malleable, cd(x), top(s, 0)))
    &&& (t matches Terminal::Verify(x) ==> sd_inv(stfr, malleable, cd(x), top(s, 0)))
    &&& (t matches Terminal::NonZero(x) ==> sd_inv(stfr, malleable, cd(x), top(s, 0)))
    &&& (t matches Terminal::ZeroNotEqual(x) ==> sd_inv(stfr, malleable, cd(x), top(s, 0)))
    &&& (t matches Terminal::AndV(x, y) ==> sd_inv(stfr, malleable, cd(x), top(s, 1)) && sd_inv(stfr, malleable, cd(y), top(s, 0)))
    &&& (t matches Terminal::AndB(x, y) ==> sd_inv(stfr, malleable, cd(x), top(s, 1)) && sd_inv(stfr, malleable, cd(y), top(s, 0)))
    &&& (t matches Terminal::OrB(x, y) ==> sd_inv(stfr, malleable, cd(x), top(s, 1)) && sd_inv(stfr, malleable, cd(y), top(s, 0)))
    &&& (t matches Terminal::OrD(x, y) ==> sd_inv(stfr, malleable, cd(x), top(s, 1)) && sd_inv(stfr, malleable, cd(y), top(s, 0)))
    &&& (t matches Terminal::OrC(x, y) ==> sd_inv(stfr, malleable, cd(x), top(s, 1)) && sd_inv(stfr, malleable, cd(y), top(s, 0)))
    &&& (t matches Terminal::OrI(x, y) ==> sd_inv(stfr, malleable, cd(x), top(s, 1)) && sd_inv(stfr, malleable, cd(y), top(s, 0)))
    &&& (t matches Terminal::AndOr(x, y, z) ==> sd_inv(stfr, malleable, cd(x), top(s, 2)) && sd_inv(stfr, malleable, cd(y), top(s, 1)) && sd_inv(stfr, malleable, cd(z), top(s, 0)))
    &&& (t matches Terminal::Thresh(th) ==> forall|j: int| 0 <= j < th.spec_n() ==> sd_inv(stfr, malleable, cd(th.elems()[j]), #[trigger] top_entries(s, th.spec_n() as int)[j]))
}
spec fn a<Pk: MiniscriptKey>(s: Satisfaction<Placeholder<Pk>>) -> ASat<Pk> { abs_sat(s) }
spec fn one<Pk: MiniscriptKey>() -> Placeholder<Pk> { Placeholder::PushOne }
spec fn zero<Pk: MiniscriptKey>() -> Placeholder<Pk> { Placeholder::PushZero }
// "A ; B" of a row, in the mode of this instance
spec fn is_choice<Pk: MiniscriptKey>(malleable: bool, r: Satisfaction<Placeholder<Pk>>, x: ASat<Pk>, y: ASat<Pk>) -> bool {
    if malleable { is_choice_mall(r, x, y) } else { is_choice_nonmall(r, x, y) }
}

#[verifier::external_body]
fn excluded_arm<Pk: MiniscriptKey>() -> SatDissat<Pk> { unimplemented!() }
// R15: `stack.drain(stack.len() - n..).map(|SatDissat { dissat, sat }| (dissat, sat)).unzip()`: the top n entries leave the
// stack, in stack order, split into (dissatisfactions, satisfactions); `stack.len() - n` underflows / drain panics when
// the stack is shorter: precondition
#[verifier::external_body]
fn split_top<Pk: MiniscriptKey>(stack: &mut Vec<SatDissat<Pk>>, n: usize) -> (r: (Vec<Satisfaction<Placeholder<Pk>>>, Vec<Satisfaction<Placeholder<Pk>>>))
    requires n <= old(stack)@.len(),
    ensures final(stack)@ == old(stack)@.take(old(stack)@.len() - n), r.0@ == top_dissats(old(stack)@, n as int), r.1@ == top_sats(old(stack)@, n as int),
{ unimplemented!() }
"""


def thresh_arm_clauses(mall, th, guard=""):
    """Row thresh(k, X_1..X_n) for the per-node step: children = the top n entries of the stack (X_n on top)."""
    from units import c02_multi as C2
    M = "true" if mall else "false"
    S0 = "old(stack)@"
    n, k = "%s.spec_n() as int" % th, "%s.spec_k() as int" % th
    sats, dis = "top_sats(%s, %s)" % (S0, n), "top_dissats(%s, %s)" % (S0, n)
    g = (guard + " ==> ") if guard else ""
    gk = ((guard,) if guard else ()) + ("%s.spec_k() != %s.spec_n()" % (th, th),)
    return [
        Clause("dsat_is_all_dsats_juxtaposed", ("C01", "C17", "C02"), g + "abs_sat(r.dissat) == t_concat(abs_all(%s), %s)" % (dis, n)),
        Clause("sat_is_all_sats_when_k_is_n", ("C01", "C02", "C03", "C17"), g + "(%s.spec_k() == %s.spec_n() ==> abs_sat(r.sat) == t_concat(abs_all(%s), %s))" % (th, th, sats, n)),
    ] + C2.thresh_clauses(mall, r="r.sat", k=k, n=n, sats=sats, dis=dis, guards=gk) + [
        Clause("frame_pops_exactly_n_children", ("C01", "C11"), g + "final(stack)@ == %s.take(%s.len() - %s.spec_n())" % (S0, S0, th)),
        Clause("dissat_available_when_d", ("C02", "C03", "C11"), g + "sd_inv(stfr, %s, true, r)" % M),
    ]


def step_cases(mall):
    """One case per Terminal variant: the specification's row.  X/L = first child, Y/Z/R = second, ..."""
    M = "true" if mall else "false"
    S0 = "old(stack)@"
    X = "top(%s, 0)" % S0
    L, R = "top(%s, 1)" % S0, "top(%s, 0)" % S0
    A, B, C = "top(%s, 2)" % S0, "top(%s, 1)" % S0, "top(%s, 0)" % S0
    P12 = ("C01", "C02")
    ALL = ("C01", "C02", "C03", "C17")
    sel = ("C01", "C02", "C17") if mall else ("C01", "C03", "C17")
    inv = lambda v: Clause("dissat_available_when_d", ("C02", "C03", "C11"), "sd_inv(stfr, %s, node_d(*term), r)" % M)
    out = []

    def case(v, clauses, claim_inv=True):
        out.append((v, "*term is %s" % v, clauses + ([inv(v)] if claim_inv else [])))
    case("False", [Clause("row", ALL, "same(r.dissat, t_elems(Seq::empty())) && wkind(r.sat.stack) == 2")])
    case("True", [Clause("row", ALL, "wkind(r.dissat.stack) == 2 && same(r.sat, t_elems(Seq::empty()))")])
    case("PkK", [Clause("row", ALL, "*term matches Terminal::PkK(pk) ==> same(r.dissat, t_elems(seq![zero()])) && (wkind(r.sat.stack) == 0 <==> sig_available(stfr, &pk, leaf_hash)) && (wkind(r.sat.stack) != 0 ==> wkind(r.sat.stack) == 2) && (wkind(r.sat.stack) == 0 ==> wseq(r.sat.stack).len() == 1 && is_sig_elem(wseq(r.sat.stack)[0], stfr, &pk, leaf_hash)) && r.sat.has_sig && no_locks(r.sat)")])
    case("PkH", [Clause("row", ALL, "*term matches Terminal::PkH(pk) ==> wkind(r.dissat.stack) == 0 && wseq(r.dissat.stack).len() == 2 && wseq(r.dissat.stack)[0] == zero::<Pk>() && is_pubkey_elem(wseq(r.dissat.stack)[1], pk, Ctx::spec_pk_len(&pk)) && (wkind(r.sat.stack) == 0 <==> sig_available(stfr, &pk, leaf_hash)) && (wkind(r.sat.stack) != 0 ==> wkind(r.sat.stack) == 2) && (wkind(r.sat.stack) == 0 ==> wseq(r.sat.stack).len() == 2 && is_sig_elem(wseq(r.sat.stack)[0], stfr, &pk, leaf_hash) && is_pubkey_elem(wseq(r.sat.stack)[1], pk, Ctx::spec_pk_len(&pk))) && r.sat.has_sig && no_locks(r.sat)")])
    case("After", [Clause("row", ALL, "*term matches Terminal::After(t) ==> wkind(r.dissat.stack) == 2 && (wkind(r.sat.stack) == 0 <==> stfr.after_ok(t.consensus())) && (wkind(r.sat.stack) == 0 ==> wseq(r.sat.stack).len() == 0 && r.sat.absolute_timelock == Some(t) && r.sat.relative_timelock is None && !r.sat.has_sig) && (wkind(r.sat.stack) != 0 ==> wkind(r.sat.stack) == (if root_has_sig { 2int } else { 1int }))")])
    case("Older", [Clause("row", ALL, "*term matches Terminal::Older(t) ==> wkind(r.dissat.stack) == 2 && (wkind(r.sat.stack) == 0 <==> stfr.older_ok(t.consensus())) && (wkind(r.sat.stack) == 0 ==> wseq(r.sat.stack).len() == 0 && r.sat.relative_timelock == Some(t) && r.sat.absolute_timelock is None && !r.sat.has_sig) && (wkind(r.sat.stack) != 0 ==> wkind(r.sat.stack) == (if root_has_sig { 2int } else { 1int }))")])
    for v, h in (("Ripemd160", "ripemd160"), ("Hash160", "hash160"), ("Sha256", "sha256"), ("Hash256", "hash256")):
        case(v, [Clause("row", ALL, "*term matches Terminal::%s(h) ==> same(r.dissat, t_elems(seq![Placeholder::<Pk>::HashDissatisfaction])) && (wkind(r.sat.stack) == 0 <==> stfr.knows_%s(&h)) && (wkind(r.sat.stack) != 0 ==> wkind(r.sat.stack) == 1) && (wkind(r.sat.stack) == 0 ==> wseq(r.sat.stack).len() == 1 && (wseq(r.sat.stack)[0] matches Placeholder::%sPreimage(x) && cloned(h, x))) && no_locks_no_sig(r.sat)" % (v, h, v))])
    for v in ("Alt", "Swap", "Check", "ZeroNotEqual"):
        case(v, [Clause("row_identity", ALL, "r.sat == %s.sat && r.dissat == %s.dissat" % (X, X))])
    case("DupIf", [Clause("dsat_is_zero", P12, "same(r.dissat, t_elems(seq![zero()]))"),
                   Clause("sat_is_sat_x_then_one", ALL, "a(r.sat) == t_then(a(%s.sat), one())" % X)])
    case("Verify", [Clause("no_dsat", ("C01", "C03"), "wkind(r.dissat.stack) == 2"), Clause("sat_is_sat_x", ALL, "r.sat == %s.sat" % X)])
    # j:X  -- dsat is "0": finding F1 lives here
    case("NonZero", [Clause("dsat_is_zero", P12, "same(r.dissat, t_elems(seq![zero()]))"), Clause("sat_is_sat_x", ALL, "r.sat == %s.sat" % X)])
    case("AndB", [Clause("dsat_is_dsat_y_dsat_x", ALL, "a(r.dissat) == t_seq(a(%s.dissat), a(%s.dissat))" % (R, L)),
                  Clause("sat_is_sat_y_sat_x", ALL, "a(r.sat) == t_seq(a(%s.sat), a(%s.sat))" % (R, L))])
    case("AndV", [Clause("dsat_none_or_noncanonical_dsat_y_sat_x", ("C01", "C17"), "wkind(r.dissat.stack) == 0 ==> a(r.dissat) == t_seq(a(%s.dissat), a(%s.sat))" % (R, L)),
                  Clause("sat_is_sat_y_sat_x", ALL, "a(r.sat) == t_seq(a(%s.sat), a(%s.sat))" % (R, L))])
    case("AndOr", [Clause("dsat_is_dsat_z_dsat_x", ALL, "a(r.dissat) == t_seq(a(%s.dissat), a(%s.dissat))" % (C, A)),
                   Clause("sat_is_sat_y_sat_x_or_sat_z_dsat_x", sel, "is_choice(%s, r.sat, t_seq(a(%s.sat), a(%s.sat)), t_seq(a(%s.sat), a(%s.dissat)))" % (M, B, A, C, A))])
    case("OrB", [Clause("dsat_is_dsat_z_dsat_x", ALL, "a(r.dissat) == t_seq(a(%s.dissat), a(%s.dissat))" % (R, L)),
                 Clause("sat_is_sat_z_dsat_x_or_dsat_z_sat_x", sel, "is_choice(%s, r.sat, t_seq(a(%s.sat), a(%s.dissat)), t_seq(a(%s.dissat), a(%s.sat)))" % (M, R, L, R, L))])
    case("OrC", [Clause("no_dsat", ("C01", "C03"), "wkind(r.dissat.stack) == 2"),
                 Clause("sat_is_sat_x_or_sat_z_dsat_x", sel, "is_choice(%s, r.sat, a(%s.sat), t_seq(a(%s.sat), a(%s.dissat)))" % (M, L, R, L))])
    case("OrD", [Clause("dsat_is_dsat_z_dsat_x", ALL, "a(r.dissat) == t_seq(a(%s.dissat), a(%s.dissat))" % (R, L)),
                 Clause("sat_is_sat_x_or_sat_z_dsat_x", sel, "is_choice(%s, r.sat, a(%s.sat), t_seq(a(%s.sat), a(%s.dissat)))" % (M, L, R, L))])
    case("OrI", [Clause("dsat_is_dsat_x_1_or_dsat_z_0", sel, "is_choice(%s, r.dissat, t_then(a(%s.dissat), one()), t_then(a(%s.dissat), zero()))" % (M, L, R)),
                 Clause("sat_is_sat_x_1_or_sat_z_0", sel, "is_choice(%s, r.sat, t_then(a(%s.sat), one()), t_then(a(%s.sat), zero()))" % (M, L, R))])
    # raw pkh: the key behind the hash may be unknown (dissatisfaction then unavailable although the type says d):
    # the row is claimed, the d-invariant is not
    case("RawPkH", [Clause("row", ALL, "*term matches Terminal::RawPkH(pkh) ==> (wkind(r.dissat.stack) == 0 ==> wseq(r.dissat.stack).len() == 2 && wseq(r.dissat.stack)[0] == zero::<Pk>() && (wseq(r.dissat.stack)[1] matches Placeholder::PubkeyHash(h, n) && h == pkh)) && no_locks_no_sig(r.dissat) && wkind(r.dissat.stack) != 2 && (wkind(r.sat.stack) == 0 <==> (match leaf_hash { Some(lh) => stfr.raw_pkh_tap_leaf_sig(&(pkh, lh)) is Some, None => stfr.raw_pkh_ecdsa_sig(&pkh) is Some })) && (wkind(r.sat.stack) != 0 ==> wkind(r.sat.stack) == 2) && r.sat.has_sig && no_locks(r.sat)")], claim_inv=False)
    def multi_row(v, keys, a):
        """The rows multi / multi_a for the key list `keys` (k and n of the node's threshold `th`)."""
        g = "*term matches Terminal::%s(th) ==> " % v
        if not a:
            return [
                Clause("dsat_is_k_plus_1_zeros", P12, g + "wkind(r.dissat.stack) == 0 && wseq(r.dissat.stack) =~= zeros::<Pk>(th.spec_k() + 1) && no_locks_no_sig(r.dissat)"),
                Clause("sat_iff_k_signatures_available", ALL, g + "(wkind(r.sat.stack) == 0 <==> count_avail(stfr, %s, 0, th.spec_n() as int, None) >= th.spec_k()) && (wkind(r.sat.stack) != 0 ==> wkind(r.sat.stack) == 2)" % keys),
                Clause("sat_is_zero_then_k_signatures_in_key_order", ALL, g + "(wkind(r.sat.stack) == 0 ==> wseq(r.sat.stack).len() == th.spec_k() + 1 && wseq(r.sat.stack)[0] == zero::<Pk>() && sigs_in_key_order(wseq(r.sat.stack).drop_first(), stfr, %s, th.spec_n() as int, None) && r.sat.has_sig) && no_locks(r.sat)" % keys),
            ]
        return [
            Clause("dsat_is_n_zeros", P12, g + "wkind(r.dissat.stack) == 0 && wseq(r.dissat.stack) =~= zeros::<Pk>(th.spec_n() as int) && no_locks_no_sig(r.dissat)"),
            Clause("sat_iff_k_signatures_available", ALL, g + "(wkind(r.sat.stack) == 0 <==> count_avail(stfr, %s, 0, th.spec_n() as int, Some(leaf_hash->Some_0)) >= th.spec_k()) && (wkind(r.sat.stack) != 0 ==> wkind(r.sat.stack) == 2)" % keys),
            Clause("sat_is_sig_or_zero_per_key_in_reverse_order", ALL, g + "(wkind(r.sat.stack) == 0 ==> wseq(r.sat.stack).len() == th.spec_n() && count_nonzero(wseq(r.sat.stack)) == th.spec_k() && r.sat.has_sig && (forall|j: int| 0 <= j < th.spec_n() ==> multi_a_slot(#[trigger] wseq(r.sat.stack)[j], stfr, %s, j, Some(leaf_hash->Some_0)))) && no_locks(r.sat)" % keys),
        ]
    case("Multi", multi_row("Multi", "th.elems()", False))
    case("MultiA", multi_row("MultiA", "th.elems()", True))
    # sortedmulti(k, keys) is multi(k, keys in BIP67 order of the 33-byte serialisation), sortedmulti_a(k, keys) is
    # multi_a(k, keys in the order of the 32-byte x-only serialisation): the order in which the SCRIPT lists the keys
    # (unit c04_encode: templates SortedMulti / SortedMultiA over the same bip67_sorted / bip67_sorted_xonly)
    def in_script_order(clauses):
        return [Clause("satisfies_the_keys_in_script_order__" + c.tag, ("C01", "C02") + tuple(x for x in c.props if x not in ("C01", "C02")), c.text) for c in clauses]
    case("SortedMulti", in_script_order(multi_row("SortedMulti", "bip67_sorted(th.elems())", False)))
    case("SortedMultiA", in_script_order(multi_row("SortedMultiA", "bip67_sorted_xonly(th.elems())", True)))
    case("Thresh", thresh_arm_clauses(mall, "th", "*term matches Terminal::Thresh(th)"), claim_inv=False)
    return out


def outline_arm(holder, call):
    """R17: the body of a match arm becomes a function of the variables it uses: `PAT => BODY` -> `PAT => <call>`;
    BODY is stashed verbatim in `holder` and emitted by the caller as `fn f(..) -> T BODY`."""
    from vlib.verus import rule

    @rule("R17-outline-arm")
    def rw(body):
        holder["body"] = body if body.lstrip().startswith("{") else "{ %s }" % body
        return call
    return rw


def thresh_arm(vf, holder, mall, name, P):
    """The Thresh arm of sat_dissat, outlined: text of /repo with the iterator plumbing rewritten."""
    from units import c02_multi as C2
    M = "true" if mall else "false"
    facts = """                    provider_consistent(stfr),
                    forall|j: int| 0 <= j < fold_src@.len() ==> locks_confirmed(stfr, #[trigger] fold_src@[j]),"""
    # 1st fold: the dissatisfaction.  Children of thresh are `d`: every dissatisfaction is unsigned and available
    # (malleable mode) / possible (non-malleable mode), and so is their juxtaposition (step invariant sd_inv)
    dis_shape = dict(invariant="""                    fold_i <= fold_src@.len(),
%s
                    forall|j: int| 0 <= j < fold_src@.len() ==> dissat_of_d_child(%s, #[trigger] fold_src@[j]), //@inv dissat_available_when_d [C02,C03,C11]
                    abs_sat(%%(acc)s) == t_concat(abs_all(fold_src@), fold_i as int), //@inv dsat_is_all_dsats_juxtaposed [C01,C17,C02]
                    locks_confirmed(stfr, %%(acc)s), //@inv dissat_available_when_d [C02,C03,C11]
                    dissat_of_d_child(%s, %%(acc)s), //@inv dissat_available_when_d [C02,C03,C11]""" % (facts, M, M))
    # a dissatisfaction put together from the children's witness stacks only (Witness accumulator): nothing is known
    # about its flag and locks beyond what the surrounding expression says
    dis_shape_wit = dict(invariant="""                    fold_i <= fold_src@.len(),
                    forall|j: int| 0 <= j < fold_src@.len() ==> dissat_of_d_child(%s, #[trigger] fold_src@[j]), //@inv dissat_available_when_d [C02,C03,C11]
                    (if %s { wkind(%%(acc)s) == 0 } else { wkind(%%(acc)s) != 2 }), //@inv dissat_available_when_d [C02,C03,C11]""" % (M, M))
    # 2nd fold (k == n): all satisfactions
    sat_shape = dict(invariant="""                    fold_i <= fold_src@.len(),
%s
                    abs_sat(%%(acc)s) == t_concat(abs_all(fold_src@), fold_i as int), //@inv sat_is_all_sats_when_k_is_n [C01,C02,C03,C17]
                    locks_confirmed(stfr, %%(acc)s), //@inv dissat_available_when_d [C02,C03,C11]""" % facts)
    EMPTY = r"(Self|Satisfaction)::empty\(\)"
    text = ("fn %s<Ctx: ScriptContext, Sat: AssetProvider<Pk>>(thresh: &Threshold<Arc<Miniscript<Pk, Ctx>>, 0>, stack: &mut Vec<SatDissat<Pk>>, stfr: &Sat) -> SatDissat<Pk> "
            % name) + holder["body"]
    text = vf._apply(text, [
        sub("R15-drain-unzip", r"stack\s*\.drain\(stack\.len\(\) - ([\w.()]+?)\.\.\)\s*\.map\(\|SatDissat \{ dissat, sat \}\| \(dissat, sat\)\)\s*\.unzip\(\)", r"split_top(stack, \1)"),
        C2.fold_to_loop([(EMPTY, dis_shape), (r"Witness::", dis_shape_wit)], name="R14-fold-dissat"),
        C2.fold_to_loop([(EMPTY, sat_shape)], name="R14-fold-sats"),
        sub("R6", r"\bthresh_fn\(", "Self::thresh_mall(" if mall else "Self::thresh("),
        const_as_fn("TRIVIAL", required=False),
    ], "Thresh arm")
    S0 = "old(stack)@"
    n = "thresh.spec_n() as int"
    reg = vf.repo.at(SD, SATIMPL + "/fn:sat_dissat/match:*item.node.as_inner()")
    vf.fn_text("Satisfaction::" + name, text, Contract(
        requires=["thresh.wf()", "%s.len() >= thresh.spec_n()" % S0, "provider_consistent(stfr)",
                  "forall|j: int| 0 <= j < thresh.spec_n() ==> sd_inv(stfr, %s, true, #[trigger] top_entries(%s, %s)[j])" % (M, S0, n),
                  "sizes_ok(top_sats(%s, %s))" % (S0, n), "sizes_ok(top_dissats(%s, %s))" % (S0, n)],
        ensures=thresh_arm_clauses(mall, "thresh"), canary=False), P, file=SD, lines=reg.lines(), anchor="sat_dissat/arm:Terminal::Thresh")
    C2.register_named_invariants(vf, "Satisfaction::" + name)


def steps(vf):
    from units import c05_types as T
    vf.raw(re.sub(r"#\[derive\([^)]*\)\]\n", "", T.oracle_text()))
    vf.raw(T.ABS)
    vf.trust("PartialEqSpecImpl for Base/Input/Dissat", "derived PartialEq on field-less enums is structural equality")
    vf.raw(STEP_SPEC)
    # Satisfaction::{multi, multi_a, thresh, thresh_mall}: consumed through the contracts proved in unit c02_multi
    from units import c02_multi as C2
    from units import c04_encode as C4
    vf.raw(C2.STD_STUBS)
    vf.raw(C2.nary_oracle_text())
    vf.raw(C2.NARY_PROOF)
    C2.multis(C2.AssumedProxy(vf, keep={"multi", "multi_a"}))
    C2.threshes(C2.AssumedProxy(vf, keep={"thresh", "thresh_mall"}, raw_ok=(C2.THRESH_PROOF,)))
    vf.trust("Satisfaction::{multi, multi_a, thresh, thresh_mall} (external_body, contract only)", "callee contracts proved on the real bodies in unit c02_multi; the contract text is that unit's (emitted through AssumedProxy)")
    vf.trust("vec_take, vec_repeat*, index_of_longest, range_vec, swap_at, sort_indices_* (external_body)", "std stubs of unit c02_multi (R14/R15); only vec_take is used here (fold = loop over into_iter)")
    # BIP67 orders: the SAME uninterpreted functions and stubs as the encoder's templates (unit c04_encode)
    n4 = C4.NARY_SPEC
    vf.raw(n4[n4.index("// BIP67 order of a key list"):n4.index("// what a slice iterator")])
    vf.raw(n4[n4.index("impl<T: Clone, const MAX: usize> Clone for Threshold"):])
    vf.trust("Threshold::{clone, into_sorted_bip67, into_sorted_bip67_xonly} stubs (text of unit c04_encode)", "structural clone / BIP67 sort as the uninterpreted permutations bip67_sorted / bip67_sorted_xonly keeping k and n; the encoder's SortedMulti / SortedMultiA templates list the keys in the same two orders")
    vf.trust("split_top (external_body)", "R15: Vec::drain(len - n..) yields the top n entries in order and removes them; map + unzip split each entry into its two fields")
    vf.trust("sizes_ok (precondition, Thresh)", "serialized witness sizes are below 2^62 (precondition of the cost comparison in Satisfaction::thresh*)")
    vf.trust("provider_consistent (precondition)", "an AssetProvider answers for one transaction: the absolute (relative) locks it confirms all have the same unit")
    P = ("C01", "C02", "C03", "C17", "C11")
    with vf.block("impl<Pk: MiniscriptKey + ToPublicKey> Satisfaction<Placeholder<Pk>>"):
        for mall, name, minfn in ((True, "sat_dissat_step_mall", "Self::minimum_mall"), (False, "sat_dissat_step_nonmall", "Self::minimum")):
            M = "true" if mall else "false"
            arm = "sat_dissat_thresh_arm_" + ("mall" if mall else "nonmall")
            holder = {}
            vf.step(SD, SATIMPL + "/fn:sat_dissat/match:*item.node.as_inner()", "Satisfaction::" + name,
                    "fn %s<Ctx: ScriptContext, Sat: AssetProvider<Pk>>(term: &Terminal<Pk, Ctx>, stack: &mut Vec<SatDissat<Pk>>, stfr: &Sat, root_has_sig: bool, leaf_hash: Option<TapLeafHash>) -> SatDissat<Pk>" % name,
                    scrutinee="*term", props=P,
                    arm_rewrites={"Terminal::Thresh(": [outline_arm(holder, "Self::%s(thresh, stack, stfr)" % arm)]},
                    rewrites=[sub("R6", r"\bmin_fn\(", minfn + "("), const_as_fn("TRIVIAL")],
                    contract=Contract(
                        requires=["old(stack)@.len() >= arity(*term)", "node_typed(*term)", "provider_consistent(stfr)",
                                  "children_inv(stfr, %s, *term, old(stack)@)" % M,
                                  "*term matches Terminal::Multi(th) ==> th.wf()",
                                  "*term matches Terminal::SortedMulti(th) ==> th.wf()",
                                  "*term matches Terminal::MultiA(th) ==> th.wf() && leaf_hash is Some",
                                  "*term matches Terminal::SortedMultiA(th) ==> th.wf() && leaf_hash is Some",
                                  "*term matches Terminal::Thresh(th) ==> th.wf() && sizes_ok(top_sats(old(stack)@, th.spec_n() as int)) && sizes_ok(top_dissats(old(stack)@, th.spec_n() as int))"],
                        ensures=[Clause("frame_pops_exactly_the_children", ("C01", "C11"), "final(stack)@ == old(stack)@.take(old(stack)@.len() - arity(*term))")]),
                    cases=step_cases(mall))
            thresh_arm(vf, holder, mall, arm, P)
