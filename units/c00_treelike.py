"""C00 unit (2/2): the three REAL `impl TreeLike` for the Miniscript AST (src/iter/mod.rs) satisfy the contract
that units/c00_tree.py assumes of an implementor (`trait TreeLike` there: `as_node` announces exactly the
sequence `children`, `nary_len` / `nary_index` describe the n-ary handle, the tree is finite).

Oracle (Miniscript grammar, not the code): the sub-expressions of a fragment in SOURCE order --
wrappers a: s: c: d: v: j: n: have one (X); and_v and_b or_b or_d or_c or_i have two (X, Y);
andor has three (X, Y, Z); thresh(k, X1..Xn) has n, X1 first; everything else (keys, hashes, locks,
0, 1, multi, multi_a, sortedmulti*) has none.

With this unit the traversal theorems of c00_tree hold for `&Miniscript`, `&Arc<Miniscript>` and `&Terminal`
without assumption about the implementor.  (The Policy / TapTree / DisplayNode implementations are not covered.)
"""
from vlib.verus import VerusFile, Contract, Clause, sub, lit
from units import _tree
from units import c00_tree

NAME = "c00_treelike"
ENGINE = "verus"
TRAVERSAL = c00_tree.TRAVERSAL
FN_PROPS = TRAVERSAL + ("C11",)
PROPS = FN_PROPS
TREE = "src/iter/tree.rs"
ITER = "src/iter/mod.rs"
MSMOD = "src/miniscript/mod.rs"

DROPPED = [
    "`use Terminal::*;` inside as_node is replaced by qualifying the variant names (R7: Verus single-file mode has the enum in the same module; the arms are otherwise verbatim)",
    "only the Miniscript AST implementations (for &Miniscript, &Arc<Miniscript>, &Terminal) are covered; Policy (semantic / concrete), TapTree and DisplayNode implement TreeLike too",
]

ORACLE = r"""
// ---- oracle: sub-expressions of a fragment in source order (Miniscript grammar) ----------------------
spec fn arc_seq<Pk: MiniscriptKey, Ctx: ScriptContext>(v: Seq<Arc<Miniscript<Pk, Ctx>>>) -> Seq<Miniscript<Pk, Ctx>> {
    Seq::new(v.len(), |i: int| *v[i])
}
spec fn sub_exprs<Pk: MiniscriptKey, Ctx: ScriptContext>(t: Terminal<Pk, Ctx>) -> Seq<Miniscript<Pk, Ctx>> {
    match t {
        // wrappers  a:X s:X c:X d:X v:X j:X n:X
        Terminal::Alt(x) | Terminal::Swap(x) | Terminal::Check(x) | Terminal::DupIf(x) | Terminal::Verify(x)
        | Terminal::NonZero(x) | Terminal::ZeroNotEqual(x) => seq![*x],
        // and_v(X,Y) and_b(X,Y) or_b(X,Z) or_d(X,Z) or_c(X,Z) or_i(X,Z)
        Terminal::AndV(x, y) | Terminal::AndB(x, y) | Terminal::OrB(x, y) | Terminal::OrD(x, y) | Terminal::OrC(x, y)
        | Terminal::OrI(x, y) => seq![*x, *y],
        // andor(X,Y,Z)
        Terminal::AndOr(x, y, z) => seq![*x, *y, *z],
        // thresh(k,X1,...,Xn)
        Terminal::Thresh(th) => arc_seq(th.inner@),
        // pk_k pk_h older after sha256 hash256 ripemd160 hash160 0 1 multi multi_a (and the sorted variants): leaves
        _ => Seq::empty(),
    }
}
// finiteness: structural height of the (finite, by construction of an inductive datatype) AST
spec fn ms_height<Pk: MiniscriptKey, Ctx: ScriptContext>(m: Miniscript<Pk, Ctx>) -> nat
    decreases m,
{
    match m.node {
        Terminal::Alt(x) | Terminal::Swap(x) | Terminal::Check(x) | Terminal::DupIf(x) | Terminal::Verify(x)
        | Terminal::NonZero(x) | Terminal::ZeroNotEqual(x) => 1 + ms_height(*x),
        Terminal::AndV(x, y) | Terminal::AndB(x, y) | Terminal::OrB(x, y) | Terminal::OrD(x, y) | Terminal::OrC(x, y)
        | Terminal::OrI(x, y) => 1 + max2(ms_height(*x), ms_height(*y)),
        Terminal::AndOr(x, y, z) => 1 + max2(ms_height(*x), max2(ms_height(*y), ms_height(*z))),
        Terminal::Thresh(th) => 1 + ms_max(th.inner@, th.inner@.len()),
        _ => 0,
    }
}
spec fn max2(a: nat, b: nat) -> nat { if a >= b { a } else { b } }
spec fn ms_max<Pk: MiniscriptKey, Ctx: ScriptContext>(s: Seq<Arc<Miniscript<Pk, Ctx>>>, n: nat) -> nat
    decreases s, n,
{
    if n == 0 || n > s.len() { 0 } else { max2(ms_height(*s[n - 1]), ms_max(s, (n - 1) as nat)) }
}
proof fn lemma_ms_max<Pk: MiniscriptKey, Ctx: ScriptContext>(s: Seq<Arc<Miniscript<Pk, Ctx>>>, n: nat, i: int)
    requires 0 <= i < n <= s.len(),
    ensures ms_height(*s[i]) <= ms_max(s, n),
    decreases n,
{
    if i < n - 1 { lemma_ms_max(s, (n - 1) as nat, i); }
}
proof fn lemma_sub_exprs_smaller<Pk: MiniscriptKey, Ctx: ScriptContext>(m: &Miniscript<Pk, Ctx>, i: int)
    requires 0 <= i < sub_exprs(m.node).len(),
    ensures ms_height(sub_exprs(m.node)[i]) < ms_height(*m),
{
    if m.node is Thresh { lemma_ms_max(m.node->Thresh_0.inner@, m.node->Thresh_0.inner@.len(), i); }
}
// std: <Arc<T> as AsRef<T>>::as_ref  (R7 wrapper: assume_specification would have to name the unstable Allocator parameter)
#[verifier::external_body]
fn arc_as_ref<T>(a: &Arc<T>) -> (r: &T)
    ensures *r == **a,
{ Arc::as_ref(a) }
// the nodes a slice of sub-expressions (the n-ary handle) stands for
spec fn slice_nodes<Pk: MiniscriptKey, Ctx: ScriptContext>(tc: &[Arc<Miniscript<Pk, Ctx>>]) -> Seq<Miniscript<Pk, Ctx>> { arc_seq(tc@) }
"""

AS_INNER = """
impl<Pk: MiniscriptKey, Ctx: ScriptContext> Miniscript<Pk, Ctx> {
"""

VARIANTS = ["PkK", "PkH", "RawPkH", "After", "Older", "Sha256", "Hash256", "Ripemd160", "Hash160", "True", "False", "Multi", "SortedMulti",
            "MultiA", "SortedMultiA", "Alt", "Swap", "Check", "DupIf", "Verify", "NonZero", "ZeroNotEqual", "AndV", "AndB", "OrB", "OrD",
            "OrC", "OrI", "AndOr", "Thresh"]
# R7: `use Terminal::*;` dropped, variant names qualified
QUALIFY = [lit("R7-use", "use Terminal::*;", "")] + [
    sub("R7-qualify", r"(?<![\w:])%s\b(?=\(| \||\n| =>)" % v, "Terminal::%s" % v, required=False) for v in VARIANTS]


def spec_block(node_of_self, view_elem, to_self):
    """spec part of an impl: `children` = oracle sub-expressions of the node, as handles of the implementing type."""
    return r"""
    spec fn children(&self) -> Seq<Self> { %(to_self)s }
    spec fn nary_view(tc: &Self::NaryChildren) -> Seq<Self> { %(view)s }
    spec fn height(&self) -> nat { %(height)s }
    proof fn children_smaller(&self, i: int) { %(smaller)s }
""" % dict(to_self=to_self, view=view_elem, height=node_of_self[0], smaller=node_of_self[1])


def build(repo):
    vf = VerusFile(NAME, repo)
    _tree.emit(vf, ext="opaque", types="defs")
    vf.item(TREE, "enum:Tree")
    with vf.block("trait TreeLike: Clone + Sized"):
        vf.raw(c00_tree.TRAIT_REQUIRED)      # the SAME contract text the traversal proofs of c00_tree assume
    vf.trust("trait TreeLike (contract text shared with units/c00_tree.py)", "this unit DISCHARGES it for the Miniscript AST; listed because the trait itself is /verif text")
    vf.raw(ORACLE)
    vf.trust("arc_as_ref (external_body)", "std: Arc::as_ref returns a reference to the value the Arc points to")
    with vf.block("impl<Pk: MiniscriptKey, Ctx: ScriptContext> Miniscript<Pk, Ctx>"):
        vf.fn(MSMOD, "impl:Miniscript<Pk, Ctx>/fn:as_inner", qual="Miniscript", props=FN_PROPS,
              contract=Contract(ensures=[Clause("is_node", TRAVERSAL, "*r == self.node")]))

    clauses = lambda kids_of_r: [Clause("announces_sub_expressions_in_source_order", TRAVERSAL, kids_of_r)]

    # ---- &'a Miniscript ------------------------------------------------------------------------------------
    hdr = "impl<'a, Pk: MiniscriptKey, Ctx: ScriptContext> TreeLike for &'a %s"
    with vf.block(hdr % "Miniscript<Pk, Ctx>"):
        vf.item(ITER, "impl:TreeLike for &'a Miniscript<Pk, Ctx>/type:NaryChildren")
        vf.raw(spec_block(("ms_height(**self)", "lemma_sub_exprs_smaller(*self, i);"),
                          "Seq::new(tc@.len(), |i: int| &*tc@[i])",
                          "Seq::new(sub_exprs(self.node).len(), |i: int| &sub_exprs(self.node)[i])"))
        vf.fn(ITER, "impl:TreeLike for &'a Miniscript<Pk, Ctx>/fn:nary_len", qual="&Miniscript", props=FN_PROPS)
        vf.fn(ITER, "impl:TreeLike for &'a Miniscript<Pk, Ctx>/fn:nary_index", qual="&Miniscript", props=FN_PROPS,
              rewrites=[lit("R7-std", "Arc::as_ref(", "arc_as_ref(")])
        vf.fn(ITER, "impl:TreeLike for &'a Miniscript<Pk, Ctx>/fn:as_node", qual="&Miniscript", props=FN_PROPS, rewrites=QUALIFY,
              contract=Contract(ensures=[
                  Clause("arity_kind", TRAVERSAL, "(r is Nullary ==> sub_exprs(self.node).len() == 0) && (r is Unary ==> sub_exprs(self.node).len() == 1) && (r is Binary ==> sub_exprs(self.node).len() == 2) && (r is Ternary ==> sub_exprs(self.node).len() == 3)"),
                  Clause("binary_left_then_right", TRAVERSAL, "r matches Tree::Binary(a, b) ==> *a == sub_exprs(self.node)[0] && *b == sub_exprs(self.node)[1]"),
                  Clause("ternary_in_order", TRAVERSAL, "r matches Tree::Ternary(a, b, c) ==> *a == sub_exprs(self.node)[0] && *b == sub_exprs(self.node)[1] && *c == sub_exprs(self.node)[2]"),
                  Clause("nary_is_thresh_subs", TRAVERSAL, "r matches Tree::Nary(d) ==> arc_seq(d@) == sub_exprs(self.node)"),
              ]))

    # ---- &'a Arc<Miniscript> ----------------------------------------------------------------------------------
    with vf.block(hdr % "Arc<Miniscript<Pk, Ctx>>"):
        vf.item(ITER, "impl:TreeLike for &'a Arc<Miniscript<Pk, Ctx>>/type:NaryChildren")
        vf.raw(spec_block(("ms_height(***self)", "lemma_sub_exprs_smaller(&***self, i);"),
                          "Seq::new(tc@.len(), |i: int| &tc@[i])",
                          "arc_children(*self)"))
        for f in ("nary_len", "nary_index"):
            vf.fn(ITER, "impl:TreeLike for &'a Arc<Miniscript<Pk, Ctx>>/fn:%s" % f, qual="&Arc<Miniscript>", props=FN_PROPS)
        vf.fn(ITER, "impl:TreeLike for &'a Arc<Miniscript<Pk, Ctx>>/fn:as_node", qual="&Arc<Miniscript>", props=FN_PROPS, rewrites=QUALIFY,
              contract=Contract(ensures=[
                  Clause("binary_left_then_right", TRAVERSAL, "r matches Tree::Binary(a, b) ==> **a == sub_exprs(self.node)[0] && **b == sub_exprs(self.node)[1]"),
                  Clause("ternary_in_order", TRAVERSAL, "r matches Tree::Ternary(a, b, c) ==> **a == sub_exprs(self.node)[0] && **b == sub_exprs(self.node)[1] && **c == sub_exprs(self.node)[2]"),
                  Clause("nary_is_thresh_subs", TRAVERSAL, "r matches Tree::Nary(d) ==> arc_seq(d@) == sub_exprs(self.node)"),
              ]))

    # ---- &'a Terminal -----------------------------------------------------------------------------------------
    with vf.block(hdr % "Terminal<Pk, Ctx>"):
        vf.item(ITER, "impl:TreeLike for &'a Terminal<Pk, Ctx>/type:NaryChildren")
        vf.raw(spec_block(("term_height(**self)", "lemma_term_smaller(*self, i);"),
                          "Seq::new(tc@.len(), |i: int| &tc@[i].node)",
                          "Seq::new(sub_exprs(**self).len(), |i: int| &sub_exprs(**self)[i].node)"))
        for f in ("nary_len", "nary_index"):
            vf.fn(ITER, "impl:TreeLike for &'a Terminal<Pk, Ctx>/fn:%s" % f, qual="&Terminal", props=FN_PROPS)
        vf.fn(ITER, "impl:TreeLike for &'a Terminal<Pk, Ctx>/fn:as_node", qual="&Terminal", props=FN_PROPS, rewrites=QUALIFY,
              contract=Contract(ensures=[
                  Clause("binary_left_then_right", TRAVERSAL, "r matches Tree::Binary(a, b) ==> *a == sub_exprs(**self)[0].node && *b == sub_exprs(**self)[1].node"),
                  Clause("ternary_in_order", TRAVERSAL, "r matches Tree::Ternary(a, b, c) ==> *a == sub_exprs(**self)[0].node && *b == sub_exprs(**self)[1].node && *c == sub_exprs(**self)[2].node"),
                  Clause("nary_is_thresh_subs", TRAVERSAL, "r matches Tree::Nary(d) ==> arc_seq(d@) == sub_exprs(**self)"),
              ]))
    vf.raw(EXTRA)
    return vf


EXTRA = r"""
// handles of the &Arc<Miniscript> implementation: references to the Arcs stored in the parent
spec fn arc_children<'a, Pk: MiniscriptKey, Ctx: ScriptContext>(m: &'a Arc<Miniscript<Pk, Ctx>>) -> Seq<&'a Arc<Miniscript<Pk, Ctx>>> {
    match m.node {
        Terminal::Alt(x) | Terminal::Swap(x) | Terminal::Check(x) | Terminal::DupIf(x) | Terminal::Verify(x)
        | Terminal::NonZero(x) | Terminal::ZeroNotEqual(x) => seq![&x],
        Terminal::AndV(x, y) | Terminal::AndB(x, y) | Terminal::OrB(x, y) | Terminal::OrD(x, y) | Terminal::OrC(x, y)
        | Terminal::OrI(x, y) => seq![&x, &y],
        Terminal::AndOr(x, y, z) => seq![&x, &y, &z],
        Terminal::Thresh(th) => Seq::new(th.inner@.len(), |i: int| &th.inner@[i]),
        _ => Seq::empty(),
    }
}
spec fn term_height<Pk: MiniscriptKey, Ctx: ScriptContext>(t: Terminal<Pk, Ctx>) -> nat {
    match t {
        Terminal::Alt(x) | Terminal::Swap(x) | Terminal::Check(x) | Terminal::DupIf(x) | Terminal::Verify(x)
        | Terminal::NonZero(x) | Terminal::ZeroNotEqual(x) => 1 + ms_height(*x),
        Terminal::AndV(x, y) | Terminal::AndB(x, y) | Terminal::OrB(x, y) | Terminal::OrD(x, y) | Terminal::OrC(x, y)
        | Terminal::OrI(x, y) => 1 + max2(ms_height(*x), ms_height(*y)),
        Terminal::AndOr(x, y, z) => 1 + max2(ms_height(*x), max2(ms_height(*y), ms_height(*z))),
        Terminal::Thresh(th) => 1 + ms_max(th.inner@, th.inner@.len()),
        _ => 0,
    }
}
proof fn lemma_term_smaller<Pk: MiniscriptKey, Ctx: ScriptContext>(t: &Terminal<Pk, Ctx>, i: int)
    requires 0 <= i < sub_exprs(*t).len(),
    ensures term_height(sub_exprs(*t)[i].node) < term_height(*t),
{
    if t is Thresh { lemma_ms_max(t->Thresh_0.inner@, t->Thresh_0.inner@.len(), i); }
    assert(term_height(sub_exprs(*t)[i].node) == ms_height(sub_exprs(*t)[i]));
}
"""
