"""C05 unit: every typing rule of types/{correctness,malleability,mod}.rs against the
specification's tables (contracts/oracle/types_spec.rs)."""
import os
import re

from vlib.verus import VerusFile, Contract, Clause, sub, lit, rule, Undecided, bool_ge, replace_arm
from units import _tree

NAME = "c05_types"
DROPPED = ["Correctness::threshold / Malleability::threshold: the generic iterator parameter is specialised to a slice and the `for` loop is rewritten to an index loop carrying the invariant (R8); the loop body is verbatim. Type::threshold (iterator adapters) and the Thresh arm of type_check are covered bounded by Kani (k05_thresh)"]
ENGINE = "verus"
PROPS = ("C05", "C11")
HERE = os.path.dirname(os.path.abspath(__file__))

CORR = "src/miniscript/types/correctness.rs"
MALL = "src/miniscript/types/malleability.rs"
TYPES = "src/miniscript/types/mod.rs"

ABS = r"""
// ---- abstraction functions: the library's enums -> the specification's letters --------------
pub open spec fn abs_base(b: Base) -> ABase {
    match b { Base::B => ABase::B, Base::V => ABase::V, Base::K => ABase::K, Base::W => ABase::W }
}
pub open spec fn in_z(i: Input) -> bool { i is Zero }
pub open spec fn in_o(i: Input) -> bool { i is One || i is OneNonZero }
pub open spec fn in_n(i: Input) -> bool { i is OneNonZero || i is AnyNonZero }
pub open spec fn abs_corr(c: Correctness) -> ACorr {
    ACorr { base: abs_base(c.base), z: in_z(c.input), o: in_o(c.input), n: in_n(c.input), d: c.dissatisfiable, u: c.unit }
}
pub open spec fn abs_mall(m: Malleability) -> AMall {
    AMall { e: m.dissat is Unique, f: m.dissat is None, s: m.signed, m: m.non_malleable }
}
// invariants every type produced by the rules satisfies (superset of the crate's sanity_checks)
pub open spec fn wf_corr(c: ACorr) -> bool {
    &&& (c.base == ABase::K ==> c.u && !c.z)
    &&& (c.base == ABase::V ==> !c.u && !c.d)
    &&& (c.base == ABase::W ==> !c.n && !c.z && !c.o)
    &&& !(c.z && c.o) && !(c.z && c.n)
}
pub open spec fn wf_mall(m: AMall) -> bool { !(m.e && m.f) }
pub open spec fn wf_type(c: ACorr, m: AMall) -> bool {
    &&& wf_corr(c) && wf_mall(m)
    &&& (c.d ==> !m.f)
    &&& (c.base == ABase::V ==> m.f)
    &&& (c.base == ABase::K ==> m.s)
    &&& (c.z ==> m.m && (c.d ==> m.s && m.e))
}
pub open spec fn wf_ty(t: Type) -> bool { wf_type(abs_corr(t.corr), abs_mall(t.mall)) }

// glue: derived PartialEq on the field-less enums is structural equality (assumption, listed)
impl vstd::std_specs::cmp::PartialEqSpecImpl for Base {
    open spec fn obeys_eq_spec() -> bool { true }
    open spec fn eq_spec(&self, other: &Base) -> bool { *self == *other }
}
impl vstd::std_specs::cmp::PartialEqSpecImpl for Input {
    open spec fn obeys_eq_spec() -> bool { true }
    open spec fn eq_spec(&self, other: &Input) -> bool { *self == *other }
}
impl vstd::std_specs::cmp::PartialEqSpecImpl for Dissat {
    open spec fn obeys_eq_spec() -> bool { true }
    open spec fn eq_spec(&self, other: &Dissat) -> bool { *self == *other }
}
"""

# (fn name, arity, spec name, conservative-exception) for Correctness rules returning Result
CORR_RULES = [
    ("cast_alt", 1, "alt"), ("cast_swap", 1, "swap"), ("cast_check", 1, "check"), ("cast_dupif", 1, "dupif"),
    ("cast_verify", 1, "verify"), ("cast_nonzero", 1, "nonzero"), ("cast_zeronotequal", 1, "zeronotequal"),
    ("cast_true", 1, "true"),
    ("and_b", 2, "and_b"), ("and_v", 2, "and_v"), ("or_b", 2, "or_b"), ("or_d", 2, "or_d"), ("or_c", 2, "or_c"),
    ("or_i", 2, "or_i"), ("and_or", 3, "and_or"),
]
CORR_LEAVES = [("pk_k", "pk_k"), ("pk_h", "pk_h"), ("multi", "multi"), ("sortedmulti", "multi"), ("multi_a", "multi_a"),
               ("sortedmulti_a", "multi_a"), ("hash", "hash"), ("time", "time")]
MALL_LEAVES = [("pk_k", "key"), ("pk_h", "key"), ("multi", "key"), ("sortedmulti", "key"), ("multi_a", "key"),
               ("sortedmulti_a", "key"), ("hash", "hash"), ("time", "time")]
MALL_RULES = [
    ("cast_alt", 1, "same"), ("cast_swap", 1, "same"), ("cast_check", 1, "same"), ("cast_dupif", 1, "dupif"),
    ("cast_verify", 1, "verify"), ("cast_nonzero", 1, "nonzero"), ("cast_zeronotequal", 1, "same"),
    ("cast_true", 1, "true_w"),
    ("and_b", 2, "and_b"), ("and_v", 2, "and_v"), ("or_b", 2, "or_b"), ("or_d", 2, "or_d"), ("or_c", 2, "or_c"),
    ("or_i", 2, "or_i"), ("and_or", 3, "and_or"),
]
TYPE_RULES = [
    ("cast_alt", 1, "alt", "same"), ("cast_swap", 1, "swap", "same"), ("cast_check", 1, "check", "same"),
    ("cast_dupif", 1, "dupif", "dupif"), ("cast_verify", 1, "verify", "verify"), ("cast_nonzero", 1, "nonzero", "nonzero"),
    ("cast_zeronotequal", 1, "zeronotequal", "same"), ("cast_true", 1, "true", "true_w"),
    ("cast_unlikely", 1, "unlikely", "unlikely"), ("cast_likely", 1, "likely", "likely"),
    ("and_b", 2, "and_b", "and_b"), ("and_v", 2, "and_v", "and_v"), ("or_b", 2, "or_b", "or_b"), ("or_d", 2, "or_d", "or_d"),
    ("or_c", 2, "or_c", "or_c"), ("or_i", 2, "or_i", "or_i"), ("and_or", 3, "and_or", "and_or"),
]
ARGS = {1: ["self"], 2: ["left", "right"], 3: ["a", "b", "c"]}


def oracle_text():
    with open(os.path.join(HERE, "..", "contracts", "oracle", "types_spec.rs")) as f:
        return f.read()


def corr_contract(fn, arity, spec):
    args = ARGS[arity]
    ax = ", ".join("abs_corr(%s)" % a for a in args)
    wf = " && ".join("wf_corr(abs_corr(%s))" % a for a in args)
    ens = [Clause("rejects_exactly", ("C05",), "r is Ok <==> spec_%s_ok(%s)" % (spec, ax))]
    if spec == "dupif":
        # deliberately conservative: `d:` is never `u` (2022 advisory) -- equal to the non-tapscript row,
        # and never stronger than either row
        ens.append(Clause("never_stronger", ("C05",), "r is Ok && %s ==> corr_leq(abs_corr(r->Ok_0), spec_dupif(%s, false)) && corr_leq(abs_corr(r->Ok_0), spec_dupif(%s, true))" % (wf, ax, ax)))
        ens.append(Clause("equals_table", ("C05",), "r is Ok && %s ==> abs_corr(r->Ok_0) == spec_dupif(%s, false)" % (wf, ax)))
    else:
        ens.append(Clause("never_stronger", ("C05",), "r is Ok && %s ==> corr_leq(abs_corr(r->Ok_0), spec_%s(%s))" % (wf, spec, ax)))
        ens.append(Clause("equals_table", ("C05",), "r is Ok && %s ==> abs_corr(r->Ok_0) == spec_%s(%s)" % (wf, spec, ax)))
    ens.append(Clause("wf_preserved", ("C05", "C11"), "r is Ok && %s ==> wf_corr(abs_corr(r->Ok_0))" % wf))
    return Contract(ensures=ens)


def mall_contract(fn, arity, spec):
    args = ARGS[arity]
    ax = ", ".join("abs_mall(%s)" % a for a in args)
    wf = " && ".join("wf_mall(abs_mall(%s))" % a for a in args)
    ens = [Clause("never_stronger", ("C05",), "%s ==> mall_leq(abs_mall(r), spec_mall_%s(%s))" % (wf, spec, ax))]
    if spec == "dupif":
        # equal to the table whenever the child has no dissatisfaction (always true for the V child d: needs)
        ens.append(Clause("equals_table", ("C05",), "%s && abs_mall(self).f ==> abs_mall(r) == spec_mall_dupif(%s)" % (wf, ax)))
    else:
        ens.append(Clause("equals_table", ("C05",), "%s ==> abs_mall(r) == spec_mall_%s(%s)" % (wf, spec, ax)))
    ens.append(Clause("wf_preserved", ("C05", "C11"), "%s ==> wf_mall(abs_mall(r))" % wf))
    return Contract(ensures=ens)


def type_contract(fn, arity, cspec, mspec):
    args = ARGS[arity]
    ac = ", ".join("abs_corr(%s.corr)" % a for a in args)
    am = ", ".join("abs_mall(%s.mall)" % a for a in args)
    wf = " && ".join("wf_ty(%s)" % a for a in args)
    cs = "spec_dupif(%s, false)" % ac if cspec == "dupif" else "spec_%s(%s)" % (cspec, ac)
    ens = [
        Clause("rejects_exactly", ("C05",), "r is Ok <==> spec_%s_ok(%s)" % (cspec, ac)),
        Clause("never_stronger", ("C05",), "r is Ok && %s ==> corr_leq(abs_corr(r->Ok_0.corr), %s) && mall_leq(abs_mall(r->Ok_0.mall), spec_mall_%s(%s))" % (wf, cs, mspec, am)),
        Clause("equals_table", ("C05",), "r is Ok && %s ==> abs_corr(r->Ok_0.corr) == %s && abs_mall(r->Ok_0.mall) == spec_mall_%s(%s)" % (wf, cs, mspec, am)),
        Clause("wf_preserved", ("C05", "C11"), "r is Ok && %s ==> wf_ty(r->Ok_0)" % wf),
    ]
    return Contract(ensures=ens)


def build(repo):
    vf = VerusFile(NAME, repo)
    vf.raw(re.sub(r"#\[derive\([^)]*\)\]\n", "", oracle_text()))
    vf.trust("PartialEqSpecImpl for Base/Input/Dissat", "derived PartialEq on field-less enums is structural equality")

    # --- types/correctness.rs -------------------------------------------------------------
    vf.item(CORR, "enum:Base")
    vf.item(CORR, "enum:Input")
    vf.item(CORR, "struct:Correctness")
    vf.item(MALL, "enum:Dissat")
    vf.item(MALL, "struct:Malleability")
    vf.item(TYPES, "enum:ErrorKind")
    vf.item(TYPES, "struct:Type")
    vf.raw(ABS)

    with vf.block("impl Input"):
        vf.fn(CORR, "impl:Input/fn:constfn_eq", qual="Input", props=PROPS,
              contract=Contract(ensures=[Clause("eq", ("C05",), "r == (self == other)")]))
        vf.fn(CORR, "impl:Input/fn:is_subtype", qual="Input", props=PROPS,
              contract=Contract(ensures=[Clause("subtype", ("C05",),
                  "r == ((in_z(other) ==> in_z(*self)) && (in_o(other) ==> in_o(*self)) && (in_n(other) ==> in_n(*self)))")]))
    with vf.block("impl Correctness"):
        vf.item(CORR, "impl:Correctness/const:TRUE")
        vf.item(CORR, "impl:Correctness/const:FALSE")
        vf.fn(CORR, "impl:Correctness/fn:is_subtype", qual="Correctness", props=PROPS, rewrites=[bool_ge("dissatisfiable", "unit")],
              contract=Contract(ensures=[Clause("subtype", ("C05",), "r == corr_leq(abs_corr(other), abs_corr(*self))")]))
        vf.fn(CORR, "impl:Correctness/fn:sanity_checks", qual="Correctness", props=("C11", "C05"),
              contract=Contract(requires=["wf_corr(abs_corr(*self))"]))
        for fn, spec in CORR_LEAVES:
            vf.fn(CORR, "impl:Correctness/fn:%s" % fn, qual="Correctness", props=PROPS,
                  contract=Contract(ensures=[Clause("equals_table", ("C05",), "abs_corr(r) == spec_corr_%s()" % spec),
                                             Clause("wf", ("C05", "C11"), "wf_corr(abs_corr(r))")]))
        for fn, ar, spec in CORR_RULES:
            vf.fn(CORR, "impl:Correctness/fn:%s" % fn, qual="Correctness", props=PROPS, contract=corr_contract(fn, ar, spec))
        # l:/u: share one rule in the code; it must be the table's row for BOTH or_i(0,X) and or_i(X,0)
        ax = "abs_corr(self)"
        vf.fn(CORR, "impl:Correctness/fn:cast_or_i_false", qual="Correctness", props=PROPS, contract=Contract(ensures=[
            Clause("rejects_exactly_l", ("C05",), "r is Ok <==> spec_likely_ok(%s)" % ax),
            Clause("rejects_exactly_u", ("C05",), "r is Ok <==> spec_unlikely_ok(%s)" % ax),
            Clause("equals_table_l", ("C05",), "r is Ok && wf_corr(%s) ==> abs_corr(r->Ok_0) == spec_likely(%s)" % (ax, ax)),
            Clause("equals_table_u", ("C05",), "r is Ok && wf_corr(%s) ==> abs_corr(r->Ok_0) == spec_unlikely(%s)" % (ax, ax)),
            Clause("wf_preserved", ("C05", "C11"), "r is Ok && wf_corr(%s) ==> wf_corr(abs_corr(r->Ok_0))" % ax),
        ]))
    vf.raw("""
proof fn const_corr_table()
    ensures abs_corr(Correctness::TRUE) == spec_corr_true(), abs_corr(Correctness::FALSE) == spec_corr_false(),
            abs_mall(Malleability::TRUE) == spec_mall_true(), abs_mall(Malleability::FALSE) == spec_mall_false(),
            wf_ty(Type::TRUE), wf_ty(Type::FALSE),
{}
""")
    vf.functions["const_corr_table"] = dict(props=PROPS, file=None, lines=None, clauses={}, start=vf._lines - 6, end=vf._lines, origin="verif")

    # --- types/malleability.rs ---------------------------------------------------------------
    with vf.block("impl Dissat"):
        vf.fn(MALL, "impl:Dissat/fn:constfn_eq", qual="Dissat", props=PROPS,
              contract=Contract(ensures=[Clause("eq", ("C05",), "r == (self == other)")]))
        vf.fn(MALL, "impl:Dissat/fn:is_subtype", qual="Dissat", props=PROPS,
              contract=Contract(ensures=[Clause("subtype", ("C05",),
                  "r == (((other is Unique) ==> (*self is Unique)) && ((other is None) ==> (*self is None)))")]))
    with vf.block("impl Malleability"):
        vf.item(MALL, "impl:Malleability/const:TRUE")
        vf.item(MALL, "impl:Malleability/const:FALSE")
        vf.fn(MALL, "impl:Malleability/fn:is_subtype", qual="Malleability", props=PROPS, rewrites=[bool_ge("signed", "non_malleable")],
              contract=Contract(ensures=[Clause("subtype", ("C05",), "r == mall_leq(abs_mall(other), abs_mall(*self))")]))
        for fn, spec in MALL_LEAVES:
            vf.fn(MALL, "impl:Malleability#1/fn:%s" % fn, qual="Malleability", props=PROPS,
                  contract=Contract(ensures=[Clause("equals_table", ("C05",), "abs_mall(r) == spec_mall_%s()" % spec)]))
        for fn, ar, spec in MALL_RULES:
            vf.fn(MALL, "impl:Malleability#1/fn:%s" % fn, qual="Malleability", props=PROPS, contract=mall_contract(fn, ar, spec))
        am = "abs_mall(self)"
        vf.fn(MALL, "impl:Malleability#1/fn:cast_or_i_false", qual="Malleability", props=PROPS, contract=Contract(ensures=[
            Clause("equals_table_l", ("C05",), "wf_mall(%s) ==> abs_mall(r) == spec_mall_likely(%s)" % (am, am)),
            Clause("equals_table_u", ("C05",), "wf_mall(%s) ==> abs_mall(r) == spec_mall_unlikely(%s)" % (am, am)),
            Clause("wf_preserved", ("C05", "C11"), "wf_mall(%s) ==> wf_mall(abs_mall(r))" % am),
        ]))

    # --- types/mod.rs: Type combinators ---------------------------------------------------------
    with vf.block("impl Type"):
        vf.item(TYPES, "impl:Type/const:TRUE")
        vf.item(TYPES, "impl:Type/const:FALSE")
        vf.fn(TYPES, "impl:Type/fn:is_subtype", qual="Type", props=PROPS, contract=Contract(ensures=[
            Clause("subtype", ("C05",), "r == (corr_leq(abs_corr(other.corr), abs_corr(self.corr)) && mall_leq(abs_mall(other.mall), abs_mall(self.mall)))")]))
        vf.fn(TYPES, "impl:Type/fn:sanity_checks", qual="Type", props=("C11", "C05"),
              contract=Contract(requires=["wf_ty(*self)"]))
        for (fn, cspec), (_, mspec) in zip(CORR_LEAVES, MALL_LEAVES):
            vf.fn(TYPES, "impl:Type/fn:%s" % fn, qual="Type", props=PROPS, contract=Contract(ensures=[
                Clause("equals_table", ("C05",), "abs_corr(r.corr) == spec_corr_%s() && abs_mall(r.mall) == spec_mall_%s()" % (cspec, mspec)),
                Clause("wf", ("C05", "C11"), "wf_ty(r)")]))
        for fn, ar, cspec, mspec in TYPE_RULES:
            vf.fn(TYPES, "impl:Type/fn:%s" % fn, qual="Type", props=PROPS, contract=type_contract(fn, ar, cspec, mspec))
    thresholds(vf)
    return vf




def counterexample(failure, repo_root):
    """Twin check for a failed rule clause: exhaustive enumeration of the rule's finite domain on the
    real crate built from the tree under check (always finds the input if there is one)."""
    from vlib import replay
    rule = failure["fn"]
    if not (rule.startswith("Correctness::") or rule.startswith("Malleability::")):
        rule = rule.replace("Type::", "Correctness::")
    rc, out = replay.run(repo_root, ["types", rule])
    lines = [l for l in out.split("\n") if l.startswith("COUNTEREXAMPLE")]
    if rc == 1 and lines:
        return dict(kind="exhaustive-enumeration", rule=rule, inputs=lines[:3], summary=[l for l in out.split("\n") if l.startswith("SEARCHED")])
    return None


def replay(rec, repo_root):
    from vlib import replay as R
    rc, out = R.run(repo_root, ["types", rec["counterexample"]["rule"]])
    print(out[-1500:])
    return rc == 1


# ---------------------------------------------------------------------------------------------------
# thresholds: Correctness::threshold / Malleability::threshold, unbounded in n (rule R8: the generic
# iterator parameter is specialised to a slice and the `for` loop becomes an index loop carrying the
# invariant; the loop BODY is verbatim)
# ---------------------------------------------------------------------------------------------------
def for_to_index_loop(for_prefix, slice_name, elem, index, declare_index, invariant, decreases):
    """R8: `for <pat> in <iter> { BODY }`  ->  `[let mut i = 0;] while i < s.len() invariant .. { let elem = &s[i]; BODY; i += 1; }`"""
    from vlib.extract import Region
    from vlib.verus import rule

    @rule("R8")
    def rw(text):
        reg = Region("<text>", text, 0, len(text))
        try:
            b = reg._find_block(for_prefix)
        except Exception:
            return None
        head = ("let mut %s: usize = 0;\n        " % index if declare_index else "") + \
               "while %s < %s.len()\n            invariant\n%s\n            decreases %s\n        {\n            let %s = &%s[%s];" % (
                   index, slice_name, invariant, decreases, elem, slice_name, index)
        body = text[b.start:b.end]
        # a `continue` of the for loop must still advance the index
        body = re.sub(r"\bcontinue\s*;", "{ %s += 1; continue; }" % index, body)
        return text[:b.stmt_start] + head + body + "    %s += 1;\n        }" % index + text[b.stmt_end:]
    return rw


THRESH_SPEC = r"""
// ---- thresh(k, X1..Xn): X1 is Bdu; others are Wdu -> B; z = all z; o = all z except one o; d; u ----
spec fn args_of(i: Input) -> int { if in_z(i) { 0 } else if in_o(i) { 1 } else { 2 } }
spec fn sum_args(s: Seq<Correctness>, n: int) -> int decreases n { if n <= 0 { 0 } else { sum_args(s, n - 1) + args_of(s[n - 1].input) } }
spec fn thresh_child_ok(j: int, c: Correctness) -> bool { (if j == 0 { c.base is B } else { c.base is W }) && c.unit && c.dissatisfiable }
// "all are z" / "all are z except one, which is o", by recursion on the number of children
spec fn all_z(s: Seq<Correctness>, n: int) -> bool decreases n { n <= 0 || (all_z(s, n - 1) && in_z(s[n - 1].input)) }
spec fn one_o_rest_z(s: Seq<Correctness>, n: int) -> bool decreases n {
    n > 0 && ((one_o_rest_z(s, n - 1) && in_z(s[n - 1].input)) || (all_z(s, n - 1) && in_o(s[n - 1].input)))
}
proof fn lemma_sum_args(s: Seq<Correctness>, n: int)
    requires 0 <= n <= s.len(),
    ensures sum_args(s, n) >= 0, sum_args(s, n) <= 2 * n, sum_args(s, n) == 0 <==> all_z(s, n), sum_args(s, n) == 1 <==> one_o_rest_z(s, n),
    decreases n,
{
    if n > 0 { lemma_sum_args(s, n - 1); }
}
// malleability of thresh: s = at most k-1 children are not s; e = all e and all s; m = all e, all m, at most k not s
spec fn count_signed(s: Seq<Malleability>, n: int) -> int decreases n { if n <= 0 { 0 } else { count_signed(s, n - 1) + (if s[n - 1].signed { 1int } else { 0int }) } }
spec fn all_signed(s: Seq<Malleability>, n: int) -> bool decreases n { n <= 0 || (all_signed(s, n - 1) && s[n - 1].signed) }
spec fn all_e(s: Seq<Malleability>, n: int) -> bool decreases n { n <= 0 || (all_e(s, n - 1) && s[n - 1].dissat is Unique) }
spec fn all_m(s: Seq<Malleability>, n: int) -> bool decreases n { n <= 0 || (all_m(s, n - 1) && s[n - 1].non_malleable) }
proof fn lemma_count_signed(s: Seq<Malleability>, n: int)
    requires 0 <= n <= s.len(),
    ensures 0 <= count_signed(s, n) <= n, count_signed(s, n) == n <==> all_signed(s, n),
    decreases n,
{
    if n > 0 { lemma_count_signed(s, n - 1); }
}
"""


def thresholds(vf):
    vf.raw(THRESH_SPEC)
    inv_c = """                %s <= subs.len(), subs.len() < 0x3fff_ffff,
                num_args == sum_args(subs@, %s as int), 0 <= num_args <= 2 * %s,
                forall|j: int| 0 <= j < %s ==> thresh_child_ok(j, #[trigger] subs@[j]),""" % ("i", "i", "i", "i")
    with vf.block("impl Correctness"):
        vf.fn(CORR, "impl:Correctness/fn:threshold", qual="Correctness", props=PROPS, rewrites=[
            sub("R8-slice", r"threshold<'a, I>\(_k: usize, subs: I\) -> Result<Self, ErrorKind>\s*where\s*I: Iterator<Item = &'a Self>,", "threshold(_k: usize, subs: &[Self]) -> Result<Self, ErrorKind>", flags=re.S),
            for_to_index_loop("for (i, subtype) in subs.enumerate()", "subs", "subtype", "i", True, inv_c, "subs.len() - i"),
            lit("R10", "Ok(Self {", "proof { lemma_sum_args(subs@, subs.len() as int); }\n        Ok(Self {"),
            lit("R10-lemma-in-loop", "num_args += match subtype.input {", "proof { lemma_sum_args(subs@, i as int); }\n            num_args += match subtype.input {"),
        ], contract=Contract(
            requires=["subs.len() < 0x3fff_ffff"],
            ensures=[
                Clause("rejects_exactly", ("C05",), "r is Ok <==> (forall|j: int| 0 <= j < subs.len() ==> thresh_child_ok(j, #[trigger] subs@[j]))"),
                Clause("equals_table", ("C05",), "r is Ok ==> abs_corr(r->Ok_0) == (ACorr { base: ABase::B, z: all_z(subs@, subs.len() as int), o: one_o_rest_z(subs@, subs.len() as int), n: false, d: true, u: true })"),
                Clause("wf_preserved", ("C05", "C11"), "r is Ok ==> wf_corr(abs_corr(r->Ok_0))"),
            ]))
    inv_m = """                i <= subs.len(), n == subs.len(),
                signed_count == count_signed(subs@, i as int), signed_count <= i,
                all_are_dissat_unique == all_e(subs@, i as int), all_are_non_malleable == all_m(subs@, i as int),"""
    with vf.block("impl Malleability"):
        vf.fn(MALL, "impl:Malleability#1/fn:threshold", qual="Malleability", props=PROPS, rewrites=[
            sub("R8-slice", r"threshold<'a, I>\(k: usize, subs: I\) -> Self\s*where\s*I: ExactSizeIterator<Item = &'a Self>,", "threshold(k: usize, subs: &[Self]) -> Self", flags=re.S),
            for_to_index_loop("for subtype in subs", "subs", "subtype", "i", True, inv_m, "subs.len() - i"),
            lit("R12-usize-from-bool", "usize::from(subtype.signed)", "(if subtype.signed { 1usize } else { 0usize })"),
            sub("R5", r"all_are_dissat_unique &= subtype\.dissat == Dissat::Unique;", "all_are_dissat_unique = all_are_dissat_unique && (subtype.dissat == Dissat::Unique);"),
            sub("R5", r"all_are_non_malleable &= subtype\.non_malleable;", "all_are_non_malleable = all_are_non_malleable && subtype.non_malleable;"),
            lit("R10", "signed_count += ", "proof { lemma_count_signed(subs@, i as int); }\n            signed_count += "),
            sub("R10", r"\n(\s*)Self \{\n(\s*)dissat: if all_are_dissat_unique", r"\n\1proof { lemma_count_signed(subs@, n as int); }\n\1Self {\n\2dissat: if all_are_dissat_unique"),
        ], contract=Contract(
            requires=["1 <= k <= subs.len()"],
            ensures=[
                Clause("equals_table", ("C05",), "abs_mall(r) == (AMall { e: all_e(subs@, subs.len() as int) && all_signed(subs@, subs.len() as int), f: false, s: subs.len() - count_signed(subs@, subs.len() as int) <= k - 1, m: all_e(subs@, subs.len() as int) && all_m(subs@, subs.len() as int) && subs.len() - count_signed(subs@, subs.len() as int) <= k })"),
                Clause("wf_preserved", ("C05", "C11"), "wf_mall(abs_mall(r))"),
            ]))
