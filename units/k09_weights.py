"""C09, descriptor level: `varint_len` against Bitcoin's CompactSize (complete, all usize) and the key-only
`max_weight_to_satisfy` formulas -- Wpkh, Pkh (compressed / uncompressed), Sh(Wpkh) -- against the BIP141/BIP144
transaction serialization (Kani, complete: loop-free, the only input is the key's compressedness).
No secp256k1 is involved (one-bit key type).

NOT covered (tried, infeasible in the budget): `Wsh / Bare / Sh(ms) / Sh(wsh)::max_weight_to_satisfy` need a
`Miniscript` value; even a one-node tree built with `Miniscript::from_components_unchecked` and symbolic figures did not
finish in 20 min / 5 GB per harness under CBMC (tree iterator + drop glue of the recursive `Terminal`).
`Tr::max_weight_to_satisfy` holds a `Mutex<Option<Arc<..>>>` and iterates a `TapTree`.  Those formulas were read against
the serialization rules by hand (no deviation found) and are exercised concretely by the reproductions in the report.
"""
import os
import re

NAME = "k09_weights"
ENGINE = "kani"
PROPS = ("C09", "C11")
INJECT = [("src/util.rs", "contracts/kani/k09_varint.rs"),
          ("src/descriptor/segwitv0.rs", "contracts/kani/k09_w_segwitv0.rs"),
          ("src/descriptor/bare.rs", "contracts/kani/k09_w_bare.rs"),
          ("src/descriptor/sh.rs", "contracts/kani/k09_w_sh.rs")]
TRUSTED = [
    "one-bit key type K{unc} (parametricity in Pk: the formulas only call is_uncompressed / Ctx::pk_len)",
    "ECDSA signature element = 73 bytes (the crate's documented unit)",
]
DROPPED = ["Wsh / Bare / Sh(ms) / Sh(wsh) / Tr ::max_weight_to_satisfy not covered (Miniscript / TapTree values are out of Kani's reach in the budget)"]


def _harnesses():
    root = os.path.dirname(os.path.dirname(os.path.abspath(__file__)))
    out = []
    for rel, h in INJECT:
        src = re.sub(r"//[^\n]*", "", open(os.path.join(root, h)).read())
        parts = re.split(r"#\[kani::proof\]", src)[1:]
        for p in parts:
            nm = re.search(r"fn (\w+)", p).group(1)
            tags = []
            for t in re.findall(r"\"(C09:[\w.\-]+)\"", p):
                if t not in tags:
                    tags.append(t)
            complete = True
            d = dict(name=nm, props=("C09", "C11"), tier="quick", tags=tags,
                     fn={"c09_varint_len": "varint_len", "c09_wsh_weight": "Wsh::max_weight_to_satisfy", "c09_wpkh_weight": "Wpkh::max_weight_to_satisfy",
                         "c09_bare_weight": "Bare::max_weight_to_satisfy", "c09_pkh_weight": "Pkh::max_weight_to_satisfy"}.get(nm, "Sh::max_weight_to_satisfy"),
                     kind="complete" if complete else "bounded")
            if not complete:
                d["bound"] = "one-leaf script after(n) with symbolic n; static figures fully symbolic (< 2^40)"
            out.append(d)
    return out


HARNESSES = _harnesses()

if __name__ == "__main__":
    for h in HARNESSES:
        print(h["name"], h["kind"], h["tags"])
