"""C13, output-type dispatch: `from_txdata` (src/interpreter/inner.rs) -- the function that looks at
(scriptPubKey, scriptSig, witness), recognises the output type, enforces the emptiness rules, checks the hash
commitments and hands the remaining stack + the script to the miniscript evaluator -- against the SPENDING RULES OF
BITCOIN CONSENSUS for the standard output types (BIP16, BIP141, BIP143, BIP341), written here per output type.

What is real text: `from_txdata`, `pk_from_slice`, `pk_from_stack_elem`, `script_from_stack_elem`, `enum Inner`,
`enum PubkeyType`, `enum ScriptType`, `enum BitcoinKey` + its two `From` impls, `enum Element`, `struct Stack`,
`Stack::{is_empty,len,pop,last}` + `From<Vec<Element>>`, `Element::as_push`.
What is a stub (trusted, listed): the bitcoin types.  `Script` (= `ScriptBuf`) is an opaque value with a byte view;
the template predicates `is_p2pk/is_p2pkh/...` and the constructors `new_p2pkh/...` are tied to BYTE-LEVEL TEMPLATES
written from the BIPs (stronger than uninterpreted predicates with an exclusivity axiom: exclusivity and the
template lengths needed by the slicing are then proved, not assumed).  HASH160 / SHA256, public-key validity,
control-block verification and `Miniscript::decode_consensus` are uninterpreted (partial) functions.

Vocabulary of the oracle: `ssig_items(scriptSig bytes)` = Some(byte strings the scriptSig pushes) when it is push-only
(BIP16 requires that for P2SH; the interpreter requires it everywhere), `witness.items()` = the witness stack,
`spk.bytes()`.  The result `(inner, stack, script_code)` is related to them by `full_key_is / xonly_key_is / script_is /
stack_is / code_is`.
"""
import re

from vlib import verus as _verus
from vlib.verus import VerusFile, Contract, Clause, sub, lit
from units.c13_iter_step import stack_contracts, STACK

NAME = "c13_from_txdata"
ENGINE = "verus"
PROPS = ("C13", "C11")
INNER = "src/interpreter/inner.rs"
MOD = "src/interpreter/mod.rs"
DROPPED = [
    "from_txdata: the two iterator chains that build the stacks (`script_sig.instructions_minimal().map(Element::from_instruction).collect()?`, `witness.iter().map(Element::from).collect()`) are replaced by the stubs script_sig_stack / witness_stack (R9 on two expressions); `Element::from` / `from_instruction` themselves are checked by Kani in k13_interp",
    "from_txdata: `spk[1..spk.len() - 1]` / `spk[2..]` (core::ops::Index on bitcoin::Script) are rewritten to the stub methods index_range / index_from whose preconditions are the slice-panic conditions (R7); `slice == X.as_bytes()` (PartialEq on [u8]) to slice_eq (R7)",
    "from_txdata: the two closures of the annex test get a type ascription and an `ensures` (R10, ghost + types only); `.map_err(|_| E)` -> `.map_err(|_e| E)`, `.map_err(Error::ControlBlockParse)` -> eta-expanded closure (Verus: no wildcard closure params, no constructor as fn value)",
    "Miniscript is opaque: decode_consensus / encode / to_no_checks_ms are uninterpreted; `to_no_checks_ms().expect(\"Translation should succeed\")` is not looked at (C20 covers translate_pk_ctx)",
    "the scriptPubKey hash of p2wsh / sh-wsh / tr / sh is compared with the hash of the RE-ENCODED miniscript (`miniscript.encode()`), not of the provided bytes: the clauses *_is_of_the_provided_bytes hold only under the trusted axiom decode(b) = Some(ms) ==> encode(ms) = b (C04 canonical decoding; findings F3 and F20 were violations of exactly this)",
]

PRELUDE = r"""
use core::marker::PhantomData;

// ================= stubs of the bitcoin crate (trusted, R7) ============================================
pub mod hash160 { use vstd::prelude::*; verus!{ #[derive(Clone, Copy)] pub struct Hash(pub [u8; 20]); } }
pub mod sha256 { use vstd::prelude::*; verus!{ #[derive(Clone, Copy)] pub struct Hash(pub [u8; 32]); } }
pub uninterp spec fn spec_hash160(d: Seq<u8>) -> hash160::Hash;
pub uninterp spec fn spec_sha256(d: Seq<u8>) -> sha256::Hash;
impl hash160::Hash { #[verifier::external_body] pub fn hash(d: &[u8]) -> (r: hash160::Hash) ensures r == spec_hash160(d@) { unimplemented!() } }
impl sha256::Hash { #[verifier::external_body] pub fn hash(d: &[u8]) -> (r: sha256::Hash) ensures r == spec_sha256(d@) { unimplemented!() } }
pub open spec fn h160(d: Seq<u8>) -> Seq<u8> { spec_hash160(d).0@ }
pub open spec fn h256(d: Seq<u8>) -> Seq<u8> { spec_sha256(d).0@ }

// the four hash newtypes of bitcoin: conversions keep the bytes
pub struct PubkeyHash(pub [u8; 20]);
pub struct WPubkeyHash(pub [u8; 20]);
pub struct ScriptHash(pub [u8; 20]);
pub struct WScriptHash(pub [u8; 32]);
impl From<hash160::Hash> for PubkeyHash { fn from(h: hash160::Hash) -> (r: PubkeyHash) { PubkeyHash(h.0) } }
impl vstd::std_specs::convert::FromSpecImpl<hash160::Hash> for PubkeyHash { open spec fn obeys_from_spec() -> bool { true } open spec fn from_spec(h: hash160::Hash) -> PubkeyHash { PubkeyHash(h.0) } }
impl From<hash160::Hash> for WPubkeyHash { fn from(h: hash160::Hash) -> (r: WPubkeyHash) { WPubkeyHash(h.0) } }
impl vstd::std_specs::convert::FromSpecImpl<hash160::Hash> for WPubkeyHash { open spec fn obeys_from_spec() -> bool { true } open spec fn from_spec(h: hash160::Hash) -> WPubkeyHash { WPubkeyHash(h.0) } }
impl From<hash160::Hash> for ScriptHash { fn from(h: hash160::Hash) -> (r: ScriptHash) { ScriptHash(h.0) } }
impl vstd::std_specs::convert::FromSpecImpl<hash160::Hash> for ScriptHash { open spec fn obeys_from_spec() -> bool { true } open spec fn from_spec(h: hash160::Hash) -> ScriptHash { ScriptHash(h.0) } }
impl From<sha256::Hash> for WScriptHash { fn from(h: sha256::Hash) -> (r: WScriptHash) { WScriptHash(h.0) } }
impl vstd::std_specs::convert::FromSpecImpl<sha256::Hash> for WScriptHash { open spec fn obeys_from_spec() -> bool { true } open spec fn from_spec(h: sha256::Hash) -> WScriptHash { WScriptHash(h.0) } }

// ---- byte-level script templates (Bitcoin's standard templates; BIP16, BIP141, BIP341) -----------------
pub open spec fn is_p2pk_t(b: Seq<u8>) -> bool { (b.len() == 35 && b[0] == 33 && b[34] == 0xac) || (b.len() == 67 && b[0] == 65 && b[66] == 0xac) }
pub open spec fn is_p2pkh_t(b: Seq<u8>) -> bool { b.len() == 25 && b[0] == 0x76 && b[1] == 0xa9 && b[2] == 0x14 && b[23] == 0x88 && b[24] == 0xac }
pub open spec fn is_p2sh_t(b: Seq<u8>) -> bool { b.len() == 23 && b[0] == 0xa9 && b[1] == 0x14 && b[22] == 0x87 }
pub open spec fn is_p2wpkh_t(b: Seq<u8>) -> bool { b.len() == 22 && b[0] == 0x00 && b[1] == 0x14 }     // BIP141: version 0, 20-byte program
pub open spec fn is_p2wsh_t(b: Seq<u8>) -> bool { b.len() == 34 && b[0] == 0x00 && b[1] == 0x20 }      // BIP141: version 0, 32-byte program
pub open spec fn is_p2tr_t(b: Seq<u8>) -> bool { b.len() == 34 && b[0] == 0x51 && b[1] == 0x20 }       // BIP341: version 1, 32-byte program
pub open spec fn is_witness_program_t(b: Seq<u8>) -> bool { 4 <= b.len() <= 42 && (b[0] == 0 || 0x51 <= b[0] <= 0x60) && b[1] as int == b.len() - 2 }
pub open spec fn is_bare_t(b: Seq<u8>) -> bool { !is_p2pk_t(b) && !is_p2pkh_t(b) && !is_p2wpkh_t(b) && !is_p2wsh_t(b) && !is_p2tr_t(b) && !is_p2sh_t(b) }
pub open spec fn p2pkh_script(h: Seq<u8>) -> Seq<u8> { seq![0x76u8, 0xa9u8, 0x14u8] + h + seq![0x88u8, 0xacu8] }   // DUP HASH160 <h> EQUALVERIFY CHECKSIG
pub open spec fn p2sh_script(h: Seq<u8>) -> Seq<u8> { seq![0xa9u8, 0x14u8] + h + seq![0x87u8] }                     // HASH160 <h> EQUAL
pub open spec fn p2wpkh_script(h: Seq<u8>) -> Seq<u8> { seq![0x00u8, 0x14u8] + h }                                  // 0 <20 bytes>
pub open spec fn p2wsh_script(h: Seq<u8>) -> Seq<u8> { seq![0x00u8, 0x20u8] + h }                                   // 0 <32 bytes>

// bitcoin::Script / bitcoin::ScriptBuf: one opaque value type with a byte view
pub struct Script { pub opaque: u64 }
pub type ScriptBuf = Script;
impl Script {
    pub uninterp spec fn bytes(&self) -> Seq<u8>;
    #[verifier::external_body] pub fn is_p2pk(&self) -> (r: bool) ensures r == is_p2pk_t(self.bytes()) { unimplemented!() }
    #[verifier::external_body] pub fn is_p2pkh(&self) -> (r: bool) ensures r == is_p2pkh_t(self.bytes()) { unimplemented!() }
    #[verifier::external_body] pub fn is_p2wpkh(&self) -> (r: bool) ensures r == is_p2wpkh_t(self.bytes()) { unimplemented!() }
    #[verifier::external_body] pub fn is_p2wsh(&self) -> (r: bool) ensures r == is_p2wsh_t(self.bytes()) { unimplemented!() }
    #[verifier::external_body] pub fn is_p2tr(&self) -> (r: bool) ensures r == is_p2tr_t(self.bytes()) { unimplemented!() }
    #[verifier::external_body] pub fn is_p2sh(&self) -> (r: bool) ensures r == is_p2sh_t(self.bytes()) { unimplemented!() }
    #[verifier::external_body] pub fn len(&self) -> (r: usize) ensures r == self.bytes().len() { unimplemented!() }
    #[verifier::external_body] pub fn is_empty(&self) -> (r: bool) ensures r == (self.bytes().len() == 0) { unimplemented!() }
    // BIP141 witness program: 4..=42 bytes, version opcode OP_0 / OP_1..OP_16, then ONE direct push of the remaining 2..=40 bytes
    #[verifier::external_body] pub fn is_witness_program(&self) -> (r: bool) ensures r == is_witness_program_t(self.bytes()) { unimplemented!() }
    #[verifier::external_body] pub fn to_bytes(&self) -> (r: Vec<u8>) ensures r@ == self.bytes() { unimplemented!() }
    #[verifier::external_body] pub fn as_bytes(&self) -> (r: &[u8]) ensures r@ == self.bytes() { unimplemented!() }
    #[verifier::external_body] pub fn to_owned(&self) -> (r: ScriptBuf) ensures r.bytes() == self.bytes() { unimplemented!() }
    #[verifier::external_body] pub fn from_bytes(b: &[u8]) -> (r: &Script) ensures r.bytes() == b@ { unimplemented!() }
    // `script[lo..hi]` / `script[lo..]`: the preconditions are the panic conditions of slice indexing
    #[verifier::external_body] pub fn index_range(&self, lo: usize, hi: usize) -> (r: &Script) requires lo <= hi, hi <= self.bytes().len() ensures r.bytes() == self.bytes().subrange(lo as int, hi as int) { unimplemented!() }
    #[verifier::external_body] pub fn index_from(&self, lo: usize) -> (r: &Script) requires lo <= self.bytes().len() ensures r.bytes() == self.bytes().subrange(lo as int, self.bytes().len() as int) { unimplemented!() }
    #[verifier::external_body] pub fn new_p2pkh(h: &PubkeyHash) -> (r: ScriptBuf) ensures r.bytes() == p2pkh_script(h.0@) { unimplemented!() }
    #[verifier::external_body] pub fn new_p2wpkh(h: &WPubkeyHash) -> (r: ScriptBuf) ensures r.bytes() == p2wpkh_script(h.0@) { unimplemented!() }
    #[verifier::external_body] pub fn new_p2wsh(h: &WScriptHash) -> (r: ScriptBuf) ensures r.bytes() == p2wsh_script(h.0@) { unimplemented!() }
    #[verifier::external_body] pub fn new_p2sh(h: &ScriptHash) -> (r: ScriptBuf) ensures r.bytes() == p2sh_script(h.0@) { unimplemented!() }
}
impl PartialEq for Script { #[verifier::external_body] fn eq(&self, o: &Script) -> (r: bool) { unimplemented!() } }
impl vstd::std_specs::cmp::PartialEqSpecImpl for Script { open spec fn obeys_eq_spec() -> bool { true } open spec fn eq_spec(&self, o: &Script) -> bool { self.bytes() == o.bytes() } }
#[verifier::external_body]
pub fn slice_eq(a: &[u8], b: &[u8]) -> (r: bool) ensures r == (a@ == b@) { unimplemented!() }

// keys.  valid_pubkey: secp256k1 accepts the encoding AND (bitcoin::PublicKey::from_slice) it is 33 bytes or 65 bytes with
// prefix 04 (hybrid 06/07 encodings are refused there), so that the parsed key serialises back to the same bytes
pub uninterp spec fn on_curve_encoding(b: Seq<u8>) -> bool;
pub open spec fn valid_pubkey(b: Seq<u8>) -> bool { (b.len() == 33 || b.len() == 65) && on_curve_encoding(b) }
pub uninterp spec fn valid_xonly(b: Seq<u8>) -> bool;
pub struct PublicKey { pub compressed: bool, pub point: u64 }
pub struct KeyError { pub opaque: u8 }
#[derive(Clone, Copy)]
pub struct XOnlyPublicKey { pub x: u64 }
#[derive(Clone, Copy)]
pub enum SigType { Ecdsa, Schnorr }
impl PublicKey {
    pub uninterp spec fn ser(&self) -> Seq<u8>;
    #[verifier::external_body]
    pub fn from_slice(data: &[u8]) -> (r: Result<PublicKey, KeyError>)
        ensures r is Ok <==> valid_pubkey(data@), r is Ok ==> r->Ok_0.ser() == data@ && r->Ok_0.compressed == (data@.len() == 33),
    { unimplemented!() }
    // ToPublicKey::to_pubkeyhash(SigType::Ecdsa) = hash160 of the key's serialisation
    #[verifier::external_body]
    pub fn to_pubkeyhash(&self, sig_type: SigType) -> (r: hash160::Hash) ensures sig_type is Ecdsa ==> r == spec_hash160(self.ser()) { unimplemented!() }
}
impl XOnlyPublicKey {
    pub uninterp spec fn ser(&self) -> Seq<u8>;
    #[verifier::external_body]
    pub fn from_slice(data: &[u8]) -> (r: Result<XOnlyPublicKey, KeyError>)
        ensures r is Ok <==> valid_xonly(data@), r is Ok ==> r->Ok_0.ser() == data@,
    { unimplemented!() }
}
pub struct Secp256k1 { pub opaque: u8 }
impl Secp256k1 { #[verifier::external_body] pub fn verification_only() -> Secp256k1 { unimplemented!() } }

// ---- BIP341 script-path commitment (the ORACLE; hashes and the curve tweak uninterpreted) ------------------
// control block c = [ (leaf version | parity bit), p (32 bytes), e_0 .. e_{m-1} (32 bytes each) ], m <= 128.
//   k_0 = hash_TapLeaf(v || compact_size(len s) || s)            with v = c[0] & 0xfe
//   k_{j+1} = hash_TapBranch(sorted(k_j, e_j))
//   t = hash_TapTweak(p || k_m),  Q = lift_x(p) + t.G
//   "If q != x(Q) or c[0] & 1 != y(Q) mod 2, fail."
pub open spec fn cb_size_ok(n: nat) -> bool { n >= 33 && (n - 33) % 32 == 0 && (n - 33) / 32 <= 128 }
pub uninterp spec fn spec_cb_decodes(c: Seq<u8>) -> bool;
pub uninterp spec fn tapleaf_hash(v: u8, s: Seq<u8>) -> Seq<u8>;
pub uninterp spec fn tapbranch_hash(k: Seq<u8>, e: Seq<u8>) -> Seq<u8>;         // of the lexicographically sorted pair
pub uninterp spec fn taptweak_x(p: Seq<u8>, root: Seq<u8>) -> Seq<u8>;          // x(Q)
pub uninterp spec fn taptweak_odd(p: Seq<u8>, root: Seq<u8>) -> bool;           // y(Q) mod 2 == 1
pub open spec fn cb_leaf_version(c: Seq<u8>) -> u8 { c[0] & 0xfeu8 }
pub open spec fn cb_parity_odd(c: Seq<u8>) -> bool { (c[0] & 1u8) == 1u8 }
pub open spec fn cb_internal_key(c: Seq<u8>) -> Seq<u8> { c.subrange(1, 33) }
pub open spec fn cb_branch(c: Seq<u8>) -> Seq<Seq<u8>> { Seq::new(((c.len() - 33) / 32) as nat, |j: int| c.subrange(33 + 32 * j, 65 + 32 * j)) }
// k_i: the node reached after folding the first i siblings into k_0
pub open spec fn merkle_prefix(k0: Seq<u8>, branch: Seq<Seq<u8>>, i: int) -> Seq<u8>
    decreases i
{ if i <= 0 { k0 } else { tapbranch_hash(merkle_prefix(k0, branch, i - 1), branch[i - 1]) } }
pub open spec fn merkle_root(k0: Seq<u8>, branch: Seq<Seq<u8>>) -> Seq<u8> { merkle_prefix(k0, branch, branch.len() as int) }
pub open spec fn commitment_ok(c: Seq<u8>, q: Seq<u8>, s: Seq<u8>) -> bool {
    let root = merkle_root(tapleaf_hash(cb_leaf_version(c), s), cb_branch(c));
    taptweak_x(cb_internal_key(c), root) == q && taptweak_odd(cb_internal_key(c), root) == cb_parity_odd(c)
}
pub const TAPROOT_ANNEX_PREFIX: u8 = 0x50;
#[derive(Clone, Copy)]
pub struct LeafVersion { pub v: u8 }
impl LeafVersion { pub open spec fn consensus(&self) -> u8 { self.v } }
#[derive(Clone, Copy, PartialEq, Eq)]
pub enum Parity { Even, Odd }
impl vstd::std_specs::cmp::PartialEqSpecImpl for Parity { open spec fn obeys_eq_spec() -> bool { true } open spec fn eq_spec(&self, o: &Parity) -> bool { *self == *o } }
#[derive(Clone, Copy)]
pub struct TapLeafHash(pub [u8; 32]);
#[derive(Clone, Copy)]
pub struct TapNodeHash(pub [u8; 32]);
impl TapLeafHash {
    #[verifier::external_body]
    pub fn from_script(script: &Script, ver: LeafVersion) -> (r: TapLeafHash) ensures r.0@ == tapleaf_hash(ver.consensus(), script.bytes()) { unimplemented!() }
}
impl From<TapLeafHash> for TapNodeHash { fn from(l: TapLeafHash) -> (r: TapNodeHash) { TapNodeHash(l.0) } }
impl vstd::std_specs::convert::FromSpecImpl<TapLeafHash> for TapNodeHash { open spec fn obeys_from_spec() -> bool { true } open spec fn from_spec(l: TapLeafHash) -> TapNodeHash { TapNodeHash(l.0) } }
impl TapNodeHash {
    #[verifier::external_body]
    pub fn from_node_hashes(a: TapNodeHash, b: TapNodeHash) -> (r: TapNodeHash) ensures r.0@ == tapbranch_hash(a.0@, b.0@) { unimplemented!() }
    #[verifier::external_body]
    pub fn from_script(script: &Script, ver: LeafVersion) -> (r: TapNodeHash) ensures r.0@ == tapleaf_hash(ver.consensus(), script.bytes()) { unimplemented!() }
}
pub struct TaprootMerkleBranch { pub opaque: u64 }
impl TaprootMerkleBranch {
    pub uninterp spec fn nodes(&self) -> Seq<Seq<u8>>;
    #[verifier::external_body] pub fn len(&self) -> (r: usize) ensures r == self.nodes().len() { unimplemented!() }
    // element access of the slice iteration (see the fold rewrite R8)
    #[verifier::external_body] pub fn node_at(&self, i: usize) -> (r: &TapNodeHash) requires i < self.nodes().len() ensures r.0@ == self.nodes()[i as int] { unimplemented!() }
}
// bitcoin::key::TweakedPublicKey(XOnlyPublicKey); TapTweak::tap_tweak = (x(Q), parity of Q)
#[derive(Clone, Copy)]
pub struct TweakedPublicKey(pub XOnlyPublicKey);
impl From<TweakedPublicKey> for XOnlyPublicKey { fn from(t: TweakedPublicKey) -> (r: XOnlyPublicKey) { t.0 } }
impl vstd::std_specs::convert::FromSpecImpl<TweakedPublicKey> for XOnlyPublicKey { open spec fn obeys_from_spec() -> bool { true } open spec fn from_spec(t: TweakedPublicKey) -> XOnlyPublicKey { t.0 } }
impl TweakedPublicKey {
    pub fn to_inner(self) -> (r: XOnlyPublicKey) ensures r == self.0 { self.0 }
    pub fn to_x_only_public_key(self) -> (r: XOnlyPublicKey) ensures r == self.0 { self.0 }
    #[verifier::external_body] pub fn serialize(&self) -> (r: [u8; 32]) ensures r@ == self.0.ser() { unimplemented!() }
}
impl XOnlyPublicKey {
    #[verifier::external_body]
    pub fn tap_tweak(self, secp: &Secp256k1, merkle_root: Option<TapNodeHash>) -> (r: (TweakedPublicKey, Parity))
        ensures merkle_root is Some ==> r.0.0.ser() == taptweak_x(self.ser(), merkle_root->Some_0.0@) && (r.1 is Odd) == taptweak_odd(self.ser(), merkle_root->Some_0.0@),
    { unimplemented!() }
    #[verifier::external_body] pub fn serialize(&self) -> (r: [u8; 32]) ensures r@ == self.ser() { unimplemented!() }
}
impl PartialEq for XOnlyPublicKey { #[verifier::external_body] fn eq(&self, o: &XOnlyPublicKey) -> (r: bool) { unimplemented!() } }
impl vstd::std_specs::cmp::PartialEqSpecImpl for XOnlyPublicKey { open spec fn obeys_eq_spec() -> bool { true } open spec fn eq_spec(&self, o: &XOnlyPublicKey) -> bool { self.ser() == o.ser() } }
// a decoded control block: the fields are the BIP341 parts of its bytes
pub struct ControlBlock { pub leaf_version: LeafVersion, pub output_key_parity: Parity, pub internal_key: XOnlyPublicKey, pub merkle_branch: TaprootMerkleBranch }
pub struct TaprootError { pub opaque: u8 }
pub open spec fn cb_fields_are(cb: ControlBlock, c: Seq<u8>) -> bool {
    &&& cb.ser() == c
    &&& cb.leaf_version.consensus() == cb_leaf_version(c)
    &&& (cb.output_key_parity is Odd) == cb_parity_odd(c)
    &&& cb.internal_key.ser() == cb_internal_key(c)
    &&& cb.merkle_branch.nodes() == cb_branch(c)
}
impl ControlBlock {
    pub uninterp spec fn ser(&self) -> Seq<u8>;
    #[verifier::external_body]
    pub fn decode(sl: &[u8]) -> (r: Result<ControlBlock, TaprootError>)
        ensures r is Ok <==> spec_cb_decodes(sl@), r is Ok ==> cb_fields_are(r->Ok_0, sl@) && cb_size_ok(sl@.len()),
    { unimplemented!() }
    // bitcoin 0.32 taproot/mod.rs: leaf hash of (script, self.leaf_version), fold of the branch, tweak_add_check(output_key, parity)
    #[verifier::external_body]
    pub fn verify_taproot_commitment(&self, secp: &Secp256k1, output_key: XOnlyPublicKey, script: &Script) -> (r: bool)
        ensures r == commitment_ok(self.ser(), output_key.ser(), script.bytes()),
    { unimplemented!() }
}
pub struct Witness { pub opaque: u64 }
impl Witness { pub uninterp spec fn items(&self) -> Seq<Seq<u8>>; }
pub mod bitcoin {
    pub use crate::{Script, ScriptBuf, PublicKey};
    pub mod key { pub use crate::{XOnlyPublicKey, TweakedPublicKey, Parity}; }
    pub mod taproot { pub use crate::{ControlBlock, TapLeafHash, TapNodeHash, LeafVersion}; }
    pub mod secp256k1 { pub use crate::Secp256k1; }
}

// ================= stubs of crate types outside the unit ==============================================
pub trait ScriptContext: Sized { type Key; }
pub struct NoChecks { pub never: u8 }
pub struct Segwitv0 { pub never: u8 }
pub struct Legacy { pub never: u8 }
pub struct BareCtx { pub never: u8 }
pub struct Tap { pub never: u8 }
pub struct MsError { pub opaque: u64 }            // crate::Error
pub struct Miniscript<Pk, Ctx: ScriptContext> { pub node: u64, pub phantom: PhantomData<(Pk, Ctx)> }
// Miniscript::decode_consensus: an uninterpreted PARTIAL function of (context, script bytes)
pub uninterp spec fn spec_decode<Ctx: ScriptContext>(b: Seq<u8>) -> Option<Miniscript<Ctx::Key, Ctx>>;
pub uninterp spec fn no_checks<Pk, Ctx: ScriptContext>(ms: Miniscript<Pk, Ctx>) -> Miniscript<BitcoinKey, NoChecks>;
impl<Pk, Ctx: ScriptContext> Miniscript<Pk, Ctx> {
    pub uninterp spec fn enc(&self) -> Seq<u8>;
    #[verifier::external_body] pub fn encode(&self) -> (r: ScriptBuf) ensures r.bytes() == self.enc() { unimplemented!() }
    #[verifier::external_body] pub fn to_no_checks_ms(&self) -> (r: Miniscript<BitcoinKey, NoChecks>) ensures r == no_checks(*self) { unimplemented!() }
    // (only named by pre-20b892f3 text) the scripts `1` = 0x51 and `0` = 0x00
    #[verifier::external_body] pub fn TRUE() -> (r: Self) ensures r.enc() == seq![0x51u8] { unimplemented!() }
    #[verifier::external_body] pub fn FALSE() -> (r: Self) ensures r.enc() == seq![0x00u8] { unimplemented!() }
}
impl<Ctx: ScriptContext> Miniscript<Ctx::Key, Ctx> {
    #[verifier::external_body]
    pub fn decode_consensus(script: &Script) -> (r: Result<Self, MsError>)
        ensures r is Ok <==> spec_decode::<Ctx>(script.bytes()) is Some, r is Ok ==> r->Ok_0 == spec_decode::<Ctx>(script.bytes())->Some_0,
    { unimplemented!() }
}
// TRUSTED AXIOM (C04, canonical decoding): a byte string that decodes re-encodes to itself
#[verifier::external_body]
pub proof fn axiom_decode_is_canonical<Ctx: ScriptContext>()
    ensures forall|b: Seq<u8>| (#[trigger] spec_decode::<Ctx>(b)) is Some ==> spec_decode::<Ctx>(b)->Some_0.enc() == b,
{}

// the interpreter's Error, reduced to the variants named by the extracted text
pub enum Error {
    ControlBlockParse(TaprootError),
    ControlBlockVerificationError,
    ExpectedPush,
    IncorrectPubkeyHash,
    IncorrectScriptHash,
    IncorrectWPubkeyHash,
    IncorrectWScriptHash,
    Miniscript(MsError),
    NonEmptyWitness,
    NonEmptyScriptSig,
    PubkeyParseError,
    XOnlyPublicKeyParseError,
    TapAnnexUnsupported,
    UncompressedPubkey,
    UnexpectedStackBoolean,
    UnexpectedStackEnd,
    Other(u64),
}
impl From<MsError> for Error { fn from(e: MsError) -> (r: Error) { Error::Miniscript(e) } }
impl vstd::std_specs::convert::FromSpecImpl<MsError> for Error { open spec fn obeys_from_spec() -> bool { true } open spec fn from_spec(e: MsError) -> Error { Error::Miniscript(e) } }
"""

# after the extracted type definitions
SPEC = r"""
impl ScriptContext for NoChecks { type Key = BitcoinKey; }
impl ScriptContext for Segwitv0 { type Key = PublicKey; }
impl ScriptContext for Legacy { type Key = PublicKey; }
impl ScriptContext for BareCtx { type Key = PublicKey; }
impl ScriptContext for Tap { type Key = XOnlyPublicKey; }
impl vstd::std_specs::convert::FromSpecImpl<PublicKey> for BitcoinKey { open spec fn obeys_from_spec() -> bool { true } open spec fn from_spec(pk: PublicKey) -> BitcoinKey { BitcoinKey::Fullkey(pk) } }
impl vstd::std_specs::convert::FromSpecImpl<XOnlyPublicKey> for BitcoinKey { open spec fn obeys_from_spec() -> bool { true } open spec fn from_spec(pk: XOnlyPublicKey) -> BitcoinKey { BitcoinKey::XOnlyPublicKey(pk) } }
impl<'txin> vstd::std_specs::convert::FromSpecImpl<Vec<Element<'txin>>> for Stack<'txin> { open spec fn obeys_from_spec() -> bool { true } open spec fn from_spec(v: Vec<Element<'txin>>) -> Stack<'txin> { Stack(v) } }
impl<'txin> Stack<'txin> { pub open spec fn v(&self) -> Seq<Element<'txin>> { self.0@ } }

// ---- consensus stack elements <-> the interpreter's Element ------------------------------------------
pub open spec fn elem_bytes(e: Element) -> Seq<u8> { match e { Element::Satisfied => seq![1u8], Element::Dissatisfied => Seq::<u8>::empty(), Element::Push(b) => b@ } }
// Element::from maps the byte strings 01 / empty to Satisfied / Dissatisfied, so a Push never carries them
pub open spec fn canonical(e: Element) -> bool { e is Push ==> e->Push_0@.len() > 0 && e->Push_0@ != seq![1u8] }
pub open spec fn elems_are(es: Seq<Element>, items: Seq<Seq<u8>>) -> bool {
    es.len() == items.len() && forall|i: int| 0 <= i < es.len() ==> elem_bytes(#[trigger] es[i]) == items[i] && canonical(es[i])
}
// the byte strings a push-only scriptSig leaves on the stack (None: not push-only / not minimally encoded / a number
// opcode other than OP_0, OP_1).  BIP16 demands push-only for P2SH; the interpreter demands it for every output type.
pub uninterp spec fn ssig_items(script_sig: Seq<u8>) -> Option<Seq<Seq<u8>>>;
#[verifier::external_body]
pub fn script_sig_stack<'txin>(script_sig: &'txin Script) -> (r: Result<Vec<Element<'txin>>, Error>)
    ensures
        r is Ok <==> ssig_items(script_sig.bytes()) is Some,
        r is Ok ==> elems_are(r->Ok_0@, ssig_items(script_sig.bytes())->Some_0),
        // a script without instructions is the empty byte string (BIP141: "scriptSig must be exactly empty")
        (ssig_items(script_sig.bytes()) is Some && ssig_items(script_sig.bytes())->Some_0.len() == 0) <==> script_sig.bytes().len() == 0,
{ unimplemented!() }
#[verifier::external_body]
pub fn witness_stack<'txin>(witness: &'txin Witness) -> (r: Vec<Element<'txin>>)
    ensures elems_are(r@, witness.items()),
{ unimplemented!() }

// ---- how the result is read ------------------------------------------------------------------------------
pub open spec fn full_key_is(inner: Inner, ty: PubkeyType, kb: Seq<u8>) -> bool {
    inner is PublicKey && inner->PublicKey_1 == ty && inner->PublicKey_0 is Fullkey && inner->PublicKey_0->Fullkey_0.ser() == kb
}
pub open spec fn xonly_key_is(inner: Inner, ty: PubkeyType, kb: Seq<u8>) -> bool {
    inner is PublicKey && inner->PublicKey_1 == ty && inner->PublicKey_0 is XOnlyPublicKey && inner->PublicKey_0->XOnlyPublicKey_0.ser() == kb
}
pub open spec fn script_is<Ctx: ScriptContext>(inner: Inner, ty: ScriptType, sb: Seq<u8>) -> bool {
    spec_decode::<Ctx>(sb) is Some && inner == Inner::Script(no_checks(spec_decode::<Ctx>(sb)->Some_0), ty)
}
pub open spec fn stack_is(st: Stack, items: Seq<Seq<u8>>) -> bool { elems_are(st.v(), items) }
pub open spec fn code_is(c: Option<Script>, b: Seq<u8>) -> bool { c is Some && c->Some_0.bytes() == b }
pub open spec fn is_bool_bytes(b: Seq<u8>) -> bool { b.len() == 0 || b == seq![1u8] }
// BIP341: "If there are at least two witness elements, and the first byte of the last element is 0x50, this last
// element is called annex"
pub open spec fn has_annex(w: Seq<Seq<u8>>) -> bool { w.len() >= 2 && w.last().len() > 0 && w.last()[0] == 0x50 }
pub type TxRes<'txin> = Result<(Inner, Stack<'txin>, Option<Script>), Error>;
"""


def _range_index(m):
    """R7: `spk[a..b]` -> `spk.index_range(a, b)`, `spk[a..]` -> `spk.index_from(a)` (operands verbatim)."""
    lo, hi = m.group(1).strip(), m.group(2).strip()
    return "spk.index_range(%s, %s)" % (lo, hi) if hi else "spk.index_from(%s)" % lo


def _fold_to_loop(m):
    """R8 (+ R10 invariant): `let X = RECV.iter().fold(INIT, |a, b| BODY);` over the control block's merkle branch ->
    the index loop that is the definition of Iterator::fold on a slice iterator; INIT, the closure's parameter names and
    its BODY are kept verbatim.  The invariant is the BIP341 recurrence k_{j+1} = hash_TapBranch(k_j, e_j)."""
    name, recv, init, a, b, body = m.group(1), re.sub(r"\s+", "", m.group(2)), m.group(3).strip(), m.group(4), m.group(5), m.group(6).strip()
    return ("let mut fold_acc = %s;\n"
            "let ghost fold_init = fold_acc.0@;\n"
            "let fold_src = &%s;\n"
            "let mut fold_i: usize = 0;\n"
            "while fold_i < fold_src.len()\n"
            "    invariant fold_i <= fold_src.nodes().len(), fold_acc.0@ == merkle_prefix(fold_init, fold_src.nodes(), fold_i as int),\n"
            "    decreases fold_src.nodes().len() - fold_i,\n"
            "{\n    let %s = fold_acc;\n    let %s = fold_src.node_at(fold_i);\n    fold_acc = %s;\n    fold_i += 1;\n}\n"
            "let %s = fold_acc;" % (init, recv, a, b, body, name))


def C(tag, text, props=("C13",)):
    t = (text.replace("$SS", "ssig_items(script_sig.bytes())->Some_0").replace("$S", "ssig_items(script_sig.bytes())")
         .replace("$W", "witness.items()").replace("$PK", "spk.bytes()")
         .replace("$I", "r->Ok_0.0").replace("$T", "r->Ok_0.1").replace("$C", "r->Ok_0.2"))
    t = re.sub(r"\bERR\((\w+)\)", r"(r is Err && r->Err_0 is \1)", t)
    return Clause(tag, props, t)


# ------------------------------------------------------------------------------------------------------
# helper contracts (derived from the call sites, but each carries its own BIP-level statement)
# ------------------------------------------------------------------------------------------------------
def helper_contracts():
    pk_slice = Contract(ensures=[
        C("accepts_iff_valid_encoding", "r is Ok <==> valid_pubkey(slice@) && (require_compressed ==> slice@.len() == 33)"),
        C("key_is_the_provided_bytes", "r is Ok ==> r->Ok_0.ser() == slice@ && r->Ok_0.compressed == (slice@.len() == 33)"),
        C("uncompressed_rejected", "valid_pubkey(slice@) && require_compressed && slice@.len() != 33 ==> ERR(UncompressedPubkey)"),
        C("garbage_rejected", "!valid_pubkey(slice@) ==> ERR(PubkeyParseError)"),
    ])
    pk_elem = Contract(ensures=[
        C("accepts_iff_valid_encoding", "r is Ok <==> valid_pubkey(elem_bytes(*elem)) && (require_compressed ==> elem_bytes(*elem).len() == 33)"),
        C("key_is_the_provided_bytes", "r is Ok ==> r->Ok_0.ser() == elem_bytes(*elem) && r->Ok_0.compressed == (elem_bytes(*elem).len() == 33)"),
        C("uncompressed_rejected", "valid_pubkey(elem_bytes(*elem)) && require_compressed && elem_bytes(*elem).len() != 33 ==> ERR(UncompressedPubkey)"),
        C("garbage_rejected", "!valid_pubkey(elem_bytes(*elem)) ==> ERR(PubkeyParseError)"),
    ])
    script_elem = Contract(ensures=[
        # the script is the decoding of the bytes that were PROVIDED (finding F20: 01 / empty were mapped to the scripts 1 / 0)
        C("decodes_the_provided_bytes", "r is Ok ==> spec_decode::<Ctx>(elem_bytes(*elem)) == Some(r->Ok_0)"),
        # `01` is a truncated push and the empty string has no fragment: no miniscript has these encodings
        C("bytes_01_and_empty_are_not_scripts", "!(*elem is Push) ==> r is Err"),
        C("accepts_what_decodes", "*elem is Push && spec_decode::<Ctx>(elem_bytes(*elem)) is Some ==> r is Ok"),
        C("err_undecodable", "*elem is Push && spec_decode::<Ctx>(elem_bytes(*elem)) is None ==> ERR(Miniscript)", ("C13",)),
    ])
    as_push = Contract(ensures=[
        C("spec", "(r is Ok <==> *self is Push) && (r is Ok ==> r->Ok_0@ == self->Push_0@) && (r is Err ==> r->Err_0 is UnexpectedStackBoolean)", ("C11",)),
    ])
    return pk_slice, pk_elem, script_elem, as_push


# ------------------------------------------------------------------------------------------------------
# the oracle: one clause family per output type
# ------------------------------------------------------------------------------------------------------
SSOK = "$S is Some"
NOSS = "$S is Some && $SS.len() == 0"          # scriptSig parsed and empty
WL = "$W.last()"
SL = "$SS.last()"


def oracle():
    fam = {}
    # shared by all output types: the interpreter only accepts push-only scriptSigs
    shared = [C("scriptsig_is_push_only", "r is Ok ==> " + SSOK),
              C("err_scriptsig_not_push_only", "!(%s) ==> r is Err" % SSOK)]

    # ---- P2PK  <key> CHECKSIG --------------------------------------------------------------------------------
    KB = "$PK.subrange(1, $PK.len() - 1)"
    fam["p2pk"] = ("is_p2pk_t($PK)", [
        C("p2pk.witness_empty", "r is Ok ==> $W.len() == 0"),
        C("p2pk.key_is_the_spk_key", "r is Ok ==> full_key_is($I, PubkeyType::Pk, %s)" % KB),
        C("p2pk.stack_is_scriptsig", "r is Ok ==> stack_is($T, $SS)"),
        C("p2pk.script_code_is_spk", "r is Ok ==> code_is($C, $PK)"),
        C("p2pk.err_nonempty_witness", SSOK + " && $W.len() > 0 ==> ERR(NonEmptyWitness)"),
        C("p2pk.accepts_valid_spend", SSOK + " && $W.len() == 0 && valid_pubkey(%s) ==> r is Ok" % KB),
    ])
    # ---- P2PKH  DUP HASH160 <h> EQUALVERIFY CHECKSIG ---------------------------------------------------------
    fam["p2pkh"] = ("is_p2pkh_t($PK)", [
        C("p2pkh.witness_empty", "r is Ok ==> $W.len() == 0"),
        C("p2pkh.key_hash_commitment", "r is Ok ==> $SS.len() >= 1 && $PK == p2pkh_script(h160(%s))" % SL),
        C("p2pkh.key_is_last_scriptsig_element", "r is Ok ==> $SS.len() >= 1 && full_key_is($I, PubkeyType::Pkh, %s)" % SL),
        C("p2pkh.stack_is_scriptsig_minus_key", "r is Ok ==> stack_is($T, $SS.drop_last())"),
        C("p2pkh.script_code_is_spk", "r is Ok ==> code_is($C, $PK)"),
        C("p2pkh.err_nonempty_witness", SSOK + " && $W.len() > 0 ==> ERR(NonEmptyWitness)"),
        C("p2pkh.err_no_key", NOSS + " && $W.len() == 0 ==> ERR(UnexpectedStackEnd)"),
        C("p2pkh.err_wrong_key_hash", SSOK + " && $W.len() == 0 && $SS.len() >= 1 && valid_pubkey(%s) && $PK != p2pkh_script(h160(%s)) ==> ERR(IncorrectPubkeyHash)" % (SL, SL)),
        C("p2pkh.accepts_valid_spend", SSOK + " && $W.len() == 0 && $SS.len() >= 1 && valid_pubkey(%s) && $PK == p2pkh_script(h160(%s)) ==> r is Ok" % (SL, SL)),
    ])
    # ---- P2WPKH (BIP141 / BIP143) ---------------------------------------------------------------------------
    fam["p2wpkh"] = ("is_p2wpkh_t($PK)", [
        C("p2wpkh.scriptsig_exactly_empty", "r is Ok ==> script_sig.bytes().len() == 0"),
        C("p2wpkh.key_is_compressed", "r is Ok ==> $W.len() >= 1 && %s.len() == 33" % WL),
        C("p2wpkh.key_hash_commitment", "r is Ok ==> $W.len() >= 1 && $PK == p2wpkh_script(h160(%s))" % WL),
        C("p2wpkh.key_is_last_witness_element", "r is Ok ==> $W.len() >= 1 && full_key_is($I, PubkeyType::Wpkh, %s)" % WL),
        C("p2wpkh.stack_is_witness_minus_key", "r is Ok ==> stack_is($T, $W.drop_last())"),
        C("p2wpkh.bip143_script_code_is_p2pkh", "r is Ok ==> $W.len() >= 1 && code_is($C, p2pkh_script(h160(%s)))" % WL),
        C("p2wpkh.err_nonempty_scriptsig", SSOK + " && $SS.len() > 0 ==> ERR(NonEmptyScriptSig)"),
        C("p2wpkh.err_no_key", NOSS + " && $W.len() == 0 ==> ERR(UnexpectedStackEnd)"),
        C("p2wpkh.err_uncompressed_key", NOSS + " && $W.len() >= 1 && valid_pubkey(%s) && %s.len() == 65 ==> ERR(UncompressedPubkey)" % (WL, WL)),
        C("p2wpkh.err_wrong_key_hash", NOSS + " && $W.len() >= 1 && valid_pubkey(%s) && %s.len() == 33 && $PK != p2wpkh_script(h160(%s)) ==> ERR(IncorrectWPubkeyHash)" % (WL, WL, WL)),
        C("p2wpkh.accepts_valid_spend", NOSS + " && $W.len() >= 1 && valid_pubkey(%s) && %s.len() == 33 && $PK == p2wpkh_script(h160(%s)) ==> r is Ok" % (WL, WL, WL)),
    ])
    # ---- P2WSH (BIP141 / BIP143) ----------------------------------------------------------------------------
    fam["p2wsh"] = ("is_p2wsh_t($PK)", [
        C("p2wsh.scriptsig_exactly_empty", "r is Ok ==> script_sig.bytes().len() == 0"),
        C("p2wsh.script_hash_is_of_the_provided_bytes", "r is Ok ==> $W.len() >= 1 && $PK == p2wsh_script(h256(%s))" % WL),
        C("p2wsh.witness_script_decodes_as_segwitv0", "r is Ok ==> $W.len() >= 1 && script_is::<Segwitv0>($I, ScriptType::Wsh, %s)" % WL),
        C("p2wsh.stack_is_witness_minus_script", "r is Ok ==> stack_is($T, $W.drop_last())"),
        C("p2wsh.bip143_script_code_is_witness_script", "r is Ok ==> $W.len() >= 1 && code_is($C, %s)" % WL),
        C("p2wsh.err_nonempty_scriptsig", SSOK + " && $SS.len() > 0 ==> ERR(NonEmptyScriptSig)"),
        C("p2wsh.err_no_script", NOSS + " && $W.len() == 0 ==> ERR(UnexpectedStackEnd)"),
        C("p2wsh.err_wrong_script_hash", NOSS + " && $W.len() >= 1 && !is_bool_bytes(%s) && spec_decode::<Segwitv0>(%s) is Some && $PK != p2wsh_script(h256(%s)) ==> ERR(IncorrectWScriptHash)" % (WL, WL, WL)),
        C("p2wsh.accepts_valid_spend", NOSS + " && $W.len() >= 1 && !is_bool_bytes(%s) && spec_decode::<Segwitv0>(%s) is Some && $PK == p2wsh_script(h256(%s)) ==> r is Ok" % (WL, WL, WL)),
    ])
    # ---- P2TR (BIP341) --------------------------------------------------------------------------------------
    Q = "$PK.subrange(2, 34)"
    TS = "$W[$W.len() - 2]"
    SP = "r is Ok && $W.len() >= 2"
    TROK = NOSS + " && valid_xonly(%s) && !has_annex($W)" % Q
    fam["p2tr"] = ("is_p2tr_t($PK)", [
        C("p2tr.scriptsig_exactly_empty", "r is Ok ==> script_sig.bytes().len() == 0"),
        C("p2tr.output_key_is_valid", "r is Ok ==> valid_xonly(%s)" % Q),
        C("p2tr.witness_nonempty", "r is Ok ==> $W.len() >= 1"),
        # the annex would have to be removed and committed to in the sighash; the interpreter does neither => must reject
        C("p2tr.annex_is_rejected", "has_annex($W) ==> r is Err"),
        C("p2tr.key_path_single_element", "r is Ok && $W.len() == 1 ==> xonly_key_is($I, PubkeyType::Tr, %s) && stack_is($T, $W) && $C is None" % Q),
        C("p2tr.script_path_control_block_commits_to_script", SP + " ==> cb_size_ok(%s.len()) && spec_cb_decodes(%s) && commitment_ok(%s, %s, %s)" % (WL, WL, WL, Q, TS)),
        C("p2tr.script_path_tapscript_decodes_as_tap", SP + " ==> script_is::<Tap>($I, ScriptType::Tr, %s)" % TS),
        C("p2tr.script_path_stack_is_witness_minus_two", SP + " ==> stack_is($T, $W.subrange(0, $W.len() - 2))"),
        C("p2tr.script_path_code_is_tapscript", SP + " ==> code_is($C, %s)" % TS),
        C("p2tr.err_nonempty_scriptsig", SSOK + " && $SS.len() > 0 ==> ERR(NonEmptyScriptSig)"),
        C("p2tr.err_annex", NOSS + " && valid_xonly(%s) && has_annex($W) ==> ERR(TapAnnexUnsupported)" % Q),
        C("p2tr.err_empty_witness", TROK + " && $W.len() == 0 ==> ERR(UnexpectedStackEnd)"),
        C("p2tr.err_control_block_mismatch", TROK + " && $W.len() >= 2 && !is_bool_bytes(%s) && spec_cb_decodes(%s) && !is_bool_bytes(%s) && spec_decode::<Tap>(%s) is Some && !commitment_ok(%s, %s, %s) ==> ERR(ControlBlockVerificationError)" % (WL, WL, TS, TS, WL, Q, TS)),
        C("p2tr.accepts_key_path", TROK + " && $W.len() == 1 ==> r is Ok"),
        C("p2tr.accepts_script_path", TROK + " && $W.len() >= 2 && !is_bool_bytes(%s) && spec_cb_decodes(%s) && !is_bool_bytes(%s) && spec_decode::<Tap>(%s) is Some && commitment_ok(%s, %s, %s) ==> r is Ok" % (WL, WL, TS, TS, WL, Q, TS)),
    ])
    # ---- P2SH (BIP16) incl. nested segwit (BIP141) ------------------------------------------------------------
    HOK = SSOK + " && $SS.len() >= 1 && !is_bool_bytes(%s) && $PK == p2sh_script(h160(%s))" % (SL, SL)   # redeem script pushed and committed
    NW = "is_p2wpkh_t(%s)" % SL
    NS = "is_p2wsh_t(%s)" % SL
    fam["p2sh"] = ("is_p2sh_t($PK)", [
        C("p2sh.redeem_script_hash_commitment", "r is Ok ==> $SS.len() >= 1 && $PK == p2sh_script(h160(%s))" % SL),
        C("p2sh.err_no_redeem_script", NOSS + " ==> ERR(UnexpectedStackEnd)"),
        C("p2sh.err_wrong_redeem_hash", SSOK + " && $SS.len() >= 1 && !is_bool_bytes(%s) && $PK != p2sh_script(h160(%s)) ==> ERR(IncorrectScriptHash)" % (SL, SL)),
        # -- P2SH-P2WPKH
        C("shwpkh.scriptsig_is_exactly_the_redeem_push", "r is Ok && %s ==> $SS.len() == 1" % NW),
        C("shwpkh.key_is_compressed", "r is Ok && %s ==> $W.len() >= 1 && %s.len() == 33" % (NW, WL)),
        C("shwpkh.key_hash_commitment", "r is Ok && %s ==> $W.len() >= 1 && %s == p2wpkh_script(h160(%s))" % (NW, SL, WL)),
        C("shwpkh.key_is_last_witness_element", "r is Ok && %s ==> $W.len() >= 1 && full_key_is($I, PubkeyType::ShWpkh, %s)" % (NW, WL)),
        C("shwpkh.stack_is_witness_minus_key", "r is Ok && %s ==> stack_is($T, $W.drop_last())" % NW),
        C("shwpkh.bip143_script_code_is_p2pkh", "r is Ok && %s ==> $W.len() >= 1 && code_is($C, p2pkh_script(h160(%s)))" % (NW, WL)),
        C("shwpkh.err_no_key", HOK + " && %s && $W.len() == 0 ==> ERR(UnexpectedStackEnd)" % NW),
        C("shwpkh.err_extra_scriptsig_pushes", HOK + " && %s && $W.len() >= 1 && $SS.len() > 1 ==> ERR(NonEmptyScriptSig)" % NW),
        C("shwpkh.err_uncompressed_key", HOK + " && %s && $W.len() >= 1 && $SS.len() == 1 && valid_pubkey(%s) && %s.len() == 65 ==> ERR(UncompressedPubkey)" % (NW, WL, WL)),
        C("shwpkh.err_wrong_key_hash", HOK + " && %s && $W.len() >= 1 && $SS.len() == 1 && valid_pubkey(%s) && %s.len() == 33 && %s != p2wpkh_script(h160(%s)) ==> r is Err" % (NW, WL, WL, SL, WL)),
        C("shwpkh.accepts_valid_spend", HOK + " && %s && $W.len() >= 1 && $SS.len() == 1 && valid_pubkey(%s) && %s.len() == 33 && %s == p2wpkh_script(h160(%s)) ==> r is Ok" % (NW, WL, WL, SL, WL)),
        # -- P2SH-P2WSH
        C("shwsh.scriptsig_is_exactly_the_redeem_push", "r is Ok && %s ==> $SS.len() == 1" % NS),
        C("shwsh.script_hash_is_of_the_provided_bytes", "r is Ok && %s ==> $W.len() >= 1 && %s == p2wsh_script(h256(%s))" % (NS, SL, WL)),
        C("shwsh.witness_script_decodes_as_segwitv0", "r is Ok && %s ==> $W.len() >= 1 && script_is::<Segwitv0>($I, ScriptType::ShWsh, %s)" % (NS, WL)),
        C("shwsh.stack_is_witness_minus_script", "r is Ok && %s ==> stack_is($T, $W.drop_last())" % NS),
        C("shwsh.bip143_script_code_is_witness_script", "r is Ok && %s ==> $W.len() >= 1 && code_is($C, %s)" % (NS, WL)),
        C("shwsh.err_no_script", HOK + " && %s && $W.len() == 0 ==> ERR(UnexpectedStackEnd)" % NS),
        C("shwsh.err_extra_scriptsig_pushes", HOK + " && %s && $W.len() >= 1 && $SS.len() > 1 ==> ERR(NonEmptyScriptSig)" % NS),
        C("shwsh.err_wrong_script_hash", HOK + " && %s && $W.len() >= 1 && $SS.len() == 1 && !is_bool_bytes(%s) && spec_decode::<Segwitv0>(%s) is Some && %s != p2wsh_script(h256(%s)) ==> ERR(IncorrectWScriptHash)" % (NS, WL, WL, SL, WL)),
        C("shwsh.accepts_valid_spend", HOK + " && %s && $W.len() >= 1 && $SS.len() == 1 && !is_bool_bytes(%s) && spec_decode::<Segwitv0>(%s) is Some && %s == p2wsh_script(h256(%s)) ==> r is Ok" % (NS, WL, WL, SL, WL)),
        # -- plain P2SH
        C("sh.witness_empty", "r is Ok && !%s && !%s ==> $W.len() == 0" % (NW, NS)),
        C("sh.redeem_script_decodes_as_legacy", "r is Ok && !%s && !%s ==> script_is::<Legacy>($I, ScriptType::Sh, %s)" % (NW, NS, SL)),
        C("sh.stack_is_scriptsig_minus_redeem_script", "r is Ok && !%s && !%s ==> stack_is($T, $SS.drop_last())" % (NW, NS)),
        C("sh.script_code_is_redeem_script", "r is Ok && !%s && !%s ==> code_is($C, %s)" % (NW, NS, SL)),
        C("sh.err_nonempty_witness", HOK + " && !%s && !%s && spec_decode::<Legacy>(%s) is Some && $W.len() > 0 ==> ERR(NonEmptyWitness)" % (NW, NS, SL)),
        C("sh.accepts_valid_spend", HOK + " && !%s && !%s && spec_decode::<Legacy>(%s) is Some && $W.len() == 0 ==> r is Ok" % (NW, NS, SL)),
    ])
    # ---- bare script ---------------------------------------------------------------------------------------
    fam["bare"] = ("is_bare_t($PK)", [
        C("bare.witness_empty", "r is Ok ==> $W.len() == 0"),
        C("bare.spk_decodes_as_bare", "r is Ok ==> script_is::<BareCtx>($I, ScriptType::Bare, $PK)"),
        C("bare.stack_is_scriptsig", "r is Ok ==> stack_is($T, $SS)"),
        C("bare.script_code_is_spk", "r is Ok ==> code_is($C, $PK)"),
        C("bare.err_nonempty_witness", SSOK + " && $W.len() > 0 ==> ERR(NonEmptyWitness)"),
        C("bare.accepts_valid_spend", SSOK + " && $W.len() == 0 && spec_decode::<BareCtx>($PK) is Some ==> r is Ok"),
    ])
    return shared, fam


EXCLUSIVE = r"""
// Bitcoin's templates are mutually exclusive (proved from the byte-level definitions, not assumed)
proof fn templates_are_mutually_exclusive(b: Seq<u8>)
    ensures
        is_p2pk_t(b) ==> !is_p2pkh_t(b) && !is_p2wpkh_t(b) && !is_p2wsh_t(b) && !is_p2tr_t(b) && !is_p2sh_t(b),
        is_p2pkh_t(b) ==> !is_p2wpkh_t(b) && !is_p2wsh_t(b) && !is_p2tr_t(b) && !is_p2sh_t(b),
        is_p2wpkh_t(b) ==> !is_p2wsh_t(b) && !is_p2tr_t(b) && !is_p2sh_t(b),
        is_p2wsh_t(b) ==> !is_p2tr_t(b) && !is_p2sh_t(b),
        is_p2tr_t(b) ==> !is_p2sh_t(b),
{}
// the constructors build scripts of their own template (so that `spk == new_p2xx(h)` is consistent with `is_p2xx`)
proof fn constructors_build_their_template(h20: Seq<u8>, h32: Seq<u8>)
    requires h20.len() == 20, h32.len() == 32,
    ensures is_p2pkh_t(p2pkh_script(h20)), is_p2sh_t(p2sh_script(h20)), is_p2wpkh_t(p2wpkh_script(h20)), is_p2wsh_t(p2wsh_script(h32)),
{}
"""


def build(repo):
    # framework gap (vlib/verus.py is not mine to edit): Verus words the bounds obligation of `slice[i]` and a closure's
    # `ensures` differently from the messages the driver classifies as obligation failures; without these two entries a
    # real failure of that kind is reported as UNDECIDED instead of FAIL
    for extra in ("precondition not met", "unable to prove post-condition of closure"):
        if extra not in _verus.VERIF_FAIL_MESSAGES:
            _verus.VERIF_FAIL_MESSAGES = _verus.VERIF_FAIL_MESSAGES + (extra,)
    vf = VerusFile(NAME, repo)
    vf.raw(PRELUDE, keep_vis=True)
    vf.trust("prelude stubs Script (= ScriptBuf), Witness, PublicKey, XOnlyPublicKey, ControlBlock, Secp256k1, the hash newtypes, Miniscript, the contexts, MsError, Error",
             "bitcoin / crate types as opaque values; Error reduced to the variants the extracted text names")
    vf.trust("Script::is_p2pk / is_p2pkh / is_p2wpkh / is_p2wsh / is_p2tr / is_p2sh, new_p2pkh / new_p2wpkh / new_p2wsh / new_p2sh (external_body)",
             "tied to byte-level templates written from the BIPs (read against bitcoin 0.32 blockdata/script/{borrowed,owned}.rs); this is the 'template length' axiom the slicing needs")
    vf.trust("Script::{len, is_empty, is_witness_program, to_bytes, as_bytes, to_owned, from_bytes, index_range, index_from}, impl PartialEq for Script + PartialEqSpecImpl, slice_eq (external_body)",
             "byte-string accessors; equality of scripts / slices is equality of the bytes; index_* require exactly the slice-panic conditions")
    vf.trust("hash160::Hash::hash / sha256::Hash::hash (external_body), From conversions into PubkeyHash / WPubkeyHash / ScriptHash / WScriptHash",
             "hash functions uninterpreted; the newtype conversions keep the bytes")
    vf.trust("PublicKey::from_slice / to_pubkeyhash, XOnlyPublicKey::from_slice (external_body)",
             "a key parses iff its encoding is valid (33 bytes, or 65 bytes with prefix 04: bitcoin 0.32 refuses hybrid keys) and then serialises to the SAME bytes; to_pubkeyhash(Ecdsa) = HASH160 of the serialisation")
    vf.trust("ControlBlock::decode / verify_taproot_commitment, Secp256k1::verification_only (external_body)",
             "BIP341: decode succeeds only on 33+32m bytes (m <= 128) and its fields are the parts of the bytes (leaf version c[0]&0xfe, parity c[0]&1, internal key c[1..33], "
             "32-byte siblings); verify_taproot_commitment == commitment_ok, the BIP341 rule written over uninterpreted tagged hashes and the curve tweak "
             "(read against bitcoin 0.32 taproot/mod.rs; the negligible failure cases t >= n / invalid P are not modelled)")
    vf.trust("TapLeafHash::from_script, TapNodeHash::{from, from_node_hashes, from_script}, TaprootMerkleBranch::{len, node_at}, XOnlyPublicKey::{tap_tweak, serialize, ==}, TweakedPublicKey (external_body)",
             "the pieces a hand-written commitment check is made of, each with its BIP341 meaning over the same uninterpreted functions, so that such a check is judged against commitment_ok")
    vf.trust("Miniscript::{decode_consensus, encode, to_no_checks_ms, TRUE, FALSE} (external_body)",
             "decode_consensus is an uninterpreted partial function of (context, bytes); encode / to_no_checks_ms uninterpreted")
    vf.trust("axiom_decode_is_canonical (external_body proof fn)",
             "C04: decode(b) = Some(ms) ==> encode(ms) = b.  from_txdata hashes the RE-ENCODED script, so 'the hash is of the provided bytes' holds only under this axiom (bounded elsewhere: c04_lex / c04_encode; F3, F20 were violations)")
    vf.trust("impl From<MsError> for Error, FromSpecImpl glue for BitcoinKey / Stack", "the real one-line From impls of BitcoinKey and Stack are verified against the glue")
    noderive = sub("derive-off", r"#\[derive\([^)]*\)\]\s*", "", required=False)
    copyderive = sub("derive-off", r"#\[derive\([^)]*\)\]\s*", "#[derive(Clone, Copy)]\n")
    BK = lit("R7", "super::BitcoinKey", "BitcoinKey")
    # R1 (visibility has no runtime meaning): the single-module file needs the extracted types visible to the
    # trait-impl spec functions (FromSpecImpl), which Verus treats as public
    PUB = sub("R1-pub", r"^(enum|struct) ", r"pub \1 ", flags=re.M)
    vf.item(MOD, "enum:BitcoinKey", rewrites=[noderive, PUB])
    vf.item(STACK, "enum:Element", rewrites=[copyderive, PUB])
    vf.item(STACK, "struct:Stack", rewrites=[noderive, PUB, lit("R1-pub", "(Vec<Element<'txin>>)", "(pub Vec<Element<'txin>>)")])
    vf.item(INNER, "enum:PubkeyType", rewrites=[copyderive, PUB])
    vf.item(INNER, "enum:ScriptType", rewrites=[copyderive, PUB])
    vf.item(INNER, "enum:Inner", rewrites=[noderive, BK, PUB])
    vf.raw(SPEC, keep_vis=True)
    vf.trust("script_sig_stack / witness_stack (external_body)",
             "stand for the two iterator chains: the elements are Element::from of the pushed byte strings / witness items (Element::from, from_instruction: Kani unit k13_interp); "
             "a scriptSig has no instruction iff it has no byte")
    vf.spec_obligation("oracle_templates", EXCLUSIVE, PROPS)

    with vf.block("impl From<bitcoin::PublicKey> for BitcoinKey"):
        vf.fn(MOD, "impl:From<bitcoin::PublicKey> for BitcoinKey/fn:from", qual="BitcoinKey<PublicKey>", props=("C11",))
    with vf.block("impl From<bitcoin::key::XOnlyPublicKey> for BitcoinKey"):
        vf.fn(MOD, "impl:From<bitcoin::key::XOnlyPublicKey> for BitcoinKey#1/fn:from", qual="BitcoinKey<XOnlyPublicKey>", props=("C11",))
    with vf.block("impl<'txin> From<Vec<Element<'txin>>> for Stack<'txin>"):
        vf.fn(STACK, "impl:From<Vec<Element<'txin>>> for Stack/fn:from", qual="Stack<Vec>", props=("C11",))
    sc = stack_contracts()
    pk_slice, pk_elem, script_elem, as_push = helper_contracts()
    with vf.block("impl<'txin> Stack<'txin>"):
        for f in ("is_empty", "len", "pop", "push", "split_off", "last"):
            vf.fn(STACK, "impl:Stack/fn:%s" % f, qual="Stack", props=("C11",), contract=sc[f])
    with vf.block("impl<'txin> Element<'txin>"):
        vf.fn(STACK, "impl:Element/fn:as_push", qual="Element", props=("C11",), contract=as_push)

    STK = lit("R7", "stack::Element", "Element")
    vf.fn(INNER, "fn:pk_from_slice", props=PROPS, contract=pk_slice)
    vf.fn(INNER, "fn:pk_from_stack_elem", props=PROPS, contract=pk_elem, rewrites=[STK])
    vf.fn(INNER, "fn:script_from_stack_elem", props=PROPS, contract=script_elem, rewrites=[
        STK, sub("R12", r"\bMiniscript::(TRUE|FALSE)\b(?!\()", r"Miniscript::\1()", required=False)])

    shared, fam = oracle()
    order = ["p2pk", "p2pkh", "p2wpkh", "p2wsh", "p2tr", "p2sh", "bare"]
    cases = [(k, C("", fam[k][0]).text, fam[k][1]) for k in order]
    vf.fn(INNER, "fn:from_txdata", props=PROPS, contract=Contract(ensures=shared), cases=cases, rewrites=[
        STK,
        sub("R1-attrs", r"#\[allow\(clippy::[a-z_]+\)\]\s*", "", required=False),
        sub("R9", r"script_sig\s*\.instructions_minimal\(\)\s*\.map\(Element::from_instruction\)\s*\.collect::<Result<Vec<Element>, Error>>\(\)\?",
            "script_sig_stack(script_sig)?"),
        sub("R9", r"witness\s*\.iter\(\)\s*\.map\(Element::from\)\s*\.collect::<Vec<Element>>\(\)", "witness_stack(witness)"),
        sub("R7", r"\bspk\[(.+?)\.\.(.*?)\]", _range_index),
        # `slice == <ScriptBuf>.as_bytes()` (PartialEq on [u8]) -> slice_eq(slice, <same operand>)
        sub("R7", r"if slice\s*==\s*(bitcoin::ScriptBuf::new_p2w(?:pkh|sh)\(&\w+\.into\(\)\)\s*\.as_bytes\(\))", r"if slice_eq(slice, \1)"),
        lit("R7", ".map_err(|_| Error::XOnlyPublicKeyParseError)", ".map_err(|_e| Error::XOnlyPublicKeyParseError)"),
        lit("R7", ".map_err(Error::ControlBlockParse)", ".map_err(|e| Error::ControlBlockParse(e))"),
        # closure contracts (ghost) + parameter types; the closure bodies are the real text and are verified against them
        lit("R10", ".and_then(|x| x.as_push().ok())",
            ".and_then(|x: &Element<'txin>| -> (o: Option<&[u8]>) ensures (o is Some) == (*x is Push), o is Some ==> o->Some_0@ == x->Push_0@ { x.as_push().ok() })"),
        lit("R10", ".map(|x| !x.is_empty() && x[0] == TAPROOT_ANNEX_PREFIX)",
            ".map(|x: &[u8]| -> (b: bool) ensures b == (x@.len() > 0 && x@[0] == 0x50u8) { !x.is_empty() && x[0] == TAPROOT_ANNEX_PREFIX })"),
        # (only in hand-written commitment checks) slice-iterator fold -> index loop
        sub("R8", r"let (\w+) = ([\w.\s]+?)\s*\.iter\(\)\s*\.fold\((.+?),\s*\|(\w+), (\w+)\|\s*(\{.*?\})\s*\);", _fold_to_loop, required=False, flags=re.S),
        lit("R10", "let mut ssig_stack: Stack = ",
            "proof { axiom_decode_is_canonical::<Segwitv0>(); axiom_decode_is_canonical::<Tap>(); axiom_decode_is_canonical::<Legacy>(); }\n    let mut ssig_stack: Stack = "),
    ])
    return vf
