"""C08 (Verus), the miniscript side of the policy compiler (src/policy/compiler.rs): EVERY CANDIDATE THE SEARCH CAN EVER HOLD MEANS THE POLICY NODE
IT WAS BUILT FOR.  Which candidate wins is decided by f64 costs and is NOT modelled (optimality is out of scope, by design); the invariant

    map_means(map, policy):  for every candidate e of the map and every assignment a:   tsem(e.ms.node, a) == csem(policy, a)

is carried through every function that touches a candidate map, so whichever entry `best_compilation` finally returns keeps the policy's meaning,
PROVIDED the recursion / memoisation (policy_cache) hands each call the map of the policy it asked for (induction hypothesis, stub `best_compilations`).

ORACLE.  `csem` (truth table of a concrete policy; text of c18_semantic) and `tsem` (the Miniscript specification's semantics column -- spec_and / spec_or /
spec_andor / spec_wrap / spec_at_least imported from c07_lift -- closed under the tree structure: and_v = and_b = X and Y, or_b = or_c = or_d = or_i = X or Z,
andor(X,Y,Z) = (X and Y) or Z, wrappers = X, thresh / multi / multi_a = at least k).

UNDER CONTRACT (named clauses)
  Cast::cast__<row>  x10        cast_keeps_the_meaning (every row of all_casts(): Alt Swap Check DupIf Verify NonZero ZeroNotEqual, l: = or_i(0,X), u: = or_i(X,0),
                                t: = and_v(X,1)); wrappers additionally builds_the_wrapper_around_the_element.  (R6: one instance per row, machinery of c05_ctors)
  AstElemExt::terminal          candidate_is_the_given_miniscript;   AstElemExt::{binary, ternary}: candidate_is_the_given_node
  insert_elem                   map_only_gains_the_element, meaning_invariant_kept (the f64 comparisons only decide WHICH entries survive: stubs)
  insert_elem_closure           map_only_gains_casts_of_the_element (+ work list invariant), meaning_invariant_kept
  insert_best_wrapped           every_candidate_means_the_policy (uses the induction hypothesis for the dissat = None maps it casts from)
  compile_binary / compile_tern every_candidate_means_the_policy GIVEN that whatever `bin_func` / AndOr builds from a left and a right (and a third) candidate means
                                the policy -- the obligation each call site discharges; sub_compilations_keep_their_miniscripts
  best_compilations, per arm (the `match *policy` cut into a step; insert_wrap! / compile_binary! / compile_tern! expanded mechanically, guarded by EXPECTED_MACROS):
     leaves   candidate_{FALSE,TRUE,pk_h,pk_k,after,older,sha256,hash256,ripemd160,hash160}_means_the_policy
     And      AndB_of_left_and_right, AndB_of_right_and_left, AndV_of_.., andor_of_left_q_zero_right_zero_comp, andor_of_right_q_zero_left_zero_comp  (.._means_the_policy)
     Or       OrB / OrD / OrC / OrI _of_l_comp_i_and_r_comp_j (10 calls), andor_of_a1_b2_c, andor_of_b1_a2_c (both if-let blocks)
     Thresh   candidate_multi / candidate_multi_a (shortcut when all children are keys: key_j_of_the_multi_is_the_key_of_child_j), the n-of-n special case
              (nested_and_so_far_means_all_children_so_far; the map of the nested `and` means the thresh); Threshold::set_maximum keeps k and the elements
  each candidate clause is a NAMED assertion generated in front of the expanded call from the macro's own arguments, so a wrong fragment or a swapped map names itself.

NOT VERIFIED (declared): T1, the main Thresh candidate (best E / W sub-compilations by f64 cost, `map_ref` closure capturing mutable state, swap of index 0 with the
cheapest E, from_ast) -- replaced by the ASSUMED stub thresh_main_candidate_assumed; best_t / best / best_compilation (the final pick: `.filter(..).min_by_key(cost)`
returns an entry of the map); the memoisation; termination of the cast closure (cost order); CompilerExtData (all f64).
"""
import re

from vlib.verus import VerusFile, Contract, Clause, sub, lit, rule, Undecided, split_fn, replace_arm
from vlib.extract import match_close, AnchorLost, split_arms, strip_docs
from units import _tree
from units import c18_semantic as S
from units import c07_lift as L7
from units import c05_ctors as C5
from units import c08_taptree_compile as T8
from units.c02_multi import register_named_invariants

NAME = "c08_compiler_nodes"
ENGINE = "verus"
PROPS = ("C08", "C11")
COMPILER = "src/policy/compiler.rs"
CONC = "src/policy/concrete.rs"
MSMOD, TYPES, EXT = _tree.MSMOD, _tree.TYPES, _tree.EXT
MSIMPL = "mod:private/impl:Miniscript<Pk, Ctx>"

DROPPED = [
    "T1, the main candidate of the Thresh arm (loop over `best(Base::B / W, ..)`, cost difference, `thresh.map_ref(|_| ..)` closure capturing `idx` / `sub_ext_data` mutably, "
    "swap of index 0 with the cheapest E, Miniscript::from_ast, CompilerExtData::threshold, insert_wrap!): NOT verified; replaced by the ASSUMED stub "
    "thresh_main_candidate_assumed (keeps `every candidate means the policy`)",
    "best_compilations: only the `match *policy` is verified, as a per-node step (`let mut ret = BTreeMap::new();` + arms + `Ok(ret)`); the cache lookup in front, the "
    "`debug_assert_eq!` loop, the `ret.is_empty()` -> LimitsExceeded test and the cache insert behind it are dropped; the RECURSIVE calls go to a stub stating the induction "
    "hypothesis (an Ok map means the policy asked for).  The induction itself (over the policy tree; the cache is keyed by policy and f64 probabilities) is not mechanised",
    "best_compilation / best_t / best: the final pick `.into_iter().filter(type / dissat key).map(val).min_by_key(cost)` returns an entry of the map or LimitsExceeded: not verified "
    "(iterator adapters over f64 keys); the `signed` / `non_malleable` checks of best_compilation are C05/C12 matters",
    "insert_elem: `map.iter().any(|..| cost comparison)` -> arbitrary bool; `*map = mem::take(map).into_iter().filter(|..| cost comparison).collect()` -> keeps an unchanged SUBSET "
    "(R14 stubs): optimality / which candidate survives is NOT examined, by design",
    "insert_elem_closure: termination (rests on the f64 cost order) NOT verified (exec_allows_no_decreases_clause)",
    "compile_binary / compile_tern: `for x in map.values_mut()` -> loop over the candidates of the map (stub candidates_of: each is an entry of the map); the assignments "
    "`x.comp_ext_data.branch_prob = Some(w)` -> touch_branch_prob (may change every candidate's cost data, no candidate's `ms`); the loop variables and the locals named in "
    "invariants / ghost asserts are read off the text; `let [a, b] = weights;` (if present) -> `let a = weights[0]; let b = weights[1];` (R7-array-pattern: Verus has no slice patterns)",
    "CompilerExtData (all f64), CompilationKey::from_type, AstElemExt::cost_1d, Type / ExtData casts and type_check: opaque / contract-free stubs (annotations: unit c05_ctors)",
    "Miniscript::{pk_k, pk_h, after, older, sha256, hash256, ripemd160, hash160, multi, multi_a, TRUE, FALSE, from_components_unchecked}: consumed through the clause `node` / `frame` "
    "proved in unit c05_ctors",
    "preconditions of the arms (derived from check_binary_ops, which every public entry point runs first): `and` / `or` nodes are binary, also one level below an `or`; the sum "
    "of two odds does not overflow usize (odds are u32 in the string syntax); Threshold invariant 1 <= k <= n",
    "P3 (k / n limits of the multi shortcut against the context rules) is only covered as far as Threshold::set_maximum's contract goes (Ok iff n <= NEWMAX, NEWMAX taken from "
    "the real signatures of Miniscript::multi / multi_a); no context-level clause",
]


def C(tag, text, props=("C08",)):
    return Clause(tag, props, text)


SCRIPT_CONTEXT = r"""
struct ScriptContextError { opaque: u8 }
// crate::SigType
enum SigType { Ecdsa, Schnorr }
trait ScriptContext: Sized {
    // verdict of the context's local rules (units c12_validation / k12_context); here only a filter on candidates
    fn check_local_validity<Pk: MiniscriptKey>(ms: &Miniscript<Pk, Self>) -> Result<(), ScriptContextError>;
    fn sig_type() -> SigType;
}
"""

STUBS = r"""
struct TypeError { opaque: u8 }            // miniscript::types::Error
enum Error { TypeCheck(TypeError), Other(u8) }
// f64 cost figures of the compiler: an opaque value (they order candidates and never enter a meaning clause)
#[derive(Clone, Copy)]
struct CompilerExtData { opaque: u8 }
impl CompilerExtData {
%(comp_stubs)s
    #[verifier::external_body] fn type_check<Pk: MiniscriptKey, Ctx: ScriptContext>(fragment: &Terminal<Pk, Ctx>) -> Self { unimplemented!() }
}
#[verifier::external_body]
fn comp_type_check_stub<Pk: MiniscriptKey, Ctx: ScriptContext>(ast: &Terminal<Pk, Ctx>) -> CompilerExtData { unimplemented!() }
type Policy<Pk> = Concrete<Pk>;
"""

ORACLE = r"""
// ---- ORACLE: what a miniscript MEANS (the specification's semantics column, closed under the tree structure) --------------------
//   0 = false, 1 = true, pk_k/pk_h(key) = key signs, older/after/hashes = themselves, andor(X,Y,Z) = (X and Y) or Z,
//   and_v(X,Y) = and_b(X,Y) = X and Y, or_b/or_c/or_d/or_i(X,Z) = X or Z, thresh(k,X1..Xn) = at least k of Xi,
//   multi/multi_a(k,key1..keyn) = at least k of the keys sign, a: s: c: d: v: j: n: X = X
// (spec_and / spec_or / spec_andor / spec_wrap / spec_at_least: oracle text of unit c07_lift, imported)
uninterp spec fn raw_pkh_holds<Pk: MiniscriptKey>(h: hash160::Hash, a: Asg<Pk>) -> bool;     // no key known: left open (never built by the compiler)
spec fn tsem<Pk: MiniscriptKey, Ctx: ScriptContext>(t: Terminal<Pk, Ctx>, a: Asg<Pk>) -> bool
    decreases t, 1nat, 0nat
{
    match t {
        Terminal::True => true,
        Terminal::False => false,
        Terminal::PkK(k) => a.keys.contains(k),
        Terminal::PkH(k) => a.keys.contains(k),
        Terminal::RawPkH(h) => raw_pkh_holds(h, a),
        Terminal::After(n) => a.after.contains(n.consensus()),
        Terminal::Older(n) => a.older.contains(n.consensus()),
        Terminal::Sha256(h) => a.sha256.contains(h),
        Terminal::Hash256(h) => a.hash256.contains(h),
        Terminal::Ripemd160(h) => a.ripemd160.contains(h),
        Terminal::Hash160(h) => a.hash160.contains(h),
        Terminal::Alt(x) => spec_wrap(tsem(x.node, a)),
        Terminal::Swap(x) => spec_wrap(tsem(x.node, a)),
        Terminal::Check(x) => spec_wrap(tsem(x.node, a)),
        Terminal::DupIf(x) => spec_wrap(tsem(x.node, a)),
        Terminal::Verify(x) => spec_wrap(tsem(x.node, a)),
        Terminal::NonZero(x) => spec_wrap(tsem(x.node, a)),
        Terminal::ZeroNotEqual(x) => spec_wrap(tsem(x.node, a)),
        Terminal::AndV(x, y) => spec_and(tsem(x.node, a), tsem(y.node, a)),
        Terminal::AndB(x, y) => spec_and(tsem(x.node, a), tsem(y.node, a)),
        Terminal::AndOr(x, y, z) => spec_andor(tsem(x.node, a), tsem(y.node, a), tsem(z.node, a)),
        Terminal::OrB(x, z) => spec_or(tsem(x.node, a), tsem(z.node, a)),
        Terminal::OrD(x, z) => spec_or(tsem(x.node, a), tsem(z.node, a)),
        Terminal::OrC(x, z) => spec_or(tsem(x.node, a), tsem(z.node, a)),
        Terminal::OrI(x, z) => spec_or(tsem(x.node, a), tsem(z.node, a)),
        Terminal::Thresh(th) => spec_at_least(th.k as nat, tcount(t, th.inner@.len(), a)),
        Terminal::Multi(th) => spec_at_least(th.k as nat, kcount(th.inner@, th.inner@.len() as int, a)),
        Terminal::SortedMulti(th) => spec_at_least(th.k as nat, kcount(th.inner@, th.inner@.len() as int, a)),
        Terminal::MultiA(th) => spec_at_least(th.k as nat, kcount(th.inner@, th.inner@.len() as int, a)),
        Terminal::SortedMultiA(th) => spec_at_least(th.k as nat, kcount(th.inner@, th.inner@.len() as int, a)),
    }
}
// number of the first n children of the thresh node t that hold
spec fn tcount<Pk: MiniscriptKey, Ctx: ScriptContext>(t: Terminal<Pk, Ctx>, n: nat, a: Asg<Pk>) -> nat
    decreases t, 0nat, n
{
    match t {
        Terminal::Thresh(th) => if n == 0 || n > th.inner@.len() { 0 } else { tcount(t, (n - 1) as nat, a) + (if tsem(th.inner@[n - 1].node, a) { 1nat } else { 0nat }) },
        _ => 0,
    }
}
// number of the first n keys that sign
spec fn kcount<Pk: MiniscriptKey>(s: Seq<Pk>, n: int, a: Asg<Pk>) -> nat
    decreases n
{
    if n <= 0 || n > s.len() { 0 } else { kcount(s, n - 1, a) + (if a.keys.contains(s[n - 1]) { 1nat } else { 0nat }) }
}
spec fn msem<Pk: MiniscriptKey, Ctx: ScriptContext>(ms: Miniscript<Pk, Ctx>, a: Asg<Pk>) -> bool { tsem(ms.node, a) }

// THE INVARIANT of the compiler's candidate maps: a candidate MEANS the policy node it was built for
spec fn ms_means<Pk: MiniscriptKey, Ctx: ScriptContext>(ms: Miniscript<Pk, Ctx>, p: Concrete<Pk>) -> bool {
    forall|a: Asg<Pk>| #[trigger] tsem(ms.node, a) == csem(p, a)
}
spec fn same_meaning<Pk: MiniscriptKey, Ctx: ScriptContext>(x: Miniscript<Pk, Ctx>, y: Miniscript<Pk, Ctx>) -> bool {
    forall|a: Asg<Pk>| #[trigger] tsem(x.node, a) == tsem(y.node, a)
}
"""


MAPS = r"""
use std::collections::VecDeque;
// ---- the compiler's candidate maps (std BTreeMap as a finite map; iteration ORDER and the f64 cost comparisons are not modelled) ------------
#[verifier::external_body]
#[verifier::reject_recursive_types(K)]
#[verifier::reject_recursive_types(V)]
struct BTreeMap<K, V> { inner: std::collections::BTreeMap<u8, (K, V)> }
impl<K, V> BTreeMap<K, V> {
    uninterp spec fn view(&self) -> Map<K, V>;
    #[verifier::external_body] fn new() -> (r: Self) ensures r@ == Map::<K, V>::empty() { unimplemented!() }
    #[verifier::external_body] fn insert(&mut self, k: K, v: V) -> (r: Option<V>) ensures final(self)@ == old(self)@.insert(k, v) { unimplemented!() }
    #[verifier::external_body] fn is_empty(&self) -> (r: bool) ensures r == (self@.dom() =~= Set::<K>::empty()) { unimplemented!() }
}
type Cands<Pk, Ctx> = BTreeMap<CompilationKey, AstElemExt<Pk, Ctx>>;
type PolicyCache<Pk, Ctx> = BTreeMap<(Concrete<Pk>, OrdF64, Option<OrdF64>), BTreeMap<CompilationKey, AstElemExt<Pk, Ctx>>>;
// every candidate of the map means p
spec fn map_means<Pk: MiniscriptKey, Ctx: ScriptContext>(m: Map<CompilationKey, AstElemExt<Pk, Ctx>>, p: Concrete<Pk>) -> bool {
    forall|k: CompilationKey| m.dom().contains(k) ==> ms_means(*(#[trigger] m[k]).ms, p)
}
// the map changed only by gaining candidates that have the meaning of e (and by losing candidates)
spec fn only_gains<Pk: MiniscriptKey, Ctx: ScriptContext>(old_m: Map<CompilationKey, AstElemExt<Pk, Ctx>>, new_m: Map<CompilationKey, AstElemExt<Pk, Ctx>>, e: Miniscript<Pk, Ctx>) -> bool {
    forall|k: CompilationKey| new_m.dom().contains(k) ==> (old_m.dom().contains(k) && #[trigger] new_m[k] == old_m[k]) || same_meaning(*new_m[k].ms, e)
}
// x is the miniscript of one of the candidates of the map
spec fn is_cand_of<Pk: MiniscriptKey, Ctx: ScriptContext>(m: Map<CompilationKey, AstElemExt<Pk, Ctx>>, x: Arc<Miniscript<Pk, Ctx>>) -> bool {
    exists|k: CompilationKey| m.dom().contains(k) && (#[trigger] m[k]).ms == x
}
// R14 stubs (std iterator chains whose closures only compare f64 costs)
#[verifier::external_body]
fn any_existing_is_better<Pk: MiniscriptKey, Ctx: ScriptContext>(map: &Cands<Pk, Ctx>, elem_key: CompilationKey, elem_cost: F64, sat_prob: F64, dissat_prob: Option<F64>) -> bool { unimplemented!() }
#[verifier::external_body]
fn retain_not_worse<Pk: MiniscriptKey, Ctx: ScriptContext>(map: &mut Cands<Pk, Ctx>, elem_key: CompilationKey, elem_cost: F64, sat_prob: F64, dissat_prob: Option<F64>)
    ensures forall|k: CompilationKey| final(map)@.dom().contains(k) ==> old(map)@.dom().contains(k) && #[trigger] final(map)@[k] == old(map)@[k],
{ unimplemented!() }
// `map.values()` / `map.values_mut()`: the candidates of a map, each exactly once, in the map's order (order not modelled)
#[verifier::external_body]
fn candidates_of<Pk: MiniscriptKey, Ctx: ScriptContext>(map: &Cands<Pk, Ctx>) -> (r: Vec<AstElemExt<Pk, Ctx>>)
    ensures forall|i: int| 0 <= i < r@.len() ==> is_cand_of(map@, (#[trigger] r@[i]).ms),
{ unimplemented!() }
// the cast table: rows as opaque tokens (fn pointers); every row is verified as its own instance Cast::cast__<row>
#[derive(Clone, Copy)]
struct Cast<Pk: MiniscriptKey, Ctx: ScriptContext> { row: u8, p: PhantomData<(Pk, Ctx)> }
#[verifier::external_body]
fn all_casts<Pk: MiniscriptKey, Ctx: ScriptContext>() -> [Cast<Pk, Ctx>; 10] { unimplemented!() }
impl<Pk: MiniscriptKey, Ctx: ScriptContext> Cast<Pk, Ctx> {
    #[verifier::external_body]
    fn cast(&self, ast: &AstElemExt<Pk, Ctx>) -> (r: Result<AstElemExt<Pk, Ctx>, ErrorKind>)
        ensures r is Ok ==> same_meaning(*r->Ok_0.ms, *ast.ms),
    { unimplemented!() }
}
impl<Pk: MiniscriptKey, Ctx: ScriptContext> Clone for AstElemExt<Pk, Ctx> { #[verifier::external_body] fn clone(&self) -> (r: Self) ensures r == *self { unimplemented!() } }
"""

LEMMAS_M = [
    ("meaning_invariant_of_a_candidate_map", r"""
proof fn lemma_gain_keeps_meaning<Pk: MiniscriptKey, Ctx: ScriptContext>(old_m: Map<CompilationKey, AstElemExt<Pk, Ctx>>, new_m: Map<CompilationKey, AstElemExt<Pk, Ctx>>, e: Miniscript<Pk, Ctx>, p: Concrete<Pk>)
    requires only_gains(old_m, new_m, e), map_means(old_m, p), ms_means(e, p),
    ensures map_means(new_m, p),
{
    assert forall|k: CompilationKey| new_m.dom().contains(k) implies ms_means(*(#[trigger] new_m[k]).ms, p) by {
        if !(old_m.dom().contains(k) && new_m[k] == old_m[k]) {
            assert(same_meaning(*new_m[k].ms, e));
            assert forall|a: Asg<Pk>| #[trigger] tsem(new_m[k].ms.node, a) == csem(p, a) by { assert(tsem(new_m[k].ms.node, a) == tsem(e.node, a)); }
        }
    }
}
proof fn lemma_gains_trans<Pk: MiniscriptKey, Ctx: ScriptContext>(m0: Map<CompilationKey, AstElemExt<Pk, Ctx>>, m1: Map<CompilationKey, AstElemExt<Pk, Ctx>>, m2: Map<CompilationKey, AstElemExt<Pk, Ctx>>, e: Miniscript<Pk, Ctx>, e2: Miniscript<Pk, Ctx>)
    requires only_gains(m0, m1, e), only_gains(m1, m2, e2), same_meaning(e2, e),
    ensures only_gains(m0, m2, e),
{
    assert forall|k: CompilationKey| m2.dom().contains(k) implies (m0.dom().contains(k) && #[trigger] m2[k] == m0[k]) || same_meaning(*m2[k].ms, e) by {
        if m1.dom().contains(k) && m2[k] == m1[k] {
            if !(m0.dom().contains(k) && m1[k] == m0[k]) { assert(same_meaning(*m1[k].ms, e)); }
        } else {
            assert(same_meaning(*m2[k].ms, e2));
            assert forall|a: Asg<Pk>| #[trigger] tsem(m2[k].ms.node, a) == tsem(e.node, a) by { assert(tsem(m2[k].ms.node, a) == tsem(e2.node, a)); }
        }
    }
}
proof fn lemma_same_meaning_refl<Pk: MiniscriptKey, Ctx: ScriptContext>(e: Miniscript<Pk, Ctx>)
    ensures same_meaning(e, e),
{}
proof fn lemma_same_meaning_trans<Pk: MiniscriptKey, Ctx: ScriptContext>(x: Miniscript<Pk, Ctx>, y: Miniscript<Pk, Ctx>, z: Miniscript<Pk, Ctx>)
    requires same_meaning(x, y), same_meaning(y, z),
    ensures same_meaning(x, z),
{
    assert forall|a: Asg<Pk>| #[trigger] tsem(x.node, a) == tsem(z.node, a) by { assert(tsem(x.node, a) == tsem(y.node, a)); }
}
"""),
]


WRAPPED = r"""
#[derive(Debug)]
struct PolicyError { opaque: u8 }
#[verifier::external_body]
fn best_compilations<Pk: MiniscriptKey, Ctx: ScriptContext>(policy_cache: &mut PolicyCache<Pk, Ctx>, policy: &Concrete<Pk>, sat_prob: F64, dissat_prob: Option<F64>)
    -> (r: Result<BTreeMap<CompilationKey, AstElemExt<Pk, Ctx>>, CompilerError>)
    ensures r is Ok ==> map_means(r->Ok_0@, *policy),
{ unimplemented!() }
spec fn ms_unchanged<Pk: MiniscriptKey, Ctx: ScriptContext>(m0: Map<CompilationKey, AstElemExt<Pk, Ctx>>, m1: Map<CompilationKey, AstElemExt<Pk, Ctx>>) -> bool {
    m1.dom() =~= m0.dom() && forall|k: CompilationKey| m0.dom().contains(k) ==> (#[trigger] m1[k]).ms == m0[k].ms
}
#[verifier::external_body]
fn touch_branch_prob<Pk: MiniscriptKey, Ctx: ScriptContext>(map: &mut Cands<Pk, Ctx>, w: F64)
    ensures ms_unchanged(old(map)@, final(map)@),
{ unimplemented!() }
proof fn lemma_cand_unchanged<Pk: MiniscriptKey, Ctx: ScriptContext>(m0: Map<CompilationKey, AstElemExt<Pk, Ctx>>, m1: Map<CompilationKey, AstElemExt<Pk, Ctx>>)
    requires ms_unchanged(m0, m1),
    ensures forall|x: Arc<Miniscript<Pk, Ctx>>| #[trigger] is_cand_of(m1, x) ==> is_cand_of(m0, x),
{
    assert forall|x: Arc<Miniscript<Pk, Ctx>>| #[trigger] is_cand_of(m1, x) implies is_cand_of(m0, x) by {
        let k = choose|k: CompilationKey| m1.dom().contains(k) && (#[trigger] m1[k]).ms == x;
        assert(m0.dom().contains(k) && m0[k].ms == x);
    }
}
spec fn andor_node<Pk: MiniscriptKey, Ctx: ScriptContext>(x: Arc<Miniscript<Pk, Ctx>>, y: Arc<Miniscript<Pk, Ctx>>, z: Arc<Miniscript<Pk, Ctx>>) -> Terminal<Pk, Ctx> { Terminal::AndOr(x, y, z) }
// a node means the policy
spec fn t_means<Pk: MiniscriptKey, Ctx: ScriptContext>(t: Terminal<Pk, Ctx>, p: Concrete<Pk>) -> bool { forall|a: Asg<Pk>| #[trigger] tsem(t, a) == csem(p, a) }
"""


def values_loop(prefix, map_expr, var, tag, inv, pre=""):
    """R8: `for VAR in MAP_EXPR.values() { BODY }` / `.values_mut()` -> `let vals = candidates_of(&MAP_EXPR); for VAR in it: vals.iter() invariant .. { BODY }`."""
    @rule("R8-values-loop(%s)" % tag)
    def rw(text):
        from vlib.extract import Region
        reg = Region("<text>", text, 0, len(text))
        try:
            b = reg._find_block(prefix)
        except Exception:
            return None
        head = ("let %(t)s_map = %(m)s;\n                let %(t)s_vals = candidates_of(&%(t)s_map);\n                for %(v)s in %(t)s_it: %(t)s_vals.iter()\n"
                "                    invariant\n%(inv)s\n                {\n%(pre)s" % dict(t=tag, m=map_expr, v=var, inv=inv, pre=pre))
        return text[:b.stmt_start] + head + text[b.start:b.end] + "\n                }\n" + text[b.stmt_end:]
    return rw


def _array_let(m):
    names = [x.strip() for x in m.group(1).split(",") if x.strip()]
    return " ".join("let %s = %s[%d];" % (n, m.group(2), i) for i, n in enumerate(names) if n != "_")


# R7-array-pattern: `let [a, b] = ARR;` (Verus: "slice patterns" unsupported) -> `let a = ARR[0]; let b = ARR[1];`.  Only plain binders (`x`, `mut x`,
# `_`) and a plain place expression ARR (a path: evaluating it twice has no effect).  For an irrefutable `let` rustc has already checked that the
# pattern has exactly the array's length; by-value binding of the elements = copying them out (the elements are `Copy`: otherwise the indexed
# form does not compile and the unit is UNDECIDED).  Optional: the text of /repo indexes the array directly.
ARRAY_LET = sub("R7-array-pattern", r"\blet\s*\[\s*((?:(?:mut\s+)?\w+\s*,\s*)*(?:mut\s+)?\w+\s*,?)\s*\]\s*=\s*([A-Za-z_][\w.]*)\s*;", _array_let, required=False)


# ---- the three helper macros of best_compilations, expanded MECHANICALLY (code inside a macro invocation is invisible to Verus' syntax
# layer; the macro text in /repo must equal EXPECTED_MACROS, else the unit is UNDECIDED) --------------------------------------------------
EXPECTED_MACROS = {
    "insert_wrap": "macro_rules! insert_wrap { ($x:expr) => { insert_best_wrapped(policy_cache, policy, &mut ret, $x, sat_prob, dissat_prob)? }; }",
    "compile_binary": "macro_rules! compile_binary { ($l:expr, $r:expr, $w: expr, $f: expr) => { compile_binary(policy_cache, policy, &mut ret, $l, $r, $w, sat_prob, dissat_prob, $f)? }; }",
    "compile_tern": "macro_rules! compile_tern { ($a:expr, $b:expr, $c: expr, $w: expr) => { compile_tern(policy_cache, policy, &mut ret, $a, $b, $c, $w, sat_prob, dissat_prob)? }; }",
}
MS_ARC = "Arc<Miniscript<Pk, Ctx>>"


def check_macros(repo):
    text = repo.at(COMPILER, "fn:best_compilations").text
    for name, want in EXPECTED_MACROS.items():
        m = re.search(r"macro_rules! %s \{" % name, text)
        if not m:
            raise Undecided("best_compilations: macro_rules! %s not found (anchor lost)" % name)
        close = match_close(text, m.end() - 1)
        got = re.sub(r"\s+", " ", text[m.start():close + 1]).strip()
        if got != want:
            raise Undecided("macro_rules! %s in compiler.rs is not the text the mechanical expansion implements (anchor lost)" % name)


def split_args(arg):
    out, depth, cur = [], 0, ""
    for ch in arg:
        if ch in "([{":
            depth += 1
        elif ch in ")]}":
            depth -= 1
        if ch == "," and depth == 0:
            out.append(cur.strip())
            cur = ""
        else:
            cur += ch
    if cur.strip():
        out.append(cur.strip())
    return out


def map_spec(arg):
    """`&mut left` -> `left@`, `&mut l_comp[0]` -> `l_comp@[0]@` (the candidate map a macro argument denotes, in spec terms)."""
    m = re.match(r"^&mut (\w+)(?:\[(\d+)\])?$", arg)
    if not m:
        raise Undecided("macro argument `%s` is not `&mut MAP` / `&mut MAPS[i]` (anchor lost)" % arg)
    return ("%s@[%s]@" % (m.group(1), m.group(2)) if m.group(2) else "%s@" % m.group(1)), (m.group(1) + ("_" + m.group(2) if m.group(2) else ""))


class MacroExpander:
    """Expands insert_wrap! / compile_binary! / compile_tern! by the macros' own rules.  Additions (ghost only, R10): in front of every expanded call a
    NAMED assertion stating what the call relies on -- the candidate(s) it builds mean the policy node -- so that a wrong fragment or a swapped
    argument names itself.  insert_wrap!: the macro argument is bound to a name first (R10': same single evaluation, needed to state the assertion).
    compile_binary!: the constructor passed as `$f` is eta-expanded (R12) into a closure with the `ensures` t == F(x, y)."""
    rule = "macro-expansion(insert_wrap!, compile_binary!, compile_tern!)"

    def __init__(self):
        self.ctors = set()
        self.tags = {}

    def uniq(self, tag):
        k = self.tags.get(tag, 0) + 1
        self.tags[tag] = k
        return tag if k == 1 else "%s__%d" % (tag, k)

    def __call__(self, text):
        out, pos, n = "", 0, 0
        self.tags = {}
        for m in re.finditer(r"\b(insert_wrap|compile_binary|compile_tern)!\(", text):
            if m.start() < pos:
                continue
            close = match_close(text, m.end() - 1)
            args = split_args(text[m.end():close])
            name = m.group(1)
            n += 1
            if name == "insert_wrap":
                if len(args) != 1:
                    return None
                mm = re.search(r"Miniscript::(\w+)", args[0])
                tag = self.uniq("candidate_%s_means_the_policy" % (mm.group(1) if mm else re.sub(r"\W+", "_", args[0])))
                new = ("({ let iw_x = %s;\n                proof {\n                    assert(ms_means(*iw_x.ms, *policy)); //@inv %s [C08]\n                }\n"
                       "                insert_best_wrapped(policy_cache, policy, &mut ret, iw_x, sat_prob, dissat_prob)? })" % (args[0], tag))
            elif name == "compile_binary":
                if len(args) != 4 or not re.match(r"^Terminal::\w+$", args[3]):
                    return None
                ctor = args[3].split("::")[1]
                self.ctors.add(ctor)
                (ls, ln), (rs, rn) = map_spec(args[0]), map_spec(args[1])
                tag = self.uniq("%s_of_%s_and_%s_means_the_policy" % (ctor, ln, rn))
                new = ("({ proof {\n                    assert(forall|x: %s, y: %s| is_cand_of(%s, x) && is_cand_of(%s, y) ==> t_means(#[trigger] bin_%s(x, y), *policy)); //@inv %s [C08]\n                }\n"
                       "                compile_binary(policy_cache, policy, &mut ret, %s, %s, %s, sat_prob, dissat_prob, "
                       "|x: %s, y: %s| -> (t: Terminal<Pk, Ctx>) ensures t == bin_%s(x, y) { Terminal::%s(x, y) })? })"
                       % (MS_ARC, MS_ARC, ls, rs, ctor, tag, args[0], args[1], args[2], MS_ARC, MS_ARC, ctor, ctor))
            else:
                if len(args) != 4:
                    return None
                (as_, an), (bs, bn), (cs, cn) = map_spec(args[0]), map_spec(args[1]), map_spec(args[2])
                tag = self.uniq("andor_of_%s_%s_%s_means_the_policy" % (an, bn, cn))
                new = ("({ proof {\n                    assert(forall|x: %s, y: %s, z: %s| is_cand_of(%s, x) && is_cand_of(%s, y) && is_cand_of(%s, z) ==> t_means(#[trigger] andor_node(x, y, z), *policy)); //@inv %s [C08]\n                }\n"
                       "                compile_tern(policy_cache, policy, &mut ret, %s, %s, %s, %s, sat_prob, dissat_prob)? })"
                       % (MS_ARC, MS_ARC, MS_ARC, as_, bs, cs, tag, args[0], args[1], args[2], args[3]))
            out += text[pos:m.start()] + new
            pos = close + 1
        return (out + text[pos:]) if n else None


ARM_ORACLE = r"""
// ---- ORACLE facts about binary policy nodes / broadcast glue for the candidate maps ---------------------------------------------------------
proof fn lemma_nary2<Pk: MiniscriptKey>(p: Concrete<Pk>)
    ensures p is And && p->And_0@.len() == 2 ==> forall|a: Asg<Pk>| #[trigger] csem(p, a) == (csem(*p->And_0@[0], a) && csem(*p->And_0@[1], a)),
            p is Or && p->Or_0@.len() == 2 ==> forall|a: Asg<Pk>| #[trigger] csem(p, a) == (csem(*p->Or_0@[0].1, a) || csem(*p->Or_0@[1].1, a)),
{
    if (p is And || p is Or) && carity(p) == 2 {
        assert forall|a: Asg<Pk>| csem_count(p, 2, a) == (if csem(cchild(p, 0), a) { 1nat } else { 0nat }) + (if csem(cchild(p, 1), a) { 1nat } else { 0nat }) by {
            assert(csem_count(p, 0, a) == 0);
            assert(csem_count(p, 1, a) == csem_count(p, 0, a) + (if csem(cchild(p, 0), a) { 1nat } else { 0nat }));
            assert(csem_count(p, 2, a) == csem_count(p, 1, a) + (if csem(cchild(p, 1), a) { 1nat } else { 0nat }));
        }
        assert forall|a: Asg<Pk>| #[trigger] csem(p, a) == (if p is And { csem(cchild(p, 0), a) && csem(cchild(p, 1), a) } else { csem(cchild(p, 0), a) || csem(cchild(p, 1), a) }) by {
            assert(csem_count(p, 2, a) == (if csem(cchild(p, 0), a) { 1nat } else { 0nat }) + (if csem(cchild(p, 1), a) { 1nat } else { 0nat }));
        }
    }
}
broadcast proof fn lemma_unchanged_means<Pk: MiniscriptKey, Ctx: ScriptContext>(m0: Map<CompilationKey, AstElemExt<Pk, Ctx>>, m1: Map<CompilationKey, AstElemExt<Pk, Ctx>>, p: Concrete<Pk>)
    requires #[trigger] ms_unchanged(m0, m1), #[trigger] map_means(m0, p),
    ensures map_means(m1, p),
{
    assert forall|k: CompilationKey| m1.dom().contains(k) implies ms_means(*(#[trigger] m1[k]).ms, p) by { assert(m0.dom().contains(k) && m1[k].ms == m0[k].ms); }
}
broadcast proof fn lemma_cand_means<Pk: MiniscriptKey, Ctx: ScriptContext>(m: Map<CompilationKey, AstElemExt<Pk, Ctx>>, p: Concrete<Pk>, x: Arc<Miniscript<Pk, Ctx>>)
    requires #[trigger] map_means(m, p), #[trigger] is_cand_of(m, x),
    ensures ms_means(*x, p),
{
    let k = choose|k: CompilationKey| m.dom().contains(k) && (#[trigger] m[k]).ms == x;
}
broadcast proof fn lemma_single_cand<Pk: MiniscriptKey, Ctx: ScriptContext>(k0: CompilationKey, e: AstElemExt<Pk, Ctx>, x: Arc<Miniscript<Pk, Ctx>>)
    requires #[trigger] is_cand_of(Map::<CompilationKey, AstElemExt<Pk, Ctx>>::empty().insert(k0, e), x),
    ensures x == e.ms,
{
    let m = Map::<CompilationKey, AstElemExt<Pk, Ctx>>::empty().insert(k0, e);
    let k = choose|k: CompilationKey| m.dom().contains(k) && (#[trigger] m[k]).ms == x;
    assert(k == k0);
}
// the constants 0 / 1 as children of the sugar and of andor(X, Y, 0)
broadcast proof fn lemma_const_nodes<Pk: MiniscriptKey, Ctx: ScriptContext>(z: Miniscript<Pk, Ctx>, a: Asg<Pk>)
    ensures z.node is False ==> !#[trigger] tsem(z.node, a), z.node is True ==> tsem(z.node, a),
{}
// the semantics column, one row per constructor the arms use (unfoldings of tsem)
broadcast proof fn lemma_sem_AndB<Pk: MiniscriptKey, Ctx: ScriptContext>(x: Arc<Miniscript<Pk, Ctx>>, y: Arc<Miniscript<Pk, Ctx>>, a: Asg<Pk>)
    ensures #[trigger] tsem(bin_AndB(x, y), a) == (tsem(x.node, a) && tsem(y.node, a)),
{}
broadcast proof fn lemma_sem_AndV<Pk: MiniscriptKey, Ctx: ScriptContext>(x: Arc<Miniscript<Pk, Ctx>>, y: Arc<Miniscript<Pk, Ctx>>, a: Asg<Pk>)
    ensures #[trigger] tsem(bin_AndV(x, y), a) == (tsem(x.node, a) && tsem(y.node, a)),
{}
broadcast proof fn lemma_sem_OrB<Pk: MiniscriptKey, Ctx: ScriptContext>(x: Arc<Miniscript<Pk, Ctx>>, y: Arc<Miniscript<Pk, Ctx>>, a: Asg<Pk>)
    ensures #[trigger] tsem(bin_OrB(x, y), a) == (tsem(x.node, a) || tsem(y.node, a)),
{}
broadcast proof fn lemma_sem_OrD<Pk: MiniscriptKey, Ctx: ScriptContext>(x: Arc<Miniscript<Pk, Ctx>>, y: Arc<Miniscript<Pk, Ctx>>, a: Asg<Pk>)
    ensures #[trigger] tsem(bin_OrD(x, y), a) == (tsem(x.node, a) || tsem(y.node, a)),
{}
broadcast proof fn lemma_sem_OrC<Pk: MiniscriptKey, Ctx: ScriptContext>(x: Arc<Miniscript<Pk, Ctx>>, y: Arc<Miniscript<Pk, Ctx>>, a: Asg<Pk>)
    ensures #[trigger] tsem(bin_OrC(x, y), a) == (tsem(x.node, a) || tsem(y.node, a)),
{}
broadcast proof fn lemma_sem_OrI<Pk: MiniscriptKey, Ctx: ScriptContext>(x: Arc<Miniscript<Pk, Ctx>>, y: Arc<Miniscript<Pk, Ctx>>, a: Asg<Pk>)
    ensures #[trigger] tsem(bin_OrI(x, y), a) == (tsem(x.node, a) || tsem(y.node, a)),
{}
broadcast proof fn lemma_sem_andor<Pk: MiniscriptKey, Ctx: ScriptContext>(x: Arc<Miniscript<Pk, Ctx>>, y: Arc<Miniscript<Pk, Ctx>>, z: Arc<Miniscript<Pk, Ctx>>, a: Asg<Pk>)
    ensures #[trigger] tsem(andor_node(x, y, z), a) == ((tsem(x.node, a) && tsem(y.node, a)) || tsem(z.node, a)),
{}
broadcast group cand_glue { lemma_unchanged_means, lemma_cand_means, lemma_single_cand, lemma_const_nodes, lemma_sem_AndB, lemma_sem_AndV, lemma_sem_OrB, lemma_sem_OrD, lemma_sem_OrC, lemma_sem_OrI, lemma_sem_andor }
"""

ARM_STUBS = r"""
impl Type { #[verifier::external_body] fn FALSE() -> Type { unimplemented!() } }
impl ExtData { #[verifier::external_body] fn FALSE() -> ExtData { unimplemented!() } }
#[verifier::external_body]
fn thresh_arm_excluded<Pk: MiniscriptKey, Ctx: ScriptContext>(policy_cache: &mut PolicyCache<Pk, Ctx>, policy: &Concrete<Pk>, ret: &mut Cands<Pk, Ctx>,
    thresh: &Threshold<Arc<Concrete<Pk>>, 0>, sat_prob: F64, dissat_prob: Option<F64>) -> Result<(), CompilerError>
{ unimplemented!() }
"""


THRESH_STUBS = r"""
// ---- Thresh arm ----------------------------------------------------------------------------------------------------------------------------
// T1 (the main candidate: thresh over the best E / W sub-compilations, index 0 swapped with the cheapest E) is NOT verified: ASSUMED to keep the invariant
#[verifier::external_body]
fn thresh_main_candidate_assumed<Pk: MiniscriptKey, Ctx: ScriptContext>(policy_cache: &mut PolicyCache<Pk, Ctx>, policy: &Concrete<Pk>, ret: &mut Cands<Pk, Ctx>,
    thresh: &Threshold<Arc<Concrete<Pk>>, 0>, sat_prob: F64, dissat_prob: Option<F64>) -> (r: Result<(), CompilerError>)
    requires map_means(old(ret)@, *policy),
    ensures r is Ok ==> map_means(final(ret)@, *policy),
{ unimplemented!() }
// R15: `thresh.iter().filter(|s| matches!(***s, Concrete::Key(_))).count()`
#[verifier::external_body]
fn count_key_children<Pk: MiniscriptKey>(thresh: &Threshold<Arc<Concrete<Pk>>, 0>) -> (r: usize)
    ensures r <= thresh.inner@.len(), r == thresh.inner@.len() ==> forall|i: int| 0 <= i < thresh.inner@.len() ==> *(#[trigger] thresh.inner@[i]) is Key,
{ unimplemented!() }
// Threshold::map_ref: same k, the mapped elements in order (proved in unit c20_translate)
#[verifier::external_body]
fn threshold_of_mapped<T, U, const MAX: usize>(th: &Threshold<T, MAX>, v: Vec<U>) -> (r: Threshold<U, MAX>)
    requires v@.len() == th.inner@.len(),
    ensures r.k == th.k, r.inner@ == v@,
{ unimplemented!() }
spec fn all_upto<Pk: MiniscriptKey>(p: Concrete<Pk>, n: nat, a: Asg<Pk>) -> bool { csem_count(p, n, a) == n }
"""

LEMMAS_T = [
    ("a_threshold_of_keys_counts_the_signing_keys", r"""
proof fn lemma_count_le<Pk: MiniscriptKey>(p: Concrete<Pk>, n: nat, a: Asg<Pk>)
    ensures csem_count(p, n, a) <= n,
    decreases n,
{
    if n > 0 { lemma_count_le(p, (n - 1) as nat, a); }
}
proof fn lemma_keys_count<Pk: MiniscriptKey>(p: Concrete<Pk>, keys: Seq<Pk>, n: nat, a: Asg<Pk>)
    requires p is Thresh, keys.len() == p->Thresh_0.inner@.len(), n <= keys.len(),
             forall|i: int| 0 <= i < keys.len() ==> *(#[trigger] p->Thresh_0.inner@[i]) == Concrete::Key(keys[i]),
    ensures csem_count(p, n, a) == kcount(keys, n as int, a),
    decreases n,
{
    if n > 0 {
        lemma_keys_count(p, keys, (n - 1) as nat, a);
        assert(*p->Thresh_0.inner@[n - 1] == Concrete::Key(keys[n - 1]));
        assert(csem(*p->Thresh_0.inner@[n - 1], a) == a.keys.contains(keys[n - 1]));
        assert(csem_count(p, n, a) == csem_count(p, (n - 1) as nat, a) + (if csem(*p->Thresh_0.inner@[n - 1], a) { 1nat } else { 0nat }));
    }
}
proof fn lemma_multi_means<Pk: MiniscriptKey, Ctx: ScriptContext>(p: Concrete<Pk>, th_k: usize, keys: Seq<Pk>)
    requires p is Thresh, keys.len() == p->Thresh_0.inner@.len(), th_k == p->Thresh_0.k,
             forall|i: int| 0 <= i < keys.len() ==> *(#[trigger] p->Thresh_0.inner@[i]) == Concrete::Key(keys[i]),
    ensures forall|a: Asg<Pk>| #[trigger] csem(p, a) == spec_at_least(th_k as nat, kcount(keys, keys.len() as int, a)),
{
    assert forall|a: Asg<Pk>| #[trigger] csem(p, a) == spec_at_least(th_k as nat, kcount(keys, keys.len() as int, a)) by { lemma_keys_count(p, keys, keys.len(), a); }
}
"""),
    ("n_of_n_is_the_nested_conjunction", r"""
proof fn lemma_all_step<Pk: MiniscriptKey>(p: Concrete<Pk>, i: nat, a: Asg<Pk>)
    requires p is Thresh, i < p->Thresh_0.inner@.len(),
    ensures all_upto(p, i + 1, a) == (all_upto(p, i, a) && csem(*p->Thresh_0.inner@[i as int], a)), all_upto(p, 0, a),
{
    lemma_count_le(p, i, a);
}
proof fn lemma_means_transfer<Pk: MiniscriptKey, Ctx: ScriptContext>(m: Map<CompilationKey, AstElemExt<Pk, Ctx>>, p1: Concrete<Pk>, p2: Concrete<Pk>)
    requires map_means(m, p1), forall|a: Asg<Pk>| #[trigger] csem(p1, a) == csem(p2, a),
    ensures map_means(m, p2),
{
    assert forall|k: CompilationKey| m.dom().contains(k) implies ms_means(*(#[trigger] m[k]).ms, p2) by {
        assert(ms_means(*m[k].ms, p1));
        assert forall|a: Asg<Pk>| #[trigger] tsem(m[k].ms.node, a) == csem(p2, a) by { assert(tsem(m[k].ms.node, a) == csem(p1, a)); }
    }
}
proof fn lemma_n_of_n<Pk: MiniscriptKey>(p: Concrete<Pk>)
    requires p is Thresh, p->Thresh_0.k == p->Thresh_0.inner@.len(),
    ensures forall|a: Asg<Pk>| #[trigger] csem(p, a) == all_upto(p, p->Thresh_0.inner@.len(), a),
{
    assert forall|a: Asg<Pk>| #[trigger] csem(p, a) == all_upto(p, p->Thresh_0.inner@.len(), a) by { lemma_count_le(p, p->Thresh_0.inner@.len(), a); }
}
"""),
]


@rule("R9-assumed(T1: main thresh candidate)")
def thresh_main_excluded(text):
    a = text.find("let mut sub_ext_data = Vec::with_capacity(n);")
    m = re.search(r"if let Ok\(ms\) = Miniscript::from_ast\(ast\) \{", text)
    if a < 0 or not m or m.start() < a:
        return None
    close = match_close(text, m.end() - 1)
    return text[:a] + "thresh_main_candidate_assumed(policy_cache, policy, &mut ret, thresh, sat_prob, dissat_prob)?;\n" + text[close + 1:]


@rule("R14-map-ref-closure-to-loop")
def pk_thresh_loop(text):
    m = re.search(r"thresh\.map_ref\(\|s\|\s*\{", text)
    if not m:
        return None
    open_ = text.index("(", m.start() + len("thresh.map_ref") - 0)
    close = match_close(text, open_)
    mc = re.match(r"\|s\|\s*(\{.*\})\s*$", text[open_ + 1:close].strip(), flags=re.S)
    if not mc:
        return None
    new = ("{\n                    let mr_src = thresh.data();\n                    let mut mr_v: Vec<Pk> = Vec::new();\n                    let mut mr_i: usize = 0;\n"
           "                    while mr_i < mr_src.len()\n                        invariant\n                            mr_i <= mr_src@.len(), mr_src@ == thresh.inner@, mr_v@.len() == mr_i,\n"
           "                            forall|i: int| 0 <= i < thresh.inner@.len() ==> *(#[trigger] thresh.inner@[i]) is Key, //@inv multi_shortcut_only_when_every_child_is_a_key [C08]\n"
           "                            forall|j: int| 0 <= j < mr_i ==> *(#[trigger] mr_src@[j]) == Concrete::Key(mr_v@[j]), //@inv key_j_of_the_multi_is_the_key_of_child_j [C08]\n"
           "                        decreases mr_src@.len() - mr_i,\n                    {\n                        broadcast use axiom_key_clone;\n                        let s = &mr_src[mr_i];\n                        let mr_x = %s;\n"
           "                        mr_v.push(mr_x);\n                        mr_i += 1;\n                    }\n                    threshold_of_mapped(thresh, mr_v)\n                }" % mc.group(1))
    return text[:m.start()] + new + text[close + 1:]


@rule("R14-next-fold-to-loop")
def and_fold_loop(text):
    m = re.search(r"let mut it = thresh\.iter\(\);\s*let mut policy = it\.next\(\)\.expect\(\"[^\"]*\"\)\.clone\(\);\s*policy = it\.fold\(policy, \|acc, pol\| (.*?)\);\n", text, flags=re.S)
    if not m:
        return None
    body = m.group(1).strip()
    new = ("let fd_src = thresh.data();\n                let mut policy = fd_src[0].clone();\n                let mut fd_i: usize = 1;\n"
           "                proof { lemma_all_step(th_pol, 0, arbitrary()); assert forall|a: Asg<Pk>| #[trigger] csem(*policy, a) == all_upto(th_pol, 1, a) by { lemma_all_step(th_pol, 0, a); } }\n"
           "                while fd_i < fd_src.len()\n                    invariant\n                        1 <= fd_i <= fd_src@.len(), fd_src@ == thresh.inner@, th_pol is Thresh, th_pol->Thresh_0 == *thresh,\n"
           "                        forall|a: Asg<Pk>| #[trigger] csem(*policy, a) == all_upto(th_pol, fd_i as nat, a), //@inv nested_and_so_far_means_all_children_so_far [C08]\n"
           "                    decreases fd_src@.len() - fd_i,\n                {\n                    let pol = &fd_src[fd_i];\n                    let acc = policy;\n                    let ghost fd_acc = acc;\n"
           "                    policy = %s;\n"
           "                    proof { let fd_p = &*policy; lemma_nary2(*fd_p); assert forall|a: Asg<Pk>| #[trigger] csem(*policy, a) == all_upto(th_pol, (fd_i + 1) as nat, a) by { lemma_all_step(th_pol, fd_i as nat, a); assert(csem(*fd_acc, a) == all_upto(th_pol, fd_i as nat, a)); } }\n"
           "                    fd_i += 1;\n                }\n" % body)
    return text[:m.start()] + new + text[m.end():]


def semantics_column():
    return "".join(T8.pick(L7.PRELUDE, n) for n in ("spec_and", "spec_or", "spec_andor", "spec_wrap", "spec_at_least"))


R7 = [lit("R7", "types::extra_props::ExtData", "ExtData", required=False), lit("R7", "types::Type::", "Type::", required=False),
      lit("R7", "types::ExtData::", "ExtData::", required=False), lit("R7", "types::Type", "Type", required=False),
      lit("R7", "types::ExtData", "ExtData", required=False), lit("R7", "types::Error", "TypeError", required=False),
      lit("R7", "crate::Threshold", "Threshold", required=False),
      sub("R12", r"\bMiniscript::(TRUE|FALSE)\b(?!\s*\()", r"Miniscript::\1()", required=False)]


class AnyChain:
    """R14: `map.iter().any(|(existing_key, existing_elem)| { f64 cost comparison })` -> any_existing_is_better(..) (an arbitrary bool)."""
    rule = "R14-any-cost-comparison"

    def __call__(self, text):
        m = re.search(r"\bmap\.iter\(\)\.any\(", text)
        if not m:
            return None
        close = match_close(text, m.end() - 1)
        return text[:m.start()] + "any_existing_is_better(map, elem_key, elem_cost, sat_prob, dissat_prob)" + text[close + 1:]


class RetainChain:
    """R14: `*map = mem::take(map).into_iter().filter(|(k, e)| { f64 cost comparison }).collect();` -> retain_not_worse(map, ..);"""
    rule = "R14-take-filter-collect"

    def __call__(self, text):
        m = re.search(r"\*map = mem::take\(map\)\s*\.into_iter\(\)\s*\.filter\(", text)
        if not m:
            return None
        close = match_close(text, m.end() - 1)
        m2 = re.match(r"\s*\.collect\(\);", text[close + 1:])
        if not m2:
            return None
        return text[:m.start()] + "retain_not_worse(map, elem_key, elem_cost, sat_prob, dissat_prob);" + text[close + 1 + m2.end():]


def build(repo):
    vf = VerusFile(NAME, repo)
    strip = sub("derive-off", r"#\[derive\([^)]*\)\]\s*", "", required=False)
    _tree.emit(vf, ext="real", types="defs", script_context=SCRIPT_CONTEXT)
    vf.trust("trait ScriptContext reduced to check_local_validity / sig_type (no contracts); struct ScriptContextError; enum SigType",
             "the context's verdict only FILTERS candidates (units c12_validation / k12_context decide what it accepts); sig_type selects multi vs multi_a")
    vf.item(TYPES, "enum:ErrorKind")
    vf.item(CONC, "enum:Policy", rewrites=[sub("derive-off", r"#\[derive\([^)]*\)\]\s*", ""), sub("R7-rename", r"\benum Policy<", "enum Concrete<")])
    vf.raw(T8.asg_oracle(), keep_vis=True)
    vf.raw(T8.csem_oracle())
    vf.trust("Asg / csem / csem_count / cchild / carity (oracle text of unit c18_semantic, imported)", "truth-table meaning of a concrete policy: And = all, Or = any (odds dropped), Thresh = at least k")
    vf.raw(semantics_column())
    vf.raw(ORACLE)
    vf.trust("spec_and / spec_or / spec_andor / spec_wrap / spec_at_least (oracle text of unit c07_lift, imported); tsem / tcount / kcount / msem (this unit)",
             "the specification's semantics column, closed under the tree structure; raw_pkh_holds is uninterpreted (pk_h of a bare hash has no key)")

    # ---- the cast table ------------------------------------------------------------------------------------------------------------
    rows = C5.cast_table(repo)
    comp = sorted(set(re.sub(r"^CompilerExtData::", "", r["comp_ext_data"]) for r in rows))
    vf.raw(STUBS % dict(comp_stubs="\n".join("    #[verifier::external_body] fn %s(self) -> Self { unimplemented!() }" % c for c in comp)))
    vf.trust("struct CompilerExtData (opaque) + CompilerExtData::{cast_*, type_check} + comp_type_check_stub (external_body, unconstrained); struct TypeError; enum Error",
             "f64 cost figures of the policy compiler and error payloads: no meaning clause depends on them")
    with vf.block("impl Type"):
        for f in sorted(set(re.sub(r"^types::Type::", "", r["ast_type"]) for r in rows)):
            vf.fn(TYPES, "impl:Type/fn:%s" % f, qual="Type", assumed=True)
        vf.fn(TYPES, "impl:Type#1/fn:type_check", qual="Type", assumed=True, rewrites=[lit("R7", "-> Result<Self, Error>", "-> Result<Self, TypeError>")])
    with vf.block("impl ExtData"):
        for f in sorted(set(re.sub(r"^types::ExtData::", "", r["ext_data"]) for r in rows)):
            vf.fn(EXT, "impl:ExtData#1/fn:%s" % f, qual="ExtData", assumed=True)
        vf.fn(EXT, "impl:ExtData#1/fn:type_check", qual="ExtData", assumed=True)
    vf.trust("Type::{cast_*, type_check}, ExtData::{cast_*, type_check} (external_body, NO contract)", "the annotations a candidate carries are the subject of unit c05_ctors; "
             "here they are arbitrary values (a failing rule only removes a candidate)")
    TT = "Terminal::<Pk, Ctx>"
    with vf.block("impl<Pk: MiniscriptKey, Ctx: ScriptContext> Miniscript<Pk, Ctx>"):
        vf.fn(MSMOD, MSIMPL + "/fn:from_components_unchecked", qual="Miniscript", assumed=True, rewrites=R7,
              contract=Contract(ensures=[Clause("frame", (), "r.node == node && r.ty == ty && r.ext == ext")]))
        for c in ("TRUE", "FALSE"):
            vf.raw("    #[verifier::external_body] fn %s() -> (r: Self) ensures r.node == %s::%s { unimplemented!() }" % (c, TT, c.capitalize()))
    vf.trust("Miniscript::from_components_unchecked (frame), Miniscript::TRUE / FALSE (node) (external_body, contract only)", "proved in unit c05_ctors (clauses `frame` / `node`)")
    vf.item(COMPILER, "struct:AstElemExt", rewrites=[sub("derive-off", r"#\[derive\([^)]*\)\]\s*", "")])

    SHAPES = {"OrI_0_X": "or_i(0, X)", "OrI_X_0": "or_i(X, 0)", "AndV_X_1": "and_v(X, 1)"}
    kinds = []
    for i, row in enumerate(rows):
        node = re.sub(r"\s+", " ", row["node"])
        m = re.match(r"^Terminal::(\w+)$", node)
        if m:
            kind = m.group(1)
        elif re.match(r"^\|ms\| Terminal::OrI\(Arc::new\(Miniscript::FALSE\), ms\)$", node):
            kind = "OrI_0_X"
        elif re.match(r"^\|ms\| Terminal::OrI\(ms, Arc::new\(Miniscript::FALSE\)\)$", node):
            kind = "OrI_X_0"
        elif re.match(r"^\|ms\| Terminal::AndV\(ms, Arc::new\(Miniscript::TRUE\)\)$", node):
            kind = "AndV_X_1"
        else:
            kind = "row%d" % i
        kinds.append(kind if kind not in kinds else "%s_dup%d" % (kind, i))
    for i_row, (row, kind) in enumerate(zip(rows, kinds)):
        ens = [C("cast_keeps_the_meaning", "r is Ok ==> same_meaning(*r->Ok_0.ms, *ast.ms)")]
        if kind in ("Alt", "Swap", "Check", "DupIf", "Verify", "NonZero", "ZeroNotEqual"):
            ens.append(C("builds_the_wrapper_around_the_element", "r is Ok ==> r->Ok_0.ms.node == %s::%s(ast.ms)" % (TT, kind)))
        # named by position in all_casts() (as in c05_ctors): a row whose node builder changes keeps its obligation ids
        vf.fn(COMPILER, "impl:Cast<Pk, Ctx>/fn:cast", rename="cast__row%d" % i_row, qual="Cast", props=PROPS, rewrites=[
            C5.instantiate_cast(row),
            lit("R6", "(&self, ast:", "<Pk: MiniscriptKey, Ctx: ScriptContext>(ast:"),
        ] + ([sub("R10-body-start", r"\{", "{\n        proof { reveal_with_fuel(tsem, 2); }", count=1)] if kind in SHAPES else []) + R7, contract=Contract(ensures=ens))
    vf.trust("Cast::cast: one instance per row of all_casts() (R6, machinery of unit c05_ctors)", "fn pointers: `(self.node)(x)` is instantiated with the row's `node` expression, closures beta-reduced")

    # ---- AstElemExt::{terminal, binary, ternary} -----------------------------------------------------------------------------------------
    with vf.block("impl<Pk: MiniscriptKey, Ctx: ScriptContext> Miniscript<Pk, Ctx>"):
        vf.fn(MSMOD, T8.impl_with_fn(repo, MSMOD, "Miniscript<Pk, Ctx>", "as_inner"), qual="Miniscript", props=("C11",), contract=Contract(ensures=[Clause("field", (), "*r == self.node")]))
    with vf.block("impl<Pk: MiniscriptKey, Ctx: ScriptContext> AstElemExt<Pk, Ctx>"):
        vf.fn(COMPILER, "impl:AstElemExt<Pk, Ctx>#1/fn:terminal", qual="AstElemExt", props=PROPS,
              contract=Contract(ensures=[C("candidate_is_the_given_miniscript", "*r.ms == ms")]))
        for fn in ("binary", "ternary"):
            vf.fn(COMPILER, "impl:AstElemExt<Pk, Ctx>#1/fn:%s" % fn, qual="AstElemExt", props=PROPS, rewrites=[
                sub("R7-closure-to-stub", r"let lookup_ext = \|n\| match n \{.*?\};\n", "", flags=re.S),
                lit("R7-closure-to-stub", "CompilerExtData::type_check_with_child(&ast, lookup_ext)", "comp_type_check_stub(&ast)"),
            ] + R7, contract=Contract(ret="o", ensures=[C("candidate_is_the_given_node", "o is Ok ==> o->Ok_0.ms.node == ast")]))

    # ---- insert_elem / insert_elem_closure / insert_best_wrapped -------------------------------------------------------------------------
    vf.raw(T8.pick_f64())
    vf.trust("struct F64 with external_body Mul / Div / Add / lit, usize_as_f64 (text of unit c08_taptree_compile)", "R7-f64: f64 probabilities / costs are uninterpreted")
    vf.item(COMPILER, "struct:OrdF64", rewrites=[sub("derive-clone-copy", r"#\[derive\([^)]*\)\]", "#[derive(Clone, Copy)]")] + T8.F64)
    vf.item(COMPILER, "struct:CompilationKey", rewrites=[sub("derive-clone-copy", r"#\[derive\([^)]*\)\]", "#[derive(Clone, Copy)]")])
    vf.raw(MAPS)
    vf.trust("struct BTreeMap with new / insert / is_empty (external_body)", "std::collections::BTreeMap as a finite map; `insert` overwrites the entry of its key")
    vf.trust("any_existing_is_better, retain_not_worse (external_body)", "R14: `map.iter().any(|..| cost comparison)` is an arbitrary bool; `*map = mem::take(map).into_iter().filter(|..| cost comparison).collect()` "
             "keeps a SUBSET of the entries unchanged (which subset is decided by f64 costs: not modelled)")
    vf.trust("candidates_of (external_body)", "`map.values()` / `values_mut()` yield candidates that are entries of the map")
    vf.trust("struct Cast { row } + all_casts() + Cast::cast (external_body): an Ok result has the meaning of its argument",
             "R6: the common contract of the ten table rows, each proved as Cast::cast__<row>.cast_keeps_the_meaning in this unit")
    vf.trust("impl Clone for AstElemExt (external_body)", "derived Clone returns an equal value (DESIGN 3.4)")
    for name, text in LEMMAS_M:
        vf.spec_obligation("oracle::" + name, text, ("C08",))
    with vf.block("impl CompilationKey"):
        vf.fn(COMPILER, "impl:CompilationKey/fn:from_type", qual="CompilationKey", assumed=True, rewrites=T8.F64)
    with vf.block("impl<Pk: MiniscriptKey, Ctx: ScriptContext> AstElemExt<Pk, Ctx>"):
        vf.fn(COMPILER, "impl:AstElemExt<Pk, Ctx>#0/fn:cost_1d", qual="AstElemExt", assumed=True, rewrites=T8.F64)
    vf.trust("CompilationKey::from_type, AstElemExt::cost_1d (external_body, NO contract)", "map key / f64 cost of a candidate: only decide WHICH candidates survive")
    IE = "only_gains(old(map)@, final(map)@, *elem.ms)"
    vf.fn(COMPILER, "fn:insert_elem", props=PROPS, rewrites=[
        lit("R7-arc-deref", "Ctx::check_local_validity(&elem.ms)", "Ctx::check_local_validity(&*elem.ms)"),
        AnyChain(), RetainChain(),
        sub("R10-body-start", r"\{", "{\n    proof { assert(same_meaning(*elem.ms, *elem.ms)); }", count=1),
    ] + T8.F64, contract=Contract(ensures=[
        C("map_only_gains_the_element", IE),
        C("meaning_invariant_kept", "forall|p: Concrete<Pk>| map_means(old(map)@, p) && ms_means(*elem.ms, p) ==> #[trigger] map_means(final(map)@, p)"),
    ]))
    # insert_elem_closure: the map only gains casts of casts ... of the element
    INV = ("            only_gains(old(map)@, map@, *ic_e0.ms), //@inv map_only_gains_casts_of_the_element [C08]\n"
           "            forall|i: int| 0 <= i < cast_stack@.len() ==> same_meaning(*(#[trigger] cast_stack@[i]).ms, *ic_e0.ms), //@inv work_list_holds_casts_of_the_element [C08]\n")
    vf.fn(COMPILER, "fn:insert_elem_closure", props=PROPS, attrs="#[verifier::exec_allows_no_decreases_clause]", rewrites=[
        lit("R12-is-empty", "!cast_stack.is_empty()", "cast_stack.len() != 0"),
        sub("R10-body-start", r"\{", "{\n    let ghost ic_e0 = astelem_ext;\n    proof { assert(same_meaning(*ic_e0.ms, *ic_e0.ms)); }", count=1),
        sub("R10-while-invariant", r"while cast_stack\.len\(\) != 0 \{", "while cast_stack.len() != 0\n        invariant\n" + INV + "    {"),
        sub("R10-for-invariant", r"for c in &casts \{",
            "for c in ic_it: &casts\n            invariant\n" + INV + "            same_meaning(*current.ms, *ic_e0.ms),\n        {\n            let ghost ic_m_in = map@;"),
        sub("R10-after-cast", r"(if let Ok\(new_ext\) = c\.cast\(&current\) \{)",
            r"\1" + "\n                let ghost ic_ne = new_ext;\n"
            "                proof { let r1 = &*ic_ne.ms; let r2 = &*current.ms; let r3 = &*ic_e0.ms; lemma_same_meaning_trans(*r1, *r2, *r3); }"),
        sub("R10-after-insert", r"(cast_stack\.push_back\(new_ext\);\s*\})",
            r"\1" + "\n                proof { let r1 = &*ic_ne.ms; let r3 = &*ic_e0.ms; lemma_gains_trans(old(map)@, ic_m_in, map@, *r3, *r1); }"),
    ] + T8.F64, contract=Contract(ensures=[
        C("map_only_gains_casts_of_the_element", "only_gains(old(map)@, final(map)@, *astelem_ext.ms)"),
        C("meaning_invariant_kept", "forall|p: Concrete<Pk>| map_means(old(map)@, p) && ms_means(*astelem_ext.ms, p) ==> #[trigger] map_means(final(map)@, p)"),
    ]))
    register_named_invariants(vf, "insert_elem_closure")
    vf.trust("insert_elem_closure: #[verifier::exec_allows_no_decreases_clause]", "termination of the cast closure rests on the f64 cost order (an element is only re-queued when strictly better): NOT verified")
    # ---- insert_best_wrapped / compile_binary / compile_tern ----------------------------------------------------------------------------------
    vf.raw(WRAPPED)
    vf.trust("best_compilations (external_body): every candidate of an Ok result means the policy it was asked for",
             "the INDUCTION HYPOTHESIS of the per-arm obligations (best_compilations is recursive through insert_best_wrapped / compile_binary / compile_tern and the arms); "
             "the memoisation in policy_cache (keyed by policy and f64 probabilities) and the recursion itself are not verified")
    vf.trust("touch_branch_prob (external_body)", "R9-cost: `x.comp_ext_data.branch_prob = Some(w)` inside `values_mut()` loops is replaced by a stub that may change every candidate's cost data but no candidate's `ms`")
    vf.item(COMPILER, "enum:CompilerError", rewrites=[sub("derive-debug-only", r"#\[derive\([^)]*\)\]", "#[derive(Debug)]"),
                                                     lit("R7", "policy::concrete::PolicyError", "PolicyError")])
    MEANS = "map_means(%s@, *policy)"
    vf.fn(COMPILER, "fn:insert_best_wrapped", props=PROPS, rewrites=[
        values_loop("for x in best_compilations(policy_cache, policy, sat_prob, None)?.values()", "best_compilations(policy_cache, policy, sat_prob, None)?", "x", "ib",
                    "                    map_means(map@, *policy), //@inv every_candidate_means_the_policy [C08]\n"
                    "                    forall|i: int| 0 <= i < ib_vals@.len() ==> ms_means(*(#[trigger] ib_vals@[i]).ms, *policy),",
                    pre="                    proof { assert(ms_means(*x.ms, *policy)); }\n"),
        sub("R10-for-invariant", r"for c in &casts \{", "for c in ib_cit: &casts\n            invariant\n                map_means(map@, *policy), //@inv every_candidate_means_the_policy [C08]\n        {"),
        sub("R10-after-cast", r"(if let Ok\(new_ext\) = c\.cast\(x\) \{)",
            r"\1" + "\n                    proof { assert forall|a: Asg<Pk>| #[trigger] tsem(new_ext.ms.node, a) == csem(*policy, a) by { assert(tsem(new_ext.ms.node, a) == tsem(x.ms.node, a)); } }"),
    ] + T8.F64, contract=Contract(requires=["ms_means(*data.ms, *policy)", MEANS % "old(map)"], ensures=[
        C("every_candidate_means_the_policy", "r is Ok ==> " + MEANS % "final(map)"),
    ]))
    register_named_invariants(vf, "insert_best_wrapped")

    # the weight expression is carried over verbatim (`weights[0]`, or a local bound to it): touch_branch_prob's contract does not depend on it
    BRANCH = lambda var, m, w=None: sub("R9-cost(%s)" % var, r"\b%s\s*\.\s*comp_ext_data\s*\.\s*branch_prob\s*=\s*Some\(([^;]*)\)\s*;" % re.escape(var),
                                        lambda mm: "touch_branch_prob(%s, %s);" % (m, mm.group(1).strip()))
    UNCH = lambda m: "ms_unchanged(old(%s)@, %s@)," % (m, m)
    REQ_CALL = "forall|x: Arc<Miniscript<Pk, Ctx>>, y: Arc<Miniscript<Pk, Ctx>>| call_requires(bin_func, (x, y))"
    # what the caller must establish: whatever node bin_func builds from a left and a right candidate means the policy
    REQ_MEAN = ("forall|x: Arc<Miniscript<Pk, Ctx>>, y: Arc<Miniscript<Pk, Ctx>>, t: Terminal<Pk, Ctx>| is_cand_of(old(left_comp)@, x) && is_cand_of(old(right_comp)@, y) "
                "&& #[trigger] call_ensures(bin_func, (x, y), t) ==> t_means(t, *policy)")
    CB_INV = ("                    map_means(ret@, *policy), //@inv every_candidate_means_the_policy [C08]\n"
              "                    " + UNCH("left_comp") + " " + UNCH("right_comp") + "\n"
              "                    " + REQ_CALL + ",\n                    " + REQ_MEAN + ",\n"
              "                    forall|i: int| 0 <= i < cb_l_vals@.len() ==> is_cand_of(old(left_comp)@, (#[trigger] cb_l_vals@[i]).ms),")
    # the names of the two loop variables, of the local holding the left candidate's miniscript, of the node built by bin_func and of the new
    # candidate are read off the text (structure, not spelling); a shape that is not recognised leaves the old literal name and the rewrite
    # below reports the lost anchor
    cb_text = strip_docs(repo.at(COMPILER, "fn:compile_binary").text)
    def cb_name(pattern, default):
        m = re.search(pattern, cb_text)
        return m.group(1) if m else default
    CB_L = cb_name(r"\bfor\s+(\w+)\s+in\s+left_comp\s*\.\s*values_mut\s*\(\s*\)", "l")
    CB_R = cb_name(r"\bfor\s+(\w+)\s+in\s+right_comp\s*\.\s*values_mut\s*\(\s*\)", "r")
    CB_LREF = cb_name(r"\blet\s+(\w+)\s*=\s*Arc::clone\(\s*&\s*%s\s*\.\s*ms\s*\)\s*;" % re.escape(CB_L), None)
    CB_INV_R = (CB_INV + "\n                    forall|i: int| 0 <= i < cb_r_vals@.len() ==> is_cand_of(old(right_comp)@, (#[trigger] cb_r_vals@[i]).ms),\n"
                "                    is_cand_of(old(left_comp)@, %s.ms)," % CB_L + (" %s == %s.ms," % (CB_LREF, CB_L) if CB_LREF else ""))
    vf.fn(COMPILER, "fn:compile_binary", props=PROPS, rewrites=[
        ARRAY_LET,
        values_loop("for %s in left_comp.values_mut()" % CB_L, "&*left_comp", CB_L, "cb_l", CB_INV, pre="                    proof { lemma_cand_unchanged(old(left_comp)@, left_comp@); }\n"),
        values_loop("for %s in right_comp.values_mut()" % CB_R, "&*right_comp", CB_R, "cb_r", CB_INV_R, pre="                    proof { lemma_cand_unchanged(old(right_comp)@, right_comp@); }\n"),
        BRANCH(CB_L, "left_comp"), BRANCH(CB_R, "right_comp"),
        lit("R7", "candidates_of(&cb_l_map)", "candidates_of(cb_l_map)"), lit("R7", "candidates_of(&cb_r_map)", "candidates_of(cb_r_map)"),
        sub("R10-after-build", r"(let\s+(\w+)\s*=\s*bin_func\([^;]*\);)", lambda m: m.group(1) + "\n            proof { assert(t_means(%s, *policy)); }" % m.group(2)),
        sub("R10-after-binary", r"(if\s+let\s+Ok\((\w+)\)\s*=\s*AstElemExt::binary\([^;{]*\)\s*\{)",
            lambda m: m.group(1) + "\n                    proof {\n                        assert(ms_means(*%s.ms, *policy)); //@inv candidate_is_bin_func_of_a_left_and_a_right_candidate [C08]\n                    }" % m.group(2)),
    ] + T8.F64, contract=Contract(
        requires=[MEANS % "old(ret)", REQ_CALL, REQ_MEAN],
        ensures=[
            C("every_candidate_means_the_policy", "r is Ok ==> " + MEANS % "final(ret)"),
            C("sub_compilations_keep_their_miniscripts", "ms_unchanged(old(left_comp)@, final(left_comp)@) && ms_unchanged(old(right_comp)@, final(right_comp)@)"),
        ]))
    register_named_invariants(vf, "compile_binary")

    # what the caller of compile_tern must establish: andor(A, B, C) over the candidates of the three maps means the policy
    REQ_T = ("forall|x: Arc<Miniscript<Pk, Ctx>>, y: Arc<Miniscript<Pk, Ctx>>, z: Arc<Miniscript<Pk, Ctx>>| is_cand_of(old(a_comp)@, x) && is_cand_of(old(b_comp)@, y) && is_cand_of(old(c_comp)@, z) "
             "==> t_means(#[trigger] andor_node(x, y, z), *policy)")
    CT0 = ("                    map_means(ret@, *policy), //@inv every_candidate_means_the_policy [C08]\n"
           "                    " + UNCH("a_comp") + " " + UNCH("b_comp") + " " + UNCH("c_comp") + "\n                    " + REQ_T + ",\n")
    CAND = lambda t, m: "                    forall|i: int| 0 <= i < %s_vals@.len() ==> is_cand_of(old(%s)@, (#[trigger] %s_vals@[i]).ms),\n" % (t, m, t)
    CT_A = CT0 + CAND("ct_a", "a_comp")
    CT_B = CT_A + CAND("ct_b", "b_comp") + "                    is_cand_of(old(a_comp)@, a.ms), aref == a.ms,\n"
    CT_C = CT_B + CAND("ct_c", "c_comp") + "                    is_cand_of(old(b_comp)@, b.ms), bref == b.ms,\n"
    vf.fn(COMPILER, "fn:compile_tern", props=PROPS, rewrites=[
        values_loop("for a in a_comp.values_mut()", "&*a_comp", "a", "ct_a", CT_A.rstrip("\n"), pre="                    proof { lemma_cand_unchanged(old(a_comp)@, a_comp@); }\n"),
        values_loop("for b in b_comp.values_mut()", "&*b_comp", "b", "ct_b", CT_B.rstrip("\n"), pre="                    proof { lemma_cand_unchanged(old(b_comp)@, b_comp@); }\n"),
        values_loop("for c in c_comp.values_mut()", "&*c_comp", "c", "ct_c", CT_C.rstrip("\n"), pre="                    proof { lemma_cand_unchanged(old(c_comp)@, c_comp@); }\n"),
        BRANCH("a", "a_comp"), BRANCH("b", "b_comp"), BRANCH("c", "c_comp"),
    ] + [lit("R7", "candidates_of(&ct_%s_map)" % x, "candidates_of(ct_%s_map)" % x) for x in "abc"] + [
        sub("R10-after-build", r"(let ast = Terminal::AndOr\(Arc::clone\(&aref\), Arc::clone\(&bref\), Arc::clone\(&cref\)\);)", r"\1" + "\n                proof { assert(is_cand_of(old(c_comp)@, c.ms)); assert(t_means(andor_node(aref, bref, cref), *policy)); }", required=False),
        sub("R10-after-ternary", r"(if let Ok\(new_ext\) = AstElemExt::ternary\(ast, a, b, c\) \{)", r"\1" + "\n                    proof {\n                        assert(ms_means(*new_ext.ms, *policy)); //@inv candidate_is_andor_of_a_b_c_in_this_order [C08]\n                    }"),
    ] + T8.F64, contract=Contract(
        requires=[MEANS % "old(ret)", REQ_T],
        ensures=[
            C("every_candidate_means_the_policy", "r is Ok ==> " + MEANS % "final(ret)"),
            C("sub_compilations_keep_their_miniscripts", "ms_unchanged(old(a_comp)@, final(a_comp)@) && ms_unchanged(old(b_comp)@, final(b_comp)@) && ms_unchanged(old(c_comp)@, final(c_comp)@)"),
        ]))
    register_named_invariants(vf, "compile_tern")

    # ---- best_compilations: the per-policy-variant arms --------------------------------------------------------------------------------------
    check_macros(repo)
    vf.raw("".join("spec fn bin_%s<Pk: MiniscriptKey, Ctx: ScriptContext>(x: %s, y: %s) -> Terminal<Pk, Ctx> { Terminal::%s(x, y) }\n" % (c, MS_ARC, MS_ARC, c)
                   for c in ("AndB", "AndV", "OrB", "OrD", "OrC", "OrI")))
    vf.raw(ARM_ORACLE)
    for name in ("lemma_nary2", "lemma_unchanged_means", "lemma_cand_means", "lemma_single_cand"):
        pass
    vf.functions["oracle::binary_nodes_and_candidate_glue"] = dict(props=("C08",), file=None, lines=None, clauses={}, start=vf._lines - 90, end=vf._lines, origin="verif")
    clone_axioms = "".join(T8.pick(L7.PRELUDE, n) for n in ("axiom_key_clone", "axiom_sha256_clone", "axiom_hash256_clone", "axiom_ripemd160_clone", "axiom_hash160_clone"))
    vf.raw(clone_axioms + "broadcast group clone_is_identity { axiom_key_clone, axiom_sha256_clone, axiom_hash256_clone, axiom_ripemd160_clone, axiom_hash160_clone }\n")
    vf.trust("axiom_key_clone / axiom_*_clone (admit; text of unit c07_lift)", "Clone on keys / hashes returns an equal value (DESIGN 3.4)")
    vf.raw(ARM_STUBS)
    vf.trust("Type::FALSE() / ExtData::FALSE() (external_body), thresh_arm_excluded (external_body, no contract)",
             "R12 const-as-fn: only feed a map KEY; R9: the Thresh arm is not verified in this step (nothing is assumed about what it leaves in `ret`)")
    with vf.block("impl<Pk: MiniscriptKey, Ctx: ScriptContext> Miniscript<Pk, Ctx>"):
        for name, node in (("pk_k", "PkK(pk)"), ("pk_h", "PkH(pk)"), ("after", "After(time)"), ("older", "Older(time)"), ("sha256", "Sha256(hash)"),
                           ("hash256", "Hash256(hash)"), ("ripemd160", "Ripemd160(hash)"), ("hash160", "Hash160(hash)")):
            vf.fn(MSMOD, MSIMPL + "/fn:" + name, qual="Miniscript", assumed=True, rewrites=R7,
                  contract=Contract(ensures=[Clause("node", (), "r.node == %s::%s" % (TT, node))]))
    vf.trust("Miniscript::{pk_k, pk_h, after, older, sha256, hash256, ripemd160, hash160} (external_body, clause `node`)", "proved in unit c05_ctors (identical clause)")
    SIG = ("fn best_compilations_step<Pk: MiniscriptKey, Ctx: ScriptContext>(policy_cache: &mut PolicyCache<Pk, Ctx>, policy: &Concrete<Pk>, sat_prob: f64, dissat_prob: Option<f64>) "
           "-> Result<BTreeMap<CompilationKey, AstElemExt<Pk, Ctx>>, CompilerError>")
    ALLM = "r is Ok ==> map_means(r->Ok_0@, *policy)"
    LEAVES = ["Unsatisfiable", "Trivial", "Key", "After", "Older", "Sha256", "Hash256", "Ripemd160", "Hash160"]
    reg = repo.at(COMPILER, "fn:best_compilations")
    if "let mut ret = BTreeMap::new();" not in reg.text:
        raise Undecided("best_compilations: `let mut ret = BTreeMap::new();` not found (anchor lost)")
    vf.step(COMPILER, "fn:best_compilations/match:*policy", "best_compilations_step", SIG, props=PROPS,
            exclude={"Concrete::Thresh(ref thresh)": "thresh_arm_excluded(policy_cache, policy, &mut ret, thresh, sat_prob, dissat_prob)?"},
            rewrites=[
                MacroExpander(),
                sub("R7-assert-eq", r"assert_eq!\(subs\.len\(\), 2, \"[^\"]*\"\);", "assert!(subs.len() == 2);"),
                sub("R7-arc-as-ref", r"&?(\b[\w.\[\]]+)\.as_ref\(\)", r"&*\1"),
                sub("R12-unwrap-or", r"dissat_prob\.unwrap_or\(0 as f64\)", "(match dissat_prob { Some(dp_v) => dp_v, None => usize_as_f64(0) })"),
                sub("R10-closure-ensures", r"let dissat_probs = \|w: f64\| -> Vec<Option<f64>> \{", "let dissat_probs = |w: f64| -> (dp_r: Vec<Option<f64>>) ensures dp_r@.len() == 4 {"),
                sub("R10-for-invariant", r"for dissat_prob in dissat_probs\(rw\)\.iter\(\) \{",
                    "let dp_vec_l = dissat_probs(rw);\n            for dissat_prob in dp_it: dp_vec_l.iter()\n                invariant\n                    l_comp@.len() == dp_it.index@, *policy is Or, subs@ == policy->Or_0@, subs@.len() == 2,\n"
                    "                    forall|j: int| 0 <= j < l_comp@.len() ==> map_means((#[trigger] l_comp@[j])@, *subs@[0].1),\n            {"),
                sub("R10-for-invariant", r"for dissat_prob in dissat_probs\(lw\)\.iter\(\) \{",
                    "let dp_vec_r = dissat_probs(lw);\n            for dissat_prob in dp_it: dp_vec_r.iter()\n                invariant\n                    r_comp@.len() == dp_it.index@, *policy is Or, subs@ == policy->Or_0@, subs@.len() == 2,\n"
                    "                    forall|j: int| 0 <= j < r_comp@.len() ==> map_means((#[trigger] r_comp@[j])@, *subs@[1].1),\n            {"),
                sub("R10-typed-vec", r"let mut l_comp = vec!\[\];\s*let mut r_comp = vec!\[\];", "let mut l_comp: Vec<BTreeMap<CompilationKey, AstElemExt<Pk, Ctx>>> = Vec::new();\n            let mut r_comp: Vec<BTreeMap<CompilationKey, AstElemExt<Pk, Ctx>>> = Vec::new();"),
                sub("R12", r"\b(Type|ExtData)::FALSE\b(?!\s*\()", r"\1::FALSE()"),
            ] + [T8.sub_as_f64_ext()] + T8.F64 + R7 + [
            ],
            pre_match="    broadcast use cand_glue;\n    broadcast use clone_is_identity;\n    proof { lemma_nary2(*policy); if *policy is Or && policy->Or_0@.len() == 2 { let or_l = &*policy->Or_0@[0].1; let or_r = &*policy->Or_0@[1].1; lemma_nary2(*or_l); lemma_nary2(*or_r); } }\n    let mut ret = BTreeMap::new();",
            post_match="    let step_result = Ok(ret);",
            contract=Contract(requires=[
                # check_binary_ops (run by every public entry point before the compiler): `and` / `or` are binary, also one level down (the and-or arm indexes x[0], x[1])
                "(*policy matches Concrete::And(subs) ==> subs@.len() == 2) && (*policy matches Concrete::Or(subs) ==> subs@.len() == 2 "
                "&& (*subs@[0].1 matches Concrete::And(x) ==> x@.len() == 2) && (*subs@[1].1 matches Concrete::And(x) ==> x@.len() == 2) "
                # odds are u32 in the string syntax: their sum does not overflow a usize
                "&& subs@[0].0 + subs@[1].0 <= usize::MAX)"]),
            cases=[("leaves", " || ".join("*policy is %s" % v for v in LEAVES), [C("every_candidate_means_the_policy.%s" % v, "*policy is %s ==> (%s)" % (v, ALLM)) for v in LEAVES]),
                   ("And", "*policy is And", [C("every_candidate_means_the_policy", ALLM)]),
                   ("Or", "*policy is Or", [C("every_candidate_means_the_policy", ALLM)]),
                   ("Thresh", "*policy is Thresh", [])])
    # ---- the Thresh arm: multi / multi_a shortcut and the n-of-n special case verbatim; the main candidate (T1) ASSUMED ---------------------------
    from units import c18_normalized as N
    N.emit_threshold_fns(T8.SkipFns(vf, ("n", "k", "data")))
    with vf.block("impl<T, const MAX: usize> Threshold<T, MAX>"):
        vf.fn(_tree.THRESH, "impl:Threshold<T, MAX>/fn:is_and", qual="Threshold", props=PROPS, contract=Contract(ensures=[C("n_of_n", "r == (self.k == self.inner@.len())")]))
        vf.fn(_tree.THRESH, "impl:Threshold<T, MAX>/fn:set_maximum", qual="Threshold", props=PROPS, contract=Contract(ensures=[
            C("ok_iff_within_the_new_maximum", "r is Ok <==> (1 <= self.k && self.k <= self.inner@.len() && (NEWMAX == 0 || self.inner@.len() <= NEWMAX))"),
            C("keeps_k_and_elements", "r is Ok ==> r->Ok_0.k == self.k && r->Ok_0.inner@ == self.inner@")]))
    with vf.block("impl<Pk: MiniscriptKey, Ctx: ScriptContext> Miniscript<Pk, Ctx>"):
        for name, node in (("multi", "Multi(thresh)"), ("multi_a", "MultiA(thresh)")):
            vf.fn(MSMOD, MSIMPL + "/fn:" + name, qual="Miniscript", assumed=True, rewrites=R7,
                  contract=Contract(ensures=[Clause("node", (), "r.node == %s::%s" % (TT, node))]))
    vf.raw(THRESH_STUBS)
    vf.trust("thresh_main_candidate_assumed (external_body): keeps `every candidate means the policy`",
             "ASSUMED, NOT VERIFIED (T1): the main Thresh candidate -- best E / W sub-compilations chosen by f64 cost, assembled by a `map_ref` closure that captures mutable state "
             "and swaps index 0 with the cheapest E, then `Miniscript::from_ast` + insert_wrap! -- is replaced by this stub")
    vf.trust("count_key_children, threshold_of_mapped (external_body)", "R15 / R14: std filter + count (all children are keys when the count is n); Threshold::map_ref keeps k and maps the elements in order (unit c20_translate)")
    for name, text in LEMMAS_T:
        vf.spec_obligation("oracle::" + name, text, ("C08",))
    OTHER = ["Concrete::Unsatisfiable", "Concrete::Trivial", "Concrete::Key(ref pk)", "Concrete::After(n)", "Concrete::Older(n)", "Concrete::Sha256(ref hash)",
             "Concrete::Hash256(ref hash)", "Concrete::Ripemd160(ref hash)", "Concrete::Hash160(ref hash)", "Concrete::And(ref subs)", "Concrete::Or(ref subs)"]
    vf.step(COMPILER, "fn:best_compilations/match:*policy", "best_compilations_thresh_step", SIG.replace("best_compilations_step", "best_compilations_thresh_step"), props=PROPS,
            exclude={k: "{ other_arm_excluded(); }" for k in OTHER},
            arm_rewrites={"Concrete::Thresh(ref thresh)": [
                thresh_main_excluded,
                sub("R15-count-keys", r"thresh\s*\.iter\(\)\s*\.filter\(\|s\| matches!\(\*\*\*s, Concrete::Key\(_\)\)\)\s*\.count\(\)", "count_key_children(thresh)"),
                sub("R7-into-arc", r"(Concrete::\w+\(vec!\[[^\]]*\]\))\.into\(\)", r"Arc::new(\1)"),
                sub("R10-multi-hint", r"(if let Ok\(pk_thresh\) = pk_thresh\.set_maximum\(\) \{)",
                    r"\1" + "\n                            proof { lemma_multi_means::<Pk, Ctx>(th_pol, pk_thresh.k, pk_thresh.inner@); }"),
                sub("R10-n-of-n-hint", r"(ret = best_compilations\(policy_cache, policy\.as_ref\(\), sat_prob, dissat_prob\)\?;)",
                    r"\1" + "\n                proof { lemma_n_of_n(th_pol); let fd_p = &*policy; lemma_means_transfer(ret@, *fd_p, th_pol); }"),
                sub("R10-arm-start", r"^\{", "{\n            let ghost th_pol = *policy;", count=1),
            ]},
            rewrites=[MacroExpander(), pk_thresh_loop, and_fold_loop, sub("R7-arc-as-ref", r"&?(\b[\w.\[\]]+)\.as_ref\(\)", r"&*\1"), T8.sub_as_f64_ext()] + T8.F64 + R7,
            pre_match="    broadcast use cand_glue;\n    broadcast use clone_is_identity;\n    let mut ret = BTreeMap::new();",
            post_match="    let step_result = Ok(ret);",
            contract=Contract(requires=["*policy is Thresh",
                                        # type invariant of Threshold (private fields; every constructor validates)
                                        "1 <= policy->Thresh_0.k <= policy->Thresh_0.inner@.len()"],
                              ensures=[C("every_candidate_means_the_policy", ALLM)]))
    register_named_invariants(vf, "best_compilations_thresh_step")
    vf.raw("#[verifier::external_body]\nfn other_arm_excluded() { unimplemented!() }\n")
    vf.trust("other_arm_excluded (external_body)", "in best_compilations_thresh_step the non-Thresh arms are cut (they are verified in best_compilations_step)")
    for cs in ("leaves", "And", "Or", "Thresh"):
        register_named_invariants(vf, "best_compilations_step__" + cs)
    return vf
